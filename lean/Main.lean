import FlowCalDriver
open Lean FlowCal.Driver

def dispatch (j : Json) : R Json := do
  let op ← strF j "op"
  match op with
  | "text" => handleText j
  | "text_encode" => handleTextEncode j
  | "text_dict" => handleTextDict j
  | "dict_update" => handleDictUpdate j
  | "load" => handleLoad j
  | "encode_events" => handleEncodeEvents j
  | "pyint" => handlePyInt j
  | "pyfloat" => handlePyFloat j
  | "getitem" => handleGetitem j
  | "slice_indices" => handleSliceIndices j
  | "pickle" => handlePickle j
  | "heap" => handleHeap j
  | "start_end" => handleStartEnd j
  | "high_low" => handleHighLow j
  | "ellipse" => handleEllipse j
  | "density" => handleDensity j
  | "to_rfi" => handleToRfi j
  | "to_mef" => handleToMef j
  | "meta" => handleMeta j
  | "stats" => handleStats j
  | "logicle" => handleLogicle j
  | "edges" => handleEdges j
  | "beads_model" => handleBeadsModel j
  | "populations" => handlePopulations j
  | "select_pairs" => handleSelectPairs j
  | "selection" => handleSelection j
  | "sample_plan" => handleSamplePlan j
  | "process_table" => handleProcessTable j
  | "row_faults" => handleRowFaults j
  | "read_filter" => handleReadFilter j
  | "schema" => handleSchema j
  | "ping" => pure (Json.mkObj [("pong", Json.bool true)])
  | _ => throw s!"unknown op {op}"

partial def loop (h : IO.FS.Stream) (out : IO.FS.Stream) : IO Unit := do
  let line ← h.getLine
  if line.isEmpty then return ()
  let res := match Json.parse line with
    | .ok j => (match dispatch j with
        | .ok r => r
        | .error e => Json.mkObj [("driver_error", Json.str e)])
    | .error e => Json.mkObj [("driver_error", Json.str s!"json: {e}")]
  out.putStrLn res.compress
  loop h out

def main : IO Unit := do
  let out ← IO.getStdout
  loop (← IO.getStdin) out
  out.flush
