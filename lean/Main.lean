import Lean.Data.Json
import FlowCalModel
open Lean
partial def loop (h : IO.FS.Stream) (out : IO.FS.Stream) : IO Unit := do
  let line ← h.getLine
  if line.isEmpty then return ()
  match Json.parse line with
  | .ok j => out.putStrLn (j.compress)
  | .error e => out.putStrLn s!"err {e}"
  loop h out
def main : IO Unit := do loop (← IO.getStdin) (← IO.getStdout)
