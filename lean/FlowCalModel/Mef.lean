/-!
# Bead fluorescence model of `mef.fit_beads_autofluorescence`, and the population pipeline of
`mef.get_transform_fxn` (C09, C02)
-/
namespace FlowCal.Mef

/-- the numeric primitives the bead model needs; instantiated at `Float` (driver) and `ℝ` (theorems) -/
structure Ops (α : Type) where
  exp : α → α
  log : α → α
  rpow : α → α → α      -- |x| ** m
  abs : α → α
  sign : α → α

def floatOps : Ops Float :=
  ⟨Float.exp, Float.log, fun x m => Float.pow x m, Float.abs,
   fun x => if x > 0 then 1 else if x < 0 then -1 else 0⟩

variable {α : Type} [Add α] [Sub α] [Mul α]

/-- `sc_fun`: `sign(x) * exp(p1) * |x|**p0` -/
def stdCurve (o : Ops α) (p0 p1 x : α) : α := o.sign x * o.exp p1 * o.rpow (o.abs x) p0

/-- `fit_fun`: `exp(p0*log(x) + p1) - p2` -/
def beadsModel (o : Ops α) (p0 p1 p2 x : α) : α := o.exp (p0 * o.log x + p1) - p2

/-- one residual of `err_fun`: `log(y + p2) - (p0*log(x) + p1)` -/
def residual (o : Ops α) (p0 p1 p2 x y : α) : α := o.log (y + p2) - (p0 * o.log x + p1)

/-! ### `selection_std`: default thresholds from the (rescaled) range limits and the selection predicate -/

section Selection
variable {β : Type} [Add β] [Sub β] [Mul β] [OfScientific β]

/-- default lower threshold: `sf(r[0]) + 0.015*(sf(r[1]) - sf(r[0]))` (`s0`, `s1` are the rescaled range limits) -/
def thresholdLow (s0 s1 : β) : β := s0 + 0.015 * (s1 - s0)

/-- default upper threshold: `sf(r[0]) + 0.985*(sf(r[1]) - sf(r[0]))` -/
def thresholdHigh (s0 s1 : β) : β := s0 + 0.985 * (s1 - s0)

/-- left-hand sides of the two comparisons of the selection mask -/
def reachLow (nLow mean std : β) : β := mean - nLow * std
def reachHigh (nHigh mean std : β) : β := mean + nHigh * std

/-- a population is selected iff it stays clear of both thresholds: `mean - n_low*std > low` and `mean + n_high*std < high` -/
def Selected [LT β] (low high nLow nHigh mean std : β) : Prop := reachLow nLow mean std > low ∧ reachHigh nHigh mean std < high

end Selection

/-! ### population bookkeeping of `get_transform_fxn` (pure list logic) -/

/-- group event indices by label: one population per distinct label (in order of first… the source uses
`set(labels)`, whose order is irrelevant because populations are re-sorted afterwards) -/
def populations (labels : List Nat) : List (List Nat) :=
  let uniq := labels.eraseDups
  uniq.map (fun l => (List.range labels.length).filter (fun i => labels.getD i 0 == l))

/-- sort populations by a key (ascending), stable insertion sort mirrors `argsort` up to ties -/
def insertBy {β : Type} (key : β → Int) (x : β) : List β → List β
  | [] => [x]
  | y :: ys => if key x < key y then x :: y :: ys else y :: insertBy key x ys

def sortBy {β : Type} (key : β → Int) (l : List β) : List β := l.foldr (insertBy key) []

/-- selected (statistic, MEF value) pairs: position `j` is kept iff the selection mask holds and the MEF value is known -/
def selectPairs {S M : Type} (stats : List S) (mef : List (Option M)) (sel : List Bool) : List (S × M) :=
  (stats.zip (mef.zip sel)).filterMap (fun (s, m, k) => match m, k with
    | some v, true => some (s, v)
    | _, _ => none)

end FlowCal.Mef
