import FlowCalModel.Py
/-!
# Model of `FCSData.__getitem__` / `__setitem__` / `_name_to_index` (C04)

A sample is an `N × D` matrix together with one metadata record per channel.
All seven channel attributes (names, ranges, resolutions, amplification types,
gains, voltages, labels) are re-sliced by identical code in each of the three
branches of `__getitem__`; that they are *all* re-sliced, each from itself, is a
fact regenerated from the source on every run (`Generated.getitemBranches`) and
checked by `Properties.C04.branches_uniform`.  The model therefore carries one
abstract metadata list `md : List μ`.

Data selection follows NumPy's indexing semantics (basic + advanced indexing of
a 2-D array); metadata selection follows Python's list/tuple semantics, exactly
as the source does it.  Every selected cell carries its provenance
`(source row, source column)` so that alignment can be *stated*.
-/
namespace FlowCal.Index
open FlowCal.Py

/-- `slice(start, stop, step).indices(len)` followed by `range(...)`. -/
def sliceIndices (start stop step : Option Int) (len : Nat) : Except PyErr (List Nat) :=
  let st := step.getD 1
  if st == 0 then .error .ValueError
  else
    let n : Int := len
    let lower : Int := if st < 0 then -1 else 0
    let upper : Int := if st < 0 then n - 1 else n
    let clamp (v : Int) : Int :=
      if v < 0 then (if v + n < 0 then lower else v + n)
      else if v ≥ n then upper else v
    let s := match start with | none => (if st < 0 then upper else lower) | some v => clamp v
    let e := match stop with | none => (if st < 0 then lower else upper) | some v => clamp v
    .ok (go st s e (len + 1))
where
  go (st cur stop : Int) : Nat → List Nat
    | 0 => []
    | fuel + 1 =>
      if (st > 0 && cur < stop) || (st < 0 && cur > stop) then cur.toNat :: go st (cur + st) stop fuel
      else []

inductive RowKey
  | int (i : Int)
  | slice (start stop step : Option Int)
  | ints (l : List Int)
  | mask (l : List Bool)
  | ellipsis
  deriving Repr, DecidableEq

/-- one element of a channel key -/
inductive ColAtom
  | pos (i : Int)          -- Python int
  | name (s : String)
  | bool (b : Bool)        -- Python bool (an int subclass; refused)
  | npint (i : Int)        -- NumPy integer scalar (not a Python int; refused)
  deriving Repr, DecidableEq

inductive ColKey
  | atom (a : ColAtom)
  | slice (start stop step : Option Int)
  | list (l : List ColAtom)      -- list or tuple of names / positions
  | ellipsis
  deriving Repr, DecidableEq

/-- `_name_to_index` on one non-iterable element -/
def nameToIndex1 (names : List String) (a : ColAtom) : Except PyErr Int :=
  match a with
  | .name s => match names.idxOf? s with
      | some i => .ok i
      | none => .error .ValueError
  | .pos i =>
    let d : Int := names.length
    if i < d && i ≥ -d then .ok i else .error .ValueError
  | .bool _ => .error .TypeError
  | .npint _ => .error .TypeError

/-- what NumPy sees in the channel position after `_name_to_index` -/
inductive ColSel
  | single (c : Int)
  | basic (start stop step : Option Int)
  | adv (cs : List Int)
  deriving Repr, DecidableEq

def translateCol (names : List String) : ColKey → Except PyErr (Option ColSel)
  | .atom a => do pure (some (.single (← nameToIndex1 names a)))
  | .slice a b c => pure (some (.basic a b c))
  | .list l => do pure (some (.adv (← l.mapM (nameToIndex1 names))))
  | .ellipsis => pure none      -- passed to ndarray unchanged

/-- NumPy: normalise one index along an axis of length `len` -/
def npIndex (len : Nat) (i : Int) : Except PyErr Nat :=
  match pyIndex len i with
  | some k => .ok k
  | none => .error .IndexError

/-- rows selected, and whether the selector is an advanced index or a scalar -/
inductive Sel
  | single (i : Nat)
  | basic (is : List Nat)
  | adv (is : List Nat)
  deriving Repr, DecidableEq

def selRows (n : Nat) : RowKey → Except PyErr Sel
  | .int i => do pure (.single (← npIndex n i))
  | .slice a b c => do pure (.basic (← sliceIndices a b c n))
  | .ints l => do pure (.adv (← l.mapM (npIndex n)))
  | .mask l =>
    if l.length ≠ n then .error .IndexError
    else .ok (.adv ((List.range n).filter (fun i => l.getD i false)))
  | .ellipsis => .ok (.basic (List.range n))

def selCols (d : Nat) : Option ColSel → Except PyErr Sel
  | none => .ok (.basic (List.range d))
  | some (.single c) => do pure (.single (← npIndex d c))
  | some (.basic a b c) => do pure (.basic (← sliceIndices a b c d))
  | some (.adv cs) => do pure (.adv (← cs.mapM (npIndex d)))

/-- provenance of the result cells -/
inductive Shape
  | scalar (r c : Nat)
  | vec (cells : List (Nat × Nat))
  | mat (rs cs : List Nat)         -- cross product of selected rows and columns
  deriving Repr, DecidableEq

/-- NumPy indexing of a 2-D array with a (row, column) key. -/
def npSelect (rs cs : Sel) : Except PyErr Shape :=
  match rs, cs with
  | .single r, .single c => .ok (.scalar r c)
  | .single r, .basic cl => .ok (.vec (cl.map (fun c => (r, c))))
  | .single r, .adv cl => .ok (.vec (cl.map (fun c => (r, c))))
  | .basic rl, .single c => .ok (.vec (rl.map (fun r => (r, c))))
  | .adv rl, .single c => .ok (.vec (rl.map (fun r => (r, c))))
  | .basic rl, .basic cl => .ok (.mat rl cl)
  | .basic rl, .adv cl => .ok (.mat rl cl)
  | .adv rl, .basic cl => .ok (.mat rl cl)
  | .adv rl, .adv cl =>
    -- two advanced indices are broadcast against each other
    if rl.length == cl.length then .ok (.vec (rl.zip cl))
    else if rl.length == 1 then .ok (.vec (cl.map (fun c => (rl.headD 0, c))))
    else if cl.length == 1 then .ok (.vec (rl.map (fun r => (r, cl.headD 0))))
    else .error .IndexError

/-- Python list/tuple indexing of a metadata attribute, as written in the three branches. -/
def metaSelect {μ : Type} (md : List μ) : Option ColSel → Except PyErr (List μ)
  | none => .ok md                                     -- Ellipsis: attributes copied unchanged by finalize
  | some (.single c) =>
    match pyIndex md.length c with
    | some k => match md[k]? with | some m => .ok [m] | none => .error .IndexError
    | none => .error .IndexError
  | some (.basic a b c) => do
    let is ← sliceIndices a b c md.length
    pure (is.filterMap (fun i => md[i]?))
  | some (.adv cs) =>
    cs.mapM (fun c => match pyIndex md.length c with
      | some k => (match md[k]? with | some m => .ok m | none => .error .IndexError)
      | none => .error .IndexError)

structure Result (μ : Type) where
  shape : Shape
  md : Option (List μ)        -- `none` for a plain scalar
  deriving Repr

/-- two advanced indices broadcasting to an empty result are not bounds-checked by NumPy -/
def isEmptyBroadcast (n : Nat) (rk : RowKey) (csel : Option ColSel) : Bool :=
  match rk, csel with
  | .ints rl, some (.adv cl) => (rl.length == 0 && cl.length ≤ 1) || (cl.length == 0 && rl.length ≤ 1)
  | .mask ml, some (.adv cl) =>
    let k := (ml.filter id).length
    ml.length == n && ((k == 0 && cl.length ≤ 1) || (cl.length == 0 && k ≤ 1))
  | _, _ => false

/-- `FCSData.__getitem__((row_key, col_key))` for keys of the grammar. -/
def getitem {μ : Type} (names : List String) (md : List μ) (n : Nat) (rk : RowKey) (ck : ColKey) :
    Except PyErr (Result μ) := do
  let csel ← translateCol names ck
  -- `x[..., ...]`: an index can only have a single ellipsis
  if rk == .ellipsis && ck == .ellipsis then throw .IndexError
  if isEmptyBroadcast n rk csel then
    let m ← metaSelect md csel
    return ⟨.vec [], some m⟩
  let rs ← selRows n rk
  let cs ← selCols names.length csel
  let shape ← npSelect rs cs
  match shape with
  | .scalar r c => pure ⟨.scalar r c, none⟩
  | sh =>
    let m ← metaSelect md csel
    pure ⟨sh, some m⟩

/-- columns from which the cells of a result come, per result column -/
def Shape.cols : Shape → List Nat
  | .scalar _ c => [c]
  | .vec cells => cells.map (·.2)
  | .mat _ cs => cs

/-- Alignment of metadata with provenance (the statement of C04):
a matrix has one metadata entry per column, that of the column's source; a
vector either has one entry per element (events of one row / paired cells) or a
single entry when all its cells come from one column. -/
def Aligned {μ : Type} [DecidableEq μ] (md : List μ) (r : Result μ) : Bool :=
  match r.shape, r.md with
  | .scalar _ _, none => true
  | .scalar _ _, some _ => false
  | _, none => false
  | .mat _ cs, some m => m.map some == cs.map (fun c => md[c]?)
  | .vec cells, some m =>
    (m.map some == cells.map (fun p => md[p.2]?)) ||
    (match m with
     | [x] => cells.all (fun p => md[p.2]? == some x)
     | _ => false)

end FlowCal.Index
