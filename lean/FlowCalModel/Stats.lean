/-!
# Exact (rational) definitions of the summary statistics (C12)
-/
namespace FlowCal.Stats

def sum (xs : List Rat) : Rat := xs.foldr (· + ·) 0

def mean (xs : List Rat) : Rat := sum xs / xs.length

/-- population variance (ddof = 0) -/
def variance (xs : List Rat) : Rat := sum (xs.map (fun x => (x - mean xs) * (x - mean xs))) / xs.length

def sorted (xs : List Rat) : List Rat := xs.mergeSort (fun a b => decide (a ≤ b))

/-- linear-interpolation quantile of NumPy's default method: position `q·(n-1)` in the sorted data -/
def quantile (xs : List Rat) (q : Rat) : Rat :=
  let s := sorted xs
  let n := s.length
  if n == 0 then 0 else
  let pos : Rat := q * ((n : Rat) - 1)
  let lo : Nat := pos.floor.toNat
  let hi : Nat := min (lo + 1) (n - 1)
  let frac : Rat := pos - (lo : Rat)
  let a := s.getD lo 0
  let b := s.getD hi 0
  a + (b - a) * frac

def median (xs : List Rat) : Rat := quantile xs (1 / 2)

def iqr (xs : List Rat) : Rat := quantile xs (3 / 4) - quantile xs (1 / 4)

def rcv (xs : List Rat) : Rat := iqr xs / median xs

/-- `v` is a most frequent value of `xs` -/
def isMode (xs : List Rat) (v : Rat) : Bool :=
  xs.contains v && xs.all (fun x => xs.count x ≤ xs.count v)

/-- a statistic of several channels is the list of per-channel statistics, in the requested order -/
def perChannel {α : Type} (stat : List Rat → α) (cols : List (List Rat)) (chs : List Nat) : List α :=
  chs.map (fun c => stat (cols.getD c []))

/-- what each public function of `stats.py` is in the source: (name, body with local names normalised to v0, v1, … in order of first appearance).  The model's
`mean`, `variance` (population, `np.std**2`), `quantile` (NumPy's linear interpolation at 25/50/75 %), `iqr`, `rcv`, `isMode` and
`perChannel` (column-wise, one result per selected channel) stand for exactly these NumPy calls. -/
def sourceSpec : List (String × String) :=
  [("mean", "if channels is None: ; v0 = data ; else: ; v0 = data[:, channels] ; return np.mean(v0, axis=0)"),
   ("gmean", "if channels is None: ; v0 = data ; else: ; v0 = data[:, channels] ; return scipy.stats.gmean(v0, axis=0)"),
   ("median", "if channels is None: ; v0 = data ; else: ; v0 = data[:, channels] ; return np.median(v0, axis=0)"),
   ("mode", "if channels is None: ; v0 = data ; else: ; v0 = data[:, channels] ; v1 = np.asarray(scipy.stats.mode(v0, axis=0)[0]) ; if v1.ndim == np.ndim(v0): ; v1 = v1[0] ; return v1[()]"),
   ("std", "if channels is None: ; v0 = data ; else: ; v0 = data[:, channels] ; return np.std(v0, axis=0)"),
   ("cv", "if channels is None: ; v0 = data ; else: ; v0 = data[:, channels] ; return np.std(v0, axis=0) / np.mean(v0, axis=0)"),
   ("gstd", "if channels is None: ; v0 = data ; else: ; v0 = data[:, channels] ; return np.exp(np.std(np.log(v0, dtype=np.float64), axis=0))"),
   ("gcv", "if channels is None: ; v0 = data ; else: ; v0 = data[:, channels] ; return np.sqrt(np.exp(np.std(np.log(v0, dtype=np.float64), axis=0) ** 2) - 1)"),
   ("iqr", "if channels is None: ; v0 = data ; else: ; v0 = data[:, channels] ; v1, v2 = np.percentile(v0, [75, 25], axis=0) ; return v1 - v2"),
   ("rcv", "if channels is None: ; v0 = data ; else: ; v0 = data[:, channels] ; v1, v2 = np.percentile(v0, [75, 25], axis=0) ; return (v1 - v2) / np.median(v0, axis=0)")]

end FlowCal.Stats
