/-!
# Exact (rational) definitions of the summary statistics (C12)
-/
namespace FlowCal.Stats

def sum (xs : List Rat) : Rat := xs.foldr (· + ·) 0

def mean (xs : List Rat) : Rat := sum xs / xs.length

/-- population variance (ddof = 0) -/
def variance (xs : List Rat) : Rat := sum (xs.map (fun x => (x - mean xs) * (x - mean xs))) / xs.length

def sorted (xs : List Rat) : List Rat := xs.mergeSort (fun a b => decide (a ≤ b))

/-- linear-interpolation quantile of NumPy's default method: position `q·(n-1)` in the sorted data -/
def quantile (xs : List Rat) (q : Rat) : Rat :=
  let s := sorted xs
  let n := s.length
  if n == 0 then 0 else
  let pos : Rat := q * ((n : Rat) - 1)
  let lo : Nat := pos.floor.toNat
  let hi : Nat := min (lo + 1) (n - 1)
  let frac : Rat := pos - (lo : Rat)
  let a := s.getD lo 0
  let b := s.getD hi 0
  a + (b - a) * frac

def median (xs : List Rat) : Rat := quantile xs (1 / 2)

def iqr (xs : List Rat) : Rat := quantile xs (3 / 4) - quantile xs (1 / 4)

def rcv (xs : List Rat) : Rat := iqr xs / median xs

/-- `v` is a most frequent value of `xs` -/
def isMode (xs : List Rat) (v : Rat) : Bool :=
  xs.contains v && xs.all (fun x => xs.count x ≤ xs.count v)

/-- a statistic of several channels is the list of per-channel statistics, in the requested order -/
def perChannel {α : Type} (stat : List Rat → α) (cols : List (List Rat)) (chs : List Nat) : List α :=
  chs.map (fun c => stat (cols.getD c []))

end FlowCal.Stats
