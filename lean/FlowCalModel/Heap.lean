/-!
# Heap model of the mutable state FlowCal objects carry (C13)

Locations hold cells; a sample object owns an event buffer, one inner
`[low, high]` list per channel and the `text`/`analysis` dictionaries.  The
operations are heap transformers that mirror the *aliasing* of the source:
`__array_finalize__` deep-copies every metadata container into fresh locations
(views and basic slices keep the parent's buffer, everything else gets a new
one); `range(ch)` hands out the stored inner list itself (an alias); unit
conversions, gates and bin generators read but never write existing locations.
-/
namespace FlowCal.Heap

abbrev Loc := Nat

structure Obj where
  buf : Loc
  ranges : List Loc
  text : Loc
  deriving Repr, DecidableEq

structure Heap where
  cells : List Int          -- content of location i is cells[i]
  objs : List Obj
  handles : List Loc        -- aliases handed out by `range(ch)`
  deriving Repr, DecidableEq

def Heap.next (h : Heap) : Loc := h.cells.length

def Heap.read (h : Heap) (l : Loc) : Int := h.cells.getD l 0

/-- allocate copies of the given locations' contents; returns the new locations -/
def Heap.copyLocs (h : Heap) (ls : List Loc) : Heap × List Loc :=
  ({ h with cells := h.cells ++ ls.map h.read }, (List.range ls.length).map (· + h.next))

inductive Op
  | load (nch : Nat)
  | view (i : Nat)                     -- view(), basic row slice, basic column slice of all channels
  | sliceColsBasic (i : Nat) (cols : List Nat)   -- d[:, a:b]  (shares the buffer)
  | sliceColsAdv (i : Nat) (cols : List Nat)     -- d[:, [..]] (NumPy copies)
  | fresh (i : Nat)                    -- copy, deepcopy, astype, to_rfi, to_mef, transform, every gate (boolean mask indexing copies)
  | query (i : Nat)                    -- any read-only call: statistics, hist_bins, range(), channels, plots ...
  | rangeOf (i : Nat) (ch : Nat)       -- the caller keeps the list returned by range(ch)
  | writeHandle (k : Nat) (v : Int)    -- the caller edits a list it was given
  | writeBuf (i : Nat) (v : Int)       -- the caller assigns into an object's events
  deriving Repr, DecidableEq

def finalizeFrom (h : Heap) (o : Obj) (buf : Option Loc) (cols : List Nat) : Heap × Obj :=
  let srcRanges := cols.map (fun c => o.ranges.getD c 0)
  let (h1, rs) := h.copyLocs srcRanges
  let (h2, t) := h1.copyLocs [o.text]
  match buf with
  | some b => (h2, ⟨b, rs, t.headD 0⟩)
  | none =>
    let (h3, b) := h2.copyLocs [o.buf]
    (h3, ⟨b.headD 0, rs, t.headD 0⟩)

def step (h : Heap) : Op → Heap
  | .load nch =>
    let base := h.next
    { h with cells := h.cells ++ List.replicate (nch + 2) 0,
             objs := h.objs ++ [⟨base, (List.range nch).map (· + base + 2), base + 1⟩] }
  | .view i =>
    match h.objs[i]? with
    | none => h
    | some o => let (h', n) := finalizeFrom h o (some o.buf) (List.range o.ranges.length); { h' with objs := h'.objs ++ [n] }
  | .sliceColsBasic i cols =>
    match h.objs[i]? with
    | none => h
    | some o => let (h', n) := finalizeFrom h o (some o.buf) cols; { h' with objs := h'.objs ++ [n] }
  | .sliceColsAdv i cols =>
    match h.objs[i]? with
    | none => h
    | some o => let (h', n) := finalizeFrom h o none cols; { h' with objs := h'.objs ++ [n] }
  | .fresh i =>
    match h.objs[i]? with
    | none => h
    | some o => let (h', n) := finalizeFrom h o none (List.range o.ranges.length); { h' with objs := h'.objs ++ [n] }
  | .query _ => h
  | .rangeOf i ch =>
    match h.objs[i]? with
    | none => h
    | some o => match o.ranges[ch]? with
      | none => h
      | some l => { h with handles := h.handles ++ [l] }
  | .writeHandle k v =>
    match h.handles[k]? with
    | none => h
    | some l => { h with cells := h.cells.set l v }
  | .writeBuf i v =>
    match h.objs[i]? with
    | none => h
    | some o => { h with cells := h.cells.set o.buf v }

def run (h : Heap) (ops : List Op) : Heap := ops.foldl step h

def empty : Heap := ⟨[], [], []⟩

/-- an operation of the library (as opposed to an edit made by the caller) -/
def Op.isLibrary : Op → Bool
  | .writeHandle _ _ => false
  | .writeBuf _ _ => false
  | _ => true

end FlowCal.Heap
