namespace FlowCal
def hello := 1
end FlowCal
