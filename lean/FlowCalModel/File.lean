import FlowCalModel.Text
import FlowCalModel.Data
/-!
# Model of `FlowCal.io.read_fcs_header_segment` and `FCSFile.__init__` (C01, C16)

A file is a `List Nat` of bytes.  `buf.read` returns short data silently at the
end of the file and reads to the end of the file for a negative count; both are
modelled (a count of -1 reads to the end of the file, a smaller one raises).  Text is ISO-8859-1, so characters are bytes.
-/
namespace FlowCal.File
open FlowCal.Py FlowCal.Text FlowCal.Data

abbrev Bytes := List Nat
abbrev Dict := List (Bytes × Bytes)

/-- `buf.seek(pos); buf.read(n)`; a negative seek raises. -/
def readAt (file : Bytes) (pos : Int) (n : Int) : Except PyErr Bytes :=
  if pos < 0 then .error .ValueError
  else if n == -1 then .ok (file.drop pos.toNat)
  else if n < 0 then .error .ValueError     -- file objects: "read length must be non-negative or -1"
  else .ok ((file.drop pos.toNat).take n.toNat)

structure Header where
  version : Bytes
  textBegin : Int
  textEnd : Int
  dataBegin : Int
  dataEnd : Int
  analysisBegin : Int
  analysisEnd : Int
  deriving Repr, DecidableEq

def spaces8 : Bytes := List.replicate 8 32

def rstrip (s : Bytes) : Bytes := (s.reverse.dropWhile isSpaceStr).reverse

def parseHeader (file : Bytes) : Except PyErr Header := do
  let f (i : Nat) : Bytes := (file.drop (10 + 8 * i)).take 8
  let version := rstrip (file.take 10)
  let tb ← pyIntBytes (f 0)
  let te ← pyIntBytes (f 1)
  let db ← pyIntBytes (f 2)
  let de ← pyIntBytes (f 3)
  let ab ← if f 4 == spaces8 then pure 0 else pyIntStr (f 4)
  let ae ← if f 5 == spaces8 then pure 0 else pyIntStr (f 5)
  pure ⟨version, tb, te, db, de, ab, ae⟩

def textErr : TextErr → PyErr := fun _ => .ValueError

/-- the delimiter `read_fcs_text_segment` works with: the argument, or the first byte of the segment.
`delim`: none = argument None; some none = the empty string ''; some (some c). -/
def resolveDelim (file : Bytes) (bgn : Int) (delim : Option (Option Nat)) (supp : Bool) : Except PyErr (Option Nat) :=
  match delim with
  | some (some c) => .ok (some c)
  | some none => .ok none
  | none =>
    if supp then .error .ValueError
    else match readAt file bgn 1 with
      | .ok b => .ok b.head?
      | .error e => .error e

/-- the rest of `read_fcs_text_segment` once the delimiter is known -/
def readTextBody (file : Bytes) (bgn endo : Int) (delim : Option Nat) (supp : Bool) :
    Except PyErr (Dict × Option Nat × Bool) :=
  match readAt file bgn (endo + 1 - bgn) with
  | .error e => .error e
  | .ok raw =>
    -- a short read (file ends inside the segment) is refused
    if (raw.length : Int) < endo + 1 - bgn then .error .ValueError
    else if raw == [] then .ok ([], none, false)
    else
      match delim with
      | none =>
        -- delimiter is the empty string: `raw[0] != ''` for primary; `split('')` raises for supplemental
        .error .ValueError
      | some d =>
        match parseSeg d supp raw with
        | .error e => .error (textErr e)
        | .ok p => .ok (toDict (pairUp p.toks), some d, p.warned)

/-- `read_fcs_text_segment(buf, begin, end, delim, supplemental)` on a file.
Returns the dictionary, the delimiter (`none` for Python's `None`), and whether a warning was issued. -/
def readTextSeg (file : Bytes) (bgn endo : Int) (delim : Option (Option Nat)) (supp : Bool) :
    Except PyErr (Dict × Option Nat × Bool) :=
  match resolveDelim file bgn delim supp with
  | .error e => .error e
  | .ok d => readTextBody file bgn endo d supp

def lookup (d : Dict) (k : String) : Except PyErr Bytes :=
  match dictLookup (s2l k) d with
  | some v => .ok v
  | none => .error .KeyError

def intKw (d : Dict) (k : String) : Except PyErr Int := do pyIntStr (← lookup d k)

def isV3 (v : Bytes) : Bool := v == s2l "FCS3.0" || v == s2l "FCS3.1"

structure Loaded where
  text : Dict
  analysis : Dict
  data : List (List Nat)
  npar : Nat
  isFloat : Bool
  width : Nat            -- bits of the resulting numeric type
  warnings : List String
  deriving Repr, DecidableEq

/-- exact value of `float(s)` when `s` is a plain (optionally signed) integer literal -/
def rangeBits (s : Bytes) : Except PyErr (Option Nat) :=
  if !pyFloatAccepts s then .error .ValueError
  else match pyIntCore isSpaceStr s with
    | some v => if v ≥ 1 then .ok (some (clog2 v.toNat)) else .ok none
    | none => .ok none

def resultWidth (ws : List Nat) : Nat :=
  if isUniform ws then ws.headD 0 else upcastBits ws

/-- what `FCSFile.__init__` has established before it turns to the DATA segment -/
structure Keywords where
  text : Dict
  analysis : Dict
  warnings : List String
  dts : Bytes               -- `$DATATYPE`
  ws : List Int             -- `$PnB`
  big : Bool                -- byte order
  bits : List (Option Nat)  -- `ceil(log2($PnR))` where the model can compute it
  deriving Repr, DecidableEq

/-- the keywords of the primary TEXT segment, updated with those of the supplemental TEXT segment where `$BEGINSTEXT`/`$ENDSTEXT` declare one (FCS 3.x) -/
def mergeText (file : Bytes) (h : Header) (t : Dict × Option Nat × Bool) : Except PyErr (Dict × List String) :=
  let (text0, delim, w0) := t
  let warns : List String := if w0 then ["text"] else []
  if isV3 h.version then
    match intKw text0 "$BEGINSTEXT" with
    | .error e => .error e
    | .ok sb =>
      match intKw text0 "$ENDSTEXT" with
      | .error e => .error e
      | .ok se =>
        if sb != 0 && se != 0 then
          match readTextSeg file sb se (match delim with | some c => some (some c) | none => none) true with
          | .error e => .error e
          | .ok (st, _, w1) => .ok (dictUpdate text0 st, if w1 then warns ++ ["stext"] else warns)
        else .ok (text0, warns)
  else .ok (text0, warns)

/-- the checks of `$MODE`, `$DATATYPE`, `$PAR`, `$PnB`, `$BYTEORD`, `$NEXTDATA` in source order: (`$DATATYPE`, `$PAR`, widths, big-endian?, `$NEXTDATA` ≠ 0) -/
def checkLayout (text : Dict) : Except PyErr (Bytes × Int × List Int × Bool × Bool) := do
  let mode ← lookup text "$MODE"
  if mode != s2l "L" then throw .NotImplementedError
  let dts ← lookup text "$DATATYPE"
  if !(dts == s2l "I" || dts == s2l "F" || dts == s2l "D") then throw .NotImplementedError
  let par ← intKw text "$PAR"
  let mut ws : List Int := []
  for p in List.range par.toNat do
    let w ← intKw text s!"$P{p+1}B"
    ws := ws ++ [w]
  if dts == s2l "I" then
    if !(ws.all (fun w => w % 8 == 0)) then throw .NotImplementedError
  let bo ← lookup text "$BYTEORD"
  let big := bo == s2l "4,3,2,1" || bo == s2l "2,1"
  if !(big || bo == s2l "1,2,3,4" || bo == s2l "1,2") then throw .NotImplementedError
  let nd ← intKw text "$NEXTDATA"
  pure (dts, par, ws, big, nd != 0)

/-- the optional ANALYSIS segment: the dictionary and whether it could not be parsed (a warning, not an error) -/
def readAnalysis (file : Bytes) (h : Header) (delim : Option Nat) (text : Dict) : Except PyErr (Dict × Bool) := do
  let parseAnalysis (b e : Int) : Dict × Bool :=
    match readTextSeg file b e (match delim with | some c => some (some c) | none => none) true with
    | .ok (d, _, _) => (d, false)
    | .error _ => ([], true)
  if h.analysisBegin != 0 && h.analysisEnd != 0 then
    pure (parseAnalysis h.analysisBegin h.analysisEnd)
  else if isV3 h.version then
    let ab ← intKw text "$BEGINANALYSIS"
    let ae ← intKw text "$ENDANALYSIS"
    if ab != 0 && ae != 0 then pure (parseAnalysis ab ae) else pure ([], false)
  else pure ([], false)

/-- `ceil(log2($PnR))` per parameter -/
def readBits (text : Dict) (par : Int) : Except PyErr (List (Option Nat)) := do
  let mut bits : List (Option Nat) := []
  for p in List.range par.toNat do
    let r ← lookup text s!"$P{p+1}R"
    let b ← rangeBits r
    bits := bits ++ [b]
  pure bits

/-- `FCSFile.__init__` after the HEADER and the primary TEXT segment have been read, up to (not including) the DATA segment:
supplemental TEXT, the checks of `$MODE`, `$DATATYPE`, `$PnB`, `$BYTEORD`, `$NEXTDATA`, the ANALYSIS segment, `$PnR` -/
def loadKeywords (file : Bytes) (h : Header) (t : Dict × Option Nat × Bool) : Except PyErr Keywords :=
  match mergeText file h t with
  | .error e => .error e
  | .ok (text, warns0) =>
    match checkLayout text with
    | .error e => .error e
    | .ok (dts, par, ws, big, nextdata) =>
      match readAnalysis file h t.2.1 text with
      | .error e => .error e
      | .ok (analysis, bad) =>
        match readBits text par with
        | .error e => .error e
        | .ok bits =>
          .ok ⟨text, analysis, warns0 ++ (if nextdata then ["nextdata"] else []) ++ (if bad then ["analysis"] else []), dts, ws, big, bits⟩

/-- where the DATA segment is: the HEADER offsets unless one of them is 0, then (FCS 3.x) `$BEGINDATA` / `$ENDDATA` of the merged keywords -/
def dataOffsets (h : Header) (text : Dict) : Except PyErr (Int × Int) :=
  if h.dataBegin != 0 && h.dataEnd != 0 then .ok (h.dataBegin, h.dataEnd)
  else if isV3 h.version then
    match intKw text "$BEGINDATA" with
    | .error e => .error e
    | .ok b =>
      match intKw text "$ENDDATA" with
      | .error e => .error e
      | .ok e => if b != 0 && e != 0 then .ok (b, e) else .error .ValueError
  else .error .ValueError

/-- bits of the numeric type of the loaded array -/
def widthOf (dt : DType) (wsN : List Nat) : Nat := match dt with | .I => resultWidth wsN | .F => 32 | _ => 64

def dtypeOf (dts : Bytes) : DType := if dts == s2l "I" then DType.I else if dts == s2l "F" then DType.F else DType.D

/-- the DATA stage of `FCSFile.__init__`: offsets, `$TOT`, sign checks, then `read_fcs_data_segment` -/
def loadData (file : Bytes) (h : Header) (k : Keywords) : Except PyErr Loaded :=
  match dataOffsets h k.text with
  | .error e => .error e
  | .ok (db, de) =>
    match intKw k.text "$TOT" with
    | .error e => .error e
    | .ok tot =>
      if tot < 0 || db < 0 || de < 0 then .error .ValueError
      else if k.ws.any (· < 0) then .error .ValueError
      -- a range the model cannot turn into a bit count (non-integer literal, <= 0) is outside the modelled domain
      else if dtypeOf k.dts == .I && k.bits.any Option.isNone then .error .Other
      else
        let wsN := k.ws.map Int.toNat
        match readData file db.toNat de.toNat (dtypeOf k.dts) tot.toNat wsN k.big (some (k.bits.map (·.getD 0))) with
        | .error e => .error e
        | .ok data =>
          .ok ⟨k.text, k.analysis, data, wsN.length, dtypeOf k.dts != .I, widthOf (dtypeOf k.dts) wsN, k.warnings⟩

/-- `FCSFile.__init__` after the HEADER and the primary TEXT segment have been read -/
def loadRest (file : Bytes) (h : Header) (t : Dict × Option Nat × Bool) : Except PyErr Loaded :=
  match loadKeywords file h t with
  | .error e => .error e
  | .ok k => loadData file h k

/-- `FCSFile.__init__` -/
def loadFile (file : Bytes) : Except PyErr Loaded :=
  match parseHeader file with
  | .error e => .error e
  | .ok h =>
    match readTextSeg file h.textBegin h.textEnd none false with
    | .error e => .error e
    | .ok t => loadRest file h t

/-- the keywords `FCSFile.__init__` requires (looked up with `[...]`, a missing one is a `KeyError`), in order of first use -/
def requiredKeywords : List String :=
  ["$BEGINSTEXT", "$ENDSTEXT", "$MODE", "$DATATYPE", "$PAR", "$P{0}B", "$BYTEORD", "$NEXTDATA", "$BEGINANALYSIS", "$ENDANALYSIS", "$P{0}R",
   "$TOT", "$BEGINDATA", "$ENDDATA"]

end FlowCal.File
