import FlowCalModel.Py
/-!
# Model of `FlowCal.io.read_fcs_data_segment` (C01, C16)

Bytes are `Nat`s `< 256`.  Integer events are `Nat`s; for datatypes `F`/`D` the
"values" are the IEEE bit patterns (the reinterpretation of 4/8 bytes as a
float is NumPy's and is trusted).
-/
namespace FlowCal.Data
open FlowCal.Py

/-- little-endian value of a byte string -/
def ofBytesLE : List Nat → Nat
  | [] => 0
  | b :: bs => b + 256 * ofBytesLE bs

def ofBytes (be : Bool) (bs : List Nat) : Nat :=
  if be then ofBytesLE bs.reverse else ofBytesLE bs

/-- `n` little-endian bytes of `v` -/
def toBytesLE : Nat → Nat → List Nat
  | 0, _ => []
  | n + 1, v => (v % 256) :: toBytesLE n (v / 256)

def toBytes (be : Bool) (n v : Nat) : List Nat :=
  if be then (toBytesLE n v).reverse else toBytesLE n v

/-- ceil(log2 n) for n ≥ 1 (smallest k with n ≤ 2^k) -/
def clog2 (n : Nat) : Nat := if n ≤ 1 then 0 else Nat.log2 (n - 1) + 1

/-- `upcast_bw = 2**max(ceil(log2(widths)))` -/
def upcastBits (ws : List Nat) : Nat := 2 ^ clog2 (ws.foldl max 0)

def cumsum : List Nat → List Nat
  | [] => []
  | x :: xs => x :: (cumsum xs).map (· + x)

/-- `np.roll(np.cumsum(widths)//8, 1)` with element 0 set to 0 -/
def boundaries (ws : List Nat) : List Nat :=
  match (cumsum ws).map (· / 8) with
  | [] => []
  | cs => 0 :: cs.dropLast

/-- The inner loop over the bytes of one column: shift-accumulate in an
unsigned integer of `U` bits (NumPy wraps modulo `2^U`). -/
def accumulate (be : Bool) (U nb : Nat) (bytes : List Nat) : Nat :=
  (List.range nb).foldl (fun acc b =>
    let shift := if be then nb - b - 1 else b
    (acc + (bytes.getD b 0 * 2 ^ (8 * shift)) % 2 ^ U) % 2 ^ U) 0

/-- decode one row of the byte matrix, mixed-width path -/
def decodeRowMixed (be : Bool) (ws : List Nat) (row : List Nat) : List Nat :=
  let U := upcastBits ws
  (ws.zip (boundaries ws)).map (fun (w, bnd) => accumulate be U (w / 8) ((row.drop bnd).take (w / 8)))

/-- decode one row, uniform-width path (`np.memmap` with dtype `>uK`/`<uK`) -/
def decodeRowUniform (be : Bool) (w : Nat) (npar : Nat) (row : List Nat) : List Nat :=
  (List.range npar).map (fun c => ofBytes be ((row.drop (c * (w / 8))).take (w / 8)))

def rowBytes (ws : List Nat) : Nat := (ws.map (· / 8)).sum

def chunks (n : Nat) : Nat → List Nat → List (List Nat)
  | 0, _ => []
  | k + 1, l => l.take n :: chunks n k (l.drop n)

def allEq (ws : List Nat) (w : Nat) : Bool := ws.all (· == w)

def isUniform (ws : List Nat) : Bool :=
  allEq ws 8 || allEq ws 16 || allEq ws 32 || allEq ws 64

/-- `data[:,col] &= ~((~0) << bits_used)` -/
def applyMask (bitsUsed v : Nat) : Nat := v % 2 ^ bitsUsed

/-- The `I` branch after the bytes are available. `bitsUsed` are the
`int(ceil(log2(range)))` values (computed by the caller in floating point in the
source; exact `clog2` in the file model). -/
def decodeInt (be : Bool) (ws : List Nat) (n : Nat) (bytes : List Nat) (bitsUsed : Option (List Nat)) :
    List (List Nat) :=
  let rows := chunks (rowBytes ws) n bytes
  let m := if isUniform ws then rows.map (decodeRowUniform be (ws.headD 0) ws.length)
           else rows.map (decodeRowMixed be ws)
  match bitsUsed with
  | none => m
  | some bu => m.map (fun r => (r.zip bu).map (fun (v, b) => applyMask b v))

/-- encoder used by the writer side of the theorems -/
def encodeRow (be : Bool) (ws : List Nat) (row : List Nat) : List Nat :=
  (ws.zip row).flatMap (fun (w, v) => toBytes be (w / 8) v)

def encodeEvents (be : Bool) (ws : List Nat) (m : List (List Nat)) : List Nat :=
  m.flatMap (encodeRow be ws)

inductive DType | I | F | D | A | other
  deriving Repr, DecidableEq

/-- `read_fcs_data_segment`: checks in source order, then decoding.
`file` is the whole file (memmap is relative to the file), `bgn`/`endo` the
offsets, `n` = `$TOT`. Result: matrix of naturals (bit patterns for F/D). -/
def readData (file : List Nat) (bgn endo : Nat) (dt : DType) (n : Nat) (ws : List Nat)
    (be : Bool) (bitsUsed : Option (List Nat)) : Except PyErr (List (List Nat)) :=
  match bitsUsed with
  | some bu => if bu.length ≠ ws.length then .error .ValueError else go
  | none => go
where
  sizeOk (total : Nat) : Bool := (total == endo + 1 - bgn && bgn ≤ endo + 1) || (total == endo - bgn && bgn ≤ endo)
  /-- NumPy 2 refuses `data[:,col] &= bitmask` when the Python-int mask does not fit the container -/
  maskFits (U : Nat) : Bool :=
    match bitsUsed with
    | none => true
    | some bu => bu.all (· ≤ U)
  mmap (total : Nat) (k : List Nat → List (List Nat)) : Except PyErr (List (List Nat)) :=
    -- np.memmap: an empty file cannot be mapped; offset + size must not exceed the file length
    if file.length == 0 then .error .ValueError
    else if bgn + total > file.length then .error .ValueError
    else .ok (k ((file.drop bgn).take total))
  go : Except PyErr (List (List Nat)) :=
    match dt with
    | .I =>
      if isUniform ws then
        -- `num_bits = param_bit_widths[0]` raises IndexError when there are no parameters
        if ws.isEmpty then .error .IndexError else
        let total := n * ws.length * (ws.headD 0 / 8)
        if !sizeOk total then .error .ValueError
        else match mmap total (fun bytes => decodeInt be ws n bytes bitsUsed) with
          | .error e => .error e
          | .ok m => if maskFits (ws.headD 0) then .ok m else .error .OverflowError
      else if !(ws.all (· % 8 == 0)) || ws.any (· > 64) then .error .NotImplementedError
      else
        let total := n * rowBytes ws
        if !sizeOk total then .error .ValueError
        else match mmap total (fun bytes => decodeInt be ws n bytes bitsUsed) with
          | .error e => .error e
          | .ok m =>
            -- all widths zero: `int(2**max(ceil(log2(0))))` is 0 and `np.zeros(shape, dtype='u0')` is refused
            if ws.foldl max 0 == 0 then .error .TypeError
            else if maskFits (upcastBits ws) then .ok m else .error .OverflowError
    | .F =>
      if !(ws.all (· == 32)) then .error .ValueError
      else
        let total := n * ws.length * 4
        if !sizeOk total then .error .ValueError
        else mmap total (fun bytes => (chunks (4 * ws.length) n bytes).map (decodeRowUniform be 32 ws.length))
    | .D =>
      if !(ws.all (· == 64)) then .error .ValueError
      else
        let total := n * ws.length * 8
        if !sizeOk total then .error .ValueError
        else mmap total (fun bytes => (chunks (8 * ws.length) n bytes).map (decodeRowUniform be 64 ws.length))
    | .A => .error .NotImplementedError
    | .other => .error .ValueError

end FlowCal.Data
