import FlowCalModel.Generated
/-!
# Model of `FCSData.__reduce__` / `__setstate__` / `__array_finalize__` (C20)

The FCSData-specific state of a sample is a finite map from attribute names to
values.  Which attributes exist, which are packed by `__reduce__`, restored by
`__setstate__` and copied by `__array_finalize__` is *not* written here: it is
regenerated from /repo's source on every run (`FlowCal.Generated`).  The
functions below interpret those generated tables.
-/
namespace FlowCal.Pickle
open FlowCal.Generated

abbrev State (V : Type) := List (String × V)

def get {V : Type} (s : State V) (k : String) : Option V :=
  match s.find? (·.1 == k) with
  | some kv => some kv.2
  | none => none

/-- `__reduce__`: the namedtuple `_FCSDataPickleState(field = self._attr, ...)` -/
def reduce {V : Type} (s : State V) : State (Option V) :=
  reduceFields.map (fun fa => (fa.1, get s fa.2))

/-- `__setstate__`: `self._attr = fcsdata_state.field` for every listed pair;
a field missing from the namedtuple would be an AttributeError (`none`). -/
def setstate {V : Type} (st : State (Option V)) : Option (State V) :=
  setstatePairs.mapM (fun af => match get st af.2 with
    | some (some v) => some (af.1, v)
    | _ => none)

/-- `__array_finalize__`: attributes copied (deep-copied) from the parent. -/
def finalize {V : Type} (s : State V) : State V :=
  finalizeFields.filterMap (fun a => (get s a).map (fun v => (a, v)))

/-- a state that has exactly the attributes `__new__` sets, in that order -/
def WellFormed {V : Type} (s : State V) : Prop := s.map (·.1) = sampleFields

end FlowCal.Pickle
