import FlowCalModel.Py
/-!
# Model of `FlowCal.transform.to_rfi` and `to_mef` (C03, C06, C07)

The models decide *which law with which parameters is applied to which column,
in which order* — argument normalisation, defaults/overrides, name→position
resolution, error cases — exactly as the source does.  The numeric laws
themselves are parameters (`V → V`); numbers are carried as opaque tokens `P`
with a zero test (the driver uses IEEE bit patterns).
-/
namespace FlowCal.Transform
open FlowCal.Py

/-- channel reference as written by the caller -/
inductive Ref
  | pos (i : Int)
  | name (s : String)
  deriving Repr, DecidableEq

/-- what is known about the container -/
structure Meta (P : Type) where
  isSample : Bool                      -- FCSData (has metadata accessors) vs plain array
  ncols : Nat
  names : List String                  -- empty for plain arrays
  ampType : List (Option (P × P))      -- per channel, from `$PnE` (with the a1 = 0 ↦ 1 fix-up already applied at load)
  gain : List (Option P)               -- per channel, from `$PnG`
  res : List P                         -- per channel resolution
  deriving Repr

/-- the law chosen for one column -/
inductive Law (P : Type)
  | lin (g : Option P)                 -- x / g ; `none` = gain 1.0
  | log (a0 a1 r : P)                  -- a1 * 10**(a0/float(r) * x)
  deriving Repr, DecidableEq

/-- an argument that may be absent, a scalar or a list -/
inductive Arg (α : Type)
  | none
  | scalar (a : α)
  | list (l : List (Option α))
  deriving Repr

/-- `_name_to_index` for one reference on a sample; plain arrays pass positions through unchanged -/
def resolve {P : Type} (m : Meta P) (r : Ref) : Except PyErr Int :=
  if m.isSample then
    match r with
    | .name s => match m.names.idxOf? s with
      | some i => .ok i
      | none => .error .ValueError
    | .pos i => if i < (m.ncols : Int) && i ≥ -(m.ncols : Int) then .ok i else .error .ValueError
  else
    match r with
    | .pos i => .ok i
    | .name _ => .error .IndexError     -- indexing a plain array with a string

/-- normalise one of amplification_type / amplifier_gain / resolution for a *list* of channels -/
def normList {α : Type} (a : Arg α) (n : Nat) : Except PyErr (List (Option α)) :=
  match a with
  | .none => .ok (List.replicate n Option.none)
  | .list l => if l.length ≠ n then .error .ValueError else .ok l
  | .scalar _ => .error .ValueError

def argScalar {α : Type} : Arg α → Option α
  | .scalar a => some a
  | _ => Option.none

/-- normalised column position (NumPy wraps negative positions when the column is written) -/
def colOf (ncols : Nat) (i : Int) : Except PyErr Nat :=
  match pyIndex ncols i with
  | some k => .ok k
  | none => .error .IndexError

/-- decision for one channel (loop body of `to_rfi`) -/
def decide1 {P : Type} (isZero : P → Bool) (m : Meta P) (ch : Int) (r : Option P) (at_ : Option (P × P)) (ag : Option P) :
    Except PyErr (Nat × Law P) := do
  let col ← colOf m.ncols ch
  let at' ← match at_ with
    | some a => pure a
    | none =>
      if m.isSample then
        match m.ampType.getD col Option.none with
        | some a => pure a
        | none => throw .TypeError          -- `None[0]`
      else throw .ValueError
  if isZero at'.1 then
    let g := match ag with
      | some g => some g
      | none => if m.isSample then m.gain.getD col Option.none else Option.none
    pure (col, Law.lin g)
  else
    match r with
    | some x => pure (col, Law.log at'.1 at'.2 x)
    | none =>
      if m.isSample then
        match m.res[col]? with
        | some x => pure (col, Law.log at'.1 at'.2 x)
        | none => throw .IndexError
      else throw .ValueError

/-- `to_rfi`: the list of (column, law) in application order -/
def toRfi {P : Type} (isZero : P → Bool) (m : Meta P)
    (channels : Option (Sum Ref (List Ref))) (at_ : Arg (P × P)) (ag : Arg P) (res : Arg P) :
    Except PyErr (List (Nat × Law P)) := do
  match channels with
  | some (.inl c) =>
    -- not iterable: everything is wrapped in a singleton list, as given
    let ci ← resolve m c
    let a := match at_ with | .scalar x => some x | _ => Option.none
    let g := argScalar ag
    let r := argScalar res
    -- a list given together with a scalar channel is taken as the (iterable) value itself: not modelled
    match at_, ag, res with
    | .list _, _, _ => throw .Other
    | _, .list _, _ => throw .Other
    | _, _, .list _ => throw .Other
    | _, _, _ => do
      let d ← decide1 isZero m ci r a g
      pure [d]
  | chs =>
    let refs : List Ref := match chs with
      | some (.inr l) => l
      | _ => (List.range m.ncols).map (fun (i : Nat) => Ref.pos (Int.ofNat i))
    let n := refs.length
    let ats ← normList at_ n
    let ags ← normList ag n
    let rs ← normList res n
    let cis ← refs.mapM (resolve m)
    (cis.zip (rs.zip (ats.zip ags))).mapM (fun (c, r, a, g) => decide1 isZero m c r a g)

/-- the part of `to_mef` after names have been resolved: coverage check, then iteration over the
curve list filtered by membership in the request -/
def toMefCore (ncols : Nat) (sc chInd : List Int) (ncurves : Nat) : Except PyErr (List (Nat × Nat)) :=
  -- every requested channel must have a curve (compared as resolved, un-normalised integers)
  if !(chInd.all (fun c => sc.contains c)) then .error .ValueError
  else
    ((sc.zip (List.range ncurves)).filter (fun (c, _) => chInd.contains c)).mapM
      (fun (c, k) => match colOf ncols c with
        | .ok col => .ok (col, k)
        | .error e => .error e)

/-- `to_mef`: the list of (column, index of the curve in `sc_list`) in application order -/
def toMef {P : Type} (m : Meta P) (channels : Option (Sum Ref (List Ref))) (ncurves : Nat)
    (scChannels : Option (List Ref)) : Except PyErr (List (Nat × Nat)) := do
  let scRefs : List Ref := match scChannels with
    | some l => l
    | none => (List.range m.ncols).map (fun (i : Nat) => Ref.pos (Int.ofNat i))
  if scRefs.length ≠ ncurves then throw .ValueError
  let sc ← if m.isSample then scRefs.mapM (resolve m) else
    scRefs.mapM (fun r => match r with | .pos i => pure i | .name _ => throw PyErr.Other)
  let chInd : List Int ← match channels with
    | none => pure sc
    | some (.inl c) => do pure [← (if m.isSample then resolve m c else match c with | .pos i => pure i | .name _ => throw PyErr.Other)]
    | some (.inr l) => if m.isSample then l.mapM (resolve m) else
        l.mapM (fun r => match r with | .pos i => pure i | .name _ => throw PyErr.Other)
  toMefCore m.ncols sc chInd ncurves

/-! ### Applying column functions -/

/-- apply `f` to column `c` of every row -/
def mapCol {V : Type} (c : Nat) (f : V → V) (rows : List (List V)) : List (List V) :=
  rows.map (fun r => r.modify c f)

def applyAll {V : Type} (acts : List (Nat × (V → V))) (rows : List (List V)) : List (List V) :=
  acts.foldl (fun m a => mapCol a.1 a.2 m) rows

/-- a sample for the commutation theorem: events and per-channel (low, high) limits -/
structure Ranged (V : Type) where
  rows : List (List V)
  limits : List (V × V)

/-- unit conversion of column `c`: the same function on the events and on both limits -/
def convert {V : Type} (c : Nat) (f : V → V) (s : Ranged V) : Ranged V :=
  ⟨mapCol c f s.rows, s.limits.modify c (fun p => (f p.1, f p.2))⟩

/-- default high/low gate: keep events strictly inside the limits of every channel -/
def gateRows {V : Type} [LT V] [DecidableLT V] (s : Ranged V) : List Bool :=
  s.rows.map (fun r => (r.zip s.limits).all (fun (x, lo, hi) => decide (lo < x) && decide (x < hi)))

end FlowCal.Transform
