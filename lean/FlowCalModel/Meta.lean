import FlowCalModel.Py
import FlowCalModel.Text
/-!
# Model of the keyword → attribute derivation in `FCSData.__new__`, `_parse_time_string`,
`_parse_date_string` and `acquisition_time` (C17)

Keywords are an association list over ISO-8859-1 code points (the dictionary of the
TEXT model).  Every Python operation that can raise is an `Except`-valued
primitive and every `try/except` of the source is an explicit handler with the
same scope, so "never raises" is a theorem about a model in which raising is possible.
-/
namespace FlowCal.Meta
open FlowCal.Py FlowCal.Text

abbrev Str := List Nat
abbrev Dict := List (Str × Str)

def get (d : Dict) (k : String) : Option Str := dictLookup (s2l k) d

/-- `float(s)`: acceptance only; the value stays the literal -/
def pyFloat (s : Str) : Except PyErr Str := if pyFloatAccepts s then .ok s else .error .ValueError

/-- a time step: literal and whether it is to be divided by 1000 (TIMETICKS) -/
structure TimeStep where
  literal : Str
  div1000 : Bool
  deriving Repr, DecidableEq

/-- `$TIMESTEP`, else `TIMETICKS/1000`, else None; the whole block is inside `try … except ValueError` -/
def timeStep (d : Dict) : Except PyErr (Option TimeStep) :=
  let body : Except PyErr (Option TimeStep) :=
    match get d "$TIMESTEP" with
    | some s => do let v ← pyFloat s; pure (some ⟨v, false⟩)
    | none => match get d "TIMETICKS" with
      | some s => do let v ← pyFloat s; pure (some ⟨v, true⟩)
      | none => pure none
  match body with
  | .ok v => .ok v
  | .error .ValueError => .ok none
  | .error e => .error e

/-! ### `strptime` for the formats used -/

def splitOn (c : Nat) (s : Str) : List Str := split c s

def allDigits (s : Str) : Bool := s.all isDigit && !s.isEmpty

def natOf (s : Str) : Nat := s.foldl (fun a c => a * 10 + (c - 48)) 0

/-- a 1–2 digit field with an upper bound (regex alternatives of `%H`, `%M`, `%S`) -/
def field2 (s : Str) (max : Nat) : Option Nat :=
  if allDigits s && s.length ≤ 2 && natOf s ≤ max then some (natOf s) else none

/-- `%f`: 1–6 digits, right-padded with zeros to microseconds -/
def fieldF (s : Str) : Option Nat :=
  if allDigits s && s.length ≤ 6 then some (natOf s * 10 ^ (6 - s.length)) else none

structure TimeOfDay where
  h : Nat
  m : Nat
  s : Nat
  us : Nat
  deriving Repr, DecidableEq

/-- `datetime.strptime(str, '%H:%M:%S:%f').time()`; `none` = ValueError (swallowed by the bare `except`) -/
def strptimeHMSf (s : Str) : Option TimeOfDay :=
  match splitOn 58 s with
  | [a, b, c, d] =>
    match field2 a 23, field2 b 59, field2 c 61, fieldF d with
    | some h, some m, some sec, some us => if sec ≤ 59 then some ⟨h, m, sec, us⟩ else none
    | _, _, _, _ => none
  | _ => none

/-- microsecond string of the 4-field format: `'{:06d}'.format(int(float(tt)*1e6/60))`.
The arithmetic is IEEE double; `none` = float()/int() raised (ValueError/OverflowError). -/
def tickMicros (tt : Str) : Option Str :=
  if !pyFloatAccepts tt then none
  else
    -- only plain (optionally signed / fractional) decimal literals are evaluated; others are outside the modelled domain
    let t := stripBy isSpaceStr tt
    let (neg, body) := match t with | 45 :: r => (true, r) | 43 :: r => (false, r) | r => (false, r)
    let (ip, fp) := match splitOn 46 body with
      | [a] => (a, [])
      | [a, b] => (a, b)
      | _ => ([], [])
    if !((ip.all isDigit) && (fp.all isDigit) && (ip.length + fp.length > 0) && fp.length ≤ 15) then some (s2l "?")
    else
      let mant : Nat := natOf (ip ++ fp)
      let x : Float := Float.ofScientific mant true fp.length
      let v : Float := x * 1e6 / 60
      let n : Nat := v.toUInt64.toNat        -- int() truncates toward zero
      if neg && n > 0 then some (s2l "-")      -- '-0000n': never matches %f
      else
        let ds := toString n
        some (s2l (String.ofList (List.replicate (6 - min 6 ds.length) '0') ++ ds))

/-- `_parse_time_string` -/
def parseTime (v : Option Str) : Except PyErr (Option TimeOfDay) :=
  match v with
  | none => .ok none
  | some s =>
    match splitOn 58 s with
    | [_, _, c] =>
      if c.contains 46 then .ok (strptimeHMSf (s.map (fun ch => if ch == 46 then 58 else ch)))
      else .ok (strptimeHMSf (s ++ [58, 48]))
    | [a, b, c, d] =>
      -- after the fix the conversion of the tick field is inside the try block
      match tickMicros d with
      | none => .ok none
      | some us => .ok (strptimeHMSf (a ++ [58] ++ b ++ [58] ++ c ++ [58] ++ us))
    | _ => .ok none

def monthOf (s : Str) : Option Nat :=
  let l := s.map lower
  (["jan", "feb", "mar", "apr", "may", "jun", "jul", "aug", "sep", "oct", "nov", "dec"].map s2l).idxOf? l |>.map (· + 1)

def isLeap (y : Nat) : Bool := (y % 4 == 0 && y % 100 != 0) || y % 400 == 0

def daysIn (y m : Nat) : Nat :=
  if m == 2 then (if isLeap y then 29 else 28) else if m == 4 || m == 6 || m == 9 || m == 11 then 30 else 31

/-- `%d`: 1–2 digits (or space+digit), 1..31 -/
def fieldDay (s : Str) : Option Nat :=
  let s' := match s with | 32 :: r => if r.length == 1 then r else s | _ => s
  if allDigits s' && s'.length ≤ 2 && 1 ≤ natOf s' && natOf s' ≤ 31 && !(s'.length == 2 && s'.head? == some 48 && natOf s' == 0) then some (natOf s') else none

def fieldY2 (s : Str) : Option Nat :=
  if allDigits s && s.length == 2 then some (if natOf s < 69 then 2000 + natOf s else 1900 + natOf s) else none

def fieldY4 (s : Str) : Option Nat := if allDigits s && s.length == 4 && natOf s ≥ 1 then some (natOf s) else none

structure Date where
  y : Nat
  m : Nat
  d : Nat
  deriving Repr, DecidableEq

def mkDate (y m d : Option Nat) : Option Date :=
  match y, m, d with
  | some y, some m, some d => if d ≤ daysIn y m then some ⟨y, m, d⟩ else none
  | _, _, _ => none

/-- `_parse_date_string`: four formats tried in order, each `ValueError` caught -/
def parseDate (v : Option Str) : Option Date :=
  match v with
  | none => none
  | some s =>
    match splitOn 45 s with
    | [a, b, c] =>
      (mkDate (fieldY2 c) (monthOf b) (fieldDay a)).orElse fun _ =>
      (mkDate (fieldY4 c) (monthOf b) (fieldDay a)).orElse fun _ =>
      (mkDate (fieldY2 a) (monthOf b) (fieldDay c)).orElse fun _ =>
      (mkDate (fieldY4 a) (monthOf b) (fieldDay c))
    | _ => none

/-- start / end of acquisition: a time of day, combined with the date when one is available -/
structure Moment where
  date : Option Date
  time : TimeOfDay
  deriving Repr, DecidableEq

def moments (d : Dict) : Except PyErr (Option Moment × Option Moment) := do
  let date := parseDate (get d "$DATE")
  let b ← parseTime (get d "$BTIM")
  let e ← parseTime (get d "$ETIM")
  pure (b.map (fun t => ⟨date, t⟩), e.map (fun t => ⟨date, t⟩))

/-- detector voltage of channel `i` (1-based): `$PnV`, else the CellQuest Pro fallback, cast inside try/except -/
def voltage (d : Dict) (i : Nat) : Except PyErr (Option Str) :=
  let v0 := get d s!"$P{i}V"
  let isInfix (p s : Str) : Bool := (List.range (s.length + 1)).any (fun k => (s.drop k).take p.length == p)
  let v := match v0 with
    | some x => some x
    | none => match get d "CREATOR" with
      | some c => if isInfix (s2l "CellQuest Pro") c then get d s!"BD$WORD{12 + i}" else none
      | none => none
  match v with
  | none => .ok none
  | some x => match pyFloat x with
    | .ok f => .ok (some f)
    | .error .ValueError => .ok none
    | .error e => .error e

def pad2 (i : Nat) : String := if i < 10 then s!"0{i}" else s!"{i}"

def gain (d : Dict) (i : Nat) : Except PyErr (Option Str) :=
  let v0 := get d s!"$P{i}G"
  let isInfix (p s : Str) : Bool := (List.range (s.length + 1)).any (fun k => (s.drop k).take p.length == p)
  let v := match v0 with
    | some x => some x
    | none => match get d "CREATOR" with
      | some c => if isInfix (s2l "FlowJoCollectorsEdition") c then get d s!"CytekP{pad2 i}G" else none
      | none => none
  match v with
  | none => .ok none
  | some x => match pyFloat x with
    | .ok f => .ok (some f)
    | .error .ValueError => .ok none
    | .error e => .error e

/-- `$PnE`: two floats, the non-standard zero offset of a log amplifier read as one -/
def ampType (d : Dict) (i : Nat) : Except PyErr (Option (Str × Str × Bool)) :=
  match get d s!"$P{i}E" with
  | none => .ok none
  | some s =>
    match splitOn 44 s with
    | a :: b :: _ =>
      if pyFloatAccepts a && pyFloatAccepts b then .ok (some (a, b, true)) else .error .ValueError
    | [a] => if pyFloatAccepts a then .error .IndexError else .error .ValueError
    | [] => .error .ValueError

structure OptionalAttrs where
  timeStep : Option TimeStep
  start : Option Moment
  stop : Option Moment
  voltages : List (Option Str)
  gains : List (Option Str)
  labels : List (Option Str)
  names : List (Option Str)
  deriving Repr, DecidableEq

/-- everything `FCSData.__new__` derives from *optional* keywords, for `npar` channels -/
def optionalAttrs (d : Dict) (npar : Nat) : Except PyErr OptionalAttrs := do
  let ts ← timeStep d
  let (b, e) ← moments d
  let vs ← (List.range npar).mapM (fun i => voltage d (i + 1))
  let gs ← (List.range npar).mapM (fun i => gain d (i + 1))
  pure ⟨ts, b, e, vs, gs, (List.range npar).map (fun i => get d s!"$P{i+1}S"), (List.range npar).map (fun i => get d s!"$P{i+1}N")⟩

/-- which source `acquisition_time` uses -/
inductive AcqSource
  | timeChannel (col : Nat)
  | startEnd
  | absent
  deriving Repr, DecidableEq

/-- positions of the channels whose lower-cased name is "time" -/
def timeIdx (names : List (Option Str)) : List Nat :=
  (List.range names.length).filter (fun i => match names.getD i none with
    | some s => s.map lower == s2l "time"
    | none => false)

/-- `acquisition_time` (two time channels raise `KeyError`) -/
def acqSource (names : List (Option Str)) (a : OptionalAttrs) : Except PyErr AcqSource :=
  let idx := timeIdx names
  if idx.length > 1 then .error .KeyError
  else if idx.length == 1 && a.timeStep.isSome then .ok (.timeChannel (idx.headD 0))
  else if a.start.isSome && a.stop.isSome then .ok .startEnd
  else .ok .absent

/-- the keywords (format templates) `FCSData.__new__` looks up, in order of first use, and the vendor marks in `CREATOR`
that switch on the fallback keywords — the names this model reads through `get d …` -/
def keywordsRead : List String :=
  ["$TIMESTEP", "TIMETICKS", "$DATATYPE", "$DATE", "$BTIM", "$ETIM", "$PAR", "$P{}N", "$P{}E", "$P{}R", "$P{}V", "CREATOR", "BD$WORD{}",
   "$P{}G", "CytekP{:02d}G", "$P{}S"]

def vendorMarksRead : List String := ["CellQuest Pro", "FlowJoCollectorsEdition"]

end FlowCal.Meta
