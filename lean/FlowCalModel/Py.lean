/-!
# Shared Python-semantics helpers for the models
-/
deriving instance DecidableEq for Except

namespace FlowCal.Py

/-- Python exception classes the models distinguish. -/
inductive PyErr
  | ValueError | KeyError | TypeError | IndexError | NotImplementedError
  | OverflowError | AttributeError | Other
  deriving Repr, DecidableEq, Inhabited

def PyErr.name : PyErr → String
  | .ValueError => "ValueError" | .KeyError => "KeyError" | .TypeError => "TypeError"
  | .IndexError => "IndexError" | .NotImplementedError => "NotImplementedError"
  | .OverflowError => "OverflowError" | .AttributeError => "AttributeError" | .Other => "Other"

/-- Python list indexing with negative wrap-around. -/
def pyIndex (len : Nat) (i : Int) : Option Nat :=
  if 0 ≤ i then (if i.toNat < len then some i.toNat else none)
  else (if (-i).toNat ≤ len then some (len - (-i).toNat) else none)

/-! ### `int()` and `float()` string grammars (acceptance; value for `int`) -/

def isSpaceBytes (c : Nat) : Bool := c == 32 || (9 ≤ c && c ≤ 13)
/-- `str` whitespace within ISO-8859-1 -/
def isSpaceStr (c : Nat) : Bool := isSpaceBytes c || (28 ≤ c && c ≤ 31) || c == 133 || c == 160
def isDigit (c : Nat) : Bool := 48 ≤ c && c ≤ 57

def stripBy (sp : Nat → Bool) (s : List Nat) : List Nat :=
  ((s.dropWhile sp).reverse.dropWhile sp).reverse

/-- digits with single underscores allowed between digits; returns the value -/
def digitsVal : List Nat → Option Nat
  | [] => none
  | c :: rest => if !isDigit c then none else go (c - 48) rest
where
  go (acc : Nat) : List Nat → Option Nat
    | [] => some acc
    | 95 :: c :: rest => if isDigit c then go (acc * 10 + (c - 48)) rest else none
    | c :: rest => if isDigit c then go (acc * 10 + (c - 48)) rest else none

def pyIntCore (sp : Nat → Bool) (s : List Nat) : Option Int :=
  match stripBy sp s with
  | 43 :: r => (digitsVal r).map Int.ofNat
  | 45 :: r => (digitsVal r).map (fun n => - Int.ofNat n)
  | r => (digitsVal r).map Int.ofNat

/-- `int(b"...")` -/
def pyIntBytes (s : List Nat) : Except PyErr Int :=
  match pyIntCore isSpaceBytes s with | some v => .ok v | none => .error .ValueError
/-- `int("...")` for ISO-8859-1 decoded text -/
def pyIntStr (s : List Nat) : Except PyErr Int :=
  match pyIntCore isSpaceStr s with | some v => .ok v | none => .error .ValueError

def lower (c : Nat) : Nat := if 65 ≤ c && c ≤ 90 then c + 32 else c

/-- split a digit/underscore run off the front; returns (number of digits, rest) or none if malformed -/
def takeDigits : List Nat → Option (Nat × List Nat)
  | [] => some (0, [])
  | c :: rest =>
    if isDigit c then go 1 rest else some (0, c :: rest)
where
  go (n : Nat) : List Nat → Option (Nat × List Nat)
    | [] => some (n, [])
    | 95 :: c :: rest => if isDigit c then go (n + 1) rest else none
    | c :: rest => if isDigit c then go (n + 1) rest else some (n, c :: rest)

/-- Does CPython's `float(str)` accept this ISO-8859-1 string? -/
def pyFloatAccepts (s : List Nat) : Bool :=
  let t := stripBy isSpaceStr s
  let t := match t with | 43 :: r => r | 45 :: r => r | r => r
  let l := t.map lower
  if l == [105,110,102] || l == [105,110,102,105,110,105,116,121] || l == [110,97,110] then true
  else
    match takeDigits t with
    | none => false
    | some (n1, r1) =>
      let afterFrac : Option (Nat × List Nat) :=
        match r1 with
        | 46 :: r2 => (match takeDigits r2 with
            | none => none
            | some (n2, r3) => some (n1 + n2, r3))
        | _ => some (n1, r1)
      match afterFrac with
      | none => false
      | some (nd, r) =>
        if nd == 0 then false
        else match r with
          | [] => true
          | e :: r' =>
            if e == 101 || e == 69 then
              let r'' := match r' with | 43 :: x => x | 45 :: x => x | x => x
              match takeDigits r'' with
              | some (n3, []) => n3 > 0
              | _ => false
            else false

def s2l (s : String) : List Nat := s.toList.map Char.toNat

end FlowCal.Py
