/-!
# Shared Python-semantics helpers for the models
-/
deriving instance DecidableEq for Except

namespace FlowCal.Py

/-- Python exception classes the models distinguish. -/
inductive PyErr
  | ValueError | KeyError | TypeError | IndexError | NotImplementedError
  | OverflowError | AttributeError | Other
  deriving Repr, DecidableEq, Inhabited

def PyErr.name : PyErr → String
  | .ValueError => "ValueError" | .KeyError => "KeyError" | .TypeError => "TypeError"
  | .IndexError => "IndexError" | .NotImplementedError => "NotImplementedError"
  | .OverflowError => "OverflowError" | .AttributeError => "AttributeError" | .Other => "Other"

/-- Python list indexing with negative wrap-around. -/
def pyIndex (len : Nat) (i : Int) : Option Nat :=
  if 0 ≤ i then (if i.toNat < len then some i.toNat else none)
  else (if (-i).toNat ≤ len then some (len - (-i).toNat) else none)

end FlowCal.Py
