import FlowCalModel.Py
/-!
# Model of the Excel workflow's orchestration (C10, C11, C15)

* `samplePlan`  — which library steps `process_samples_table` applies to one row, in which order (C10)
* `processTable` — per-row `try … except ExcelUIException` isolation (C11)
* `readFilter`, `outputSheets`, `statsColumns` — table/workbook schema (C15)
-/
namespace FlowCal.Excel
open FlowCal.Py

/-- normalised units of a reported channel -/
inductive Units | channel | rfi | au | mef | other
  deriving Repr, DecidableEq

def isWs (c : Char) : Bool := c == ' ' || c == '\t' || c == '\n' || c == '\r'

def stripL (s : List Char) : List Char := ((s.dropWhile isWs).reverse.dropWhile isWs).reverse

def lowerL (s : List Char) : List Char := s.map Char.toLower

/-- `units_str.strip().lower()` classification (strings as character lists) -/
def classify (s : List Char) : Units :=
  let u := lowerL (stripL s)
  if u == ['c','h','a','n','n','e','l'] then .channel
  else if u == ['r','f','i'] then .rfi
  else if u == ['a','.','u','.'] || u == ['a','u'] then .au
  else if u == ['m','e','f'] then .mef
  else .other

/-- documented row faults (all raised as `ExcelUIException` inside the row's `try`) -/
inductive Fault
  | fileNotFound | tooFewEvents | unitsNotRecognized | mefNotAvailable | otherInstrument
  | amplificationType | detectorVoltage | noCurveForChannel | gateFraction | unequalMefCounts
  deriving Repr, DecidableEq

inductive Step
  | toRfi (channels : List String)
  | toMef (channel : String)
  | startEnd (n0 n1 : Nat)
  | highLow (channels : List String)
  | density2d (channels : List String)
  deriving Repr, DecidableEq

structure RowFacts where
  fsc : String
  ssc : String
  flChannels : List String            -- the instrument's fluorescence channels, in its order
  units : List (String × Option (List Char))   -- "<ch> Units" cells of this row (none = empty cell)
  integerData : Bool
  deriving Repr

/-- the channels a row reports: instrument order, non-empty units cell -/
def reportChannels (f : RowFacts) : List (String × List Char) :=
  f.flChannels.filterMap (fun c => match f.units.lookup c with
    | some (some u) => some (c, u)
    | _ => none)

/-- per reported channel: the conversions applied, or a fault -/
def channelSteps (c : String) (u : List Char) : Except Fault (List Step) :=
  match classify u with
  | .channel => .ok []
  | .rfi => .ok [.toRfi [c]]
  | .au => .ok [.toRfi [c]]
  | .mef => .ok [.toRfi [c], .toMef c]
  | .other => .error .unitsNotRecognized

/-- the steps `process_samples_table` applies to a healthy row, in order -/
def samplePlan (f : RowFacts) : Except Fault (List Step) := do
  let rc := reportChannels f
  let conv ← rc.mapM (fun (c, u) => channelSteps c u)
  let sc := [f.fsc, f.ssc]
  pure ([Step.toRfi sc] ++ conv.flatten ++ [Step.startEnd 250 100] ++
        (if f.integerData then [Step.highLow (sc ++ rc.map (·.1))] else []) ++ [Step.density2d sc])

/-- the library calls behind `samplePlan`, as `process_samples_table` spells them: (callee, arguments after the sample, guard).
`Step.toRfi sc` = call 1; `channelSteps` = calls 2–4 (plus the bead function for MEF); `Step.startEnd 250 100` = call 5;
`Step.highLow (sc ++ report)` for integer data = call 6; `Step.density2d sc` on logicle axes = call 7. -/
def pipelineSpec : List (String × String × String) :=
  [("transform.to_rfi", "sc_channels", ""),
   ("transform.to_rfi", "fl_channel", "units.lower() == 'rfi'"),
   ("transform.to_rfi", "fl_channel", "units.lower() == 'a.u.' or units.lower() == 'au'"),
   ("transform.to_rfi", "fl_channel", "units.lower() == 'mef'"),
   ("gate.start_end", "num_start=250, num_end=100", ""),
   ("gate.high_low", "sc_channels + report_channels", "sample_gated.data_type == 'I'"),
   ("gate.density2d", "channels=sc_channels, gate_fraction=sample_row['Gate Fraction'], xscale='logicle', yscale='logicle', full_output=True", "")]

/-- the statistic written into each per-channel result column and the object it is computed on -/
def statSpec : List (String × String × String) :=
  [(" Mean", "mean", "samples[row_id], channel"), (" Median", "median", "samples[row_id], channel"), (" Mode", "mode", "samples[row_id], channel"),
   (" Std", "std", "samples[row_id], channel"), (" CV", "cv", "samples[row_id], channel"), (" IQR", "iqr", "samples[row_id], channel"),
   (" RCV", "rcv", "samples[row_id], channel"), (" Geom. Mean", "gmean", "sample_positive, channel"),
   (" Geom. Std", "gstd", "sample_positive, channel"), (" Geom. CV", "gcv", "sample_positive, channel")]

/-- geometric statistics use the positive events only as soon as one event is `<= 0` -/
def positiveRuleSpec : List String :=
  ["if np.any(samples[row_id][:, channel] <= 0)", "samples[row_id][samples[row_id][:, channel] > 0]", "samples[row_id]"]

/-! ### batch isolation -/

/-- outcome of one row: the library result, a documented fault caught by the row's handler, or an
exception that is *not* an `ExcelUIException` and therefore escapes and aborts the batch -/
inductive RowOutcome (R : Type)
  | ok (r : R)
  | fault (f : Fault)
  | escape
  deriving Repr, DecidableEq

/-- `for id, row in table.iterrows(): try … except ExcelUIException` — `none` = the whole batch aborted -/
def processTable {Row R : Type} (proc : Row → RowOutcome R) : List (String × Row) → Option (List (String × RowOutcome R))
  | [] => some []
  | (id, row) :: rest =>
    match proc row with
    | .escape => none
    | out => match processTable proc rest with
      | none => none
      | some res => some ((id, out) :: res)

/-! ### the fault decision table of one sample row (checks in source order) -/

/-- what is known about one reported channel of a row when MEF units are requested -/
structure MefFacts where
  fxnAvailable : Bool        -- the referenced beads row produced a transformation function
  sameInstrument : Bool
  hasMefValues : Bool        -- the beads row lists MEF values for this channel
  ampMatches : Bool
  voltageMatches : Bool      -- or the sample records no voltage
  deriving Repr, DecidableEq

structure SampleRow where
  fileFound : Bool
  nEvents : Nat
  channels : List (List Char × MefFacts)    -- reported channels in instrument order: units cell, MEF facts
  beadsTableGiven : Bool
  gateFractionOk : Bool
  deriving Repr

/-- first failing check for one reported channel -/
def channelFault (beadsTableGiven : Bool) (u : List Char) (m : MefFacts) : Option Fault :=
  match classify u with
  | .other => some .unitsNotRecognized
  | .mef =>
    if !m.fxnAvailable then some .mefNotAvailable
    else if beadsTableGiven && !m.sameInstrument then some .otherInstrument
    else if beadsTableGiven && !m.hasMefValues then some .noCurveForChannel
    else if beadsTableGiven && !m.ampMatches then some .amplificationType
    else if beadsTableGiven && !m.voltageMatches then some .detectorVoltage
    else if !m.hasMefValues then some .noCurveForChannel     -- `to_mef` refuses a channel without curve
    else none
  | _ => none

/-- the checks made for a channel reported in MEF, in source order: (fault raised, condition under which it is raised) -/
def mefChecks (beadsTableGiven : Bool) (m : MefFacts) : List (Fault × Bool) :=
  [(.mefNotAvailable, !m.fxnAvailable), (.otherInstrument, beadsTableGiven && !m.sameInstrument),
   (.noCurveForChannel, beadsTableGiven && !m.hasMefValues), (.amplificationType, beadsTableGiven && !m.ampMatches),
   (.detectorVoltage, beadsTableGiven && !m.voltageMatches), (.noCurveForChannel, !m.hasMefValues)]

/-- the `raise ExcelUIException` sites of `process_samples_table` in source order (the last one re-raises the gate's `ValueError` text) -/
def sampleFaultSites : List Fault :=
  [.fileNotFound, .tooFewEvents, .mefNotAvailable, .otherInstrument, .noCurveForChannel, .amplificationType, .detectorVoltage,
   .noCurveForChannel, .unitsNotRecognized, .gateFraction]

/-- leading text of the message each fault is reported with -/
def faultMessage : Fault → String
  | .fileNotFound => "file \"{}\" not found"
  | .tooFewEvents => "number of events is lower than 400"
  | .unitsNotRecognized => "units \"{}\" not recognized"
  | .mefNotAvailable => "MEF transformation function not available"
  | .otherInstrument => "Instruments for acquisition of beads and samples are not the same (beads {}'s instrument: {}, sample's instrument: {})"
  | .amplificationType => "Amplification type for acquisition of beads and samples in channel {} are not the same (beads {}'s amplification: {}, sample's amplification: {})"
  | .detectorVoltage => "Detector voltage for acquisition of beads and samples in channel {} are not the same (beads {}'s detector voltage: {}, sample's detector voltage: {})"
  | .noCurveForChannel => "no standard curve for channel {}"
  | .gateFraction => "str(ve)"
  | .unequalMefCounts => "Must specify the same number of"

/-- the `raise ExcelUIException` sites of `process_beads_table` in source order -/
def beadsFaultSites : List Fault := [.fileNotFound, .tooFewEvents, .gateFraction, .unequalMefCounts]

/-- the documented fault a sample row reports, if any (checks in the order of the source) -/
def sampleRowFault (r : SampleRow) : Option Fault :=
  if !r.fileFound then some .fileNotFound
  else if r.nEvents < 400 then some .tooFewEvents
  else match r.channels.findSome? (fun (u, m) => channelFault r.beadsTableGiven u m) with
    | some f => some f
    | none => if !r.gateFractionOk then some .gateFraction else none

/-- a row's outcome: every documented fault is a row error, never an escape -/
def sampleRowOutcome (r : SampleRow) : RowOutcome Unit :=
  match sampleRowFault r with
  | some f => .fault f
  | none => .ok ()

/-! ### tables and workbook -/

/-- `read_table(..., index_col)`: rows whose identifier is null are dropped; duplicated identifiers refused -/
def hasDup : List String → Bool
  | [] => false
  | x :: xs => xs.contains x || hasDup xs

def readFilter {Row : Type} (rows : List (Option String × Row)) : Except PyErr (List (String × Row)) :=
  let kept := rows.filterMap (fun (i, r) => i.map (fun s => (s, r)))
  if hasDup (kept.map (·.1)) then .error .ValueError else .ok kept

def outputSheets (hist : Bool) : List String :=
  ["Instruments", "Beads", "Samples"] ++ (if hist then ["Histograms"] else []) ++ ["About Analysis"]

/-- result columns `add_samples_stats` appends, in order, for the reported channels -/
def samplesStatsColumns (channels : List String) : List String :=
  ["Analysis Notes", "Number of Events", "Acquisition Time (s)"] ++
  channels.flatMap (fun c => [" Detector Volt.", " Amp. Type", " Mean", " Geom. Mean", " Median", " Mode", " Std", " CV",
    " Geom. Std", " Geom. CV", " IQR", " RCV"].map (c ++ ·))

end FlowCal.Excel
