/-!
# Numeric helpers: exact rational value and order key of an IEEE-754 double given by its bit pattern
-/
namespace FlowCal.Num

/-- exact value of a finite double -/
def ratOfBits (b : Nat) : Rat :=
  let neg : Bool := b / 2^63 % 2 == 1
  let e : Nat := b / 2^52 % 2048
  let m : Nat := b % 2^52
  let mag : Rat :=
    if e == 0 then (m : Rat) / (2:Rat)^1074
    else if e ≥ 1075 then ((2^52 + m : Nat) : Rat) * (2:Rat)^(e - 1075)
    else ((2^52 + m : Nat) : Rat) / (2:Rat)^(1075 - e)
  if neg then -mag else mag

/-- order-preserving integer key of a double (no NaN): -0.0 and +0.0 both map to 0 -/
def orderKey (b : Nat) : Int :=
  let neg : Bool := b / 2^63 % 2 == 1
  let mag : Nat := b % 2^63
  if neg then - (mag : Int) else (mag : Int)

def isFiniteBits (b : Nat) : Bool := b / 2^52 % 2048 != 2047

end FlowCal.Num
