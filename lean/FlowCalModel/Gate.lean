import FlowCalModel.Py
/-!
# Model of `FlowCal.gate.start_end`, `high_low`, `ellipse` (C08)
-/
namespace FlowCal.Gate
open FlowCal.Py

/-- `start_end`: mask over `n` events. -/
def startEnd (n : Nat) (numStart numEnd : Int) : Except PyErr (List Bool) :=
  let s := if numStart < 0 then 0 else numStart.toNat
  let e := if numEnd < 0 then 0 else numEnd.toNat
  if n < s + e then .error .ValueError
  else
    -- mask = ones; mask[:s] = False; if e > 0: mask[-e:] = False
    .ok ((List.range n).map (fun i => decide (s ≤ i) && (e == 0 || decide (i < n - e))))

/-- `high_low` on the selected channels; `K` is any linear order (the driver uses
order-preserving integer keys of the IEEE doubles); `none` = no limit (±inf). -/
def highLow {K : Type} [LT K] [DecidableLT K] (rows : List (List K)) (high low : List (Option K)) : List Bool :=
  rows.map (fun r =>
    (r.zip (high.zip low)).all (fun (x, h, l) =>
      (match h with | none => true | some hv => decide (x < hv)) &&
      (match l with | none => true | some lv => decide (lv < x))))

/-- gated data = input restricted to the mask -/
def applyMask {α : Type} (rows : List α) (mask : List Bool) : List α :=
  (rows.zip mask).filterMap (fun (r, m) => if m then some r else none)

/-- The ellipse predicate on one event, generic in the number type (ℚ in the
driver for exact evaluation, any field in the theorems).  `c`, `s` are the
cosine and sine of the rotation angle as used by the code. -/
def ellipseForm {F : Type} [Add F] [Sub F] [Mul F] [Div F] (cx cy a b c s x y : F) : F :=
  let dx := x - cx
  let dy := y - cy
  -- data_rotated = data_centered · Rᵀ with R = [[c, s], [-s, c]]
  let xr := dx * c + dy * s
  let yr := dy * c - dx * s
  (xr / a) * (xr / a) + (yr / b) * (yr / b)

/-- contour point for parameter values `ct = cos t`, `st = sin t`: `[a ct, b st] · R + center` -/
def contourPoint {F : Type} [Add F] [Sub F] [Mul F] (cx cy a b c s ct st : F) : F × F :=
  (a * ct * c - b * st * s + cx, a * ct * s + b * st * c + cy)

/-- `gate.start_end` and `gate.high_low` as the source spells them (local names normalised to v0, v1, …).  `startEnd` models the first
(negative counts clamp to 0, refusal when fewer events than the sum, first `num_start` and last `num_end` events dropped), `highLow`
the second (strictly inside `(low, high)` on every selected channel, defaults from the stored range, ±inf without range). -/
def sourceSpec : List (String × String) :=
  [("start_end", "if num_start < 0: ; num_start = 0 ; if num_end < 0: ; num_end = 0 ; if data.shape[0] < num_start + num_end: ; raise ValueError('Number of events to discard greater than total' + ' number of events.') ; v0 = np.ones(shape=data.shape[0], dtype=bool) ; v0[:num_start] = False ; if num_end > 0: ; v0[-num_end:] = False ; v1 = data[v0] ; if full_output: ; return v2(gated_data=v1, mask=v0) ; else: ; return v1"),
   ("high_low", "if channels is None: ; v0 = data ; else: ; v0 = data[:, channels] ; if v0.ndim == 1: ; v0 = v0.reshape((-1, 1)) ; if high is None: ; if hasattr(v0, 'range'): ; high = [np.inf if v1 is None else v1[1] for v1 in v0.range()] ; high = np.array(high) ; else: ; high = np.inf ; if low is None: ; if hasattr(v0, 'range'): ; low = [-np.inf if v1 is None else v1[0] for v1 in v0.range()] ; low = np.array(low) ; else: ; low = -np.inf ; v2 = np.all((v0 < high) & (v0 > low), axis=1) ; v3 = data[v2] ; if full_output: ; return v4(gated_data=v3, mask=v2) ; else: ; return v3")]

end FlowCal.Gate
