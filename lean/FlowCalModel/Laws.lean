import FlowCalModel.Logicle
/-!
# The two amplifier laws of `transform.to_rfi` (C03, C07)

Generic in the number type like the logicle function; instantiated at `Float` by the harness replay and at `ℝ` in the proofs.
-/
namespace FlowCal.Laws
open FlowCal.Logicle

variable {α : Type} [Mul α] [Div α] [Pow10 α]

/-- linear amplifier: `x / gain` -/
def rfiLin (g x : α) : α := x / g

/-- logarithmic amplifier with `$PnE = a0,a1` and resolution `r`: `a1 * 10**(a0/r * x)` -/
def rfiLog (a0 a1 r x : α) : α := a1 * pow10 (a0 / r * x)

end FlowCal.Laws
