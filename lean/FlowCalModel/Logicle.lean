/-!
# Logicle transform, data-derived parameters and histogram bin edges (C18, C19)

One generic definition, instantiated at `Float` for the driver and at `ℝ` (in the
proof files) for the theorems.
-/
namespace FlowCal.Logicle

class Pow10 (α : Type) where
  pow10 : α → α
  log10 : α → α

export Pow10 (pow10 log10)

instance : Pow10 Float := ⟨fun x => Float.pow 10 x, Float.log10⟩

variable {α : Type} [Add α] [Sub α] [Mul α] [Div α] [Neg α] [OfNat α 1] [OfNat α 2] [Pow10 α]

/-- `_LogicleTransform.transform_non_affine`:
`T * 10**(-(M-W)) * (10**(s-W) - p**2 * 10**(-(s-W)/p) + p**2 - 1)` -/
def logicle (T M W p s : α) : α :=
  T * pow10 (-(M - W)) * (pow10 (s - W) - p * p * pow10 (-(s - W) / p) + p * p - 1)

/-- the equation solved for `p`: `W = 2p·log10(p)/(p+1)` -/
def Wf (p : α) : α := 2 * p / (p + 1) * log10 p

/-- linear bin edges: `linspace(lo - δ/2, hi + δ/2, n+1)[i]` with `δ = (hi-lo)/(res-1)`;
NumPy's linspace is `start + i*step`, `step = (stop-start)/n` -/
def edgeLinear (lo hi res n i : α) : α :=
  let δ := (hi - lo) / (res - 1)
  (lo - δ / 2) + i * (((hi + δ / 2) - (lo - δ / 2)) / n)

/-- log bin edges: ten to the linear edges computed in log10 space -/
def edgeLog (lo hi res n i : α) : α := pow10 (edgeLinear (log10 lo) (log10 hi) res n i)

/-- NumPy's `linspace(a, b, n+1)[i]` -/
def linspaceAt (a b n i : α) : α := a + i * ((b - a) / n)

/-- logicle bin edges: the logicle transform of a uniform grid `[-δ/2, M+δ/2]`, `δ = M/(res-1)` (`- delta_res/2.` parses as `(-δ)/2`) -/
def edgeLogicle (T M W p res n i : α) : α :=
  let δ := M / (res - 1)
  logicle T M W p (((-δ) / 2) + i * (((M + δ / 2) - ((-δ) / 2)) / n))

end FlowCal.Logicle
