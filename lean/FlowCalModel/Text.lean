import FlowCalModel.Py
/-!
# Model of `FlowCal.io.read_fcs_text_segment` (C14)

Executable model of the TEXT-segment tokenizer: `str.rfind`, `str.split`, the
backwards scan over the split pieces with parity counting of empty pieces, the
final pairing check and dictionary semantics (last write wins), for primary and
supplemental segments.  Generic in the alphabet `α` (the driver instantiates it
with `Nat` code points).
-/
namespace FlowCal.Text

variable {α : Type} [DecidableEq α]

/-- First piece and remaining pieces of Python's `s.split(d)`. -/
def splitAux (d : α) : List α → List α × List (List α)
  | [] => ([], [])
  | c :: s =>
    let r := splitAux d s
    if c = d then ([], r.1 :: r.2) else (c :: r.1, r.2)

/-- Python's `s.split(d)` for a one-character separator (never empty). -/
def split (d : α) (s : List α) : List (List α) :=
  (splitAux d s).1 :: (splitAux d s).2

/-- State of the backwards scan: `k` = number of consecutive empty pieces seen
immediately to the right, `acc` = reconstructed keys/values (leftmost first),
`warned` = the "ends with two delimiter characters" warning was issued. -/
structure ScanState (α : Type) where
  k : Nat
  acc : List (List α)
  warned : Bool
  deriving Repr, DecidableEq

/-- One iteration of the `while idx >= 0` loop, seen from the piece `e`. -/
def step (d : α) (e : List α) (st : ScanState α) : ScanState α :=
  if e = [] then { st with k := st.k + 1 }
  else if st.k = 0 then { st with acc := e :: st.acc }
  else if st.k % 2 = 0 then
    { k := 0, acc := (e ++ List.replicate (st.k / 2) d) :: st.acc, warned := st.warned }
  else match st.acc with
    | [] => { k := 0, acc := [e], warned := true }
    | t :: rest =>
      { k := 0, acc := (e ++ List.replicate ((st.k + 1) / 2) d ++ t) :: rest, warned := st.warned }

def init : ScanState α := ⟨0, [], false⟩

def scan (d : α) (pieces : List (List α)) : ScanState α :=
  pieces.foldr (step d) init

inductive TextErr
  | notStartDelim      -- "primary TEXT segment should start with delimiter"
  | keywordStartsDelim -- "starting a TEXT segment keyword with a delimiter is prohibited"
  | illFormed          -- "ill-formed TEXT segment"
  | oddCount           -- "odd # of (keys + values); unpaired key or value"
  deriving Repr, DecidableEq

/-- Split at the last occurrence of `d`: `(raw[:i], raw[i+1:])` with `i = raw.rfind(d)`,
or `none` when `d` does not occur (`rfind` returns -1). -/
def splitLast (d : α) : List α → Option (List α × List α)
  | [] => none
  | c :: s =>
    match splitLast d s with
    | some (b, a) => some (c :: b, a)
    | none => if c = d then some ([], s) else none

structure Parsed (α : Type) where
  toks : List (List α)
  warned : Bool
  deriving Repr, DecidableEq

/-- The checks made when the scan rolls off the bottom of the list, followed
by the pairing check. -/
def finish (supp : Bool) (st : ScanState α) : Except TextErr (Parsed α) :=
  if st.k ≥ 2 then
    if st.k % 2 = 0 then
      (if supp then .error .keywordStartsDelim else .error .illFormed)
    else .error .keywordStartsDelim
  else if st.acc.length % 2 ≠ 0 then .error .oddCount
  else .ok ⟨st.acc, st.warned⟩

/-- `read_fcs_text_segment` after the bytes have been read and the delimiter
is known; returns the reconstructed key/value token list. -/
def parseSeg (d : α) (supp : Bool) (seg : List α) : Except TextErr (Parsed α) :=
  if seg = [] then .ok ⟨[], false⟩
  else if !supp && seg.head? ≠ some d then .error .notStartDelim
  else match splitLast d seg with
    | none => if supp then .ok ⟨[], false⟩ else .error .notStartDelim
    | some (raw, _) => finish supp (scan d (split d raw))

/-- `dict(zip(l[0::2], l[1::2]))` as an association list in insertion order of
first occurrence, last value wins. -/
def pairUp : List (List α) → List (List α × List α)
  | k :: v :: rest => (k, v) :: pairUp rest
  | _ => []

def dictInsert (k v : List α) : List (List α × List α) → List (List α × List α)
  | [] => [(k, v)]
  | (k', v') :: rest => if k' = k then (k, v) :: rest else (k', v') :: dictInsert k v rest

def toDict (ps : List (List α × List α)) : List (List α × List α) :=
  ps.foldl (fun acc kv => dictInsert kv.1 kv.2 acc) []

def dictLookup (k : List α) : List (List α × List α) → Option (List α)
  | [] => none
  | (k', v) :: rest => if k' = k then some v else dictLookup k rest

/-- `primary.update(supplemental)`. -/
def dictUpdate (p s : List (List α × List α)) : List (List α × List α) :=
  s.foldl (fun acc kv => dictInsert kv.1 kv.2 acc) p

/-! ### The FCS escaping rule (the writer side) -/

/-- Double every delimiter. -/
def esc (d : α) (t : List α) : List α :=
  t.flatMap (fun c => if c = d then [d, d] else [c])

/-- Every token followed by a delimiter. -/
def render (d : α) (toks : List (List α)) : List α :=
  toks.flatMap (fun t => esc d t ++ [d])

/-- Primary segment: delimiter, then the rendered tokens. -/
def encode (d : α) (toks : List (List α)) : List α := d :: render d toks

/-- A keyword or value allowed by the standard: non-empty, not starting with the delimiter. -/
def Valid (d : α) (t : List α) : Prop := t ≠ [] ∧ t.head? ≠ some d

instance (d : α) (t : List α) : Decidable (Valid d t) := by unfold Valid; infer_instance

end FlowCal.Text
