/-!
# Model of the bin-acceptance core of `FlowCal.gate.density2d` (C05)

`counts` are the per-bin event counts listed in density order (most dense
first), i.e. `svH = vH[argsort(vD)[::-1]]`; `t = ceil(gate_fraction * n)` is the
number of events to retain.  `acceptCount` mirrors
`Nidx = nonzero(cumsum(svH) >= n)[0][0]; accepted = sidx[:Nidx+1]`.
-/
namespace FlowCal.Density

/-- number of leading bins accepted (for `t > 0`): the shortest prefix whose cumulative count reaches `t` -/
def acceptCount : List Nat → Nat → Nat
  | [], _ => 0
  | c :: cs, t => if c ≥ t then 1 else 1 + acceptCount cs (t - c)

/-- the `n == 0` edge case is handled separately in the source: nothing is accepted -/
def accepted (counts : List Nat) (t : Nat) : Nat := if t = 0 then 0 else acceptCount counts t

/-- histogram of events over a list of bins (events outside every bin are ignored) -/
def hist {β : Type} [DecidableEq β] (bins : List β) (events : List (Option β)) : List Nat :=
  bins.map (fun b => events.count (some b))

/-- the event mask: an event is kept iff it lies in a bin of the accepted set -/
def eventMask {β : Type} [DecidableEq β] (acc : List β) (events : List (Option β)) : List Bool :=
  events.map (fun e => match e with | none => false | some b => acc.contains b)

/-- Boolean checker of the three defining clauses for an arbitrary bin mask (tie tolerant):
`H`, `D` (density keys) and `mask` are indexed by bin. -/
def validGate (H : List Nat) (D : List Int) (mask : List Bool) (t : Nat) : Bool × Bool × Bool :=
  let idx := List.range H.length
  let kept := (idx.filter (fun i => mask.getD i false))
  let dropped := (idx.filter (fun i => !mask.getD i false))
  let keptCount := (kept.map (fun i => H.getD i 0)).sum
  let lower := keptCount ≥ t
  let minD := kept.foldl (fun m i => match m with | none => some (D.getD i 0) | some v => some (min v (D.getD i 0))) none
  let minimal := match minD with
    | none => t == 0
    | some v => t > 0 && kept.any (fun i => D.getD i 0 == v && keptCount - H.getD i 0 < t)
  let ordered := kept.all (fun i => dropped.all (fun j => D.getD j 0 ≤ D.getD i 0))
  (lower, minimal, ordered)

/-- the statements of `gate.density2d` that select the accepted bins, as the source spells them.  The model stands for them as follows:
`counts` = `svH` (bin counts in order of decreasing smoothed density, `sidx = argsort(vD)[::-1]`), `t` = `n = ceil(fraction · #events in
the grid)`, `acceptCount counts t` = `Nidx + 1` (first prefix whose cumulative count reaches `n`), `accepted … = 0` for `n = 0`; the
accepted bins are `sidx[:Nidx+1]`, and a fraction outside `[0, 1]` is refused. -/
def sourceSpec : List String :=
  ["refuse if gate_fraction < 0 or gate_fraction > 1",
   "n = int(np.ceil(gate_fraction * float(len(event_indices))))",
   "vD = D.ravel(order='C')",
   "vH = H.ravel(order='C')",
   "sidx = np.argsort(vD)[::-1]",
   "svH = vH[sidx]",
   "csvH = np.cumsum(svH)",
   "Nidx = np.nonzero(csvH >= n)[0][0]",
   "accepted_bin_indices = sidx[:Nidx + 1]",
   "v_bin_mask[accepted_bin_indices] = True"]

end FlowCal.Density
