import FlowCalModel.Transform
/-!
# C03 — RFI conversion applies exactly the amplifier law of each selected channel
(also the column-function lemmas shared with C06 and C07)
-/
namespace FlowCal.C03
open FlowCal.Transform FlowCal.Py

set_option linter.unusedSimpArgs false
variable {V : Type}

theorem modify_comm (r : List V) (c c' : Nat) (f g : V → V) (h : c ≠ c') :
    (r.modify c' g).modify c f = (r.modify c f).modify c' g := by
  apply List.ext_getElem?
  intro i
  simp only [List.getElem?_modify]
  by_cases h1 : c = i <;> by_cases h2 : c' = i <;> simp [h1, h2]
  · omega

/-- conversions of two different columns commute -/
theorem mapCol_comm (c c' : Nat) (f g : V → V) (rows : List (List V)) (h : c ≠ c') :
    mapCol c f (mapCol c' g rows) = mapCol c' g (mapCol c f rows) := by
  simp only [mapCol, List.map_map]
  apply List.map_congr_left
  intro r _
  exact modify_comm r c c' f g h

/-- **Every other channel is identical**: converting column `c` leaves every other column, the
number of events and their order unchanged. -/
theorem mapCol_untouched (c j : Nat) (f : V → V) (rows : List (List V)) (h : c ≠ j) :
    (mapCol c f rows).map (·[j]?) = rows.map (·[j]?) := by
  simp only [mapCol, List.map_map]
  apply List.map_congr_left
  intro r _
  simp [List.getElem?_modify, h]

theorem mapCol_length (c : Nat) (f : V → V) (rows : List (List V)) :
    (mapCol c f rows).length = rows.length ∧ (mapCol c f rows).map List.length = rows.map List.length := by
  simp [mapCol, List.map_map, Function.comp_def]

/-- the converted column holds `f` of the old values -/
theorem mapCol_converted (c : Nat) (f : V → V) (rows : List (List V)) :
    (mapCol c f rows).map (·[c]?) = rows.map (fun r => (r[c]?).map f) := by
  simp only [mapCol, List.map_map]
  apply List.map_congr_left
  intro r _
  simp [List.getElem?_modify]

theorem applyAll_cons (a : Nat × (V → V)) (acts : List (Nat × (V → V))) (rows : List (List V)) :
    applyAll (a :: acts) rows = applyAll acts (mapCol a.1 a.2 rows) := rfl

/-- **Batch = one at a time, in any order**: for a duplicate-free list of columns, applying
the per-column conversions in any permuted order gives the identical result. -/
theorem applyAll_perm (acts acts' : List (Nat × (V → V))) (rows : List (List V))
    (hp : acts.Perm acts') (hnd : (acts.map (·.1)).Nodup) :
    applyAll acts rows = applyAll acts' rows := by
  induction hp generalizing rows with
  | nil => rfl
  | cons a _ ih =>
    simp only [applyAll_cons]
    simp only [List.map_cons, List.nodup_cons] at hnd
    exact ih _ hnd.2
  | swap a b l =>
    simp only [applyAll_cons]
    simp only [List.map_cons, List.nodup_cons, List.mem_cons] at hnd
    have hne : a.1 ≠ b.1 := fun h => hnd.1 (Or.inl h.symm)
    rw [mapCol_comm a.1 b.1 a.2 b.2 rows hne]
  | trans h1 h2 ih1 ih2 =>
    rw [ih1 rows hnd]
    exact ih2 rows ((h1.map (·.1)).nodup_iff.mp hnd)

/-! ## Law selection (decision logic of `to_rfi`, stated outright) -/

variable {P : Type}

/-- linear amplifier: the gain is the override if given, else the file's `$PnG` (samples), else 1 (`none`) -/
theorem law_linear (isZero : P → Bool) (m : Meta P) (ch : Int) (col : Nat) (r : Option P) (a : P × P) (ag : Option P)
    (hc : colOf m.ncols ch = .ok col) (hz : isZero a.1 = true) :
    decide1 isZero m ch r (some a) ag =
      .ok (col, .lin (match ag with | some g => some g | none => if m.isSample then m.gain.getD col none else none)) := by
  simp [decide1, hc, hz, bind, Except.bind, pure, Except.pure]
  cases ag <;> rfl

/-- log amplifier with an explicit resolution: `a1 * 10^(a0/r * x)` with exactly those parameters -/
theorem law_log_override (isZero : P → Bool) (m : Meta P) (ch : Int) (col : Nat) (r : P) (a : P × P) (ag : Option P)
    (hc : colOf m.ncols ch = .ok col) (hz : isZero a.1 = false) :
    decide1 isZero m ch (some r) (some a) ag = .ok (col, .log a.1 a.2 r) := by
  simp [decide1, hc, hz, bind, Except.bind, pure, Except.pure]

/-- settings taken from the file when the caller gives none -/
theorem law_from_file (isZero : P → Bool) (m : Meta P) (ch : Int) (col : Nat) (a : P × P) (rr : P)
    (hs : m.isSample = true) (hc : colOf m.ncols ch = .ok col)
    (ha : m.ampType.getD col none = some a) (hr : m.res[col]? = some rr) (hz : isZero a.1 = false) :
    decide1 isZero m ch none none none = .ok (col, .log a.1 a.2 rr) := by
  have ha' : m.ampType[col]?.getD none = some a := by simpa [List.getD] using ha
  simp [decide1, hc, hs, ha', hr, hz, bind, Except.bind, pure, Except.pure]

/-- a plain array without an amplification type is refused -/
theorem array_needs_amplification_type (isZero : P → Bool) (m : Meta P) (ch : Int) (r ag : Option P)
    (hs : m.isSample = false) (col : Nat) (hc : colOf m.ncols ch = .ok col) :
    decide1 isZero m ch r none ag = .error .ValueError := by
  simp [decide1, hc, hs, bind, Except.bind, throw, throwThe, MonadExceptOf.throw]

/-- **Inconsistent argument lengths are refused.** -/
theorem length_mismatch_refused (isZero : P → Bool) (m : Meta P) (cs : List Ref) (l : List (Option (P × P)))
    (ag : Arg P) (res : Arg P) (h : l.length ≠ cs.length) :
    toRfi isZero m (some (.inr cs)) (.list l) ag res = .error .ValueError := by
  simp [toRfi, normList, h, bind, Except.bind]

theorem scalar_with_list_refused (isZero : P → Bool) (m : Meta P) (cs : List Ref) (a : P × P) (ag : Arg P) (res : Arg P) :
    toRfi isZero m (some (.inr cs)) (.scalar a) ag res = .error .ValueError := by
  simp [toRfi, normList, bind, Except.bind]

/-! Non-vacuity: a 3-channel sample, mixed log/linear, one override -/
example :
    let m : Meta Nat := ⟨true, 3, ["FSC", "FL1", "T"], [some (0, 0), some (4, 1), some (0, 0)], [none, none, some 2], [1024, 1024, 1024]⟩
    toRfi (· == 0) m (some (.inr [.name "T", .pos 1, .pos (-3)])) .none (.list [none, none, some 8]) .none
      = .ok [(2, .lin (some 2)), (1, .log 4 1 1024), (0, .lin (some 8))] := by decide

end FlowCal.C03
