import Properties.C01c
/-!
# C01 — the range masks of the real reader: a masked read is the unmasked read with every value reduced to the bits its declared
range needs; events that fit their declared ranges are therefore returned exactly
-/
namespace FlowCal.C01
open FlowCal.Data FlowCal.Py

/-- the masked read performs the same checks as the unmasked one and then masks its rows -/
theorem readData_masked (file : List Nat) (b e n : Nat) (ws bu : List Nat) (be : Bool) (m : List (List Nat))
    (h : readData file b e .I n ws be none = .ok m) (hl : bu.length = ws.length)
    (hf : ∀ x ∈ bu, x ≤ (if isUniform ws then ws.headD 0 else upcastBits ws)) :
    readData file b e .I n ws be (some bu) = .ok (maskRows bu m) := by
  have hall : ∀ U, (∀ x ∈ bu, x ≤ U) → (bu.all fun x => decide (x ≤ U)) = true := by
    intro U hU; simp only [List.all_eq_true, decide_eq_true_eq]; exact hU
  unfold readData readData.go readData.mmap readData.maskFits at *
  simp only [hl, ne_eq, not_true_eq_false, if_false] at h ⊢
  by_cases hu : isUniform ws = true
  · simp only [hu, if_true] at h hf ⊢
    split at h
    · simp at h
    · split at h
      · simp at h
      · rename_i h1 h2
        simp only [h1, h2]
        split at h
        · simp at h
        · rename_i m' heq
          split at heq
          · simp at heq
          · split at heq
            · simp at heq
            · rename_i h3 h4
              simp only [h3, h4, if_false]
              simp only [Except.ok.injEq] at heq
              simp only [Except.ok.injEq] at h
              rw [decodeInt_mask, heq, h]
              simp
              simpa using hf
  · simp only [hu] at h hf ⊢
    simp only [Bool.false_eq_true, if_false] at h hf ⊢
    split at h
    · simp at h
    · split at h
      · simp at h
      · rename_i h1 h2
        simp only [h1, h2]
        split at h
        · simp at h
        · rename_i m' heq
          split at heq
          · simp at heq
          · split at heq
            · simp at heq
            · rename_i h3 h4
              simp only [h3, h4, if_false]
              simp only [Except.ok.injEq] at heq
              split at h
              · simp at h
              · rename_i h5
                simp only [h5]
                have h : m' = m := by simpa using h
                rw [decodeInt_mask, heq, h]
                simp [hall _ hf]

/-- the events fit the bit counts derived from the declared ranges -/
def FitsBits (bu : List Nat) (m : List (List Nat)) : Prop :=
  ∀ r ∈ m, r.length = bu.length ∧ ∀ p ∈ r.zip bu, p.1 < 2 ^ p.2

/-- events that fit their declared ranges pass the masks unchanged -/
theorem readData_masked_id (file : List Nat) (b e n : Nat) (ws bu : List Nat) (be : Bool) (m : List (List Nat))
    (h : readData file b e .I n ws be none = .ok m) (hl : bu.length = ws.length)
    (hf : ∀ x ∈ bu, x ≤ (if isUniform ws then ws.headD 0 else upcastBits ws)) (hbits : FitsBits bu m) :
    readData file b e .I n ws be (some bu) = .ok m := by
  rw [readData_masked file b e n ws bu be m h hl hf, maskRows_id bu m hbits]

/-- **Reading a mixed-width DATA segment with the range masks returns exactly the recorded events** when every value fits the bits its
declared range needs — the situation of every well-formed file (both byte orders, both end conventions, any position in the file). -/
theorem readData_mixed_roundtrip_masked (be : Bool) (ws bu : List Nat) (m : List (List Nat)) (pre post : List Nat) (past : Bool)
    (hu : isUniform ws = false) (h8 : ∀ w ∈ ws, w % 8 = 0) (h64 : ∀ w ∈ ws, w ≤ 64) (hU : ∀ w ∈ ws, w ≤ upcastBits ws)
    (hm : WellFormed ws m) (hne : pre ≠ []) (hpos : ws.foldl max 0 ≠ 0)
    (hext : 0 < m.length * rowBytes ws ∨ past = true)
    (hlen : bu.length = ws.length) (hfits : ∀ b ∈ bu, b ≤ upcastBits ws) (hbits : FitsBits bu m) :
    readData (pre ++ encodeEvents be ws m ++ post) pre.length
      (pre.length + m.length * rowBytes ws - (if past then 0 else 1)) .I m.length ws be (some bu) = .ok m := by
  apply readData_masked_id _ _ _ _ _ _ _ _ (readData_mixed_roundtrip be ws m pre post past hu h8 h64 hU hm hne hpos hext) hlen _ hbits
  simpa [hu] using hfits

/-- non-vacuity: 24- and 16-bit parameters with ranges 2^20 and 1024 -/
example : FitsBits [20, 10] [[1048575, 1023], [0, 512]] ∧ WellFormed [24, 16] [[1048575, 1023], [0, 512]] := by
  constructor
  · intro r hr; simp at hr
    rcases hr with rfl | rfl <;> refine ⟨rfl, ?_⟩ <;> intro p hp <;> simp at hp <;> rcases hp with rfl | rfl <;> decide
  · intro r hr; simp at hr
    rcases hr with rfl | rfl <;> refine ⟨rfl, ?_⟩ <;> intro p hp <;> simp at hp <;> rcases hp with rfl | rfl <;> decide

end FlowCal.C01
