import FlowCalModel.Mef
import Mathlib.Analysis.SpecialFunctions.Pow.Real
import Mathlib.Analysis.SpecialFunctions.Log.Basic
/-!
# C09 — Fitting the bead model recovers the law that generated the beads
-/
namespace FlowCal.C09
open FlowCal.Mef

noncomputable def sgn (x : ℝ) : ℝ := if x > 0 then 1 else if x < 0 then -1 else 0

noncomputable def realOps : Ops ℝ := ⟨Real.exp, Real.log, fun x m => x ^ m, fun x => |x|, sgn⟩

noncomputable def sc (m b x : ℝ) : ℝ := stdCurve realOps m b x

theorem sc_def (m b x : ℝ) : sc m b x = sgn x * Real.exp b * |x| ^ m := rfl

/-- for positive inputs the standard curve is `exp(b)·x^m` -/
theorem sc_pos_eq (m b x : ℝ) (hx : 0 < x) : sc m b x = Real.exp b * x ^ m := by
  simp [sc_def, sgn, hx, abs_of_pos hx]

/-- **The standard curve is an odd function** (for every fit whatsoever). -/
theorem sc_odd (m b x : ℝ) : sc m b (-x) = - sc m b x := by
  simp only [sc_def, abs_neg]
  have : sgn (-x) = - sgn x := by
    unfold sgn
    rcases lt_trichotomy x 0 with h | h | h
    · have h1 : -x > 0 := by linarith
      have h2 : ¬ x > 0 := by linarith
      simp [h1, h2, h]
    · subst h; simp
    · have h1 : ¬ (-x > 0) := by linarith
      have h2 : -x < 0 := by linarith
      simp [h1, h2, h]
  rw [this]; ring

/-- zero at zero -/
theorem sc_zero (m b : ℝ) : sc m b 0 = 0 := by simp [sc_def, sgn]

theorem sc_pos (m b x : ℝ) (hx : 0 < x) : 0 < sc m b x := by
  rw [sc_pos_eq m b x hx]
  exact mul_pos (Real.exp_pos b) (Real.rpow_pos_of_pos hx m)

/-- **Strictly increasing for positive slope** on the whole real line. -/
theorem sc_strictMono (m b : ℝ) (hm : 0 < m) : StrictMono (sc m b) := by
  have hposmono : ∀ x y : ℝ, 0 ≤ x → x < y → sc m b x < sc m b y := by
    intro x y hx hxy
    have hy : 0 < y := lt_of_le_of_lt hx hxy
    rcases eq_or_lt_of_le hx with h0 | h0
    · rw [← h0, sc_zero]; exact sc_pos m b y hy
    · rw [sc_pos_eq m b x h0, sc_pos_eq m b y hy]
      exact mul_lt_mul_of_pos_left (Real.rpow_lt_rpow h0.le hxy hm) (Real.exp_pos b)
  intro x y hxy
  rcases le_or_gt 0 x with hx | hx
  · exact hposmono x y hx hxy
  · rcases le_or_gt y 0 with hy | hy
    · -- both non-positive: use oddness
      have h := hposmono (-y) (-x) (by linarith) (by linarith)
      rw [sc_odd, sc_odd] at h
      linarith
    · have h1 : sc m b x < 0 := by
        have := sc_pos m b (-x) (by linarith)
        rw [sc_odd] at this; linarith
      have h2 := sc_pos m b y hy
      linarith

/-- **The bead model equals the standard curve minus the autofluorescence** for positive inputs. -/
theorem model_eq_curve_sub_auto (m b a x : ℝ) (hx : 0 < x) :
    beadsModel realOps m b a x = sc m b x - a := by
  rw [sc_pos_eq m b x hx]
  simp only [beadsModel, realOps]
  rw [Real.exp_add, mul_comm m (Real.log x), Real.exp_mul, Real.exp_log hx]
  ring

/-- sum of squared residuals over the bead pairs -/
noncomputable def errFun (p0 p1 p2 : ℝ) (pts : List (ℝ × ℝ)) : ℝ :=
  (pts.map (fun q => (residual realOps p0 p1 p2 q.1 q.2) ^ 2)).sum

theorem errFun_nonneg (p0 p1 p2 : ℝ) (pts : List (ℝ × ℝ)) : 0 ≤ errFun p0 p1 p2 pts := by
  unfold errFun
  apply List.sum_nonneg
  intro v hv
  simp only [List.mem_map] at hv
  obtain ⟨q, _, rfl⟩ := hv
  exact sq_nonneg _

/-- **Exact-law data**: when every pair satisfies `m·log(rfi) + b = log(mef + a)`, the true parameters
have zero residual, hence are a global minimiser of the function the optimiser minimises (inside its
bound `a ≥ 0` whenever the true autofluorescence is non-negative). -/
theorem exact_law_is_minimiser (m b a : ℝ) (pts : List (ℝ × ℝ))
    (hlaw : ∀ q ∈ pts, m * Real.log q.1 + b = Real.log (q.2 + a)) :
    errFun m b a pts = 0 ∧ ∀ p0 p1 p2, errFun m b a pts ≤ errFun p0 p1 p2 pts := by
  have h0 : errFun m b a pts = 0 := by
    unfold errFun
    apply List.sum_eq_zero
    intro v hv
    simp only [List.mem_map] at hv
    obtain ⟨q, hq, rfl⟩ := hv
    simp only [Mef.residual, realOps]
    rw [← hlaw q hq]; ring
  exact ⟨h0, fun p0 p1 p2 => by rw [h0]; exact errFun_nonneg p0 p1 p2 pts⟩

end FlowCal.C09
