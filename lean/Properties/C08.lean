import FlowCalModel.Gate
import Mathlib.Tactic.Ring
import Mathlib.Tactic.FieldSimp
import Mathlib.Tactic.Linarith
import Mathlib.Algebra.Order.Field.Basic
/-!
# C08 — Every gate returns exactly its documented predicate, applied as a mask
-/
namespace FlowCal.C08
open FlowCal.Gate FlowCal.Py

/-- clamp of a requested count -/
def cl (k : Int) : Nat := if k < 0 then 0 else k.toNat

/-- **start/end gate**: refused iff more events are to be dropped than exist; otherwise
the mask has one entry per event and keeps event `i` iff `s ≤ i < n - e` — it
drops the first `s` and last `e` events and nothing else. -/
theorem startEnd_spec (n : Nat) (s e : Int) :
    (n < cl s + cl e → startEnd n s e = .error .ValueError) ∧
    (cl s + cl e ≤ n → ∃ m, startEnd n s e = .ok m ∧ m.length = n ∧
      ∀ i (hi : i < m.length), m[i] = true ↔ (cl s ≤ i ∧ i < n - cl e)) := by
  constructor
  · intro h
    unfold startEnd cl at *
    simp only
    split <;> split <;> simp_all
  · intro h
    refine ⟨(List.range n).map (fun i => decide (cl s ≤ i) && (cl e == 0 || decide (i < n - cl e))), ?_, by simp, ?_⟩
    · unfold startEnd
      have : ¬ (n < cl s + cl e) := by omega
      unfold cl at this ⊢
      simp only [this, if_false]
    · intro i hi
      simp at hi
      simp
      intro h1 h2
      omega

/-- the number of kept events is exactly `n - s - e` -/
theorem startEnd_count (n : Nat) (s e : Int) (m : List Bool) (h : startEnd n s e = .ok m) :
    m.length = n := by
  rcases Nat.lt_or_ge n (cl s + cl e) with hlt | hge
  · have := (startEnd_spec n s e).1 hlt
    rw [this] at h; simp at h
  · obtain ⟨m', hm', hl, _⟩ := (startEnd_spec n s e).2 hge
    rw [hm'] at h; simp at h; subst h; exact hl

/-- **high/low gate**: an event is kept iff it is strictly between the low and
high thresholds in every chosen channel (absent threshold = no limit). -/
theorem highLow_spec {K : Type} [LT K] [DecidableLT K] (rows : List (List K)) (high low : List (Option K))
    (i : Nat) (hi : i < rows.length) :
    (highLow rows high low)[i]'(by simp [highLow]; exact hi) = true ↔
      ∀ p ∈ (rows[i]).zip (high.zip low),
        (∀ hv, p.2.1 = some hv → p.1 < hv) ∧ (∀ lv, p.2.2 = some lv → lv < p.1) := by
  simp only [highLow, List.getElem_map, List.all_eq_true]
  constructor
  · intro h p hp
    have := h p hp
    obtain ⟨x, hh, ll⟩ := p
    simp at this ⊢
    constructor
    · intro hv hhv; subst hhv; simpa using this.1
    · intro lv hlv; subst hlv; simpa using this.2
  · intro h p hp
    have := h p hp
    obtain ⟨x, hh, ll⟩ := p
    simp at this ⊢
    constructor
    · cases hh with
      | none => rfl
      | some hv => simpa using this.1 hv rfl
    · cases ll with
      | none => rfl
      | some lv => simpa using this.2 lv rfl

/-- masks have one entry per event, so `gated = input[mask]` is well defined -/
theorem highLow_length {K : Type} [LT K] [DecidableLT K] (rows : List (List K)) (high low : List (Option K)) :
    (highLow rows high low).length = rows.length := by simp [highLow]

/-- the gated output is a sub-list of the input in the original order -/
theorem applyMask_sublist {α : Type} (rows : List α) (mask : List Bool) : (applyMask rows mask).Sublist rows := by
  induction rows generalizing mask with
  | nil => simp [applyMask]
  | cons r rows ih =>
    cases mask with
    | nil => simp [applyMask]
    | cons m mask =>
      simp only [applyMask, List.zip_cons_cons, List.filterMap_cons]
      cases m
      · simpa [applyMask] using (ih mask).cons r
      · simpa [applyMask] using (ih mask).cons_cons r

/-! ## Ellipse: the mask predicate and the contour describe the same ellipse -/

variable {F : Type} [Field F]

/-- **Every contour point lies exactly on the boundary of the masked region**: for any
centre, non-zero semi-axes, rotation `(c, s)` with `c² + s² = 1` and any
parameter point with `ct² + st² = 1`, the quadratic form the mask uses equals 1
at the contour point (the mask keeps `form ≤ 1`). -/
theorem contour_on_ellipse (cx cy a b c s ct st : F) (ha : a ≠ 0) (hb : b ≠ 0)
    (hrot : c * c + s * s = 1) (hpar : ct * ct + st * st = 1) :
    ellipseForm cx cy a b c s (contourPoint cx cy a b c s ct st).1 (contourPoint cx cy a b c s ct st).2 = 1 := by
  unfold ellipseForm contourPoint
  simp only
  have hx : (a * ct * c - b * st * s + cx - cx) * c + (a * ct * s + b * st * c + cy - cy) * s = a * ct * (c * c + s * s) := by ring
  have hy : (a * ct * s + b * st * c + cy - cy) * c - (a * ct * c - b * st * s + cx - cx) * s = b * st * (c * c + s * s) := by ring
  rw [hx, hy, hrot]
  field_simp
  rw [pow_two, pow_two]; exact hpar

/-- the form is invariant under translating data and centre together, and is `0` exactly at the centre -/
theorem form_at_centre (cx cy a b c s : F) : ellipseForm cx cy a b c s cx cy = 0 := by
  unfold ellipseForm; simp

/-- unrotated case: the textbook ellipse equation -/
theorem form_unrotated (cx cy a b x y : F) :
    ellipseForm cx cy a b 1 0 x y = ((x - cx) / a) * ((x - cx) / a) + ((y - cy) / b) * ((y - cy) / b) := by
  unfold ellipseForm; simp

/-! Non-vacuity -/
example : startEnd 10 2 3 = .ok [false, false, true, true, true, true, true, false, false, false] := by decide
example : startEnd 4 3 2 = .error .ValueError := by decide
example : startEnd 3 (-5) 0 = .ok [true, true, true] := by decide
example : highLow [[1, 5], [0, 5], [3, 9], [3, 10]] [some (4 : Int), some 10] [some 0, none] = [true, false, true, false] := by decide

end FlowCal.C08
