import FlowCalModel.File
/-!
# C01 — Loading an FCS file returns exactly the events recorded in it
-/
namespace FlowCal.C01
open FlowCal.Data FlowCal.Py

/-! ## Bytes ↔ values -/

theorem toBytesLE_length (n v : Nat) : (toBytesLE n v).length = n := by
  induction n generalizing v with
  | zero => rfl
  | succ n ih => simp [toBytesLE, ih]

theorem ofBytesLE_toBytesLE (n v : Nat) (h : v < 256 ^ n) : ofBytesLE (toBytesLE n v) = v := by
  induction n generalizing v with
  | zero => simp at h; subst h; rfl
  | succ n ih =>
    simp only [toBytesLE, ofBytesLE]
    have hq : v / 256 < 256 ^ n := by
      rw [Nat.pow_succ] at h
      exact Nat.div_lt_of_lt_mul (by rw [Nat.mul_comm]; exact h)
    rw [ih _ hq]
    omega

/-- **Round trip of one value**, both byte orders, every width `n` bytes. -/
theorem ofBytes_toBytes (be : Bool) (n v : Nat) (h : v < 256 ^ n) :
    ofBytes be (toBytes be n v) = v := by
  cases be <;> simp [ofBytes, toBytes, ofBytesLE_toBytesLE n v h]

theorem toBytes_length (be : Bool) (n v : Nat) : (toBytes be n v).length = n := by
  cases be <;> simp [toBytes, toBytesLE_length]


theorem ofBytesLE_append (a b : List Nat) :
    ofBytesLE (a ++ b) = ofBytesLE a + 256 ^ a.length * ofBytesLE b := by
  induction a with
  | nil => simp [ofBytesLE]
  | cons x a ih =>
    simp only [List.cons_append, ofBytesLE, ih, List.length_cons, Nat.pow_succ]
    rw [Nat.mul_add]
    have : 256 * (256 ^ a.length * ofBytesLE b) = 256 ^ a.length * 256 * ofBytesLE b := by
      rw [← Nat.mul_assoc, Nat.mul_comm 256]
    omega

theorem ofBytesLE_lt (bs : List Nat) (h : ∀ b ∈ bs, b < 256) : ofBytesLE bs < 256 ^ bs.length := by
  induction bs with
  | nil => simp [ofBytesLE]
  | cons x bs ih =>
    have hx := h x (by simp)
    have := ih (fun b hb => h b (by simp [hb]))
    simp only [ofBytesLE, List.length_cons, Nat.pow_succ]
    omega

/-! ## The shift-accumulate loop of the mixed-width path -/

theorem foldl_mod (M : Nat) (f : Nat → Nat) (l : List Nat) (a : Nat) :
    l.foldl (fun acc b => (acc + f b % M) % M) (a % M) = (a + (l.map f).sum) % M := by
  induction l generalizing a with
  | nil => simp
  | cons x l ih =>
    simp only [List.foldl_cons, List.map_cons, List.sum_cons]
    have : (a % M + f x % M) % M = (a + f x) % M := by rw [← Nat.add_mod]
    rw [this, ih]
    congr 1
    omega

theorem sum_map_mul (c : Nat) (g : Nat → Nat) (l : List Nat) :
    (l.map (fun b => g b * c)).sum = (l.map g).sum * c := by
  induction l with
  | nil => simp
  | cons x l ih => simp [ih, Nat.add_mul]

/-- little-endian weighted sum over positions = `ofBytesLE` -/
theorem sum_le (bs : List Nat) :
    ((List.range bs.length).map (fun b => bs.getD b 0 * 256 ^ b)).sum = ofBytesLE bs := by
  induction bs with
  | nil => simp [ofBytesLE]
  | cons x bs ih =>
    rw [List.length_cons, List.range_succ_eq_map, List.map_cons, List.sum_cons, List.map_map]
    simp only [ofBytesLE]
    have : ((fun b => (x :: bs).getD b 0 * 256 ^ b) ∘ Nat.succ) = fun b => (bs.getD b 0 * 256 ^ b) * 256 := by
      funext b
      simp [Nat.pow_succ, Nat.mul_assoc]
    rw [this, sum_map_mul, ih]
    simp
    try omega

/-- big-endian weighted sum over positions = `ofBytesLE` of the reversed bytes -/
theorem sum_be (bs : List Nat) :
    ((List.range bs.length).map (fun b => bs.getD b 0 * 256 ^ (bs.length - b - 1))).sum
      = ofBytesLE bs.reverse := by
  induction bs with
  | nil => simp [ofBytesLE]
  | cons x bs ih =>
    rw [List.length_cons, List.range_succ_eq_map, List.map_cons, List.sum_cons, List.map_map]
    have : ((fun b => (x :: bs).getD b 0 * 256 ^ (bs.length + 1 - b - 1)) ∘ Nat.succ)
        = fun b => bs.getD b 0 * 256 ^ (bs.length - b - 1) := by
      funext b
      simp
    rw [this, ih, List.reverse_cons, ofBytesLE_append]
    simp [ofBytesLE, Nat.mul_comm]
    try omega

/-- **The byte-accumulation loop computes the encoded value**: for a column of
`nb` bytes (each `< 256`) accumulated in an unsigned integer of `U ≥ 8·nb`
bits, the result is the big- or little-endian value of those bytes — the
modular wrap-around of the NumPy container never bites. -/
theorem accumulate_eq_ofBytes (be : Bool) (U : Nat) (bs : List Nat)
    (hb : ∀ b ∈ bs, b < 256) (hU : 8 * bs.length ≤ U) :
    accumulate be U bs.length bs = ofBytes be bs := by
  have hpow : (256 : Nat) ^ bs.length ≤ 2 ^ U := by
    have : (256 : Nat) ^ bs.length = 2 ^ (8 * bs.length) := by
      rw [Nat.pow_mul]
    rw [this]
    exact Nat.pow_le_pow_right (by decide) hU
  have key : ((List.range bs.length).map
      (fun b => bs.getD b 0 * 2 ^ (8 * (if be = true then bs.length - b - 1 else b)))).sum = ofBytes be bs := by
    cases be with
    | false =>
      have : (fun b => bs.getD b 0 * 2 ^ (8 * (if false = true then bs.length - b - 1 else b)))
          = (fun b => bs.getD b 0 * 256 ^ b) := by
        funext b; simp [Nat.pow_mul]
      rw [this, sum_le]; simp [ofBytes]
    | true =>
      have : (fun b => bs.getD b 0 * 2 ^ (8 * (if true = true then bs.length - b - 1 else b)))
          = (fun b => bs.getD b 0 * 256 ^ (bs.length - b - 1)) := by
        funext b; simp [Nat.pow_mul]
      rw [this, sum_be]; simp [ofBytes]
  have hlt : ofBytes be bs < 2 ^ U := by
    cases be with
    | false => simpa [ofBytes] using Nat.lt_of_lt_of_le (ofBytesLE_lt bs hb) hpow
    | true =>
      have hr : ofBytesLE bs.reverse < 256 ^ bs.reverse.length :=
        ofBytesLE_lt bs.reverse (fun b hb' => hb b (by simpa using hb'))
      simp at hr
      simpa [ofBytes] using Nat.lt_of_lt_of_le hr hpow
  have hf := foldl_mod (2 ^ U)
    (fun b => bs.getD b 0 * 2 ^ (8 * (if be = true then bs.length - b - 1 else b))) (List.range bs.length) 0
  rw [key] at hf
  simp only [Nat.zero_mod, Nat.zero_add] at hf
  rw [Nat.mod_eq_of_lt hlt] at hf
  exact hf

/-- accumulate ∘ toBytes = id : one column of the mixed-width path round-trips. -/
theorem accumulate_toBytes (be : Bool) (U n v : Nat) (hv : v < 256 ^ n) (hU : 8 * n ≤ U) :
    accumulate be U n (toBytes be n v) = v := by
  have hl := toBytes_length be n v
  have hb : ∀ b ∈ toBytes be n v, b < 256 := by
    have hle : ∀ (n v : Nat), ∀ b ∈ toBytesLE n v, b < 256 := by
      intro n
      induction n with
      | zero => intro v b hb; simp [toBytesLE] at hb
      | succ n ih =>
        intro v b hb
        simp [toBytesLE] at hb
        rcases hb with rfl | hb
        · omega
        · exact ih _ b hb
    intro b hb
    cases be <;> simp [toBytes] at hb <;> exact hle n v b hb
  have := accumulate_eq_ofBytes be U (toBytes be n v) hb (by rw [hl]; exact hU)
  rw [hl] at this
  rw [this, ofBytes_toBytes be n v hv]

/-! ## Range mask -/

/-- The mask keeps exactly the low `bits` bits, and is the identity on values below the declared range. -/
theorem applyMask_lt (bits v : Nat) (h : v < 2 ^ bits) : applyMask bits v = v :=
  Nat.mod_eq_of_lt h

theorem applyMask_lt_pow (bits v : Nat) : applyMask bits v < 2 ^ bits :=
  Nat.mod_lt _ (Nat.two_pow_pos bits)


/-! ## Size checks and refusals of `read_fcs_data_segment` -/

theorem chunks_length (k n : Nat) (l : List Nat) : (chunks k n l).length = n := by
  induction n generalizing l with
  | zero => rfl
  | succ n ih => simp [chunks, ih]

/-- bytes the reader is about to interpret, per datatype -/
def totalBytes (dt : DType) (n : Nat) (ws : List Nat) : Nat :=
  match dt with
  | .I => if isUniform ws then n * ws.length * (ws.headD 0 / 8) else n * rowBytes ws
  | .F => n * ws.length * 4
  | .D => n * ws.length * 8
  | _ => 0

/-- **A successful read implies the declared sizes match the bytes present**:
the computed array size equals the DATA extent or the extent minus one (the
tolerated one-past-the-end convention), the whole array lies inside the file,
and there is exactly one row per declared event. -/
theorem readData_ok (file : List Nat) (b e : Nat) (dt : DType) (n : Nat) (ws : List Nat) (be : Bool)
    (bu : Option (List Nat)) (m : List (List Nat))
    (h : readData file b e dt n ws be bu = .ok m) :
    (totalBytes dt n ws = e + 1 - b ∧ b ≤ e + 1 ∨ totalBytes dt n ws = e - b ∧ b ≤ e) ∧
    b + totalBytes dt n ws ≤ file.length ∧ file.length ≠ 0 ∧ m.length = n := by
  have hgo : readData.go file b e dt n ws be bu = .ok m := by
    unfold readData at h
    split at h
    · split at h
      · simp at h
      · exact h
    · exact h
  clear h
  unfold readData.go at hgo
  have hmm : ∀ (total : Nat) (k : List Nat → List (List Nat)),
      readData.mmap file b total k = .ok m →
      b + total ≤ file.length ∧ file.length ≠ 0 ∧ m = k ((file.drop b).take total) := by
    intro total k hk
    unfold readData.mmap at hk
    split at hk
    · simp at hk
    · split at hk
      · simp at hk
      · rename_i h1 h2
        simp at hk h1 h2
        exact ⟨by omega, by simpa using h1, hk.symm⟩
  have hsz : ∀ total, readData.sizeOk b e total = true →
      (total = e + 1 - b ∧ b ≤ e + 1 ∨ total = e - b ∧ b ≤ e) := by
    intro total ht
    unfold readData.sizeOk at ht
    simp at ht
    omega
  cases dt with
  | I =>
    simp only at hgo
    split at hgo
    · rename_i hu
      split at hgo
      · simp at hgo
      · split at hgo
        · simp at hgo
        · rename_i hs
          simp at hs
          split at hgo
          · simp at hgo
          · rename_i m' hm'
            have hmeq : m' = m := by split at hgo <;> simp at hgo; exact hgo
            subst hmeq
            obtain ⟨h1, h2, h3⟩ := hmm _ _ hm'
            refine ⟨by simpa [totalBytes, hu] using hsz _ hs, by simpa [totalBytes, hu] using h1, h2, ?_⟩
            rw [h3]
            unfold decodeInt
            simp only [hu, if_true]
            cases bu <;> simp [chunks_length]
    · rename_i hu
      split at hgo
      · simp at hgo
      · split at hgo
        · simp at hgo
        · rename_i hs
          simp at hs
          split at hgo
          · simp at hgo
          · rename_i m' hm'
            have hmeq : m' = m := by
              split at hgo
              · simp at hgo
              · split at hgo <;> simp at hgo
                exact hgo
            subst hmeq
            obtain ⟨h1, h2, h3⟩ := hmm _ _ hm'
            refine ⟨by simpa [totalBytes, hu] using hsz _ hs, by simpa [totalBytes, hu] using h1, h2, ?_⟩
            rw [h3]
            unfold decodeInt
            simp only [hu]
            cases bu <;> simp [chunks_length]
  | F =>
    simp only at hgo
    split at hgo
    · simp at hgo
    · split at hgo
      · simp at hgo
      · rename_i hs
        simp at hs
        obtain ⟨h1, h2, h3⟩ := hmm _ _ hgo
        refine ⟨by simpa [totalBytes] using hsz _ hs, by simpa [totalBytes] using h1, h2, ?_⟩
        subst h3
        simp [chunks_length]
  | D =>
    simp only at hgo
    split at hgo
    · simp at hgo
    · split at hgo
      · simp at hgo
      · rename_i hs
        simp at hs
        obtain ⟨h1, h2, h3⟩ := hmm _ _ hgo
        refine ⟨by simpa [totalBytes] using hsz _ hs, by simpa [totalBytes] using h1, h2, ?_⟩
        subst h3
        simp [chunks_length]
  | A => simp at hgo
  | other => simp at hgo

/-- **Truncation at the data level**: if the file ends before the last byte
of the declared array, reading fails (it never returns a shorter or shifted matrix). -/
theorem readData_short_file_error (file : List Nat) (b e : Nat) (dt : DType) (n : Nat) (ws : List Nat)
    (be : Bool) (bu : Option (List Nat))
    (hshort : file.length < b + totalBytes dt n ws) :
    ∃ err, readData file b e dt n ws be bu = .error err := by
  cases hr : readData file b e dt n ws be bu with
  | error err => exact ⟨err, rfl⟩
  | ok m =>
    have := (readData_ok file b e dt n ws be bu m hr).2.1
    omega

/-- ASCII data are refused, not decoded some other way. -/
theorem ascii_refused (file : List Nat) (b e n : Nat) (ws : List Nat) (be : Bool) :
    readData file b e .A n ws be none = .error .NotImplementedError := by
  simp [readData, readData.go]

/-- Integer parameters that are not byte aligned, or wider than 64 bits, are refused. -/
theorem unaligned_refused (file : List Nat) (b e n : Nat) (ws : List Nat) (be : Bool)
    (hu : isUniform ws = false) (h : (ws.all (· % 8 == 0)) = false ∨ ws.any (· > 64) = true) :
    readData file b e .I n ws be none = .error .NotImplementedError := by
  simp only [readData, readData.go, hu]
  rcases h with h | h <;> simp [h]

/-! ## Non-vacuity: a concrete 3-parameter [8,40,64]-bit little-endian matrix with all-ones entries -/
example : decodeRowMixed false [8, 40, 64] (encodeRow false [8, 40, 64] [255, 2^40 - 1, 2^64 - 1])
    = [255, 2^40 - 1, 2^64 - 1] := by decide
example : decodeRowMixed true [8, 40, 64] (encodeRow true [8, 40, 64] [0xAA, 0xAAAAAAAAAA, 0x5555555555555555])
    = [0xAA, 0xAAAAAAAAAA, 0x5555555555555555] := by decide
example : upcastBits [8, 40, 64] = 64 ∧ upcastBits [8, 24] = 32 ∧ upcastBits [8, 16] = 16 := by decide
example : boundaries [8, 40, 64] = [0, 1, 6] := by decide

end FlowCal.C01
