import Properties.C03
/-!
# C06 — MEF conversion applies each channel's own standard curve, or refuses
-/
namespace FlowCal.C06
open FlowCal.Transform FlowCal.Py FlowCal.C03

variable {P : Type}

/-- different numbers of curves and channels are refused -/
theorem length_error (m : Meta P) (ch : Option (Sum Ref (List Ref))) (n : Nat) (sc : List Ref) (h : sc.length ≠ n) :
    toMef m ch n (some sc) = .error .ValueError := by
  simp [toMef, h, bind, Except.bind, throw, throwThe, MonadExceptOf.throw]

/-- **Each converted column gets the curve supplied for that column.**  Every pair `(column, k)` the
model applies satisfies: `k` indexes `sc_list`, the `k`-th entry of `sc_channels` is a requested channel,
and it is the channel that lives in that column. -/
theorem own_curve (ncols : Nat) (sc chInd : List Int) (n : Nat) (acts : List (Nat × Nat))
    (h : toMefCore ncols sc chInd n = .ok acts) :
    ∀ a ∈ acts, a.2 < n ∧ ∃ ci, sc[a.2]? = some ci ∧ ci ∈ chInd ∧ colOf ncols ci = .ok a.1 := by
  unfold toMefCore at h
  split at h
  · simp at h
  · have key : ∀ (pairs : List (Int × Nat)) (acts : List (Nat × Nat)),
        pairs.mapM (fun (x : Int × Nat) => (match colOf ncols x.1 with
          | .ok col => .ok (col, x.2)
          | .error e => .error e : Except PyErr (Nat × Nat))) = .ok acts →
        ∀ a ∈ acts, ∃ p ∈ pairs, colOf ncols p.1 = .ok a.1 ∧ a.2 = p.2 := by
      intro pairs
      induction pairs with
      | nil => intro acts h a ha; simp [List.mapM_nil, pure, Except.pure] at h; subst h; simp at ha
      | cons p ps ih =>
        intro acts h a ha
        simp only [List.mapM_cons, bind, Except.bind, pure, Except.pure] at h
        split at h
        · simp at h
        · rename_i v hv
          split at h
          · simp at h
          · rename_i rest hrest
            simp at h; subst h
            simp at ha
            rcases ha with rfl | ha
            · refine ⟨p, by simp, ?_, ?_⟩
              · split at hv
                · rename_i c hc; simp at hv; subst hv; exact hc
                · simp at hv
              · split at hv
                · simp at hv; subst hv; rfl
                · simp at hv
            · obtain ⟨q, hq, h1, h2⟩ := ih rest hrest a ha
              exact ⟨q, by simp [hq], h1, h2⟩
    intro a ha
    obtain ⟨p, hp, hcol, hk⟩ := key _ acts h a ha
    have hmem := List.mem_filter.mp hp
    have hp' := hmem.1
    obtain ⟨k, hk1, hk2⟩ := List.getElem_of_mem hp'
    simp only [List.getElem_zip, List.getElem_range] at hk2
    have hlen : k < (sc.zip (List.range n)).length := hk1
    simp at hlen
    have hlen : k < sc.length ∧ k < n := by omega
    have hpk : p.2 = k := by rw [← hk2]
    have hsc : sc[k]? = some p.1 := by
      rw [← hk2]; simp [hlen.1]
    refine ⟨by rw [hk, hpk]; exact hlen.2, p.1, by rw [hk, hpk]; exact hsc, ?_, hcol⟩
    simpa using hmem.2

/-- **Order of listing is irrelevant**: column conversions on distinct columns commute, so any joint
permutation of `(sc_channels, sc_list)` yields the identical sample (`applyAll_perm`). -/
theorem listing_order_irrelevant {V : Type} (acts acts' : List (Nat × (V → V))) (rows : List (List V))
    (hp : acts.Perm acts') (hnd : (acts.map (·.1)).Nodup) : applyAll acts rows = applyAll acts' rows :=
  applyAll_perm acts acts' rows hp hnd

/-- requesting a channel without a curve is refused (never passed through unconverted) -/
example :
    let m : Meta Nat := ⟨true, 4, ["FSC", "FL1", "FL2", "FL3"], [], [], []⟩
    toMef m (some (.inr [.name "FL1", .name "FL3"])) 2 (some [.name "FL2", .pos 1]) = .error .ValueError ∧
    toMef m (some (.inr [.pos 1, .name "FL2"])) 2 (some [.name "FL2", .pos 1]) = .ok [(2, 0), (1, 1)] ∧
    toMef m none 2 (some [.name "FL3", .name "FL1"]) = .ok [(3, 0), (1, 1)] := by decide

end FlowCal.C06
