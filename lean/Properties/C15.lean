import FlowCalModel.Excel
import FlowCalModel.Generated
/-!
# C15 — A well-formed workbook always yields a complete, faithful output workbook (schema level)
-/
namespace FlowCal.C15
open FlowCal.Excel FlowCal.Py

variable {Row : Type}

theorem hasDup_false_iff (l : List String) : hasDup l = false ↔ l.Nodup := by
  induction l with
  | nil => simp [hasDup]
  | cons x xs ih => simp [hasDup, ih, List.nodup_cons]

/-- rows without an identifier are dropped, the others are kept in order with their contents; an accepted
table has pairwise distinct identifiers -/
theorem readFilter_keeps (rows : List (Option String × Row)) (out : List (String × Row)) (h : readFilter rows = .ok out) :
    out = rows.filterMap (fun ir => ir.1.map (fun s => (s, ir.2))) ∧ (out.map (·.1)).Nodup := by
  unfold readFilter at h
  simp only at h
  split at h
  · simp at h
  · rename_i hd
    simp at h hd
    subst h
    exact ⟨rfl, (hasDup_false_iff _).mp (by simpa using hd)⟩

/-- duplicated identifiers are refused -/
theorem readFilter_duplicates_refused (rows : List (Option String × Row))
    (h : ¬ ((rows.filterMap (fun ir => ir.1.map (fun s => (s, ir.2)))).map (·.1)).Nodup) :
    readFilter rows = .error .ValueError := by
  unfold readFilter
  simp only
  have : hasDup ((rows.filterMap (fun ir => ir.1.map (fun s => (s, ir.2)))).map (·.1)) = true := by
    cases hd : hasDup ((rows.filterMap (fun ir => ir.1.map (fun s => (s, ir.2)))).map (·.1)) with
    | true => rfl
    | false => exact absurd ((hasDup_false_iff _).mp hd) h
  simp [this]

/-- the output workbook's sheets -/
theorem sheets_spec : outputSheets false = ["Instruments", "Beads", "Samples", "About Analysis"] ∧
    outputSheets true = ["Instruments", "Beads", "Samples", "Histograms", "About Analysis"] := by decide

/-- twelve result columns per reported channel after the three general ones, in the documented order -/
theorem statsColumns_count (chs : List String) : (samplesStatsColumns chs).length = 3 + 12 * chs.length := by
  unfold samplesStatsColumns
  induction chs with
  | nil => simp
  | cons c cs ih => simp [List.flatMap_cons] at ih ⊢; omega

example : samplesStatsColumns ["FL1"] = ["Analysis Notes", "Number of Events", "Acquisition Time (s)", "FL1 Detector Volt.", "FL1 Amp. Type",
    "FL1 Mean", "FL1 Geom. Mean", "FL1 Median", "FL1 Mode", "FL1 Std", "FL1 CV", "FL1 Geom. Std", "FL1 Geom. CV", "FL1 IQR", "FL1 RCV"] := by decide
example : readFilter [(some "a", 1), (none, 2), (some "b", 3)] = .ok [("a", 1), ("b", 3)] := by decide
example : readFilter [(some "a", 1), (none, 2), (some "a", 3)] = .error .ValueError := by decide

/-- the sheets of the output workbook are the ones `run()` appends in the source now (regenerated on every run):
the conditional ones exactly when a histogram sheet is requested, all in source order -/
theorem sheets_match_source (hist : Bool) :
    outputSheets hist = ((Generated.outputSheetSpec.filter (fun p => !p.2 || hist)).map (·.1)) := by
  cases hist <;> rfl

/-- the result columns are the ones `add_samples_stats` creates in the source now: the table-level columns, then for every
reported channel the per-channel suffixes, all in order of first assignment -/
theorem stats_columns_match_source (channels : List String) :
    samplesStatsColumns channels =
      Generated.statsHeadColumns ++ channels.flatMap (fun c => Generated.statsPerChannelSuffixes.map (c ++ ·)) := rfl

end FlowCal.C15
