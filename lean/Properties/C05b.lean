import Properties.C05
/-!
# C05 (continued) — the accepted prefix is the only one that meets the lower bound and is minimal
-/
namespace FlowCal.C05
open FlowCal.Density

/-- **Uniqueness**: among the prefixes of the density-ordered bin list there is exactly one that holds at
least `t` events while its proper predecessor holds fewer — the one `density2d` computes. With a strict density
order the kept set is therefore determined by the statement of the property alone. -/
theorem accept_unique (cs : List Nat) (t k : Nat) (ht : 0 < t) (hk0 : 0 < k) (hk : k ≤ cs.length)
    (hlow : t ≤ (cs.take k).sum) (hmin : (cs.take (k - 1)).sum < t) : k = acceptCount cs t := by
  induction cs generalizing t k with
  | nil => simp at hk; omega
  | cons c cs ih =>
    simp only [acceptCount]
    cases k with
    | zero => omega
    | succ k' =>
      split
      · rename_i hc
        -- the first bin alone reaches t: k must be 1
        cases k' with
        | zero => rfl
        | succ k'' =>
          exfalso
          simp at hmin
          have : c ≤ c + (cs.take k'').sum := Nat.le_add_right _ _
          omega
      · rename_i hc
        cases k' with
        | zero => simp at hlow; omega
        | succ k'' =>
          have := ih (t - c) (k'' + 1) (by omega) (by omega) (by simpa using hk)
            (by simp at hlow ⊢; omega) (by simp at hmin ⊢; omega)
          omega

/-- the accepted prefix does satisfy both clauses (restating `lower_bound` and `minimal` for the same `k`) -/
theorem accept_valid (cs : List Nat) (t : Nat) (ht : 0 < t) (h : t ≤ cs.sum) :
    0 < acceptCount cs t ∧ acceptCount cs t ≤ cs.length ∧
    t ≤ (cs.take (acceptCount cs t)).sum ∧ (cs.take (acceptCount cs t - 1)).sum < t := by
  refine ⟨?_, acceptCount_le cs t, lower_bound cs t h, minimal cs t ht⟩
  cases cs with
  | nil => simp at h; omega
  | cons c cs => simp only [acceptCount]; split <;> omega

end FlowCal.C05
