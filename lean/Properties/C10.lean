import FlowCalModel.Excel
import FlowCalModel.Generated
/-!
# C10 — Excel results equal the documented library steps applied by hand
-/
namespace FlowCal.C10
open FlowCal.Excel

/-- **Units are case- and whitespace-insensitive**, with exactly the documented spellings. -/
theorem classify_spellings :
    classify ['M','E','F'] = .mef ∧ classify [' ','m','e','f',' '] = .mef ∧ classify ['M','e','f'] = .mef ∧
    classify ['R','F','I'] = .rfi ∧ classify ['r','f','i'] = .rfi ∧ classify ['a','.','u','.'] = .au ∧ classify ['A','.','U','.'] = .au ∧
    classify ['a','u'] = .au ∧ classify ['A','U'] = .au ∧ classify ['C','h','a','n','n','e','l'] = .channel ∧
    classify ['C','H','A','N','N','E','L'] = .channel ∧ classify ['c','h','a','n','n','e','l',' '] = .channel ∧
    classify ['f','u','r','l','o','n','g','s'] = .other ∧ classify [] = .other := by decide

/-- per-channel conversions: nothing for channel numbers, RFI for `RFI`/`a.u.`, RFI then the beads' calibration for `MEF` -/
theorem channelSteps_spec (c : String) (u : List Char) :
    channelSteps c u = (match classify u with
      | .channel => .ok []
      | .rfi => .ok [.toRfi [c]]
      | .au => .ok [.toRfi [c]]
      | .mef => .ok [.toRfi [c], .toMef c]
      | .other => .error .unitsNotRecognized) := rfl

/-- **Shape of the plan**: a healthy row is processed by `to_rfi` of the scatter channels, the per-channel
conversions of the reported channels in the instrument's order, the 250/100 trim, saturation removal in the
scatter and reported channels iff the data are integers, and the density gate on the scatter channels —
in that order, each exactly once. -/
theorem plan_shape (f : RowFacts) (plan : List Step) (h : samplePlan f = .ok plan) :
    ∃ conv : List (List Step),
      (reportChannels f).mapM (fun cu => channelSteps cu.1 cu.2) = .ok conv ∧
      plan = [Step.toRfi [f.fsc, f.ssc]] ++ conv.flatten ++ [Step.startEnd 250 100] ++
        (if f.integerData then [Step.highLow ([f.fsc, f.ssc] ++ (reportChannels f).map (·.1))] else []) ++
        [Step.density2d [f.fsc, f.ssc]] := by
  unfold samplePlan at h
  simp only [bind, Except.bind] at h
  split at h
  · simp at h
  · rename_i conv hconv
    simp only [pure, Except.pure, Except.ok.injEq] at h
    exact ⟨conv, hconv, h.symm⟩

/-- channels whose units cell is empty are not reported (left alone); reported ones come from the instrument's list -/
theorem reportChannels_mem (f : RowFacts) (c : String) (u : List Char) (h : (c, u) ∈ reportChannels f) :
    c ∈ f.flChannels ∧ f.units.lookup c = some (some u) := by
  unfold reportChannels at h
  simp only [List.mem_filterMap] at h
  obtain ⟨c', hc', hm⟩ := h
  split at hm
  · rename_i u' hu'
    simp at hm
    obtain ⟨rfl, rfl⟩ := hm
    exact ⟨hc', hu'⟩
  · simp at hm

/-! Non-vacuity: one MEF, one a.u., one empty, one Channel column -/
example : samplePlan ⟨"FSC", "SSC", ["FL1", "FL2", "FL3", "FL4"], [("FL2", some ['a','.','u','.']), ("FL1", some [' ','M','E','F']), ("FL3", none), ("FL4", some ['C','h','a','n','n','e','l'])], true⟩
    = .ok [.toRfi ["FSC", "SSC"], .toRfi ["FL1"], .toMef "FL1", .toRfi ["FL2"], .startEnd 250 100,
           .highLow ["FSC", "SSC", "FL1", "FL2", "FL4"], .density2d ["FSC", "SSC"]] := by decide
example : samplePlan ⟨"FSC", "SSC", ["FL1"], [("FL1", some ['f','u','r'])], false⟩ = .error .unitsNotRecognized := by decide

/-- the library calls of `process_samples_table`, their constant arguments and guards, as found in the source now (regenerated on
every run), are the ones the plan model stands for -/
theorem pipeline_matches_source : Generated.samplePipelineCalls = pipelineSpec := rfl

/-- every per-channel result column is filled by the library statistic of the same name, geometric ones on the positive events -/
theorem stat_functions_match_source : Generated.statColumnFunctions = statSpec := rfl

theorem positive_rule_matches_source : Generated.positiveEventsRule = positiveRuleSpec := rfl

end FlowCal.C10
