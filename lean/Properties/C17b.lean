import Properties.C17
/-!
# C17 (continued) — dates: what a parsed `$DATE` can be

Two-digit years follow the fixed pivot of `strptime` (00–68 → 20xx, 69–99 → 19xx) whatever today's date is; every date that is
returned is a real calendar date; the date never depends on the other keywords.
-/
namespace FlowCal.C17
open FlowCal.Py FlowCal.Text FlowCal.Meta

/-- a two-digit year lands in 1969..2068 and keeps its last two digits -/
theorem fieldY2_pivot (s : Str) (y : Nat) (h : fieldY2 s = some y) :
    1969 ≤ y ∧ y ≤ 2068 ∧ (y = 2000 + natOf s ∧ natOf s < 69 ∨ y = 1900 + natOf s ∧ 69 ≤ natOf s) := by
  unfold fieldY2 at h
  split at h
  · rename_i hc
    simp only [Option.some.injEq] at h
    have h100 : natOf s < 100 := by
      simp only [Bool.and_eq_true, beq_iff_eq] at hc
      obtain ⟨hd, hl⟩ := hc
      match s, hl with
      | [a, b], _ =>
        simp only [allDigits, List.all_cons, List.all_nil, Bool.and_true, Bool.and_eq_true, isDigit, decide_eq_true_eq] at hd
        simp only [natOf, List.foldl_cons, List.foldl_nil]
        omega
    split at h <;> omega
  · simp at h

/-- every date `mkDate` returns has a day that exists in its month (leap years included) -/
theorem mkDate_valid (y m d : Option Nat) (dt : Date) (h : mkDate y m d = some dt) : dt.d ≤ daysIn dt.y dt.m := by
  unfold mkDate at h
  split at h
  · split at h
    · rename_i hle
      simp only [Option.some.injEq] at h
      subst h; exact hle
    · simp at h
  · simp at h

/-- **Every parsed `$DATE` is a calendar date**: whichever of the four documented formats matched. -/
theorem parseDate_valid (v : Option Str) (dt : Date) (h : parseDate v = some dt) : dt.d ≤ daysIn dt.y dt.m := by
  unfold parseDate at h
  split at h
  · simp at h
  · split at h
    · rename_i a b c _
      -- whichever alternative produced the date, it came out of `mkDate`
      have key : ∀ (o1 o2 o3 o4 : Option Date), ((o1.orElse fun _ => o2.orElse fun _ => o3.orElse fun _ => o4) = some dt) →
          o1 = some dt ∨ o2 = some dt ∨ o3 = some dt ∨ o4 = some dt := by
        intro o1 o2 o3 o4 hh
        cases o1 <;> cases o2 <;> cases o3 <;> cases o4 <;> simp_all [Option.orElse]
      rcases key _ _ _ _ h with h | h | h | h <;> exact mkDate_valid _ _ _ _ h
    · simp at h

/-- the date of both moments is the parsed `$DATE`, independently of `$BTIM` / `$ETIM` -/
theorem moments_date (d : Dict) (b e : Option Moment) (h : moments d = .ok (b, e)) :
    (∀ mb, b = some mb → mb.date = parseDate (get d "$DATE")) ∧ (∀ me, e = some me → me.date = parseDate (get d "$DATE")) := by
  unfold moments at h
  simp only [bind, Except.bind, pure, Except.pure] at h
  split at h
  · simp at h
  · split at h
    · simp at h
    · simp only [Except.ok.injEq, Prod.mk.injEq] at h
      obtain ⟨hb, he⟩ := h
      constructor
      · intro mb hmb; rw [← hb] at hmb
        simp only [Option.map_eq_some_iff] at hmb
        obtain ⟨t, _, rfl⟩ := hmb; rfl
      · intro me hme; rw [← he] at hme
        simp only [Option.map_eq_some_iff] at hme
        obtain ⟨t, _, rfl⟩ := hme; rfl

/-- examples: `07-Mar-68` is 2068 (in the future), `01-jan-69` is 1969, 30 February does not exist -/
example : parseDate (some (s2l "07-Mar-68")) = some ⟨2068, 3, 7⟩ := by decide +kernel
example : parseDate (some (s2l "01-jan-69")) = some ⟨1969, 1, 1⟩ := by decide +kernel
example : parseDate (some (s2l "30-FEB-2016")) = none := by decide +kernel
example : parseDate (some (s2l "29-FEB-2016")) = some ⟨2016, 2, 29⟩ := by decide +kernel

end FlowCal.C17
