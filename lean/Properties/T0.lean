import FlowCalModel.Basic
theorem t0 : FlowCal.hello = 1 := rfl
