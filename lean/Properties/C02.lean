import FlowCalModel.Mef
/-!
# C02 — Bead calibration end to end yields the true RFI-to-MEF conversion (the list logic after clustering)
-/
namespace FlowCal.C02
open FlowCal.Mef

/-- **Exclusion is local (no shifting)**: a pair `(statistic, MEF value)` is handed to the fit iff it sits
at one position `j` whose MEF value is known and whose population passed the selection — every other
population keeps its own value. -/
theorem selectPairs_mem {S M : Type} (stats : List S) (mef : List (Option M)) (sel : List Bool) (s : S) (v : M) :
    (s, v) ∈ selectPairs stats mef sel ↔ (s, some v, true) ∈ stats.zip (mef.zip sel) := by
  simp only [selectPairs, List.mem_filterMap]
  constructor
  · rintro ⟨⟨s', m, k⟩, hmem, h⟩
    cases m <;> cases k <;> simp at h
    obtain ⟨rfl, rfl⟩ := h
    exact hmem
  · intro h
    exact ⟨(s, some v, true), h, rfl⟩

/-- the selected RFI and MEF lists have equal length (they are the two projections of one list of pairs),
never more entries than populations -/
theorem selected_lengths {S M : Type} (stats : List S) (mef : List (Option M)) (sel : List Bool) :
    ((selectPairs stats mef sel).map (·.1)).length = ((selectPairs stats mef sel).map (·.2)).length ∧
    (selectPairs stats mef sel).length ≤ stats.length := by
  constructor
  · simp
  · unfold selectPairs
    calc _ ≤ (stats.zip (mef.zip sel)).length := List.length_filterMap_le _ _
      _ ≤ stats.length := by simp [List.length_zip]; omega

/-- sorting the populations is a permutation: no population is lost or duplicated -/
theorem insertBy_perm {β : Type} (key : β → Int) (x : β) (l : List β) : (insertBy key x l).Perm (x :: l) := by
  induction l with
  | nil => simp [insertBy]
  | cons y ys ih =>
    simp only [insertBy]
    split
    · exact List.Perm.refl _
    · exact (List.Perm.cons y ih).trans (List.Perm.swap x y ys)

theorem sortBy_perm {β : Type} (key : β → Int) (l : List β) : (sortBy key l).Perm l := by
  induction l with
  | nil => simp [sortBy]
  | cons x xs ih =>
    simp only [sortBy, List.foldr_cons] at ih ⊢
    exact (insertBy_perm key x _).trans (List.Perm.cons x ih)

/-- … and it is ordered by increasing key: MEF values are assigned in order of increasing brightness -/
theorem insertBy_sorted {β : Type} (key : β → Int) (x : β) (l : List β) (h : l.Pairwise (fun a b => key a ≤ key b)) :
    (insertBy key x l).Pairwise (fun a b => key a ≤ key b) := by
  induction l with
  | nil => simp [insertBy]
  | cons y ys ih =>
    simp only [insertBy]
    split
    · rename_i hlt
      rw [List.pairwise_cons] at h ⊢
      refine ⟨?_, List.pairwise_cons.mpr h⟩
      intro b hb
      simp at hb
      rcases hb with rfl | hb
      · omega
      · have := h.1 b hb; omega
    · rename_i hge
      rw [List.pairwise_cons] at h ⊢
      refine ⟨?_, ih h.2⟩
      intro b hb
      have hp := (insertBy_perm key x ys).mem_iff.mp hb
      simp at hp
      rcases hp with rfl | hp
      · omega
      · exact h.1 b hp

theorem sortBy_sorted {β : Type} (key : β → Int) (l : List β) : (sortBy key l).Pairwise (fun a b => key a ≤ key b) := by
  induction l with
  | nil => simp [sortBy]
  | cons x xs ih =>
    simp only [sortBy, List.foldr_cons] at ih ⊢
    exact insertBy_sorted key x _ ih

/-- **One label per event, one population per distinct label**: every event index belongs to the population of its label -/
theorem populations_cover (labels : List Nat) (i : Nat) (hi : i < labels.length) :
    ∃ p ∈ populations labels, i ∈ p := by
  unfold populations
  refine ⟨(List.range labels.length).filter (fun j => labels.getD j 0 == labels.getD i 0), ?_, ?_⟩
  · simp only [List.mem_map]
    refine ⟨labels.getD i 0, ?_, rfl⟩
    rw [List.mem_eraseDups]
    simp [List.getD, hi]
  · simp [hi]

/-- populations are disjoint: an event carries one label -/
theorem populations_disjoint (labels : List Nat) (i : Nat) (l1 l2 : Nat)
    (h1 : i ∈ (List.range labels.length).filter (fun j => labels.getD j 0 == l1))
    (h2 : i ∈ (List.range labels.length).filter (fun j => labels.getD j 0 == l2)) : l1 = l2 := by
  simp at h1 h2
  rw [← h1.2, ← h2.2]

/-! Non-vacuity: 3 populations, one unknown MEF value, one rejected by the selection -/
example : selectPairs [10, 20, 30, 40] [some 100, none, some 300, some 400] [true, true, false, true] = [(10, 100), (40, 400)] := by decide
example : populations [2, 0, 2, 1, 0] = [[0, 2], [1, 4], [3]] := by decide
example : sortBy (fun (p : Nat × Int) => p.2) [(0, 30), (1, 10), (2, 20)] = [(1, 10), (2, 20), (0, 30)] := by decide

end FlowCal.C02
