import Properties.C19
import FlowCalModel.GeneratedExpr
/-!
# C19 — the grids found in `FCSData.hist_bins` are the model's edges

`src_grid_*_start/stop` are the two end points handed to `np.linspace(·, ·, nbins+1)` in each branch of `hist_bins`, translated
from the source on every run; the model's edge `i` is NumPy's `linspace` value at index `i` over exactly these end points
(followed by `10**·` in the log branch and by the logicle function in the logicle branch, both checked by the translator).
-/
namespace FlowCal.C19
open FlowCal FlowCal.Logicle

set_option linter.unusedSectionVars false
variable {α : Type} [Add α] [Sub α] [Mul α] [Div α] [Neg α] [OfNat α 1] [OfNat α 2] [Pow10 α]

theorem source_grid_linear (lo hi res n i : α) :
    edgeLinear lo hi res n i = linspaceAt (GeneratedExpr.src_grid_linear_start lo hi res) (GeneratedExpr.src_grid_linear_stop lo hi res) n i := rfl

theorem source_grid_log (lo hi res n i : α) (_h : GeneratedExpr.src_log_branch_takes_log10_of_limits = true) :
    edgeLog lo hi res n i =
      pow10 (linspaceAt (GeneratedExpr.src_grid_log_start (log10 lo) (log10 hi) res) (GeneratedExpr.src_grid_log_stop (log10 lo) (log10 hi) res) n i) := rfl

theorem source_grid_logicle (T M W p res n i : α) (_h : GeneratedExpr.src_logicle_branch_applies_transform = true) :
    edgeLogicle T M W p res n i =
      GeneratedExpr.src_logicle T M W p (linspaceAt (GeneratedExpr.src_grid_logicle_start M res) (GeneratedExpr.src_grid_logicle_stop M res) n i) := rfl

/-- the two structural facts the translator records about the branches hold for the current source -/
theorem source_branch_shapes :
    GeneratedExpr.src_log_branch_takes_log10_of_limits = true ∧ GeneratedExpr.src_logicle_branch_applies_transform = true := ⟨rfl, rfl⟩

end FlowCal.C19
