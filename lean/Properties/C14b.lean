import Properties.C14
import FlowCalModel.File
/-!
# C14 (continued) — the keywords a loaded file reports are the parsed primary TEXT segment, updated by the parsed
supplemental TEXT segment where one is declared; nothing else in `FCSFile.__init__` touches them
-/
namespace FlowCal.C14
open FlowCal.Py FlowCal.Text FlowCal.File

/-- the keyword dictionary survives the later stages of `FCSFile.__init__` unchanged -/
theorem loadKeywords_text (file : Bytes) (h : Header) (t : Dict × Option Nat × Bool) (k : Keywords)
    (hk : loadKeywords file h t = .ok k) : ∃ w, mergeText file h t = .ok (k.text, w) := by
  unfold loadKeywords at hk
  split at hk
  · simp at hk
  · rename_i text w0 hm
    split at hk
    · simp at hk
    · split at hk
      · simp at hk
      · split at hk
        · simp at hk
        · simp only [Except.ok.injEq] at hk
          subst hk
          exact ⟨w0, hm⟩

/-- what the merge stage returns: the primary dictionary itself, or the primary dictionary updated with the dictionary of the
supplemental segment read at the offsets the primary keywords give -/
theorem mergeText_spec (file : Bytes) (h : Header) (t : Dict × Option Nat × Bool) (text : Dict) (w : List String)
    (hm : mergeText file h t = .ok (text, w)) :
    text = t.1 ∨ ∃ sb se st dl w1, intKw t.1 "$BEGINSTEXT" = .ok sb ∧ intKw t.1 "$ENDSTEXT" = .ok se ∧ sb ≠ 0 ∧ se ≠ 0 ∧
      readTextSeg file sb se (match t.2.1 with | some c => some (some c) | none => none) true = .ok (st, dl, w1) ∧
      text = dictUpdate t.1 st := by
  obtain ⟨text0, delim, w0⟩ := t
  unfold mergeText at hm
  simp only at hm
  split at hm
  · split at hm
    · simp at hm
    · rename_i sb hsb
      split at hm
      · simp at hm
      · rename_i se hse
        split at hm
        · rename_i hnz
          split at hm
          · simp at hm
          · rename_i st dl w1 hst
            simp only [Except.ok.injEq, Prod.mk.injEq] at hm
            right
            simp only [Bool.and_eq_true, bne_iff_ne, ne_eq] at hnz
            exact ⟨sb, se, st, dl, w1, hsb, hse, hnz.1, hnz.2, hst, hm.1.symm⟩
        · simp only [Except.ok.injEq, Prod.mk.injEq] at hm
          left; exact hm.1.symm
  · simp only [Except.ok.injEq, Prod.mk.injEq] at hm
    left; exact hm.1.symm

/-- **Keywords of a loaded file.** Every keyword of a file that loads maps to the value the supplemental TEXT segment gives it
(its last definition there), and otherwise to the value of the primary TEXT segment — for every file. -/
theorem loadFile_keywords (file : Bytes) (L : Loaded) (hL : loadFile file = .ok L) :
    ∃ (h : Header) (prim : Dict) (dl : Option Nat) (wp : Bool), parseHeader file = .ok h ∧
      readTextSeg file h.textBegin h.textEnd none false = .ok (prim, dl, wp) ∧
      (L.text = prim ∨ ∃ supp : Dict, ∀ key, dictLookup key L.text = (lastVal key supp).orElse (fun _ => dictLookup key prim)) := by
  unfold loadFile at hL
  split at hL
  · simp at hL
  · rename_i h hh
    split at hL
    · simp at hL
    · rename_i t ht
      unfold loadRest at hL
      split at hL
      · simp at hL
      · rename_i k hk
        obtain ⟨w, hm⟩ := loadKeywords_text file h t k hk
        have htext : L.text = k.text := by
          unfold loadData at hL
          split at hL
          · simp at hL
          · split at hL
            · simp at hL
            · split at hL
              · simp at hL
              · split at hL
                · simp at hL
                · split at hL
                  · simp at hL
                  · simp only [] at hL
                    split at hL
                    · simp at hL
                    · simp only [Except.ok.injEq] at hL
                      subst hL; rfl
        obtain ⟨prim, dl, wp⟩ := t
        refine ⟨h, prim, dl, wp, hh, ht, ?_⟩
        rcases mergeText_spec file h (prim, dl, wp) k.text w hm with h1 | ⟨_, _, st, _, _, _, _, _, _, _, h2⟩
        · left; rw [htext]; exact h1
        · right
          refine ⟨st, fun key => ?_⟩
          rw [htext, h2]
          exact merge_spec key prim st

end FlowCal.C14
