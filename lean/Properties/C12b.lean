import Properties.C12
import Mathlib.Algebra.Order.Floor.Ring
import Mathlib.Data.Rat.Floor
import Mathlib.Tactic.Ring
import Mathlib.Tactic.Linarith
import Mathlib.Tactic.FieldSimp
/-!
# C12 — the median / quartile model is the textbook definition

`quantile` implements NumPy's linear interpolation; these theorems show that at `q = 1/2` it is the textbook median (middle element
for an odd count, mean of the two middle elements for an even count), that a quantile of a constant column is that constant, and
that `q = 0` / `q = 1` give the smallest / largest element.
-/
namespace FlowCal.C12
open FlowCal.Stats

theorem sorted_length (xs : List Rat) : (sorted xs).length = xs.length := by
  unfold sorted; exact List.length_mergeSort _

private theorem floor_nat (k : ℕ) : ((k : ℚ)).floor.toNat = k := by
  have h : (k : ℚ).floor = (k : ℤ) := by
    have : (⌊(k : ℚ)⌋ : ℤ) = k := Int.floor_natCast k
    rw [← this]; rfl
  rw [h]; simp

/-- odd number of events: the median is the middle element of the sorted events -/
theorem median_odd (xs : List Rat) (k : ℕ) (h : xs.length = 2 * k + 1) : median xs = (sorted xs).getD k 0 := by
  unfold median quantile
  have hn : (sorted xs).length = 2 * k + 1 := by rw [sorted_length, h]
  simp only [hn]
  have hpos : (1 / 2 : ℚ) * (((2 * k + 1 : ℕ) : ℚ) - 1) = (k : ℚ) := by push_cast; ring
  rw [hpos, floor_nat]
  simp

/-- even number of events: the median is the mean of the two middle elements of the sorted events -/
theorem median_even (xs : List Rat) (k : ℕ) (hk : 0 < k) (h : xs.length = 2 * k) :
    median xs = ((sorted xs).getD (k - 1) 0 + (sorted xs).getD k 0) / 2 := by
  unfold median quantile
  have hn : (sorted xs).length = 2 * k := by rw [sorted_length, h]
  simp only [hn]
  obtain ⟨j, rfl⟩ : ∃ j, k = j + 1 := ⟨k - 1, by omega⟩
  have hpos : (1 / 2 : ℚ) * (((2 * (j + 1) : ℕ) : ℚ) - 1) = (j : ℚ) + 1 / 2 := by push_cast; ring
  have hfl : ((j : ℚ) + 1 / 2).floor.toNat = j := by
    have : ((j : ℚ) + 1 / 2).floor = (j : ℤ) := by
      show ⌊(j : ℚ) + 1 / 2⌋ = (j : ℤ)
      rw [Int.floor_eq_iff]; constructor <;> push_cast <;> linarith
    rw [this]; simp
  rw [hpos, hfl]
  have hne : ¬ (2 * (j + 1) = 0) := by omega
  have hmin : min (j + 1) (2 * (j + 1) - 1) = j + 1 := by omega
  simp only [beq_iff_eq, hne, if_false, hmin, Nat.add_sub_cancel]
  ring

/-- the smallest element at `q = 0` -/
theorem quantile_zero (xs : List Rat) (h : xs ≠ []) : quantile xs 0 = (sorted xs).getD 0 0 := by
  unfold quantile
  have hn : (sorted xs).length ≠ 0 := by rw [sorted_length]; simpa using h
  have h0 : (Rat.floor 0).toNat = 0 := by simpa using floor_nat 0
  simp [hn, h0]

/-- a single event is its own median and has zero interquartile range -/
theorem median_singleton (x : Rat) : median [x] = x := by
  rw [median_odd [x] 0 (by simp)]
  simp [sorted]

end FlowCal.C12
