import Properties.C01
/-!
# C01 (continued) — whole rows and whole matrices round-trip through the mixed-width and uniform decoders
-/
namespace FlowCal.C01
open FlowCal.Data FlowCal.Py

/-- byte offsets of the columns: running sum of the byte widths, starting at `o` -/
def offsetsFrom : Nat → List Nat → List Nat
  | _, [] => []
  | o, b :: bs => o :: offsetsFrom (o + b) bs

theorem cumsum_div8 (ws : List Nat) (h : ∀ w ∈ ws, w % 8 = 0) :
    (cumsum ws).map (· / 8) = cumsum (ws.map (· / 8)) := by
  induction ws with
  | nil => rfl
  | cons x xs ih =>
    have hx : x % 8 = 0 := h x (by simp)
    have ih' := ih (fun w hw => h w (by simp [hw]))
    simp only [cumsum, List.map_cons, List.map_map]
    congr 1
    rw [← ih', List.map_map]
    apply List.map_congr_left
    intro c _
    simp only [Function.comp]
    omega

theorem offsets_of_cumsum (o : Nat) (bs : List Nat) (h : bs ≠ []) :
    o :: ((cumsum bs).map (· + o)).dropLast = offsetsFrom o bs := by
  induction bs generalizing o with
  | nil => exact absurd rfl h
  | cons b rest ih =>
    cases rest with
    | nil => simp [cumsum, offsetsFrom]
    | cons b' rest' =>
      have ih' := ih (o + b) (by simp)
      simp only [offsetsFrom] at ih' ⊢
      simp only [cumsum, List.map_cons, List.map_map] at ih' ⊢
      rw [List.dropLast_cons_of_ne_nil (by simp)]
      have e0 : b + o = o + b := by omega
      have e1 : b' + b + o = b' + (o + b) := by omega
      have e2 : ((fun x => x + o) ∘ (fun x => x + b) ∘ fun x => x + b') = ((fun x => x + (o + b)) ∘ fun x => x + b') := by
        funext x; simp only [Function.comp]; omega
      rw [e0, e1, e2]
      exact congrArg (o :: ·) ih'

/-- **`np.roll(np.cumsum(widths)//8, 1)` with element 0 zeroed is the running sum of the byte widths.** -/
theorem boundaries_eq (ws : List Nat) (h : ∀ w ∈ ws, w % 8 = 0) :
    boundaries ws = offsetsFrom 0 (ws.map (· / 8)) := by
  unfold boundaries
  rw [cumsum_div8 ws h]
  cases ws with
  | nil => rfl
  | cons w ws' =>
    have := offsets_of_cumsum 0 ((w :: ws').map (· / 8)) (by simp)
    simp only [Nat.add_zero, List.map_id'] at this
    have hne : cumsum ((w :: ws').map (· / 8)) ≠ [] := by simp [cumsum]
    rw [← this]
    cases hc : cumsum (List.map (fun x => x / 8) (w :: ws')) with
    | nil => exact absurd hc hne
    | cons c cs => rfl

/-- one row decoded column by column at the running offsets, after an arbitrary prefix of `o` bytes -/
theorem decode_cols (be : Bool) (U : Nat) (ws vals : List Nat) (pre : List Nat)
    (hlen : ws.length = vals.length)
    (hU : ∀ w ∈ ws, 8 * (w / 8) ≤ U)
    (hv : ∀ p ∈ ws.zip vals, p.2 < 256 ^ (p.1 / 8)) (post : List Nat) :
    (ws.zip (offsetsFrom pre.length (ws.map (· / 8)))).map
        (fun p => accumulate be U (p.1 / 8) (((pre ++ encodeRow be ws vals ++ post).drop p.2).take (p.1 / 8)))
      = vals := by
  induction ws generalizing vals pre with
  | nil => cases vals <;> simp_all
  | cons w ws ih =>
    cases vals with
    | nil => simp at hlen
    | cons v vals =>
      simp only [List.map_cons, offsetsFrom, List.zip_cons_cons]
      have hvw : v < 256 ^ (w / 8) := hv (w, v) (by simp)
      have henc : encodeRow be (w :: ws) (v :: vals) = toBytes be (w / 8) v ++ encodeRow be ws vals := by
        simp [encodeRow]
      have hfirst : (((pre ++ encodeRow be (w :: ws) (v :: vals) ++ post).drop pre.length).take (w / 8)) = toBytes be (w / 8) v := by
        rw [henc]
        simp only [List.append_assoc]
        rw [List.drop_left]
        rw [List.take_left' (toBytes_length be (w / 8) v)]
      rw [hfirst, accumulate_toBytes be U (w / 8) v hvw (hU w (by simp))]
      congr 1
      have := ih vals (pre ++ toBytes be (w / 8) v) (by simpa using hlen) (fun w' hw' => hU w' (by simp [hw']))
        (fun p hp => hv p (by simp [hp]))
      simp only [List.length_append, toBytes_length] at this
      rw [henc]
      simpa [List.append_assoc] using this

/-- **A whole row of mixed-width integers round-trips**: for every list of byte-aligned widths, both byte
orders, and values that fit their widths, decoding the encoded row — exactly as the source does, at offsets
`np.roll(cumsum(widths)//8, 1)` in a container of `upcast` bits — returns the values. Bytes after the row are irrelevant. -/
theorem decodeRowMixed_encodeRow (be : Bool) (ws vals : List Nat) (post : List Nat)
    (hlen : ws.length = vals.length) (h8 : ∀ w ∈ ws, w % 8 = 0)
    (hU : ∀ w ∈ ws, w ≤ upcastBits ws)
    (hv : ∀ p ∈ ws.zip vals, p.2 < 2 ^ p.1) :
    decodeRowMixed be ws (encodeRow be ws vals ++ post) = vals := by
  unfold decodeRowMixed
  simp only
  rw [boundaries_eq ws h8]
  have hv' : ∀ p ∈ ws.zip vals, p.2 < 256 ^ (p.1 / 8) := by
    intro p hp
    have hw : p.1 % 8 = 0 := h8 p.1 (List.of_mem_zip hp).1
    have : (256 : Nat) ^ (p.1 / 8) = 2 ^ p.1 := by
      rw [show (256 : Nat) = 2 ^ 8 by rfl, ← Nat.pow_mul]
      congr 1; omega
    rw [this]; exact hv p hp
  have hU' : ∀ w ∈ ws, 8 * (w / 8) ≤ upcastBits ws := by
    intro w hw
    have := hU w hw
    omega
  have := decode_cols be (upcastBits ws) ws vals [] hlen hU' hv' post
  simpa using this

/-- the container chosen by the source is wide enough for every byte-aligned width up to 64 bits -/
theorem upcast_covers : ∀ w ∈ [8, 16, 24, 32, 40, 48, 56, 64], w ≤ 2 ^ clog2 w := by decide

/-- uniform-width path (`np.memmap` with dtype `>uK` / `<uK`): every cell is `ofBytes` of its own bytes -/
theorem decodeRowUniform_encodeRow (be : Bool) (w : Nat) (vals : List Nat) (post : List Nat)
    (hv : ∀ v ∈ vals, v < 256 ^ (w / 8)) :
    decodeRowUniform be w vals.length (encodeRow be (List.replicate vals.length w) vals ++ post) = vals := by
  unfold decodeRowUniform
  -- induction with an arbitrary prefix
  suffices h : ∀ (pre : List Nat) (k : Nat), pre.length = k * (w / 8) →
      (List.range vals.length).map (fun c => ofBytes be (((pre ++ encodeRow be (List.replicate vals.length w) vals ++ post).drop ((k + c) * (w / 8))).take (w / 8))) = vals by
    simpa using h [] 0 (by simp)
  induction vals with
  | nil => intro pre k _; simp
  | cons v vals ih =>
    intro pre k hpre
    have henc : encodeRow be (List.replicate (vals.length + 1) w) (v :: vals) = toBytes be (w / 8) v ++ encodeRow be (List.replicate vals.length w) vals := by
      simp [encodeRow, List.replicate_succ]
    rw [List.length_cons, List.range_succ_eq_map, List.map_cons, List.map_map]
    congr 1
    · rw [henc]
      simp only [Nat.add_zero, List.append_assoc]
      rw [← hpre, List.drop_left, List.take_left' (toBytes_length be (w / 8) v)]
      exact ofBytes_toBytes be (w / 8) v (hv v (by simp))
    · have := ih (fun x hx => hv x (by simp [hx])) (pre ++ toBytes be (w / 8) v) (k + 1)
        (by simp [toBytes_length, hpre, Nat.add_mul])
      rw [henc]
      simp only [List.append_assoc] at this ⊢
      refine Eq.trans ?_ this
      apply List.map_congr_left
      intro c _
      simp only [Function.comp]
      have : k + c.succ = k + 1 + c := by omega
      rw [this]


/-! ## Whole matrices -/

theorem encodeRow_length (be : Bool) (ws vals : List Nat) (hlen : ws.length = vals.length) :
    (encodeRow be ws vals).length = rowBytes ws := by
  induction ws generalizing vals with
  | nil => cases vals <;> simp_all [encodeRow, rowBytes]
  | cons w ws ih =>
    cases vals with
    | nil => simp at hlen
    | cons v vals =>
      have := ih vals (by simpa using hlen)
      simp only [encodeRow, rowBytes, List.zip_cons_cons, List.flatMap_cons, List.length_append, toBytes_length,
        List.map_cons, List.sum_cons] at this ⊢
      omega

theorem chunks_encode (be : Bool) (ws : List Nat) (m : List (List Nat)) (rest : List Nat)
    (hrows : ∀ r ∈ m, ws.length = r.length) :
    chunks (rowBytes ws) m.length (encodeEvents be ws m ++ rest) = m.map (encodeRow be ws) := by
  induction m with
  | nil => simp [chunks]
  | cons r m ih =>
    have hl := encodeRow_length be ws r (hrows r (by simp))
    simp only [List.length_cons, chunks, encodeEvents, List.flatMap_cons, List.map_cons, List.append_assoc]
    rw [List.take_left' hl, List.drop_left' hl]
    congr 1
    exact ih (fun r' hr' => hrows r' (by simp [hr']))

/-- well-formed event matrix for a width vector: one value per parameter, each fitting its width -/
def WellFormed (ws : List Nat) (m : List (List Nat)) : Prop :=
  ∀ r ∈ m, ws.length = r.length ∧ ∀ p ∈ ws.zip r, p.2 < 2 ^ p.1

/-- **Mixed-width DATA segments round-trip at the matrix level**: decoding the bytes of any number of events
(including none) returns the events, row by row, in order. -/
theorem decodeInt_mixed_roundtrip (be : Bool) (ws : List Nat) (m : List (List Nat)) (rest : List Nat)
    (hu : isUniform ws = false) (h8 : ∀ w ∈ ws, w % 8 = 0) (hU : ∀ w ∈ ws, w ≤ upcastBits ws) (hm : WellFormed ws m) :
    decodeInt be ws m.length (encodeEvents be ws m ++ rest) none = m := by
  unfold decodeInt
  simp only [hu, Bool.false_eq_true, if_false]
  rw [chunks_encode be ws m rest (fun r hr => (hm r hr).1), List.map_map]
  have : ∀ r ∈ m, (decodeRowMixed be ws ∘ encodeRow be ws) r = r := by
    intro r hr
    have := decodeRowMixed_encodeRow be ws r [] (hm r hr).1 h8 hU (hm r hr).2
    simpa using this
  calc List.map (decodeRowMixed be ws ∘ encodeRow be ws) m = List.map id m := List.map_congr_left this
    _ = m := by simp

/-- **Reading a mixed-width DATA segment out of a file returns exactly the recorded events**, wherever the
segment sits in the file (`pre`), whatever follows it (`post`), for both end-offset conventions
(last byte / one past), both byte orders, any number of events. -/
theorem readData_mixed_roundtrip (be : Bool) (ws : List Nat) (m : List (List Nat)) (pre post : List Nat) (past : Bool)
    (hu : isUniform ws = false) (h8 : ∀ w ∈ ws, w % 8 = 0) (h64 : ∀ w ∈ ws, w ≤ 64) (hU : ∀ w ∈ ws, w ≤ upcastBits ws)
    (hm : WellFormed ws m) (hne : pre ≠ [])
    (hpos : ws.foldl max 0 ≠ 0)     -- some parameter has a non-zero width (all-zero widths are refused: no container type)
    (hext : 0 < m.length * rowBytes ws ∨ past = true) :
    readData (pre ++ encodeEvents be ws m ++ post) pre.length
      (pre.length + m.length * rowBytes ws - (if past then 0 else 1)) .I m.length ws be none = .ok m := by
  have hlenEnc : ∀ (m : List (List Nat)), WellFormed ws m → (encodeEvents be ws m).length = m.length * rowBytes ws := by
    intro m
    induction m with
    | nil => intro _; simp [encodeEvents]
    | cons r m ih =>
      intro hm
      have hr := encodeRow_length be ws r (hm r (by simp)).1
      have := ih (fun r' hr' => hm r' (by simp [hr']))
      simp only [encodeEvents, List.flatMap_cons, List.length_append, List.length_cons] at this ⊢
      rw [this, hr, Nat.add_mul]; omega
  have hlenEnc := hlenEnc m hm
  unfold readData
  simp only
  unfold readData.go
  simp only [hu]
  have hal : (ws.all (fun x => x % 8 == 0)) = true := by
    simp only [List.all_eq_true]; intro w hw; simpa using h8 w hw
  have han : (ws.any (fun x => decide (x > 64))) = false := by
    simp only [List.any_eq_false]; intro w hw; simpa using h64 w hw
  simp only [hal, han]
  have hsz : readData.sizeOk pre.length (pre.length + m.length * rowBytes ws - (if past then 0 else 1)) (m.length * rowBytes ws) = true := by
    unfold readData.sizeOk
    cases past with
    | true => simp
    | false =>
      simp at hext
      simp
      left
      omega
  simp only [hsz]
  unfold readData.mmap
  have hflen : (pre ++ encodeEvents be ws m ++ post).length ≠ 0 := by
    simp; intro h; exact absurd h hne
  have hfit : ¬ (pre.length + m.length * rowBytes ws > (pre ++ encodeEvents be ws m ++ post).length) := by
    simp [hlenEnc]
  simp only [hfit]
  have h0 : ((pre ++ encodeEvents be ws m ++ post).length == 0) = false := by simpa using hflen
  simp only [h0]
  have hslice : ((pre ++ encodeEvents be ws m ++ post).drop pre.length).take (m.length * rowBytes ws) = encodeEvents be ws m := by
    rw [List.append_assoc, List.drop_left, List.take_left' hlenEnc]
  simp only [hslice, Bool.not_true, Bool.false_eq_true, if_false]
  have hd := decodeInt_mixed_roundtrip be ws m [] hu h8 hU hm
  simp only [List.append_nil] at hd
  simp [hd, readData.maskFits, hpos]

/-- all-zero widths are refused (the upcast container would have no bytes) -/
example : readData [70, 1] 1 1 .I 1 [0] false none = .error .TypeError := by decide

/-- non-vacuity: a well-formed 2-event matrix of widths [8, 40, 64] -/
example : WellFormed [8, 40, 64] [[255, 2^40 - 1, 2^64 - 1], [0, 1, 2^63]] := by
  intro r hr
  simp at hr
  rcases hr with rfl | rfl <;> refine ⟨rfl, ?_⟩ <;> intro p hp <;> simp at hp <;> rcases hp with rfl | rfl | rfl <;> decide

end FlowCal.C01
