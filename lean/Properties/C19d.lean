import Properties.C19
/-!
# C19 — logicle edges: complete over the displayed interval and centred on the display grid
-/
namespace FlowCal.C19
open FlowCal.Logicle FlowCal.C18

/-- **Coverage in logicle scale**: every data value shown at a display position in `[0, M]` (the whole
axis) lies strictly between the first and the last edge. -/
theorem edgeLogicle_cover (T M W p res n s : ℝ) (hT : 0 < T) (hp : 0 < p) (hM : 0 < M) (hres : 1 < res) (hn : 0 < n)
    (hs0 : 0 ≤ s) (hsM : s ≤ M) :
    edgeLogicle T M W p res n 0 < logicle T M W p s ∧ logicle T M W p s < edgeLogicle T M W p res n n := by
  unfold edgeLogicle
  simp only
  have hδ : 0 < M / (res - 1) := div_pos hM (by linarith)
  have hn' : n ≠ 0 := ne_of_gt hn
  have hlast : -(M / (res - 1)) / 2 + n * ((M + M / (res - 1) / 2 - -(M / (res - 1)) / 2) / n) = M + M / (res - 1) / 2 := by
    field_simp; ring
  constructor
  · apply logicle_strictMono T M W p hT hp; linarith
  · rw [hlast]; apply logicle_strictMono T M W p hT hp; linarith

/-- **Display-centred bins** with the default bin count (`n = res`): edge `i` is the logicle value of
`-δ/2 + i·δ`, so the `i`-th of `res` equally spaced display positions `i·δ` (`δ = M/(res-1)`) is the
centre, in display space, of bin `i`. -/
theorem edgeLogicle_centred (T M W p res i : ℝ) (hres : 1 < res) :
    edgeLogicle T M W p res res i = logicle T M W p (i * (M / (res - 1)) - M / (res - 1) / 2) := by
  unfold edgeLogicle
  simp only
  have h1 : res - 1 ≠ 0 := by linarith
  have h2 : res ≠ 0 := by linarith
  congr 1
  field_simp; ring

/-- logicle edges are pairwise distinct and ordered like their indices (bins are non-empty intervals) -/
theorem edgeLogicle_lt_iff (T M W p res n i j : ℝ) (hT : 0 < T) (hp : 0 < p) (hM : 0 < M) (hres : 1 < res) (hn : 0 < n) :
    edgeLogicle T M W p res n i < edgeLogicle T M W p res n j ↔ i < j :=
  (edgeLogicle_strictMono T M W p res n hT hp hM hres hn).lt_iff_lt

/-- log edges cover the range: the first edge is below the lower limit, the last above the upper -/
theorem edgeLog_cover (lo hi res n : ℝ) (hlo : 0 < lo) (h : lo < hi) (hres : 1 < res) (hn : 0 < n) :
    edgeLog lo hi res n 0 < lo ∧ hi < edgeLog lo hi res n n := by
  have hl : (Real.logb 10 lo : ℝ) < Real.logb 10 hi := Real.logb_lt_logb (by norm_num) hlo h
  obtain ⟨c1, c2⟩ := edgeLinear_cover (Real.logb 10 lo) (Real.logb 10 hi) res n hl hres hn
  have hhi : 0 < hi := lt_trans hlo h
  unfold edgeLog
  simp only [Pow10.log10]
  constructor
  · have := pow10_lt c1
    rwa [pow10_def (Real.logb 10 lo), Real.rpow_logb (by norm_num) (by norm_num) hlo] at this
  · have := pow10_lt c2
    rwa [pow10_def (Real.logb 10 hi), Real.rpow_logb (by norm_num) (by norm_num) hhi] at this

end FlowCal.C19
