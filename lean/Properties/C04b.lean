import Properties.C04
/-!
# C04 (continued) — chains of indexing expressions, and assignment
-/
namespace FlowCal.C04
open FlowCal.Index FlowCal.Py

variable {μ : Type} [DecidableEq μ]
set_option linter.unusedSectionVars false

/-- what alignment of a 2-D result means, unfolded: one metadata entry per column, each the
entry of the source column, and every source column exists -/
theorem aligned_mat (md m : List μ) (rs cs : List Nat) (h : Aligned md ⟨.mat rs cs, some m⟩ = true) :
    m.length = cs.length ∧ ∀ j (hj : j < cs.length), ∃ (hm : j < m.length) (hc : cs[j] < md.length), m[j] = md[cs[j]] := by
  simp only [Aligned] at h
  have h' : m.map some = cs.map (fun c => md[c]?) := by simpa using h
  have hl : m.length = cs.length := by simpa using congrArg List.length h'
  refine ⟨hl, ?_⟩
  intro j hj
  have hm : j < m.length := by omega
  have := congrArg (fun l => l[j]?) h'
  simp only [List.getElem?_map, List.getElem?_eq_getElem hm, List.getElem?_eq_getElem hj, Option.map_some] at this
  have this' : some m[j] = md[cs[j]]? := Option.some.inj this
  have hc : cs[j] < md.length := by
    apply Classical.byContradiction
    intro hcon
    rw [List.getElem?_eq_none (by omega)] at this'
    simp at this'
  refine ⟨hm, hc, ?_⟩
  rw [List.getElem?_eq_getElem hc] at this'
  exact (Option.some.inj this')

/-- the sub-sample a 2-D result is: names and metadata of the selected columns, `rs.length` events -/
def subNames (names : List String) (cs : List Nat) : List String := cs.map (fun c => names.getD c "")

/-- **Chains of indexing expressions stay aligned.**  If a first key yields a 2-D result (rows `rs`, columns
`cs`, metadata `m`) and a second key is applied to that result, the metadata of the second result is the
*original* sample's metadata at the composed source columns `cs[cs2[j]]` — for any two keys of the
grammar, hence by repetition for chains of any length. -/
theorem chain_aligned (names : List String) (md : List μ) (n : Nat) (rk1 rk2 : RowKey) (ck1 ck2 : ColKey)
    (rs cs rs2 cs2 : List Nat) (m m2 : List μ) (hlen : names.length = md.length)
    (h1 : getitem names md n rk1 ck1 = .ok ⟨.mat rs cs, some m⟩)
    (h2 : getitem (subNames names cs) m rs.length rk2 ck2 = .ok ⟨.mat rs2 cs2, some m2⟩) :
    m2.length = cs2.length ∧
    ∀ j (hj : j < cs2.length), ∃ (hm : j < m2.length) (h1c : cs2[j] < cs.length) (h2c : cs[cs2[j]] < md.length),
      m2[j] = md[cs[cs2[j]]] := by
  have a1 := aligned_mat md m rs cs (getitem_aligned names md n rk1 ck1 _ hlen h1)
  have hl2 : (subNames names cs).length = m.length := by simp [subNames, a1.1]
  have a2 := aligned_mat m m2 rs2 cs2 (getitem_aligned (subNames names cs) m rs.length rk2 ck2 _ hl2 h2)
  refine ⟨a2.1, ?_⟩
  intro j hj
  obtain ⟨hm, hc, he⟩ := a2.2 j hj
  have h1c : cs2[j] < cs.length := by rw [← a1.1]; exact hc
  obtain ⟨hm1, hc1, he1⟩ := a1.2 cs2[j] h1c
  exact ⟨hm, h1c, hc1, by rw [he, he1]⟩

/-! ## Assignment writes exactly the addressed cells -/

/-- cells addressed by a key: the provenance of what `__getitem__` with the same key returns -/
def Shape.cells : Shape → List (Nat × Nat)
  | .scalar r c => [(r, c)]
  | .vec cs => cs
  | .mat rs cs => rs.flatMap (fun r => cs.map (fun c => (r, c)))

/-- `ndarray.__setitem__` with a scalar value on the translated key -/
def writeCells {V : Type} (cells : List (Nat × Nat)) (v : V) (data : List (List V)) : List (List V) :=
  data.mapIdx (fun r row => row.mapIdx (fun c x => if (r, c) ∈ cells then v else x))

theorem writeCells_spec {V : Type} (cells : List (Nat × Nat)) (v : V) (data : List (List V)) (r c : Nat)
    (hr : r < data.length) (hc : c < data[r].length) :
    ((writeCells cells v data)[r]'(by simp [writeCells]; exact hr))[c]'(by simp [writeCells]; exact hc) =
      if (r, c) ∈ cells then v else data[r][c] := by
  simp [writeCells]

theorem writeCells_shape {V : Type} (cells : List (Nat × Nat)) (v : V) (data : List (List V)) :
    (writeCells cells v data).map List.length = data.map List.length := by
  apply List.ext_getElem <;> simp [writeCells]

end FlowCal.C04
