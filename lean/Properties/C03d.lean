import Properties.C06b
/-!
# C03 (continued) — `to_rfi` does not depend on how the channels are spelt (names vs positions)
-/
namespace FlowCal.C03
open FlowCal.Transform FlowCal.Py FlowCal.C06

variable {P : Type}

/-- **The plan of `to_rfi` does not depend on the spelling of the channels**: a list of references replaced, entry by entry, by other
spellings of the same channels gives the same (column, law) list or the same refusal, for every combination of settings. -/
theorem toRfi_spelling_irrelevant (isZero : P → Bool) (m : Meta P) (l l' : List Ref) (at_ : Arg (P × P)) (ag res : Arg P)
    (h : List.Forall₂ (SameChannel m) l l') :
    toRfi isZero m (some (.inr l)) at_ ag res = toRfi isZero m (some (.inr l')) at_ ag res := by
  have hlen : l.length = l'.length := List.Forall₂.length_eq h
  unfold toRfi
  simp only [hlen, mapM_resolve_congr m l l' h]

/-- the same for a single channel given as a scalar -/
theorem toRfi_spelling_irrelevant_scalar (isZero : P → Bool) (m : Meta P) (r r' : Ref) (at_ : Arg (P × P)) (ag res : Arg P)
    (h : SameChannel m r r') :
    toRfi isZero m (some (.inl r)) at_ ag res = toRfi isZero m (some (.inl r')) at_ ag res := by
  unfold SameChannel at h
  unfold toRfi
  simp only [h]

end FlowCal.C03
