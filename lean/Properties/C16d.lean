import Properties.C16c
/-!
# C16 (continued) — the last byte: a file loads only if the bytes of all its events are physically present, so any cut that
removes at least one byte of the events is refused — under either end-offset convention (this closes the `n = dataEnd` case
that `cut_before_data_end_fails` leaves to the DATA reader)
-/
namespace FlowCal.C16
open FlowCal.Data FlowCal.Py FlowCal.File FlowCal.C01

/-- the layout part of the keywords is a function of the merged dictionary alone -/
theorem loadKeywords_layout (file : Bytes) (h : Header) (t : Dict × Option Nat × Bool) (k : Keywords)
    (hk : loadKeywords file h t = .ok k) :
    ∃ par nd, checkLayout k.text = .ok (k.dts, par, k.ws, k.big, nd) ∧ readBits k.text par = .ok k.bits := by
  unfold loadKeywords at hk
  split at hk
  · simp at hk
  · rename_i text w0 hm
    split at hk
    · simp at hk
    · rename_i dts par ws big nd hc
      split at hk
      · simp at hk
      · split at hk
        · simp at hk
        · rename_i bits hb
          simp only [Except.ok.injEq] at hk
          subst hk
          exact ⟨par, nd, hc, hb⟩

/-- a successful DATA stage, with the `$TOT` it used -/
theorem loadData_ok' (file : Bytes) (h : Header) (k : Keywords) (L : Loaded) (hL : loadData file h k = .ok L) :
    ∃ db de tot : Int, dataOffsets h k.text = .ok (db, de) ∧ intKw k.text "$TOT" = .ok tot ∧ 0 ≤ db ∧ 0 ≤ de ∧ 0 ≤ tot ∧
      readData file db.toNat de.toNat (dtypeOf k.dts) tot.toNat (k.ws.map Int.toNat) k.big (some (k.bits.map (·.getD 0))) = .ok L.data := by
  unfold loadData at hL
  split at hL
  · simp at hL
  · rename_i db de hoff
    split at hL
    · simp at hL
    · rename_i tot htot
      split at hL
      · simp at hL
      · rename_i hneg
        split at hL
        · simp at hL
        · split at hL
          · simp at hL
          · simp only [] at hL
            split at hL
            · simp at hL
            · rename_i data hdata
              simp only [Except.ok.injEq] at hL
              subst hL
              simp only [Bool.or_eq_true, decide_eq_true_eq, not_or] at hneg
              exact ⟨db, de, tot, hoff, htot, by omega, by omega, by omega, hdata⟩

/-- **A file that loads physically contains every byte of its events**: the `$TOT`·(event size) bytes that follow the declared
beginning of DATA lie inside the file. -/
theorem loaded_file_contains_its_events (file : Bytes) (L : Loaded) (hL : loadFile file = .ok L) :
    ∃ (h : Header) (t : Dict × Option Nat × Bool) (k : Keywords) (db de tot : Int), parseHeader file = .ok h ∧
      readTextSeg file h.textBegin h.textEnd none false = .ok t ∧ loadKeywords file h t = .ok k ∧
      dataOffsets h k.text = .ok (db, de) ∧ intKw k.text "$TOT" = .ok tot ∧
      db.toNat + totalBytes (dtypeOf k.dts) tot.toNat (k.ws.map Int.toNat) ≤ file.length := by
  obtain ⟨h, t, k, hh, ht, hk, hd⟩ := loadFile_ok file L hL
  obtain ⟨db, de, tot, hoff, htot, _, _, _, hread⟩ := loadData_ok' file h k L hd
  have hr := readData_ok file db.toNat de.toNat _ _ _ _ _ _ hread
  exact ⟨h, t, k, db, de, tot, hh, ht, hk, hoff, htot, hr.2.1⟩

/-- **Any cut that removes a byte of the events is refused.**  If the intact file's keywords pass the layout checks, and the cut leaves the HEADER, the
primary TEXT segment and the declared supplemental TEXT segment intact, then a cut anywhere before the end of the last event
(`n < begin of DATA + $TOT · event size`) makes the load fail — whichever end-offset convention the file uses, wherever its offsets are
declared. -/
theorem cut_inside_events_fails (file : Bytes) (n : Nat)
    (h : Header) (t : Dict × Option Nat × Bool) (k : Keywords) (db de tot : Int) (h58 : 58 ≤ n)
    (hh : parseHeader file = .ok h) (ht : readTextSeg file h.textBegin h.textEnd none false = .ok t)
    (hk : loadKeywords file h t = .ok k)
    (htb : 0 ≤ h.textBegin) (hte : h.textBegin ≤ h.textEnd) (htn : h.textEnd + 1 ≤ n)
    (hs : ∀ sb se, intKw t.1 "$BEGINSTEXT" = .ok sb → intKw t.1 "$ENDSTEXT" = .ok se → sb ≠ 0 → se ≠ 0 → 0 ≤ sb ∧ sb ≤ se ∧ se + 1 ≤ n)
    (hoff : dataOffsets h k.text = .ok (db, de)) (htot : intKw k.text "$TOT" = .ok tot)
    (hcut : n < db.toNat + totalBytes (dtypeOf k.dts) tot.toNat (k.ws.map Int.toNat)) :
    ∃ err, loadFile (file.take n) = .error err := by
  cases hL' : loadFile (file.take n) with
  | error err => exact ⟨err, rfl⟩
  | ok L' =>
    exfalso
    obtain ⟨h2, t2, k2, db2, de2, tot2, hh2, ht2, hk2, hoff2, htot2, hlen⟩ := loaded_file_contains_its_events _ L' hL'
    rw [parseHeader_take file n h58, hh] at hh2; cases hh2
    rw [readTextSeg_take file n h.textBegin h.textEnd none false htb hte htn, ht] at ht2; cases ht2
    obtain ⟨w1, hm1⟩ := FlowCal.C14.loadKeywords_text file h t k hk
    obtain ⟨w2, hm2⟩ := FlowCal.C14.loadKeywords_text _ h t k2 hk2
    rw [mergeText_take file n h t hs, hm1] at hm2
    have hkt : k2.text = k.text := by
      have := Except.ok.inj hm2
      exact (Prod.mk.inj this).1.symm
    obtain ⟨par1, nd1, hc1, _⟩ := loadKeywords_layout file h t k hk
    obtain ⟨par2, nd2, hc2, _⟩ := loadKeywords_layout _ h t k2 hk2
    rw [hkt, hc1] at hc2
    have hc := Except.ok.inj hc2
    simp only [Prod.mk.injEq] at hc
    obtain ⟨hdts, _, hws, _, _⟩ := hc
    rw [hkt, hoff] at hoff2; cases hoff2
    rw [hkt, htot] at htot2; cases htot2
    rw [← hdts, ← hws] at hlen
    simp only [List.length_take] at hlen
    omega

/-- the tiny file of C16c, cut at `n = 155 = dataEnd` (one byte short under its last-byte convention): outside
`cut_before_data_end_fails`, inside this theorem (`154 + 2·1 = 156 > 155`) -/
example : 155 < (154 : Int).toNat + totalBytes DType.I (2 : Int).toNat ([8].map id) := by decide

end FlowCal.C16
