import Properties.C20
/-!
# C20 (continued) — every state an analysis can reach

Analysis steps (channel slicing, event slicing, unit conversion, gating) replace the *values* of attributes — per-channel lists are
re-indexed, ranges are pushed through a conversion law — but never add or remove an attribute.  Such steps are modelled as arbitrary
value updates `upd : String → V → V` applied to every attribute; the theorems below hold for every such step and every history of them,
so the pickle round trip and the copy / view propagation hold at every reachable state, not only at the freshly loaded one.
-/
namespace FlowCal.C20
open FlowCal.Generated FlowCal.Pickle

/-- one analysis step on the metadata: every attribute keeps its name and gets a new value that may depend on the attribute -/
def stepMeta {V : Type} (upd : String → V → V) (s : State V) : State V := s.map (fun kv => (kv.1, upd kv.1 kv.2))

/-- a history of analysis steps -/
def runMeta {V : Type} (ops : List (String → V → V)) (s : State V) : State V := ops.foldl (fun st u => stepMeta u st) s

theorem stepMeta_wellFormed {V : Type} (upd : String → V → V) (s : State V) (h : WellFormed s) : WellFormed (stepMeta upd s) := by
  unfold WellFormed stepMeta at *
  rw [List.map_map]
  exact h

theorem runMeta_wellFormed {V : Type} (ops : List (String → V → V)) (s : State V) (h : WellFormed s) : WellFormed (runMeta ops s) := by
  induction ops generalizing s with
  | nil => exact h
  | cons u ops ih => exact ih _ (stepMeta_wellFormed u s h)

/-- **Pickling survives any analysis history**: whatever sequence of value-replacing steps led to the state, `__setstate__` restores
from `__reduce__` exactly that state. -/
theorem setstate_reduce_reachable {V : Type} (ops : List (String → V → V)) (s : State V) (h : WellFormed s) :
    setstate (reduce (runMeta ops s)) = some (runMeta ops s) :=
  setstate_reduce _ (runMeta_wellFormed ops s h)

/-- **Copy / view / slice propagation survives any analysis history** -/
theorem finalize_reachable {V : Type} (ops : List (String → V → V)) (s : State V) (h : WellFormed s) :
    finalize (runMeta ops s) = runMeta ops s :=
  finalize_id _ (runMeta_wellFormed ops s h)

/-- a pickle of a reachable state carries every attribute: nothing falls back to a loaded default -/
theorem reduce_reachable_complete {V : Type} (ops : List (String → V → V)) (s : State V) (h : WellFormed s) (a : String) (ha : a ∈ sampleFields) :
    ∃ v, get (runMeta ops s) a = some v ∧ get (reduce (runMeta ops s)) a = some (some v) := by
  have hw := runMeta_wellFormed ops s h
  generalize runMeta ops s = t at hw
  unfold WellFormed at hw
  simp only [sampleFields] at hw ha
  match t, hw with
  | [(k1,v1),(k2,v2),(k3,v3),(k4,v4),(k5,v5),(k6,v6),(k7,v7),(k8,v8),(k9,v9),(k10,v10),(k11,v11),(k12,v12),(k13,v13),(k14,v14)], hw =>
    simp at hw
    obtain ⟨rfl, rfl, rfl, rfl, rfl, rfl, rfl, rfl, rfl, rfl, rfl, rfl, rfl, rfl⟩ := hw
    simp only [List.mem_cons, List.not_mem_nil, or_false] at ha
    rcases ha with rfl | rfl | rfl | rfl | rfl | rfl | rfl | rfl | rfl | rfl | rfl | rfl | rfl | rfl <;>
      simp [reduce, reduceFields, Pickle.get, List.find?]

/-- non-vacuity: two steps (a re-indexing of per-channel attributes, a range conversion) on a concrete state -/
example : WellFormed (runMeta [fun k v => if k = "range" then v + 1 else v, fun k v => if k = "channels" then 2 * v else v]
    (sampleFields.map (fun a => (a, a.length)))) :=
  runMeta_wellFormed _ _ (by simp [WellFormed, List.map_map, Function.comp_def])

end FlowCal.C20
