import FlowCalModel.Pickle
/-!
# C20 — A sample survives copying, viewing and pickling in any analysis state

Theorems over the field tables regenerated from /repo on every run.
-/
namespace FlowCal.C20
open FlowCal.Generated FlowCal.Pickle

/-- Every attribute `__new__` puts on a sample is a field of the pickle state, packed
from that same attribute and restored into that same attribute; and
`__array_finalize__` copies exactly those attributes. (Generated facts; `decide`.) -/
theorem field_tables_coincide :
    pickleFields = sampleFields ∧
    reduceFields = sampleFields.map (fun a => (a, a)) ∧
    setstatePairs = sampleFields.map (fun a => (a, a)) ∧
    finalizeFields = sampleFields ∧
    sampleFields.Nodup := by decide

theorem get_cons_self {V : Type} (k : String) (v : V) (s : State V) : get ((k, v) :: s) k = some v := by
  simp [Pickle.get, List.find?]

theorem get_cons_ne {V : Type} (k k' : String) (v : V) (s : State V) (h : k' ≠ k) :
    get ((k', v) :: s) k = get s k := by
  have : (k' == k) = false := by simpa using h
  simp [Pickle.get, List.find?, this]

/-- **Pickle round trip**: for every well-formed state — whatever values earlier
operations (channel slicing, unit conversion, gating) have put into the
attributes — `__setstate__ (__reduce__ s) = s`. -/
theorem setstate_reduce {V : Type} (s : State V) (h : WellFormed s) : setstate (reduce s) = some s := by
  unfold WellFormed at h
  -- destructure s into its 14 entries
  simp only [sampleFields] at h
  match s, h with
  | [(k1,v1),(k2,v2),(k3,v3),(k4,v4),(k5,v5),(k6,v6),(k7,v7),(k8,v8),(k9,v9),(k10,v10),(k11,v11),(k12,v12),(k13,v13),(k14,v14)], h =>
    simp at h
    obtain ⟨rfl, rfl, rfl, rfl, rfl, rfl, rfl, rfl, rfl, rfl, rfl, rfl, rfl, rfl⟩ := h
    simp [setstate, reduce, reduceFields, setstatePairs, Pickle.get, List.find?]

/-- **Copy / view / slice** (`__array_finalize__`): every attribute of a well-formed
state is carried over unchanged. -/
theorem finalize_id {V : Type} (s : State V) (h : WellFormed s) : finalize s = s := by
  unfold WellFormed at h
  simp only [sampleFields] at h
  match s, h with
  | [(k1,v1),(k2,v2),(k3,v3),(k4,v4),(k5,v5),(k6,v6),(k7,v7),(k8,v8),(k9,v9),(k10,v10),(k11,v11),(k12,v12),(k13,v13),(k14,v14)], h =>
    simp at h
    obtain ⟨rfl, rfl, rfl, rfl, rfl, rfl, rfl, rfl, rfl, rfl, rfl, rfl, rfl, rfl⟩ := h
    simp [finalize, finalizeFields, Pickle.get, List.find?]

/-- non-vacuity: a concrete well-formed state -/
example : WellFormed (sampleFields.map (fun a => (a, a.length))) := by
  simp [WellFormed, List.map_map, Function.comp_def]

end FlowCal.C20
