import Properties.C01f
/-!
# C01 — the remaining DATA paths at `readData` level (uniform integer widths, single and double precision floats) and the
general whole-file statement: every version, every datatype, both byte orders, DATA offsets from the HEADER or from TEXT
-/
namespace FlowCal.C01
open FlowCal.Data FlowCal.Py FlowCal.File FlowCal.Text

theorem encodeEvents_length (be : Bool) (ws : List Nat) (m : List (List Nat)) (hm : WellFormed ws m) :
    (encodeEvents be ws m).length = m.length * rowBytes ws := by
  induction m with
  | nil => simp [encodeEvents]
  | cons r m ih =>
    have hr := encodeRow_length be ws r (hm r (by simp)).1
    have := ih (fun r' hr' => hm r' (by simp [hr']))
    simp only [encodeEvents, List.flatMap_cons, List.length_append, List.length_cons] at this ⊢
    rw [this, hr, Nat.add_mul]; omega

/-- the size test accepts the extent of a segment of `total` bytes under either end convention -/
theorem sizeOk_segment (b total : Nat) (past : Bool) (hext : 0 < total ∨ past = true) :
    readData.sizeOk b (b + total - (if past then 0 else 1)) total = true := by
  unfold readData.sizeOk
  cases past with
  | true => simp
  | false =>
    simp at hext
    simp
    left
    omega

/-- mapping a segment that lies inside the file hands the decoder exactly the segment's bytes -/
theorem mmap_segment (pre seg post : List Nat) (k : List Nat → List (List Nat)) (hne : pre ≠ []) :
    readData.mmap (pre ++ seg ++ post) pre.length seg.length k = .ok (k seg) := by
  unfold readData.mmap
  have h0 : ((pre ++ seg ++ post).length == 0) = false := by
    simp; intro h; exact absurd h hne
  have hfit : ¬ (pre.length + seg.length > (pre ++ seg ++ post).length) := by simp
  simp only [h0, hfit, Bool.false_eq_true, if_false]
  rw [List.append_assoc, List.drop_left, List.take_left' rfl]

/-- **Reading a uniform-width integer DATA segment out of a file returns exactly the recorded events** (8, 16, 32 or 64 bits
for every parameter; both byte orders; both end conventions; any position in the file). -/
theorem readData_uniform_roundtrip (be : Bool) (D w : Nat) (m : List (List Nat)) (pre post : List Nat) (past : Bool)
    (hw : w = 8 ∨ w = 16 ∨ w = 32 ∨ w = 64) (hD : 0 < D) (hm : WellFormed (List.replicate D w) m) (hne : pre ≠ [])
    (hext : 0 < m.length * rowBytes (List.replicate D w) ∨ past = true) :
    readData (pre ++ encodeEvents be (List.replicate D w) m ++ post) pre.length
      (pre.length + m.length * rowBytes (List.replicate D w) - (if past then 0 else 1)) .I m.length (List.replicate D w) be none = .ok m := by
  have hu : isUniform (List.replicate D w) = true := by
    rcases hw with rfl | rfl | rfl | rfl <;> simp [isUniform, allEq, List.all_replicate]
  have hlen := encodeEvents_length be _ m hm
  have hemp : (List.replicate D w).isEmpty = false := by
    cases D with
    | zero => omega
    | succ D => simp [List.replicate_succ]
  have hhead : (List.replicate D w).headD 0 = w := by
    cases D with
    | zero => omega
    | succ D => simp [List.replicate_succ]
  have htot : m.length * (List.replicate D w).length * ((List.replicate D w).headD 0 / 8) = m.length * rowBytes (List.replicate D w) := by
    rw [hhead, rowBytes_replicate, List.length_replicate, Nat.mul_assoc]
  unfold readData
  simp only
  unfold readData.go
  simp only [hu, hemp, if_true, Bool.false_eq_true, if_false, htot, sizeOk_segment _ _ past hext, Bool.not_true]
  rw [← hlen, mmap_segment pre _ post _ hne]
  have hd := decodeInt_uniform_roundtrip be D w m [] hw hD hm
  simp only [List.append_nil] at hd
  simp [hd, readData.maskFits]

/-- **Reading a floating-point DATA segment returns the recorded bit patterns** (`$DATATYPE` F: 32 bits, D: 64 bits; both byte
orders, both end conventions, any position; the range masks play no role for floats). -/
theorem readData_float_roundtrip (be : Bool) (dbl : Bool) (D : Nat) (m : List (List Nat)) (pre post : List Nat) (past : Bool)
    (bu : Option (List Nat)) (hbu : ∀ l, bu = some l → l.length = D)
    (hm : WellFormed (List.replicate D (if dbl then 64 else 32)) m) (hne : pre ≠ [])
    (hext : 0 < m.length * rowBytes (List.replicate D (if dbl then 64 else 32)) ∨ past = true) :
    readData (pre ++ encodeEvents be (List.replicate D (if dbl then 64 else 32)) m ++ post) pre.length
      (pre.length + m.length * rowBytes (List.replicate D (if dbl then 64 else 32)) - (if past then 0 else 1))
      (if dbl then .D else .F) m.length (List.replicate D (if dbl then 64 else 32)) be bu = .ok m := by
  have hlen := encodeEvents_length be _ m hm
  have hgo : readData.go (pre ++ encodeEvents be (List.replicate D (if dbl then 64 else 32)) m ++ post) pre.length
      (pre.length + m.length * rowBytes (List.replicate D (if dbl then 64 else 32)) - (if past then 0 else 1))
      (if dbl then .D else .F) m.length (List.replicate D (if dbl then 64 else 32)) be bu = .ok m := by
    cases dbl with
    | false =>
      simp only [Bool.false_eq_true, if_false] at hm hext hlen ⊢
      have htot : m.length * (List.replicate D 32).length * 4 = m.length * rowBytes (List.replicate D 32) := by
        rw [rowBytes_replicate, List.length_replicate, Nat.mul_assoc]
      unfold readData.go
      simp only [List.all_replicate, beq_self_eq_true, Bool.not_true, Bool.false_eq_true, if_false, htot,
        sizeOk_segment _ _ past hext]
      rw [← hlen, mmap_segment pre _ post _ hne]
      have := float_rows_roundtrip be D 32 m [] (Or.inl rfl) hm
      simp only [List.append_nil, List.length_replicate] at this ⊢
      rw [this]; simp
    | true =>
      simp only [if_true] at hm hext hlen ⊢
      have htot : m.length * (List.replicate D 64).length * 8 = m.length * rowBytes (List.replicate D 64) := by
        rw [rowBytes_replicate, List.length_replicate, Nat.mul_assoc]
      unfold readData.go
      simp only [List.all_replicate, beq_self_eq_true, Bool.not_true, Bool.false_eq_true, if_false, htot,
        sizeOk_segment _ _ past hext]
      rw [← hlen, mmap_segment pre _ post _ hne]
      have := float_rows_roundtrip be D 64 m [] (Or.inr rfl) hm
      simp only [List.append_nil, List.length_replicate] at this ⊢
      rw [this]; simp
  unfold readData
  cases bu with
  | none => exact hgo
  | some l => simp only [hbu l rfl, List.length_replicate, ne_eq, not_true_eq_false, if_false]; exact hgo

/-! ### the whole of `loadFile`, stage by stage -/

/-- **`loadFile` is the composition of its stages**: when every stage succeeds, the result carries the merged keywords, the ANALYSIS
dictionary, the events `readData` decodes at the offsets `dataOffsets` chooses, and the warnings of the stages in order. -/
theorem loadFile_of_stages (file : Bytes) (h : Header) (t : Dict × Option Nat × Bool) (text : Dict) (warns0 : List String)
    (dts : Bytes) (par : Int) (ws : List Int) (big nd : Bool) (an : Dict) (bad : Bool) (bits : List (Option Nat))
    (db de tot : Int) (data : List (List Nat))
    (hh : parseHeader file = .ok h) (ht : readTextSeg file h.textBegin h.textEnd none false = .ok t)
    (hm : mergeText file h t = .ok (text, warns0)) (hc : checkLayout text = .ok (dts, par, ws, big, nd))
    (ha : readAnalysis file h t.2.1 text = .ok (an, bad)) (hb : readBits text par = .ok bits)
    (ho : dataOffsets h text = .ok (db, de)) (htot : intKw text "$TOT" = .ok tot)
    (h0 : 0 ≤ tot) (h1 : 0 ≤ db) (h2 : 0 ≤ de) (hwn : ∀ w ∈ ws, 0 ≤ w)
    (hbits : dtypeOf dts = .I → ∀ b ∈ bits, b.isSome = true)
    (hread : readData file db.toNat de.toNat (dtypeOf dts) tot.toNat (ws.map Int.toNat) big (some (bits.map (·.getD 0))) = .ok data) :
    loadFile file = .ok ⟨text, an, data, ws.length, dtypeOf dts != .I, widthOf (dtypeOf dts) (ws.map Int.toNat),
      warns0 ++ (if nd then ["nextdata"] else []) ++ (if bad then ["analysis"] else [])⟩ := by
  unfold loadFile
  simp only [hh, ht]
  unfold loadRest loadKeywords
  simp only [hm, hc, ha, hb]
  unfold loadData
  simp only [ho, htot]
  have e1 : (decide (tot < 0) || decide (db < 0) || decide (de < 0)) = false := by
    simp; omega
  have e3 : ws.any (fun x => decide (x < 0)) = false := by
    simp only [List.any_eq_false]
    intro x hx; have := hwn x hx; simp; omega
  have e4 : (dtypeOf dts == DType.I && bits.any Option.isNone) = false := by
    by_cases hI : dtypeOf dts = .I
    · have : bits.any Option.isNone = false := by
        simp only [List.any_eq_false]
        intro b hb'
        have := hbits hI b hb'
        cases b with
        | none => simp at this
        | some v => simp
      simp [this]
    · simp [hI]
  simp only [e1, e3, e4, Bool.false_eq_true, if_false, hread, List.length_map]

/-- the HEADER's DATA offsets win whenever both are non-zero: the keywords are not consulted -/
theorem dataOffsets_header_priority (h : Header) (text : Dict) (hb : h.dataBegin ≠ 0) (he : h.dataEnd ≠ 0) :
    dataOffsets h text = .ok (h.dataBegin, h.dataEnd) := by
  unfold dataOffsets; simp [hb, he]

/-- FCS 3.x: when a HEADER offset is 0, `$BEGINDATA` / `$ENDDATA` are used -/
theorem dataOffsets_text_fallback (h : Header) (text : Dict) (b e : Int) (hz : h.dataBegin = 0 ∨ h.dataEnd = 0)
    (hv : isV3 h.version = true) (hb : intKw text "$BEGINDATA" = .ok b) (he : intKw text "$ENDDATA" = .ok e)
    (hb0 : b ≠ 0) (he0 : e ≠ 0) : dataOffsets h text = .ok (b, e) := by
  unfold dataOffsets
  rcases hz with hz | hz <;> simp [hz, hv, hb, he, hb0, he0]

/-- FCS 2.0 never falls back: a zero HEADER offset is an error -/
theorem dataOffsets_v2_zero (h : Header) (text : Dict) (hz : h.dataBegin = 0 ∨ h.dataEnd = 0) (hv : isV3 h.version = false) :
    dataOffsets h text = .error .ValueError := by
  unfold dataOffsets
  rcases hz with hz | hz <;> simp [hz, hv]

/-- the layout checks succeed for every supported datatype and every supported spelling of the byte order -/
theorem checkLayout_ok_gen (text : Dict) (D : Nat) (wsf : Nat → Int) (dts bo : Bytes) (ndv : Int)
    (hmode : lookup text "$MODE" = .ok (s2l "L")) (hdt : lookup text "$DATATYPE" = .ok dts)
    (hdts : dts = s2l "I" ∨ dts = s2l "F" ∨ dts = s2l "D")
    (hpar : intKw text "$PAR" = .ok (D : Int))
    (hws : ∀ p, p < D → intKw text s!"$P{p+1}B" = .ok (wsf p))
    (h8 : dts = s2l "I" → ∀ p, p < D → wsf p % 8 = 0)
    (hbo : lookup text "$BYTEORD" = .ok bo)
    (hbos : bo = s2l "1,2,3,4" ∨ bo = s2l "4,3,2,1" ∨ bo = s2l "1,2" ∨ bo = s2l "2,1")
    (hnd : intKw text "$NEXTDATA" = .ok ndv) :
    checkLayout text = .ok (dts, (D : Int), (List.range D).map wsf, bo == s2l "4,3,2,1" || bo == s2l "2,1", ndv != 0) := by
  have e1 : (s2l "L" != s2l "L") = false := by decide
  have e2 : (!(dts == s2l "I" || dts == s2l "F" || dts == s2l "D")) = false := by
    rcases hdts with rfl | rfl | rfl <;> decide
  have e4 : (!(bo == s2l "4,3,2,1" || bo == s2l "2,1" || bo == s2l "1,2,3,4" || bo == s2l "1,2")) = false := by
    rcases hbos with rfl | rfl | rfl | rfl <;> decide
  unfold checkLayout
  simp only [bind, Except.bind, hmode, hdt, hpar, hbo, hnd, e1, e2, Bool.false_eq_true, if_false, pure, Except.pure, Int.toNat_natCast]
  rw [forIn_collect (List.range D) _ wsf [] (by
    intro a ha acc
    have := hws a (List.mem_range.mp ha)
    simp only [this])]
  simp only [List.nil_append]
  by_cases hI : dts = s2l "I"
  · have hall : ((List.range D).map wsf).all (fun w => w % 8 == 0) = true := by
      simp only [List.all_eq_true, List.mem_map, List.mem_range]
      rintro w ⟨p, hp, rfl⟩
      simpa using h8 hI p hp
    have e3 : (dts == s2l "I") = true := by simp [hI]
    simp only [e3, if_true, hall, Bool.not_true, Bool.false_eq_true, if_false, e4]
  · have e3 : (dts == s2l "I") = false := by simpa using hI
    simp only [e3, Bool.false_eq_true, if_false, e4]

/-- no supplemental TEXT: FCS 2.0, or FCS 3.x with a zero `$BEGINSTEXT` or `$ENDSTEXT` -/
def NoStext (h : Header) (text : Dict) : Prop :=
  isV3 h.version = false ∨ ∃ sb se, intKw text "$BEGINSTEXT" = .ok sb ∧ intKw text "$ENDSTEXT" = .ok se ∧ (sb = 0 ∨ se = 0)

/-- no ANALYSIS segment: a zero HEADER offset and, for FCS 3.x, a zero `$BEGINANALYSIS` or `$ENDANALYSIS` -/
def NoAnalysis (h : Header) (text : Dict) : Prop :=
  (h.analysisBegin = 0 ∨ h.analysisEnd = 0) ∧
  (isV3 h.version = false ∨ ∃ ab ae, intKw text "$BEGINANALYSIS" = .ok ab ∧ intKw text "$ENDANALYSIS" = .ok ae ∧ (ab = 0 ∨ ae = 0))

theorem mergeText_noStext (file : Bytes) (h : Header) (text : Dict) (dl : Option Nat) (w0 : Bool) (hs : NoStext h text) :
    mergeText file h (text, dl, w0) = .ok (text, if w0 then ["text"] else []) := by
  unfold mergeText
  rcases hs with hv | ⟨sb, se, h1, h2, hz⟩
  · simp [hv]
  · cases hv : isV3 h.version
    · simp
    · rcases hz with rfl | rfl <;> simp [h1, h2]

theorem readAnalysis_none (file : Bytes) (h : Header) (text : Dict) (dl : Option Nat) (ha : NoAnalysis h text) :
    readAnalysis file h dl text = .ok ([], false) := by
  unfold readAnalysis
  obtain ⟨hz, hv⟩ := ha
  have e1 : (h.analysisBegin != 0 && h.analysisEnd != 0) = false := by
    rcases hz with hz | hz <;> simp [hz]
  simp only [e1, Bool.false_eq_true, if_false]
  rcases hv with hv | ⟨ab, ae, h1, h2, hz2⟩
  · simp [hv, pure, Except.pure]
  · cases hv : isV3 h.version
    · simp [pure, Except.pure]
    · rcases hz2 with rfl | rfl <;> simp [h1, h2, bind, Except.bind, pure, Except.pure]

/-- **Keywords that describe the DATA segment make the file load exactly its events** — every version, every supported datatype
and byte-order spelling, DATA offsets from the HEADER or (FCS 3.x, zero HEADER offset) from `$BEGINDATA`/`$ENDDATA`. -/
theorem loadFile_of_keywords_gen (file : Bytes) (h : Header) (text : Dict) (dl : Option Nat) (w0 : Bool)
    (D n : Nat) (wsf : Nat → Int) (rf : Nat → Bytes) (bf : Nat → Option Nat) (dts bo : Bytes) (ndv db de : Int) (events : List (List Nat))
    (hh : parseHeader file = .ok h)
    (ht : readTextSeg file h.textBegin h.textEnd none false = .ok (text, dl, w0))
    (hs : NoStext h text) (ha : NoAnalysis h text)
    (hmode : lookup text "$MODE" = .ok (s2l "L")) (hdt : lookup text "$DATATYPE" = .ok dts)
    (hdts : dts = s2l "I" ∨ dts = s2l "F" ∨ dts = s2l "D")
    (hpar : intKw text "$PAR" = .ok (D : Int))
    (hws : ∀ p, p < D → intKw text s!"$P{p+1}B" = .ok (wsf p)) (h8 : dts = s2l "I" → ∀ p, p < D → wsf p % 8 = 0)
    (hwpos : ∀ p, p < D → 0 ≤ wsf p)
    (hbo : lookup text "$BYTEORD" = .ok bo)
    (hbos : bo = s2l "1,2,3,4" ∨ bo = s2l "4,3,2,1" ∨ bo = s2l "1,2" ∨ bo = s2l "2,1")
    (hnd : intKw text "$NEXTDATA" = .ok ndv)
    (hr : ∀ p, p < D → lookup text s!"$P{p+1}R" = .ok (rf p)) (hb : ∀ p, p < D → rangeBits (rf p) = .ok (bf p))
    (hbI : dts = s2l "I" → ∀ p, p < D → (bf p).isSome = true)
    (ho : dataOffsets h text = .ok (db, de)) (hdb0 : 0 ≤ db) (hde0 : 0 ≤ de)
    (htot : intKw text "$TOT" = .ok (n : Int))
    (hread : readData file db.toNat de.toNat (dtypeOf dts) n ((List.range D).map (fun p => (wsf p).toNat))
      (bo == s2l "4,3,2,1" || bo == s2l "2,1") (some ((List.range D).map (fun p => (bf p).getD 0))) = .ok events) :
    loadFile file = .ok ⟨text, [], events, D, dtypeOf dts != .I, widthOf (dtypeOf dts) ((List.range D).map (fun p => (wsf p).toNat)),
      (if w0 then ["text"] else []) ++ (if ndv != 0 then ["nextdata"] else [])⟩ := by
  have hI : dtypeOf dts = .I → dts = s2l "I" := by
    rcases hdts with rfl | rfl | rfl <;> intro h <;> first | rfl | exact absurd h (by decide)
  have := loadFile_of_stages file h (text, dl, w0) text (if w0 then ["text"] else []) dts D ((List.range D).map wsf)
    (bo == s2l "4,3,2,1" || bo == s2l "2,1") (ndv != 0) [] false ((List.range D).map bf) db de n events hh ht
    (mergeText_noStext file h text dl w0 hs)
    (checkLayout_ok_gen text D wsf dts bo ndv hmode hdt hdts hpar hws h8 hbo hbos hnd)
    (readAnalysis_none file h text dl ha) (readBits_ok text D rf bf hr hb) ho htot (by omega) hdb0 hde0
    (by
      intro w hw
      simp only [List.mem_map, List.mem_range] at hw
      obtain ⟨p, hp, rfl⟩ := hw
      exact hwpos p hp)
    (by
      intro hdI b hb'
      simp only [List.mem_map, List.mem_range] at hb'
      obtain ⟨p, hp, rfl⟩ := hb'
      exact hbI (hI hdI) p hp)
    (by simpa [List.map_map, Function.comp_def] using hread)
  simpa [List.map_map, Function.comp_def] using this

/-- the keywords of `text` describe a list-mode DATA segment of `n` events × `D` parameters: widths `wsf`, ranges `rf` whose bit
counts are `bf`, datatype `dts`, byte order `bo` -/
structure Describes (text : Dict) (D n : Nat) (wsf : Nat → Int) (rf : Nat → Bytes) (bf : Nat → Option Nat) (dts bo : Bytes) (ndv : Int) : Prop where
  mode : lookup text "$MODE" = .ok (s2l "L")
  dt : lookup text "$DATATYPE" = .ok dts
  dts_ok : dts = s2l "I" ∨ dts = s2l "F" ∨ dts = s2l "D"
  par : intKw text "$PAR" = .ok (D : Int)
  ws : ∀ p, p < D → intKw text s!"$P{p+1}B" = .ok (wsf p)
  w8 : dts = s2l "I" → ∀ p, p < D → wsf p % 8 = 0
  wpos : ∀ p, p < D → 0 ≤ wsf p
  byteord : lookup text "$BYTEORD" = .ok bo
  byteords : bo = s2l "1,2,3,4" ∨ bo = s2l "4,3,2,1" ∨ bo = s2l "1,2" ∨ bo = s2l "2,1"
  nd : intKw text "$NEXTDATA" = .ok ndv
  r : ∀ p, p < D → lookup text s!"$P{p+1}R" = .ok (rf p)
  b : ∀ p, p < D → rangeBits (rf p) = .ok (bf p)
  bI : dts = s2l "I" → ∀ p, p < D → (bf p).isSome = true
  tot : intKw text "$TOT" = .ok (n : Int)

/-- big-endian? as `FCSFile.__init__` decides it from `$BYTEORD` -/
def isBig (bo : Bytes) : Bool := bo == s2l "4,3,2,1" || bo == s2l "2,1"

/-- common part of the three whole-file statements -/
theorem loadFile_segment (pre post seg : Bytes) (h : Header) (text : Dict) (dl : Option Nat) (w0 : Bool)
    (D n : Nat) (wsf : Nat → Int) (rf : Nat → Bytes) (bf : Nat → Option Nat) (dts bo : Bytes) (ndv : Int) (m : List (List Nat)) (e : Nat)
    (hfile : parseHeader (pre ++ seg ++ post) = .ok h)
    (ht : readTextSeg (pre ++ seg ++ post) h.textBegin h.textEnd none false = .ok (text, dl, w0))
    (hs : NoStext h text) (ha : NoAnalysis h text) (hd : Describes text D n wsf rf bf dts bo ndv)
    (ho : dataOffsets h text = .ok ((pre.length : Nat), (e : Nat)))
    (hread : readData (pre ++ seg ++ post) pre.length e (dtypeOf dts) n ((List.range D).map (fun p => (wsf p).toNat)) (isBig bo)
      (some ((List.range D).map (fun p => (bf p).getD 0))) = .ok m) :
    ∃ L, loadFile (pre ++ seg ++ post) = .ok L ∧ L.data = m ∧ L.text = text ∧ L.analysis = [] ∧ L.npar = D := by
  refine ⟨_, loadFile_of_keywords_gen _ h text dl w0 D n wsf rf bf dts bo ndv _ _ m hfile ht hs ha hd.mode hd.dt hd.dts_ok hd.par hd.ws hd.w8
    hd.wpos hd.byteord hd.byteords hd.nd hd.r hd.b hd.bI ho (by omega) (by omega) hd.tot ?_, rfl, rfl, rfl, rfl⟩
  simpa [isBig] using hread

/-- **Loading returns exactly the events recorded in the file — mixed-width integer data**, any FCS version, either byte order,
DATA offsets taken from the HEADER or from TEXT, either end convention, anything before and after the DATA segment. -/
theorem loadFile_events_mixed (pre post : Bytes) (h : Header) (text : Dict) (dl : Option Nat) (w0 : Bool)
    (D : Nat) (wsf : Nat → Int) (rf : Nat → Bytes) (bf : Nat → Option Nat) (bo : Bytes) (ndv : Int)
    (m : List (List Nat)) (ws : List Nat) (past : Bool)
    (hwsEq : ws = (List.range D).map (fun p => (wsf p).toNat))
    (hfile : parseHeader (pre ++ encodeEvents (isBig bo) ws m ++ post) = .ok h)
    (ht : readTextSeg (pre ++ encodeEvents (isBig bo) ws m ++ post) h.textBegin h.textEnd none false = .ok (text, dl, w0))
    (hs : NoStext h text) (ha : NoAnalysis h text) (hd : Describes text D m.length wsf rf bf (s2l "I") bo ndv)
    (ho : dataOffsets h text = .ok ((pre.length : Nat), ((pre.length + m.length * rowBytes ws - (if past then 0 else 1) : Nat) : Int)))
    (hne : pre ≠ []) (hext : 0 < m.length * rowBytes ws ∨ past = true)
    (hu : isUniform ws = false) (h64 : ∀ w ∈ ws, w ≤ 64) (hU : ∀ w ∈ ws, w ≤ upcastBits ws) (hpos : ws.foldl max 0 ≠ 0)
    (hwf : WellFormed ws m)
    (hfits : ∀ b ∈ (List.range D).map (fun p => (bf p).getD 0), b ≤ upcastBits ws)
    (hbits : FitsBits ((List.range D).map (fun p => (bf p).getD 0)) m) :
    ∃ L, loadFile (pre ++ encodeEvents (isBig bo) ws m ++ post) = .ok L ∧ L.data = m ∧ L.text = text ∧ L.analysis = [] ∧ L.npar = D := by
  have h8' : ∀ w ∈ ws, w % 8 = 0 := by
    intro w hw
    rw [hwsEq] at hw
    simp only [List.mem_map, List.mem_range] at hw
    obtain ⟨p, hp, rfl⟩ := hw
    have := hd.w8 rfl p hp; have := hd.wpos p hp
    omega
  have hlen : ((List.range D).map (fun p => (bf p).getD 0)).length = ws.length := by rw [hwsEq]; simp
  have hread := readData_mixed_roundtrip_masked (isBig bo) ws _ m pre post past hu h8' h64 hU hwf hne hpos hext hlen hfits hbits
  apply loadFile_segment pre post _ h text dl w0 D m.length wsf rf bf (s2l "I") bo ndv m _ hfile ht hs ha hd ho
  have e2 : dtypeOf (s2l "I") = DType.I := by decide
  rw [e2, ← hwsEq]
  exact hread

/-- **… — uniform integer data** (every parameter 8, 16, 32 or 64 bits wide) -/
theorem loadFile_events_uniform (pre post : Bytes) (h : Header) (text : Dict) (dl : Option Nat) (w0 : Bool)
    (D w : Nat) (rf : Nat → Bytes) (bf : Nat → Option Nat) (bo : Bytes) (ndv : Int)
    (m : List (List Nat)) (past : Bool)
    (hw : w = 8 ∨ w = 16 ∨ w = 32 ∨ w = 64) (hD : 0 < D)
    (hfile : parseHeader (pre ++ encodeEvents (isBig bo) (List.replicate D w) m ++ post) = .ok h)
    (ht : readTextSeg (pre ++ encodeEvents (isBig bo) (List.replicate D w) m ++ post) h.textBegin h.textEnd none false = .ok (text, dl, w0))
    (hs : NoStext h text) (ha : NoAnalysis h text) (hd : Describes text D m.length (fun _ => (w : Int)) rf bf (s2l "I") bo ndv)
    (ho : dataOffsets h text = .ok ((pre.length : Nat),
      ((pre.length + m.length * rowBytes (List.replicate D w) - (if past then 0 else 1) : Nat) : Int)))
    (hne : pre ≠ []) (hext : 0 < m.length * rowBytes (List.replicate D w) ∨ past = true)
    (hwf : WellFormed (List.replicate D w) m)
    (hfits : ∀ b ∈ (List.range D).map (fun p => (bf p).getD 0), b ≤ w)
    (hbits : FitsBits ((List.range D).map (fun p => (bf p).getD 0)) m) :
    ∃ L, loadFile (pre ++ encodeEvents (isBig bo) (List.replicate D w) m ++ post) = .ok L ∧ L.data = m ∧ L.text = text ∧ L.analysis = [] ∧ L.npar = D := by
  have hws : (List.range D).map (fun _ => ((w : Int)).toNat) = List.replicate D w := by
    apply List.ext_getElem <;> simp
  have hu : isUniform (List.replicate D w) = true := by
    rcases hw with rfl | rfl | rfl | rfl <;> simp [isUniform, allEq, List.all_replicate]
  have hhead : (List.replicate D w).headD 0 = w := by
    cases D with
    | zero => omega
    | succ D => simp [List.replicate_succ]
  have hread := readData_masked_id _ _ _ _ _ ((List.range D).map (fun p => (bf p).getD 0)) _ m
    (readData_uniform_roundtrip (isBig bo) D w m pre post past hw hD hwf hne hext) (by simp)
    (by intro x hx; rw [hu]; simp only [if_true]; rw [hhead]; exact hfits x hx) hbits
  apply loadFile_segment pre post _ h text dl w0 D m.length (fun _ => (w : Int)) rf bf (s2l "I") bo ndv m _ hfile ht hs ha hd ho
  have e2 : dtypeOf (s2l "I") = DType.I := by decide
  rw [e2, hws]
  exact hread

/-- **… — floating-point data** (`$DATATYPE` F with 32-bit or D with 64-bit parameters): the recorded bit patterns come back -/
theorem loadFile_events_float (pre post : Bytes) (h : Header) (text : Dict) (dl : Option Nat) (w0 : Bool)
    (D : Nat) (dbl : Bool) (rf : Nat → Bytes) (bf : Nat → Option Nat) (bo : Bytes) (ndv : Int)
    (m : List (List Nat)) (past : Bool)
    (hfile : parseHeader (pre ++ encodeEvents (isBig bo) (List.replicate D (if dbl then 64 else 32)) m ++ post) = .ok h)
    (ht : readTextSeg (pre ++ encodeEvents (isBig bo) (List.replicate D (if dbl then 64 else 32)) m ++ post) h.textBegin h.textEnd none false
      = .ok (text, dl, w0))
    (hs : NoStext h text) (ha : NoAnalysis h text)
    (hd : Describes text D m.length (fun _ => ((if dbl then 64 else 32 : Nat) : Int)) rf bf (if dbl then s2l "D" else s2l "F") bo ndv)
    (ho : dataOffsets h text = .ok ((pre.length : Nat),
      ((pre.length + m.length * rowBytes (List.replicate D (if dbl then 64 else 32)) - (if past then 0 else 1) : Nat) : Int)))
    (hne : pre ≠ []) (hext : 0 < m.length * rowBytes (List.replicate D (if dbl then 64 else 32)) ∨ past = true)
    (hwf : WellFormed (List.replicate D (if dbl then 64 else 32)) m) :
    ∃ L, loadFile (pre ++ encodeEvents (isBig bo) (List.replicate D (if dbl then 64 else 32)) m ++ post) = .ok L ∧ L.data = m ∧ L.text = text
      ∧ L.analysis = [] ∧ L.npar = D := by
  have hws : (List.range D).map (fun _ => (((if dbl then 64 else 32 : Nat) : Int)).toNat) = List.replicate D (if dbl then 64 else 32) := by
    cases dbl <;> apply List.ext_getElem <;> simp
  have hread := readData_float_roundtrip (isBig bo) dbl D m pre post past (some ((List.range D).map (fun p => (bf p).getD 0)))
    (by intro l hl; cases hl; simp) hwf hne hext
  apply loadFile_segment pre post _ h text dl w0 D m.length _ rf bf _ bo ndv m _ hfile ht hs ha hd ho
  have e2 : dtypeOf (if dbl then s2l "D" else s2l "F") = (if dbl then DType.D else DType.F) := by cases dbl <;> decide
  rw [e2, hws]
  exact hread

/-! ### the hypotheses are jointly satisfiable: a complete 349-byte FCS3.0 file of the independent writer — big-endian single
precision floats (one of them a NaN pattern), DATA offsets only in TEXT (zero HEADER offsets), `|` as delimiter, three padding bytes
before and two after the DATA segment -/

def floatPre : List Nat := [70, 67, 83, 51, 46, 48, 32, 32, 32, 32, 32, 32, 32, 32, 32, 32, 53, 56, 32, 32, 32, 32, 32, 51, 50, 55, 32, 32, 32, 32, 32, 32, 32, 48, 32, 32, 32,
  32, 32, 32, 32, 48, 32, 32, 32, 32, 32, 32, 32, 48, 32, 32, 32, 32, 32, 32, 32, 48, 124, 36, 66, 69, 71, 73, 78, 65, 78, 65, 76, 89, 83, 73, 83, 124,
  48, 48, 48, 48, 48, 48, 48, 48, 48, 48, 124, 36, 69, 78, 68, 65, 78, 65, 76, 89, 83, 73, 83, 124, 48, 48, 48, 48, 48, 48, 48, 48, 48, 48, 124, 36,
  66, 69, 71, 73, 78, 83, 84, 69, 88, 84, 124, 48, 48, 48, 48, 48, 48, 48, 48, 48, 48, 124, 36, 69, 78, 68, 83, 84, 69, 88, 84, 124, 48, 48, 48, 48,
  48, 48, 48, 48, 48, 48, 124, 36, 66, 69, 71, 73, 78, 68, 65, 84, 65, 124, 48, 48, 48, 48, 48, 48, 48, 51, 51, 49, 124, 36, 69, 78, 68, 68, 65, 84,
  65, 124, 48, 48, 48, 48, 48, 48, 48, 51, 52, 54, 124, 36, 66, 89, 84, 69, 79, 82, 68, 124, 52, 44, 51, 44, 50, 44, 49, 124, 36, 68, 65, 84, 65, 84,
  89, 80, 69, 124, 70, 124, 36, 77, 79, 68, 69, 124, 76, 124, 36, 78, 69, 88, 84, 68, 65, 84, 65, 124, 48, 124, 36, 80, 65, 82, 124, 50, 124, 36, 84,
  79, 84, 124, 50, 124, 36, 80, 49, 66, 124, 51, 50, 124, 36, 80, 49, 78, 124, 65, 124, 36, 80, 49, 82, 124, 49, 48, 50, 52, 124, 36, 80, 49, 69, 124,
  48, 44, 48, 124, 36, 80, 50, 66, 124, 51, 50, 124, 36, 80, 50, 78, 124, 66, 124, 36, 80, 50, 82, 124, 50, 54, 50, 49, 52, 52, 124, 36, 80, 50, 69,
  124, 48, 44, 48, 124, 32, 32, 32]

def floatEvents : List (List Nat) := [[1069547520, 3222274048], [2143289344, 1]]

def floatHeader : Header := ⟨[70, 67, 83, 51, 46, 48], 58, 327, 0, 0, 0, 0⟩

def floatText : Dict := [(s2l "$BEGINANALYSIS", s2l "0000000000"), (s2l "$ENDANALYSIS", s2l "0000000000"), (s2l "$BEGINSTEXT", s2l "0000000000"), (s2l "$ENDSTEXT", s2l "0000000000"), (s2l "$BEGINDATA", s2l "0000000331"), (s2l "$ENDDATA", s2l "0000000346"), (s2l "$BYTEORD", s2l "4,3,2,1"), (s2l "$DATATYPE", s2l "F"), (s2l "$MODE", s2l "L"), (s2l "$NEXTDATA", s2l "0"), (s2l "$PAR", s2l "2"), (s2l "$TOT", s2l "2"), (s2l "$P1B", s2l "32"), (s2l "$P1N", s2l "A"), (s2l "$P1R", s2l "1024"), (s2l "$P1E", s2l "0,0"), (s2l "$P2B", s2l "32"), (s2l "$P2N", s2l "B"), (s2l "$P2R", s2l "262144"), (s2l "$P2E", s2l "0,0")]

def floatFile : List Nat := floatPre ++ encodeEvents (isBig (s2l "4,3,2,1")) (List.replicate 2 (if false then 64 else 32)) floatEvents ++ [32, 32]

theorem floatFile_text : readTextSeg floatFile 58 327 none false = .ok (floatText, some 124, false) := by decide +kernel

/-- the theorem, not evaluation, gives the load of the concrete file -/
theorem floatFile_loads : ∃ L, loadFile floatFile = .ok L ∧ L.data = floatEvents ∧ L.text = floatText ∧ L.analysis = [] ∧ L.npar = 2 := by
  have hh : parseHeader floatFile = .ok floatHeader := by decide +kernel
  refine loadFile_events_float floatPre [32, 32] floatHeader floatText (some 124) false 2 false
    (fun p => if p = 0 then s2l "1024" else s2l "262144") (fun p => if p = 0 then some 10 else some 18) (s2l "4,3,2,1") 0 floatEvents false
    hh floatFile_text (Or.inr ⟨0, 0, by decide +kernel, by decide +kernel, Or.inl rfl⟩)
    ⟨Or.inl rfl, Or.inr ⟨0, 0, by decide +kernel, by decide +kernel, Or.inl rfl⟩⟩
    ⟨by decide +kernel, by decide +kernel, Or.inr (Or.inl rfl), by decide +kernel,
      by intro p hp; interval_cases p <;> decide +kernel, by intro h; exact absurd h (by decide),
      by intro p hp; simp, by decide +kernel, Or.inr (Or.inl rfl), by decide +kernel,
      by intro p hp; interval_cases p <;> decide +kernel, by intro p hp; interval_cases p <;> decide +kernel,
      by intro h; exact absurd h (by decide), by decide +kernel⟩
    (by decide +kernel) (by decide) (Or.inl (by decide)) ?_
  intro r hr
  simp only [floatEvents, List.mem_cons, List.not_mem_nil, or_false] at hr
  rcases hr with rfl | rfl <;> refine ⟨rfl, ?_⟩ <;> intro p hp <;> simp at hp <;> rcases hp with rfl | rfl <;> decide

/-- the file as the independent writer produced it (corpus/C01 checks the bytes against the writer and replays them on the real reader) -/
def floatFileBytes : List Nat := [70, 67, 83, 51, 46, 48, 32, 32, 32, 32, 32, 32, 32, 32, 32, 32, 53, 56, 32, 32, 32, 32, 32, 51, 50, 55, 32, 32, 32, 32, 32, 32, 32, 48, 32, 32, 32,
  32, 32, 32, 32, 48, 32, 32, 32, 32, 32, 32, 32, 48, 32, 32, 32, 32, 32, 32, 32, 48, 124, 36, 66, 69, 71, 73, 78, 65, 78, 65, 76, 89, 83, 73, 83, 124,
  48, 48, 48, 48, 48, 48, 48, 48, 48, 48, 124, 36, 69, 78, 68, 65, 78, 65, 76, 89, 83, 73, 83, 124, 48, 48, 48, 48, 48, 48, 48, 48, 48, 48, 124, 36,
  66, 69, 71, 73, 78, 83, 84, 69, 88, 84, 124, 48, 48, 48, 48, 48, 48, 48, 48, 48, 48, 124, 36, 69, 78, 68, 83, 84, 69, 88, 84, 124, 48, 48, 48, 48,
  48, 48, 48, 48, 48, 48, 124, 36, 66, 69, 71, 73, 78, 68, 65, 84, 65, 124, 48, 48, 48, 48, 48, 48, 48, 51, 51, 49, 124, 36, 69, 78, 68, 68, 65, 84,
  65, 124, 48, 48, 48, 48, 48, 48, 48, 51, 52, 54, 124, 36, 66, 89, 84, 69, 79, 82, 68, 124, 52, 44, 51, 44, 50, 44, 49, 124, 36, 68, 65, 84, 65, 84,
  89, 80, 69, 124, 70, 124, 36, 77, 79, 68, 69, 124, 76, 124, 36, 78, 69, 88, 84, 68, 65, 84, 65, 124, 48, 124, 36, 80, 65, 82, 124, 50, 124, 36, 84,
  79, 84, 124, 50, 124, 36, 80, 49, 66, 124, 51, 50, 124, 36, 80, 49, 78, 124, 65, 124, 36, 80, 49, 82, 124, 49, 48, 50, 52, 124, 36, 80, 49, 69, 124,
  48, 44, 48, 124, 36, 80, 50, 66, 124, 51, 50, 124, 36, 80, 50, 78, 124, 66, 124, 36, 80, 50, 82, 124, 50, 54, 50, 49, 52, 52, 124, 36, 80, 50, 69,
  124, 48, 44, 48, 124, 32, 32, 32, 63, 192, 0, 0, 192, 16, 0, 0, 127, 192, 0, 0, 0, 0, 0, 1, 32, 32]

theorem floatFile_eq : floatFile = floatFileBytes := by decide +kernel

end FlowCal.C01
