import Properties.C18
import Mathlib.Topology.Order.IntermediateValue
import Mathlib.Analysis.SpecialFunctions.Log.Basic
/-!
# C18 (continued) — the parameter `p` of the logicle transform exists and is unique
-/
namespace FlowCal.C18
open FlowCal.Logicle

theorem Wf_real (p : ℝ) : Wf p = 2 * p / (p + 1) * Real.logb 10 p := rfl

theorem Wf_continuousOn : ContinuousOn (Wf : ℝ → ℝ) (Set.Ici 1) := by
  have h1 : ContinuousOn (fun p : ℝ => 2 * p / (p + 1)) (Set.Ici 1) := by
    apply ContinuousOn.div
    · exact (continuous_const.mul continuous_id).continuousOn
    · exact (continuous_id.add continuous_const).continuousOn
    · intro x hx; simp only [Set.mem_Ici] at hx; show id x + 1 ≠ 0; simp only [id]; linarith
  have h2 : ContinuousOn (fun p : ℝ => Real.logb 10 p) (Set.Ici 1) := by
    unfold Real.logb
    apply ContinuousOn.div_const
    apply Real.continuousOn_log.mono
    intro x hx; simp only [Set.mem_Ici] at hx; simp only [Set.mem_compl_iff, Set.mem_singleton_iff]; linarith
  exact h1.mul h2

/-- `Wf` grows without bound: at `p = 10^(W+1)` it is already at least `W + 1` -/
theorem Wf_large (W : ℝ) (hW : 0 ≤ W) : W ≤ Wf ((10 : ℝ) ^ (W + 1)) := by
  rw [Wf_real]
  have hp : (1 : ℝ) ≤ (10 : ℝ) ^ (W + 1) := Real.one_le_rpow (by norm_num) (by linarith)
  have hlog : Real.logb 10 ((10 : ℝ) ^ (W + 1)) = W + 1 := Real.logb_rpow (by norm_num) (by norm_num)
  rw [hlog]
  have hfrac : 1 ≤ 2 * (10 : ℝ) ^ (W + 1) / ((10 : ℝ) ^ (W + 1) + 1) := by
    rw [le_div_iff₀ (by linarith)]
    linarith
  nlinarith

/-- **Existence and uniqueness of `p`**: for every `W ≥ 0` there is exactly one `p ≥ 1` with
`W = 2p·log10(p)/(p+1)`, so "p solving the equation" in the definition of the logicle transform is well defined. -/
theorem exists_unique_p (W : ℝ) (hW : 0 ≤ W) : ∃! p : ℝ, 1 ≤ p ∧ Wf p = W := by
  have hb : (1 : ℝ) ≤ (10 : ℝ) ^ (W + 1) := Real.one_le_rpow (by norm_num) (by linarith)
  have hcont : ContinuousOn (Wf : ℝ → ℝ) (Set.Icc 1 ((10 : ℝ) ^ (W + 1))) :=
    Wf_continuousOn.mono (fun x hx => hx.1)
  have hmem : W ∈ Set.Icc (Wf (1 : ℝ)) (Wf ((10 : ℝ) ^ (W + 1))) := by
    rw [Wf_one]; exact ⟨hW, Wf_large W hW⟩
  obtain ⟨p, hp, hpW⟩ := intermediate_value_Icc hb hcont hmem
  refine ⟨p, ⟨hp.1, hpW⟩, ?_⟩
  rintro q ⟨hq, hqW⟩
  exact (p_unique W p q hp.1 hq hpW hqW).symm

/-- for `p ≥ 1`: `log10 p ≤ Wf p ≤ 2·log10 p` (the factor `2p/(p+1)` lies in `[1, 2)`) -/
theorem Wf_bounds (p : ℝ) (hp : 1 ≤ p) : Real.logb 10 p ≤ Wf p ∧ Wf p ≤ 2 * Real.logb 10 p := by
  rw [Wf_real]
  have hl : 0 ≤ Real.logb 10 p := Real.logb_nonneg (by norm_num) hp
  have hpos : (0 : ℝ) < p + 1 := by linarith
  have h1 : 1 ≤ 2 * p / (p + 1) := by rw [le_div_iff₀ hpos]; linarith
  have h2 : 2 * p / (p + 1) ≤ 2 := by rw [div_le_iff₀ hpos]; linarith
  constructor
  · calc Real.logb 10 p = 1 * Real.logb 10 p := by ring
      _ ≤ 2 * p / (p + 1) * Real.logb 10 p := mul_le_mul_of_nonneg_right h1 hl
  · exact mul_le_mul_of_nonneg_right h2 hl

/-- **the bracket of the fallback solver** (fix 16): the solution of `Wf p = W`, `p ≥ 1`, lies in `[10^(W/2), 10^W]` -/
theorem p_bracket (W p : ℝ) (hp : 1 ≤ p) (h : Wf p = W) : (10 : ℝ) ^ (W / 2) ≤ p ∧ p ≤ (10 : ℝ) ^ W := by
  obtain ⟨hlo, hhi⟩ := Wf_bounds p hp
  rw [h] at hlo hhi
  have hp0 : 0 < p := by linarith
  have hb : (1 : ℝ) < 10 := by norm_num
  constructor
  · have : W / 2 ≤ Real.logb 10 p := by linarith
    calc (10 : ℝ) ^ (W / 2) ≤ (10 : ℝ) ^ Real.logb 10 p := Real.rpow_le_rpow_of_exponent_le (by norm_num) this
      _ = p := Real.rpow_logb (by norm_num) (by norm_num) hp0
  · calc p = (10 : ℝ) ^ Real.logb 10 p := (Real.rpow_logb (by norm_num) (by norm_num) hp0).symm
      _ ≤ (10 : ℝ) ^ W := Real.rpow_le_rpow_of_exponent_le (by norm_num) hlo

end FlowCal.C18
