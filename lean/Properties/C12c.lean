import Properties.C12
import Mathlib.Analysis.SpecialFunctions.Pow.Real
import Mathlib.Analysis.SpecialFunctions.Log.Basic
/-!
# C12 — the geometric mean: mean-of-logarithms form, root-of-product form, bounds

`stats.gmean` is documented as the geometric mean; SciPy evaluates it as the exponential of the mean logarithm, which is also what the
harness's textbook oracle uses. Over the reals that is the N-th root of the product of the events (`gmeanLog_eq_root_prod`), for every
number of strictly positive events, it lies between the smallest and the largest event (`le_gmeanLog_of_le`, `gmeanLog_le_of_le`) and never exceeds the
arithmetic mean (`gmeanLog_le_mean`; the harness checks `gmean ≤ mean` on the implementation's answers for positive columns).
The two forms differ only in machine arithmetic: the product of a few events of 32-bit magnitude already leaves the 64-bit range
(last example) — the seeded change `C12-m29` evaluated the product in the container's integer type.
-/
namespace FlowCal.C12

/-- the geometric mean as `stats.gmean` (SciPy) computes it: the exponential of the mean logarithm -/
noncomputable def gmeanLog (xs : List ℝ) : ℝ := Real.exp ((xs.map Real.log).sum / xs.length)

theorem log_prod_eq_sum_log (xs : List ℝ) (h : ∀ x ∈ xs, 0 < x) : Real.log xs.prod = (xs.map Real.log).sum := by
  induction xs with
  | nil => simp
  | cons a t ih =>
    have ha : 0 < a := h a (by simp)
    have ht : ∀ x ∈ t, 0 < x := fun x hx => h x (by simp [hx])
    have hp : 0 < t.prod := List.prod_pos ht
    simp only [List.prod_cons, List.map_cons, List.sum_cons]
    rw [Real.log_mul ha.ne' hp.ne', ih ht]

/-- over the reals the mean-of-logarithms form is the N-th root of the product of the events -/
theorem gmeanLog_eq_root_prod (xs : List ℝ) (h : ∀ x ∈ xs, 0 < x) :
    gmeanLog xs = xs.prod ^ ((1 : ℝ) / xs.length) := by
  have hp : 0 < xs.prod := List.prod_pos h
  unfold gmeanLog
  rw [Real.rpow_def_of_pos hp, log_prod_eq_sum_log xs h]
  congr 1
  ring

/-- the geometric mean is at most the largest event -/
theorem gmeanLog_le_of_le (xs : List ℝ) (hne : xs ≠ []) (b : ℝ) (hb : 0 < b) (h : ∀ x ∈ xs, 0 < x ∧ x ≤ b) : gmeanLog xs ≤ b := by
  unfold gmeanLog
  have hlen : (0 : ℝ) < xs.length := by
    have : 0 < xs.length := List.length_pos_of_ne_nil hne
    exact_mod_cast this
  have hs : (xs.map Real.log).sum ≤ xs.length * Real.log b := by
    clear hne hlen
    induction xs with
    | nil => simp
    | cons a t ih =>
      have ha := h a (by simp)
      have := ih (fun x hx => h x (by simp [hx]))
      have hl : Real.log a ≤ Real.log b := Real.log_le_log ha.1 ha.2
      simp only [List.map_cons, List.sum_cons, List.length_cons, Nat.cast_succ]
      nlinarith
  calc Real.exp ((xs.map Real.log).sum / xs.length) ≤ Real.exp (Real.log b) := by
        apply Real.exp_le_exp.mpr
        rw [div_le_iff₀ hlen]; linarith
    _ = b := Real.exp_log hb

/-- the geometric mean is at least the smallest event -/
theorem le_gmeanLog_of_le (xs : List ℝ) (hne : xs ≠ []) (a : ℝ) (ha : 0 < a) (h : ∀ x ∈ xs, a ≤ x) : a ≤ gmeanLog xs := by
  unfold gmeanLog
  have hlen : (0 : ℝ) < xs.length := by
    have : 0 < xs.length := List.length_pos_of_ne_nil hne
    exact_mod_cast this
  have hs : xs.length * Real.log a ≤ (xs.map Real.log).sum := by
    clear hne hlen
    induction xs with
    | nil => simp
    | cons c t ih =>
      have hc := h c (by simp)
      have := ih (fun x hx => h x (by simp [hx]))
      have hl : Real.log a ≤ Real.log c := Real.log_le_log ha hc
      simp only [List.map_cons, List.sum_cons, List.length_cons, Nat.cast_succ]
      nlinarith
  calc a = Real.exp (Real.log a) := (Real.exp_log ha).symm
    _ ≤ Real.exp ((xs.map Real.log).sum / xs.length) := by
        apply Real.exp_le_exp.mpr
        rw [le_div_iff₀ hlen]; linarith

/-- a constant column has that constant as geometric mean -/
theorem gmeanLog_replicate (n : ℕ) (c : ℝ) (hc : 0 < c) : gmeanLog (List.replicate (n + 1) c) = c := by
  apply le_antisymm
  · exact gmeanLog_le_of_le _ (by simp) c hc (fun x hx => by rw [List.eq_of_mem_replicate hx]; exact ⟨hc, le_refl _⟩)
  · exact le_gmeanLog_of_le _ (by simp) c hc (fun x hx => by rw [List.eq_of_mem_replicate hx])

theorem sum_log_le_tangent (xs : List ℝ) (h : ∀ x ∈ xs, 0 < x) (m : ℝ) (hm : 0 < m) :
    (xs.map Real.log).sum ≤ xs.length * Real.log m + (xs.sum - xs.length * m) / m := by
  induction xs with
  | nil => simp
  | cons a t ih =>
    have ha : 0 < a := h a (by simp)
    have iht := ih (fun x hx => h x (by simp [hx]))
    have h1 : Real.log (a / m) ≤ a / m - 1 := Real.log_le_sub_one_of_pos (div_pos ha hm)
    rw [Real.log_div ha.ne' hm.ne'] at h1
    simp only [List.map_cons, List.sum_cons, List.length_cons, Nat.cast_succ]
    have e : (a + t.sum - ((t.length : ℝ) + 1) * m) / m = (a / m - 1) + (t.sum - t.length * m) / m := by
      field_simp; ring
    rw [e]; linarith

/-- the geometric mean never exceeds the arithmetic mean (every number of strictly positive events) -/
theorem gmeanLog_le_mean (xs : List ℝ) (hne : xs ≠ []) (h : ∀ x ∈ xs, 0 < x) : gmeanLog xs ≤ xs.sum / xs.length := by
  have hlen : (0 : ℝ) < xs.length := by
    have : 0 < xs.length := List.length_pos_of_ne_nil hne
    exact_mod_cast this
  have hsum : 0 < xs.sum := by
    cases xs with
    | nil => exact absurd rfl hne
    | cons a t =>
      have ha : 0 < a := h a (by simp)
      have : 0 ≤ t.sum := List.sum_nonneg (fun x hx => (h x (by simp [hx])).le)
      simp only [List.sum_cons]; linarith
  set m := xs.sum / xs.length with hmdef
  have hm : 0 < m := div_pos hsum hlen
  have key := sum_log_le_tangent xs h m hm
  have hz : xs.sum - xs.length * m = 0 := by
    rw [hmdef]; field_simp; ring
  rw [hz, zero_div, add_zero] at key
  unfold gmeanLog
  calc Real.exp ((xs.map Real.log).sum / xs.length) ≤ Real.exp (Real.log m) := by
        apply Real.exp_le_exp.mpr
        rw [div_le_iff₀ hlen]; linarith
    _ = m := Real.exp_log hm

/-- the hypotheses are satisfiable by a non-trivial column -/
example : ([2, 8, 4] : List ℝ) ≠ [] ∧ ∀ x ∈ ([2, 8, 4] : List ℝ), (0 : ℝ) < x ∧ x ≤ 8 := by
  refine ⟨by simp, ?_⟩
  intro x hx
  simp only [List.mem_cons, List.not_mem_nil, or_false] at hx
  rcases hx with rfl | rfl | rfl <;> norm_num

/-- the product of three events of 32-bit magnitude leaves the 64-bit range: a product-based evaluation needs wider arithmetic than the container -/
example : (2 : ℕ) ^ 64 < 3000000000 * 3000000000 * 3000000000 := by norm_num

end FlowCal.C12
