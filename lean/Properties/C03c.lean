import FlowCalModel.Laws
import FlowCalModel.GeneratedExpr
/-!
# C03 — the amplifier laws the source evaluates are the documented ones

`GeneratedExpr.src_rfi_lin` / `src_rfi_log` are regenerated from `transform.to_rfi` on every run (extract/exprs.py);
these theorems re-check that they are the model's laws.
-/
namespace FlowCal.C03
open FlowCal FlowCal.Logicle


/-- the linear law in the source is `x / gain` -/
theorem source_rfi_lin_eq {α : Type} [Div α] (g x : α) : GeneratedExpr.src_rfi_lin g x = Laws.rfiLin g x := rfl

/-- the logarithmic law in the source is `a1 * 10^(a0/r * x)` with the channel's own `a0, a1, r` -/
theorem source_rfi_log_eq {α : Type} [Mul α] [Div α] [Pow10 α] (a0 a1 r x : α) : GeneratedExpr.src_rfi_log a0 a1 r x = Laws.rfiLog a0 a1 r x := rfl

end FlowCal.C03
