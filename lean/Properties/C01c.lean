import Properties.C01b
/-!
# C01 (continued) — uniform-width integers, floats (as bit patterns) and the range mask at the matrix level
-/
namespace FlowCal.C01
open FlowCal.Data FlowCal.Py

theorem rowBytes_replicate (D w : Nat) : rowBytes (List.replicate D w) = D * (w / 8) := by
  induction D with
  | zero => simp [rowBytes]
  | succ D ih => simp only [rowBytes, List.replicate_succ, List.map_cons, List.sum_cons] at ih ⊢; rw [ih]; rw [Nat.succ_mul]; omega

theorem zip_replicate_mem (D w : Nat) (r : List Nat) (p : Nat × Nat) (hp : p ∈ (List.replicate D w).zip r) : p.1 = w ∧ p.2 ∈ r := by
  have h1 := (List.of_mem_zip hp).1
  have h2 := (List.of_mem_zip hp).2
  exact ⟨(List.mem_replicate.mp h1).2, h2⟩

/-- rows of `D` cells of `w` bits decode by `D` aligned reads -/
theorem uniform_rows (be : Bool) (D w : Nat) (m : List (List Nat)) (rest : List Nat)
    (hm : WellFormed (List.replicate D w) m) (h8 : w % 8 = 0) :
    (chunks (rowBytes (List.replicate D w)) m.length (encodeEvents be (List.replicate D w) m ++ rest)).map
      (decodeRowUniform be w D) = m := by
  rw [chunks_encode be _ m rest (fun r hr => (hm r hr).1), List.map_map]
  have : ∀ r ∈ m, (decodeRowUniform be w D ∘ encodeRow be (List.replicate D w)) r = r := by
    intro r hr
    obtain ⟨hl, hv⟩ := hm r hr
    simp at hl
    have hv' : ∀ v ∈ r, v < 256 ^ (w / 8) := by
      intro v hvm
      have h256 : (256 : Nat) ^ (w / 8) = 2 ^ w := by
        rw [show (256 : Nat) = 2 ^ 8 by rfl, ← Nat.pow_mul]; congr 1; omega
      rw [h256]
      obtain ⟨i, hi, rfl⟩ := List.getElem_of_mem hvm
      have hp : (w, r[i]) ∈ (List.replicate D w).zip r := by
        rw [List.mem_iff_getElem]
        refine ⟨i, by simp [hl]; omega, by simp⟩
      exact hv (w, r[i]) hp
    have := decodeRowUniform_encodeRow be w r [] hv'
    simp only [List.append_nil] at this
    simp only [Function.comp]
    rw [hl]
    exact this
  calc List.map (decodeRowUniform be w D ∘ encodeRow be (List.replicate D w)) m = List.map id m := List.map_congr_left this
    _ = m := by simp

/-- **Uniform-width integer DATA segments (8/16/32/64 bits) round-trip at the matrix level.** -/
theorem decodeInt_uniform_roundtrip (be : Bool) (D w : Nat) (m : List (List Nat)) (rest : List Nat)
    (hw : w = 8 ∨ w = 16 ∨ w = 32 ∨ w = 64) (hD : 0 < D) (hm : WellFormed (List.replicate D w) m) :
    decodeInt be (List.replicate D w) m.length (encodeEvents be (List.replicate D w) m ++ rest) none = m := by
  have hu : isUniform (List.replicate D w) = true := by
    rcases hw with rfl | rfl | rfl | rfl <;> simp [isUniform, allEq, List.all_replicate]
  have h8 : w % 8 = 0 := by rcases hw with rfl | rfl | rfl | rfl <;> rfl
  unfold decodeInt
  simp only [hu, if_true]
  have hh : (List.replicate D w).headD 0 = w := by
    cases D with
    | zero => omega
    | succ D => simp [List.replicate_succ]
  simp only [hh, List.length_replicate]
  exact uniform_rows be D w m rest hm h8

/-- **Single- and double-precision DATA segments**: the 32/64-bit patterns of every value are recovered
(the reinterpretation of a pattern as an IEEE number is NumPy's and is trusted). -/
theorem float_rows_roundtrip (be : Bool) (D w : Nat) (m : List (List Nat)) (rest : List Nat)
    (hw : w = 32 ∨ w = 64) (hm : WellFormed (List.replicate D w) m) :
    (chunks ((w / 8) * D) m.length (encodeEvents be (List.replicate D w) m ++ rest)).map (decodeRowUniform be w D) = m := by
  have h8 : w % 8 = 0 := by rcases hw with rfl | rfl <;> rfl
  have := uniform_rows be D w m rest hm h8
  rw [rowBytes_replicate, Nat.mul_comm] at this
  exact this

/-- masking rows: `data[:, col] &= ~((~0) << bits_used)` -/
def maskRows (bu : List Nat) (m : List (List Nat)) : List (List Nat) :=
  m.map (fun r => (r.zip bu).map (fun p => applyMask p.2 p.1))

/-- **Integers are reduced to the low bits implied by the declared range**, and values below the range are untouched. -/
theorem decodeInt_mask (be : Bool) (ws : List Nat) (n : Nat) (bytes : List Nat) (bu : List Nat) :
    decodeInt be ws n bytes (some bu) = maskRows bu (decodeInt be ws n bytes none) := by
  unfold decodeInt maskRows
  simp

theorem maskRows_id (bu : List Nat) (m : List (List Nat))
    (h : ∀ r ∈ m, r.length = bu.length ∧ ∀ p ∈ r.zip bu, p.1 < 2 ^ p.2) : maskRows bu m = m := by
  unfold maskRows
  calc _ = m.map id := by
        apply List.map_congr_left
        intro r hr
        obtain ⟨hl, hv⟩ := h r hr
        apply List.ext_getElem
        · simp [hl]
        · intro i h1 h2
          simp only [List.getElem_map, List.getElem_zip, id]
          apply applyMask_lt
          have : (r[i]'(by simpa using h2), bu[i]'(by simp [hl] at h1; omega)) ∈ r.zip bu := by
            rw [List.mem_iff_getElem]
            exact ⟨i, by simpa using h1, by simp⟩
          exact hv _ this
    _ = m := by simp

end FlowCal.C01
