import Properties.C03
/-!
# C07 — Ranges follow the data through unit changes, so saturation gating commutes
-/
namespace FlowCal.C07
open FlowCal.Transform FlowCal.C03

set_option linter.unusedSectionVars false
set_option linter.unusedSimpArgs false
variable {V : Type} [LT V] [DecidableLT V]

/-- `f` preserves and reflects the strict order (strictly increasing on a linear order) -/
def OrderEmb (f : V → V) : Prop := ∀ a b, a < b ↔ f a < f b

theorem zip_modify (r : List V) (lim : List (V × V)) (c : Nat) (f : V → V) :
    (r.modify c f).zip (lim.modify c (fun p => (f p.1, f p.2))) =
      (r.zip lim).modify c (fun q => (f q.1, f q.2.1, f q.2.2)) := by
  apply List.ext_getElem?
  intro i
  simp only [List.getElem?_zip_eq_some, List.getElem?_modify, List.zip_eq_zipWith]
  by_cases h : c = i
  · subst h
    simp [List.getElem?_zipWith, List.getElem?_modify]
    cases r[c]? <;> cases lim[c]? <;> simp
  · simp [List.getElem?_zipWith, List.getElem?_modify, h]

/-- **Gating commutes with conversion.**  If the converted channel's limits are the images of the
original limits under the same order-preserving function that converts the events, then the default
high/low gate keeps exactly the same events before and after the conversion. -/
theorem gate_convert_comm (s : Ranged V) (c : Nat) (f : V → V) (hf : OrderEmb f) :
    gateRows (convert c f s) = gateRows s := by
  simp only [gateRows, convert, mapCol, List.map_map]
  apply List.map_congr_left
  intro r _
  simp only [Function.comp]
  rw [zip_modify]
  -- `all` over a list with one element modified, where the predicate is invariant under the modification
  have : ∀ (l : List (V × V × V)) (n : Nat),
      (l.modify n (fun q => (f q.1, f q.2.1, f q.2.2))).all (fun x => decide (x.2.1 < x.1) && decide (x.1 < x.2.2))
        = l.all (fun x => decide (x.2.1 < x.1) && decide (x.1 < x.2.2)) := by
    intro l
    induction l with
    | nil => intro n; simp
    | cons q l ih =>
      intro n
      cases n with
      | zero =>
        simp only [List.modify_zero_cons, List.all_cons]
        congr 1
        have h1 := hf q.2.1 q.1
        have h2 := hf q.1 q.2.2
        have e1 : decide (f q.2.1 < f q.1) = decide (q.2.1 < q.1) := by
          by_cases a : q.2.1 < q.1
          · simp [a, h1.mp a]
          · have : ¬ f q.2.1 < f q.1 := fun h => a (h1.mpr h)
            simp [a, this]
        have e2 : decide (f q.1 < f q.2.2) = decide (q.1 < q.2.2) := by
          by_cases a : q.1 < q.2.2
          · simp [a, h2.mp a]
          · have : ¬ f q.1 < f q.2.2 := fun h => a (h2.mpr h)
            simp [a, this]
        simp only [e1, e2]
      | succ n =>
        simp only [List.modify_succ_cons, List.all_cons, ih n]
  simpa using this (r.zip s.limits) c

/-- unconverted channels keep their limits, converted ones get the images of both limits -/
theorem limits_follow (s : Ranged V) (c j : Nat) (f : V → V) :
    (convert c f s).limits[j]? = if c = j then (s.limits[j]?).map (fun p => (f p.1, f p.2)) else s.limits[j]? := by
  simp [convert, List.getElem?_modify]
  by_cases h : c = j <;> simp [h]

/-! Non-vacuity: a 5-event integer column with events at 0, 1, r−2, r−1 (r = 8) -/
example : gateRows (⟨[[0], [1], [3], [6], [7]], [(0, 7)]⟩ : Ranged Int) = [false, true, true, true, false] := by decide
example : gateRows (convert 0 (fun x => 3 * x + 1) (⟨[[0], [1], [3], [6], [7]], [(0, 7)]⟩ : Ranged Int))
    = [false, true, true, true, false] := by decide

end FlowCal.C07
