import Properties.C07b
import Properties.C18
import FlowCalModel.Laws
import FlowCalModel.GeneratedExpr
/-!
# C07 — the laws found in the source are strictly increasing, hence commute with the saturation gate
-/
namespace FlowCal.C07
open FlowCal FlowCal.Logicle

theorem laws_rfiLog_eq (a0 a1 r x : ℝ) : Laws.rfiLog a0 a1 r x = rfiLog a0 a1 r x := rfl
theorem laws_rfiLin_eq (g x : ℝ) : Laws.rfiLin g x = rfiLin g x := rfl

/-- the logarithmic law *as written in the source* is strictly increasing for a genuine log amplifier -/
theorem source_rfi_log_strictMono (a0 a1 r : ℝ) (h0 : 0 < a0) (h1 : 0 < a1) (hr : 0 < r) :
    StrictMono (GeneratedExpr.src_rfi_log a0 a1 r) := by
  have : GeneratedExpr.src_rfi_log a0 a1 r = rfiLog a0 a1 r := by funext x; rfl
  rw [this]; exact rfiLog_strictMono a0 a1 r h0 h1 hr

/-- the linear law *as written in the source* is strictly increasing for a positive gain -/
theorem source_rfi_lin_strictMono (g : ℝ) (hg : 0 < g) : StrictMono (GeneratedExpr.src_rfi_lin g) := by
  have : GeneratedExpr.src_rfi_lin g = rfiLin g := by funext x; rfl
  rw [this]; exact rfiLin_strictMono g hg

/-- converting a channel with the source's logarithmic law (events and limits alike) leaves the saturation gate unchanged -/
theorem gate_comm_source_log (s : FlowCal.Transform.Ranged ℝ) (c : Nat) (a0 a1 r : ℝ) (h0 : 0 < a0) (h1 : 0 < a1) (hr : 0 < r) :
    FlowCal.Transform.gateRows (FlowCal.Transform.convert c (GeneratedExpr.src_rfi_log a0 a1 r) s) = FlowCal.Transform.gateRows s :=
  gate_convert_comm s c _ (orderEmb_of_strictMono _ (source_rfi_log_strictMono a0 a1 r h0 h1 hr))

theorem gate_comm_source_lin (s : FlowCal.Transform.Ranged ℝ) (c : Nat) (g : ℝ) (hg : 0 < g) :
    FlowCal.Transform.gateRows (FlowCal.Transform.convert c (GeneratedExpr.src_rfi_lin g) s) = FlowCal.Transform.gateRows s :=
  gate_convert_comm s c _ (orderEmb_of_strictMono _ (source_rfi_lin_strictMono g hg))

end FlowCal.C07
