import FlowCalModel.Meta
import FlowCalModel.Generated
/-!
# C17 — Acquisition metadata reflects the file's keywords and never blocks loading
-/
namespace FlowCal.C17
open FlowCal.Meta FlowCal.Py

/-- the time step derivation never raises, whatever `$TIMESTEP` / `TIMETICKS` contain -/
theorem timeStep_total (d : Dict) : ∃ v, timeStep d = .ok v := by
  unfold timeStep
  simp only
  cases get d "$TIMESTEP" with
  | some s =>
    simp only [pyFloat, bind, Except.bind]
    by_cases h : pyFloatAccepts s <;> simp [h, pure, Except.pure]
  | none =>
    cases get d "TIMETICKS" with
    | some s =>
      simp only [pyFloat, bind, Except.bind]
      by_cases h : pyFloatAccepts s <;> simp [h, pure, Except.pure]
    | none => simp [pure, Except.pure]

/-- precedence: `$TIMESTEP` wins over `TIMETICKS`; an unparseable value gives an absent attribute -/
theorem timeStep_precedence (d : Dict) (s : Str) (h : get d "$TIMESTEP" = some s) :
    timeStep d = .ok (if pyFloatAccepts s then some ⟨s, false⟩ else none) := by
  unfold timeStep
  simp only [h, pyFloat, bind, Except.bind]
  by_cases hs : pyFloatAccepts s <;> simp [hs, pure, Except.pure]

theorem timeStep_legacy (d : Dict) (s : Str) (h0 : get d "$TIMESTEP" = none) (h : get d "TIMETICKS" = some s) :
    timeStep d = .ok (if pyFloatAccepts s then some ⟨s, true⟩ else none) := by
  unfold timeStep
  simp only [h0, h, pyFloat, bind, Except.bind]
  by_cases hs : pyFloatAccepts s <;> simp [hs, pure, Except.pure]

/-- time strings never raise: missing, unparseable, wrong field count, out-of-range fields all give `none` -/
theorem parseTime_total (v : Option Str) : ∃ r, parseTime v = .ok r := by
  unfold parseTime
  cases v with
  | none => exact ⟨none, rfl⟩
  | some s =>
    simp only
    split
    · split <;> exact ⟨_, rfl⟩
    · split <;> exact ⟨_, rfl⟩
    · exact ⟨_, rfl⟩

theorem moments_total (d : Dict) : ∃ r, moments d = .ok r := by
  unfold moments
  obtain ⟨b, hb⟩ := parseTime_total (get d "$BTIM")
  obtain ⟨e, he⟩ := parseTime_total (get d "$ETIM")
  simp [hb, he, bind, Except.bind, pure, Except.pure]

theorem voltage_total (d : Dict) (i : Nat) : ∃ r, voltage d i = .ok r := by
  unfold voltage
  simp only
  split
  · exact ⟨_, rfl⟩
  · rename_i x _
    simp only [pyFloat]
    by_cases h : pyFloatAccepts x <;> simp [h]

theorem gain_total (d : Dict) (i : Nat) : ∃ r, gain d i = .ok r := by
  unfold gain
  simp only
  split
  · exact ⟨_, rfl⟩
  · rename_i x _
    simp only [pyFloat]
    by_cases h : pyFloatAccepts x <;> simp [h]

theorem mapM_total {α β : Type} (f : α → Except PyErr β) (l : List α) (h : ∀ a, ∃ r, f a = .ok r) :
    ∃ r, l.mapM f = .ok r := by
  induction l with
  | nil => exact ⟨[], rfl⟩
  | cons a l ih =>
    obtain ⟨r1, h1⟩ := h a
    obtain ⟨r2, h2⟩ := ih
    exact ⟨r1 :: r2, by simp [List.mapM_cons, h1, h2, bind, Except.bind, pure, Except.pure]⟩

/-- **Optional keywords never block loading**: for every keyword dictionary and every number of
parameters, deriving the attributes that come from optional keywords (time step, start/end time, date,
detector voltages, amplifier gains with their vendor fallbacks, labels) succeeds. -/
theorem optionalAttrs_total (d : Dict) (npar : Nat) : ∃ a, optionalAttrs d npar = .ok a := by
  unfold optionalAttrs
  obtain ⟨ts, hts⟩ := timeStep_total d
  obtain ⟨be, hbe⟩ := moments_total d
  obtain ⟨vs, hvs⟩ := mapM_total (fun i => voltage d (i + 1)) (List.range npar) (fun i => voltage_total d (i + 1))
  obtain ⟨gs, hgs⟩ := mapM_total (fun i => gain d (i + 1)) (List.range npar) (fun i => gain_total d (i + 1))
  obtain ⟨b, e⟩ := be
  simp [hts, hbe, hvs, hgs, bind, Except.bind, pure, Except.pure]

/-- **The acquisition duration never raises, two time channels excepted**, and follows the documented
precedence: time channel (when a time step exists), else start/end times, else absent. -/
theorem acqSource_spec (names : List (Option Str)) (a : OptionalAttrs) :
    ((timeIdx names).length > 1 → acqSource names a = .error .KeyError) ∧
    ((timeIdx names).length ≤ 1 → ∃ r, acqSource names a = .ok r) ∧
    ((timeIdx names).length = 1 → a.timeStep.isSome → acqSource names a = .ok (.timeChannel ((timeIdx names).headD 0))) ∧
    ((timeIdx names).length = 0 → a.start.isSome → a.stop.isSome → acqSource names a = .ok .startEnd) ∧
    ((timeIdx names).length = 1 → a.timeStep = none → a.start.isSome → a.stop.isSome → acqSource names a = .ok .startEnd) := by
  unfold acqSource
  generalize timeIdx names = idx
  simp only
  refine ⟨?_, ?_, ?_, ?_, ?_⟩
  · intro h; simp [h]
  · intro h
    have : ¬ idx.length > 1 := by omega
    simp only [this, if_false]
    split
    · exact ⟨_, rfl⟩
    · split <;> exact ⟨_, rfl⟩
  · intro h ht; simp [h, ht]
  · intro h hs he; simp [h, hs, he]
  · intro h ht hs he; simp [h, ht, hs, he]

/-! Non-vacuity: concrete keyword values, evaluated by the kernel -/
example : strptimeHMSf (s2l "12:03:09:5") = some ⟨12, 3, 9, 500000⟩ := by decide
example : (parseTime (some (s2l "17:45:23.5"))).toOption = some (some ⟨17, 45, 23, 500000⟩) := by decide
example : (parseTime (some (s2l "25:00:00"))).toOption = some none := by decide
example : (parseTime (some (s2l "12:00:00:xx"))).toOption = some none := by decide
example : parseDate (some (s2l "02-OCT-2015")) = some ⟨2015, 10, 2⟩ := by decide
example : parseDate (some (s2l "15-oct-02")) = some ⟨2002, 10, 15⟩ := by decide
example : parseDate (some (s2l "2015-Oct-31")) = some ⟨2015, 10, 31⟩ := by decide
example : parseDate (some (s2l "31-FEB-2015")) = none := by decide

/-- the keyword names and vendor marks the model reads are the ones `FCSData.__new__` reads in the source now (regenerated on every run) -/
theorem keywords_match_source :
    Generated.sampleKeywords = FlowCal.Meta.keywordsRead ∧ Generated.vendorMarks = FlowCal.Meta.vendorMarksRead := ⟨rfl, rfl⟩

end FlowCal.C17
