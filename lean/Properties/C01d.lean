import FlowCalModel.File
/-!
# C01 / C16 — the HEADER written by a conforming writer is read back exactly

`digitsOf n` is the ASCII decimal numeral of `n`; `field8 n` the right-justified 8-character HEADER field.
-/
namespace FlowCal.C01
open FlowCal.Py FlowCal.File

/-- ASCII decimal numeral, most significant digit first -/
def digitsOf (n : Nat) : List Nat :=
  if h : n < 10 then [48 + n] else digitsOf (n / 10) ++ [48 + n % 10]
termination_by n
decreasing_by omega

theorem digitsOf_lt (n : Nat) (h : n < 10) : digitsOf n = [48 + n] := by
  rw [digitsOf]; simp [h]

theorem digitsOf_ge (n : Nat) (h : 10 ≤ n) : digitsOf n = digitsOf (n / 10) ++ [48 + n % 10] := by
  rw [digitsOf]; simp [Nat.not_lt.mpr h]

theorem digitsOf_isDigit (n : Nat) : ∀ c ∈ digitsOf n, isDigit c = true := by
  induction n using Nat.strongRecOn with
  | _ n ih =>
    by_cases h : n < 10
    · rw [digitsOf_lt n h]; intro c hc; simp at hc; subst hc; simp [isDigit]; omega
    · rw [digitsOf_ge n (by omega)]
      intro c hc
      rcases List.mem_append.mp hc with hc | hc
      · exact ih (n / 10) (by omega) c hc
      · simp at hc; subst hc; simp [isDigit]; omega

theorem digitsOf_ne_nil (n : Nat) : digitsOf n ≠ [] := by
  by_cases h : n < 10
  · rw [digitsOf_lt n h]; simp
  · rw [digitsOf_ge n (by omega)]; simp

/-- the accumulator loop on a run of digits followed by one more digit -/
theorem go_append_digit (acc : Nat) (ds : List Nat) (d : Nat) (hds : ∀ c ∈ ds, isDigit c = true) (hd : isDigit d = true) :
    digitsVal.go acc (ds ++ [d]) = (digitsVal.go acc ds).map (fun a => a * 10 + (d - 48)) := by
  induction ds generalizing acc with
  | nil =>
    have h95 : d ≠ 95 := by intro h; subst h; simp [isDigit] at hd
    simp [digitsVal.go, hd]
  | cons c cs ih =>
    have hc : isDigit c = true := hds c (by simp)
    have hc95 : c ≠ 95 := by intro h; subst h; simp [isDigit] at hc
    have hcs : ∀ x ∈ cs, isDigit x = true := fun x hx => hds x (by simp [hx])
    have step : ∀ (l : List Nat), digitsVal.go acc (c :: l) = digitsVal.go (acc * 10 + (c - 48)) l := by
      intro l
      rw [digitsVal.go.eq_def]
      split
      · rename_i heq; simp at heq
      · rename_i heq; simp at heq; omega
      · rename_i c' rest heq1 heq2
        simp at heq2
        obtain ⟨rfl, rfl⟩ := heq2
        simp [hc]
    rw [List.cons_append, step, step, ih _ hcs]

theorem go_digitsOf_tail (acc n : Nat) (hn : 10 ≤ n) :
    digitsVal.go acc (digitsOf n) = (digitsVal.go acc (digitsOf (n / 10))).map (fun a => a * 10 + n % 10) := by
  rw [digitsOf_ge n hn, go_append_digit acc _ _ (digitsOf_isDigit _) (by simp [isDigit]; omega)]
  congr 1
  funext a
  omega

/-- reading the numeral of `n` gives `n` -/
theorem digitsVal_digitsOf (n : Nat) : digitsVal (digitsOf n) = some n := by
  induction n using Nat.strongRecOn with
  | _ n ih =>
    by_cases h : n < 10
    · rw [digitsOf_lt n h]
      simp [digitsVal, digitsVal.go, isDigit]
      omega
    · have hn : 10 ≤ n := by omega
      have ih' := ih (n / 10) (by omega)
      -- digitsVal on a non-empty digit list is the loop started at its first digit
      have hne := digitsOf_ne_nil (n / 10)
      rw [digitsOf_ge n hn]
      cases hl : digitsOf (n / 10) with
      | nil => exact absurd hl hne
      | cons c cs =>
        have hcd : isDigit c = true := digitsOf_isDigit (n / 10) c (by rw [hl]; simp)
        have hcs : ∀ x ∈ cs, isDigit x = true := fun x hx => digitsOf_isDigit (n / 10) x (by rw [hl]; simp [hx])
        rw [hl] at ih'
        simp only [digitsVal, hcd, Bool.not_true, Bool.false_eq_true, if_false] at ih'
        simp only [List.cons_append, digitsVal, hcd, Bool.not_true, Bool.false_eq_true, if_false]
        rw [go_append_digit _ cs _ hcs (by simp [isDigit]; omega), ih']
        simp
        omega

theorem digitsOf_length_le (k n : Nat) (hk : 0 < k) (h : n < 10 ^ k) : (digitsOf n).length ≤ k := by
  induction k generalizing n with
  | zero => omega
  | succ k ih =>
    by_cases h10 : n < 10
    · rw [digitsOf_lt n h10]; simp
    · rw [digitsOf_ge n (by omega)]
      simp only [List.length_append, List.length_singleton]
      have hk' : 0 < k := by
        rcases Nat.eq_zero_or_pos k with rfl | hpos
        · simp at h; omega
        · exact hpos
      rw [Nat.pow_succ] at h
      have h2 : n / 10 < 10 ^ k := by omega
      have := ih (n / 10) hk' h2
      omega

theorem dropWhile_blanks (sp : Nat → Bool) (hsp : sp 32 = true) (k : Nat) (c : Nat) (cs : List Nat) (hc : sp c = false) :
    (List.replicate k 32 ++ c :: cs).dropWhile sp = c :: cs := by
  induction k with
  | zero => simp [hc]
  | succ k ih => simp [List.replicate_succ, hsp, ih]

/-- a numeral padded with blanks on either side is read as its value, by `int(bytes)` and by `int(str)` -/
theorem pyIntCore_padded (sp : Nat → Bool) (hsp : sp 32 = true) (hdig : ∀ c, isDigit c = true → sp c = false)
    (n a b : Nat) : pyIntCore sp (List.replicate a 32 ++ digitsOf n ++ List.replicate b 32) = some (n : Int) := by
  have hd := digitsOf_isDigit n
  have hne := digitsOf_ne_nil n
  have hstrip : stripBy sp (List.replicate a 32 ++ digitsOf n ++ List.replicate b 32) = digitsOf n := by
    unfold stripBy
    have h1 : (List.replicate a 32 ++ digitsOf n ++ List.replicate b 32).dropWhile sp = digitsOf n ++ List.replicate b 32 := by
      rw [List.append_assoc]
      cases hl : digitsOf n with
      | nil => exact absurd hl hne
      | cons c cs =>
        have hc : sp c = false := hdig c (hd c (by rw [hl]; simp))
        rw [List.cons_append]
        exact dropWhile_blanks sp hsp a c _ hc
    rw [h1, List.reverse_append, List.reverse_replicate]
    have h2 : (List.replicate b 32 ++ (digitsOf n).reverse).dropWhile sp = (digitsOf n).reverse := by
      cases hl : (digitsOf n).reverse with
      | nil => simp at hl; exact absurd hl hne
      | cons c cs =>
        have hc : c ∈ digitsOf n := by
          have : c ∈ (digitsOf n).reverse := by rw [hl]; simp
          simpa using this
        exact dropWhile_blanks sp hsp b c cs (hdig c (hd c hc))
    rw [h2, List.reverse_reverse]
  unfold pyIntCore
  rw [hstrip]
  cases hl : digitsOf n with
  | nil => exact absurd hl hne
  | cons c cs =>
    have hc : isDigit c = true := hd c (by rw [hl]; simp)
    have hv := digitsVal_digitsOf n
    rw [hl] at hv
    split
    · rename_i heq; simp at heq; obtain ⟨rfl, _⟩ := heq; simp [isDigit] at hc
    · rename_i heq; simp at heq; obtain ⟨rfl, _⟩ := heq; simp [isDigit] at hc
    · simp [hv]

theorem pyIntBytes_padded (n a b : Nat) : pyIntBytes (List.replicate a 32 ++ digitsOf n ++ List.replicate b 32) = .ok (n : Int) := by
  unfold pyIntBytes
  rw [pyIntCore_padded isSpaceBytes (by decide) (by intro c hc; simp [isDigit] at hc; simp [isSpaceBytes]; omega)]

theorem pyIntStr_padded (n a b : Nat) : pyIntStr (List.replicate a 32 ++ digitsOf n ++ List.replicate b 32) = .ok (n : Int) := by
  unfold pyIntStr
  rw [pyIntCore_padded isSpaceStr (by decide) (by intro c hc; simp [isDigit] at hc; simp [isSpaceStr, isSpaceBytes]; omega)]

/-- the 8-character right-justified HEADER field -/
def field8 (n : Nat) : List Nat := List.replicate (8 - (digitsOf n).length) 32 ++ digitsOf n

theorem field8_length (n : Nat) (h : n < 10 ^ 8) : (field8 n).length = 8 := by
  have := digitsOf_length_le 8 n (by decide) h
  simp [field8]; omega

theorem field8_eq_padded (n : Nat) : field8 n = List.replicate (8 - (digitsOf n).length) 32 ++ digitsOf n ++ List.replicate 0 32 := by
  simp [field8]

theorem field8_ne_spaces (n : Nat) : (field8 n == spaces8) = false := by
  cases hl : digitsOf n with
  | nil => exact absurd hl (digitsOf_ne_nil n)
  | cons c cs =>
    have hc : isDigit c = true := digitsOf_isDigit n c (by rw [hl]; simp)
    have hmem : c ∈ field8 n := by simp [field8, hl]
    have hnot : c ∉ spaces8 := by
      simp only [spaces8, List.mem_replicate]
      intro h
      obtain ⟨_, rfl⟩ := h
      simp [isDigit] at hc
    cases hb : (field8 n == spaces8) with
    | false => rfl
    | true =>
      have : field8 n = spaces8 := by simpa using hb
      rw [this] at hmem
      exact absurd hmem hnot

theorem dropWhile_all_blanks (sp : Nat → Bool) (hsp : sp 32 = true) (k : Nat) : (List.replicate k 32).dropWhile sp = [] := by
  induction k with
  | zero => simp
  | succ k ih => simp [List.replicate_succ, hsp, ih]

theorem rstrip_padded (v : List Nat) (k : Nat) (hv : ∀ c, v.getLast? = some c → isSpaceStr c = false) :
    rstrip (v ++ List.replicate k 32) = v := by
  unfold rstrip
  rw [List.reverse_append, List.reverse_replicate]
  cases hr : v.reverse with
  | nil =>
    have : v = [] := by simpa using hr
    subst this
    simp [dropWhile_all_blanks isSpaceStr (by decide)]
  | cons c cs =>
    have hlast : v.getLast? = some c := by
      rw [List.getLast?_eq_head?_reverse, hr]; rfl
    rw [dropWhile_blanks isSpaceStr (by decide) k c cs (hv c hlast), ← hr, List.reverse_reverse]

/-- the 58-byte HEADER a conforming writer produces -/
def encodeHeader (h : Header) : List Nat :=
  h.version ++ List.replicate (10 - h.version.length) 32 ++ field8 h.textBegin.toNat ++ field8 h.textEnd.toNat ++
    field8 h.dataBegin.toNat ++ field8 h.dataEnd.toNat ++ field8 h.analysisBegin.toNat ++ field8 h.analysisEnd.toNat

/-- offsets that fit the 8-character fields, a version string without trailing blank -/
def Writable (h : Header) : Prop :=
  h.version.length ≤ 10 ∧ (∀ c, h.version.getLast? = some c → isSpaceStr c = false) ∧
  (∀ x ∈ [h.textBegin, h.textEnd, h.dataBegin, h.dataEnd, h.analysisBegin, h.analysisEnd], 0 ≤ x ∧ x < 10 ^ 8)

/-- **The HEADER round-trips**: whatever follows it in the file, the reader recovers the version and all six offsets. -/
theorem parseHeader_encodeHeader (h : Header) (rest : List Nat) (hw : Writable h) :
    parseHeader (encodeHeader h ++ rest) = .ok h := by
  obtain ⟨hvl, hvs, hoff⟩ := hw
  have b : ∀ x ∈ [h.textBegin, h.textEnd, h.dataBegin, h.dataEnd, h.analysisBegin, h.analysisEnd], (field8 x.toNat).length = 8 := by
    intro x hx
    apply field8_length
    have := hoff x hx
    omega
  have l0 : (h.version ++ List.replicate (10 - h.version.length) 32).length = 10 := by simp; omega
  have l1 := b h.textBegin (by simp)
  have l2 := b h.textEnd (by simp)
  have l3 := b h.dataBegin (by simp)
  have l4 := b h.dataEnd (by simp)
  have l5 := b h.analysisBegin (by simp)
  have l6 := b h.analysisEnd (by simp)
  have back : ∀ x ∈ [h.textBegin, h.textEnd, h.dataBegin, h.dataEnd, h.analysisBegin, h.analysisEnd], ((x.toNat : Nat) : Int) = x := by
    intro x hx
    have := (hoff x hx).1
    omega
  -- name the pieces
  generalize hV : h.version ++ List.replicate (10 - h.version.length) 32 = V at l0
  generalize hF1 : field8 h.textBegin.toNat = F1 at l1
  generalize hF2 : field8 h.textEnd.toNat = F2 at l2
  generalize hF3 : field8 h.dataBegin.toNat = F3 at l3
  generalize hF4 : field8 h.dataEnd.toNat = F4 at l4
  generalize hF5 : field8 h.analysisBegin.toNat = F5 at l5
  generalize hF6 : field8 h.analysisEnd.toNat = F6 at l6
  have hfile : encodeHeader h ++ rest = V ++ (F1 ++ (F2 ++ (F3 ++ (F4 ++ (F5 ++ (F6 ++ rest)))))) := by
    unfold encodeHeader
    rw [hF1, hF2, hF3, hF4, hF5, hF6]
    simp only [List.append_assoc]
    rw [← List.append_assoc h.version, hV]
  have t0 : (encodeHeader h ++ rest).take 10 = V := by rw [hfile, List.take_left' l0]
  have d (i : Nat) (pre : List Nat) (F tail : List Nat) (hp : pre.length = 10 + 8 * i) (hF : F.length = 8)
      (hfile' : encodeHeader h ++ rest = pre ++ (F ++ tail)) : ((encodeHeader h ++ rest).drop (10 + 8 * i)).take 8 = F := by
    rw [hfile', List.drop_left' hp, List.take_left' hF]
  have f0 := d 0 V F1 (F2 ++ (F3 ++ (F4 ++ (F5 ++ (F6 ++ rest))))) (by simp [l0]) l1 hfile
  have f1 := d 1 (V ++ F1) F2 (F3 ++ (F4 ++ (F5 ++ (F6 ++ rest)))) (by simp [l0, l1]) l2 (by rw [hfile]; simp only [List.append_assoc])
  have f2 := d 2 (V ++ F1 ++ F2) F3 (F4 ++ (F5 ++ (F6 ++ rest))) (by simp [l0, l1, l2]) l3 (by rw [hfile]; simp only [List.append_assoc])
  have f3 := d 3 (V ++ F1 ++ F2 ++ F3) F4 (F5 ++ (F6 ++ rest)) (by simp [l0, l1, l2, l3]) l4 (by rw [hfile]; simp only [List.append_assoc])
  have f4 := d 4 (V ++ F1 ++ F2 ++ F3 ++ F4) F5 (F6 ++ rest) (by simp [l0, l1, l2, l3, l4]) l5 (by rw [hfile]; simp only [List.append_assoc])
  have f5 := d 5 (V ++ F1 ++ F2 ++ F3 ++ F4 ++ F5) F6 rest (by simp [l0, l1, l2, l3, l4, l5]) l6 (by rw [hfile]; simp only [List.append_assoc])
  unfold parseHeader
  simp only [t0, f0, f1, f2, f3, f4, f5]
  rw [← hV, rstrip_padded h.version _ hvs]
  rw [← hF1, ← hF2, ← hF3, ← hF4, ← hF5, ← hF6]
  simp only [field8_ne_spaces, Bool.false_eq_true, if_false]
  simp only [field8_eq_padded, pyIntBytes_padded, pyIntStr_padded]
  simp only [bind, Except.bind, pure, Except.pure]
  rw [back _ (by simp), back _ (by simp), back _ (by simp), back _ (by simp), back _ (by simp), back _ (by simp)]

/-- non-vacuity: the HEADER of the 156-byte file used in `Properties.C16c` -/
example : Writable ⟨[70, 67, 83, 50, 46, 48], 58, 153, 154, 155, 0, 0⟩ := by
  refine ⟨by decide, ?_, ?_⟩
  · intro c hc; simp at hc; subst hc; decide
  · intro x hx
    simp at hx
    rcases hx with rfl | rfl | rfl | rfl | rfl | rfl <;> decide

/-- the spec-side encoder produces byte for byte the HEADER that the harness's independent (Python) writer produced for that file -/
example : encodeHeader ⟨[70, 67, 83, 50, 46, 48], 58, 153, 154, 155, 0, 0⟩ =
    [70, 67, 83, 50, 46, 48, 32, 32, 32, 32, 32, 32, 32, 32, 32, 32, 53, 56, 32, 32, 32, 32, 32, 49, 53, 51, 32, 32, 32, 32, 32, 49, 53, 52,
     32, 32, 32, 32, 32, 49, 53, 53, 32, 32, 32, 32, 32, 32, 32, 48, 32, 32, 32, 32, 32, 32, 32, 48] := by decide +kernel

end FlowCal.C01
