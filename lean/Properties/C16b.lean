import Properties.C16
import FlowCalModel.Generated
/-!
# C16 (continued) — file-level consequences: TEXT-like segments that extend beyond the end of the file are refused,
and reading a segment does not depend on bytes after it
-/
namespace FlowCal.C16
open FlowCal.Data FlowCal.Py FlowCal.File

/-- a read that lies inside the first `n` bytes sees the same bytes in the truncated file -/
theorem readAt_take (file : Bytes) (n : Nat) (pos cnt : Int) (h0 : 0 ≤ pos) (hc : 0 ≤ cnt) (hin : pos + cnt ≤ n) :
    readAt (file.take n) pos cnt = readAt file pos cnt := by
  unfold readAt
  have h1 : ¬ pos < 0 := by omega
  have h2 : ¬ cnt < 0 := by omega
  have h3 : (cnt == -1) = false := by
    cases hc' : (cnt == -1) with
    | false => rfl
    | true => simp at hc'; omega
  rw [if_neg h1, if_neg h1, h3]
  simp only [Bool.false_eq_true, if_false, if_neg h2]
  congr 1
  apply List.ext_getElem?
  intro i
  simp only [List.getElem?_take, List.getElem?_drop]
  by_cases hi : i < cnt.toNat
  · simp only [hi, if_true]
    have : pos.toNat + i < n := by omega
    simp [this]
  · simp [hi]

/-- **A TEXT-like segment that extends beyond the end of the file is refused** (the repaired short-read check):
with `0 ≤ begin ≤ end` and fewer than `end+1` bytes in the file, `read_fcs_text_segment` raises instead of parsing
the bytes that happen to be there. -/
theorem readTextBody_beyond_eof (file : Bytes) (b e : Int) (d : Option Nat) (supp : Bool)
    (hb : 0 ≤ b) (hbe : b ≤ e) (hshort : (file.length : Int) ≤ e) :
    ∃ err, readTextBody file b e d supp = .error err := by
  unfold readTextBody
  have hread : readAt file b (e + 1 - b) = .ok ((file.drop b.toNat).take (e + 1 - b).toNat) := by
    unfold readAt
    have h1 : ¬ b < 0 := by omega
    have h2 : ¬ (e + 1 - b) < 0 := by omega
    have h3 : ¬ ((e + 1 - b) == -1) = true := by simp; omega
    simp [h1, h2, h3]
  have hlen : (((file.drop b.toNat).take (e + 1 - b).toNat).length : Int) < e + 1 - b := by
    simp only [List.length_take, List.length_drop]
    omega
  rw [hread]
  simp only [hlen, if_true]
  exact ⟨_, rfl⟩

theorem readTextSeg_beyond_eof (file : Bytes) (b e : Int) (d : Option (Option Nat)) (supp : Bool)
    (hb : 0 ≤ b) (hbe : b ≤ e) (hshort : (file.length : Int) ≤ e) :
    ∃ err, readTextSeg file b e d supp = .error err := by
  unfold readTextSeg
  cases resolveDelim file b d supp with
  | error err => exact ⟨err, rfl⟩
  | ok dd => exact readTextBody_beyond_eof file b e dd supp hb hbe hshort

/-- reading the body of a TEXT-like segment that lies entirely inside the first `n` bytes gives the same
result on the file cut at `n` -/
theorem readTextBody_take (file : Bytes) (n : Nat) (b e : Int) (d : Option Nat) (supp : Bool)
    (hb : 0 ≤ b) (hbe : b ≤ e + 1) (hin : e + 1 ≤ n) :
    readTextBody (file.take n) b e d supp = readTextBody file b e d supp := by
  unfold readTextBody
  rw [readAt_take file n b (e + 1 - b) hb (by omega) (by omega)]

/-- the HEADER is read from the first 58 bytes only -/
theorem parseHeader_take (file : Bytes) (n : Nat) (h : 58 ≤ n) : parseHeader (file.take n) = parseHeader file := by
  unfold parseHeader
  have hf : ∀ i, i ≤ 5 → ((file.take n).drop (10 + 8 * i)).take 8 = (file.drop (10 + 8 * i)).take 8 := by
    intro i hi
    apply List.ext_getElem?
    intro j
    simp only [List.getElem?_take, List.getElem?_drop]
    by_cases hj : j < 8
    · simp only [hj, if_true]
      have : 10 + 8 * i + j < n := by omega
      simp [this]
    · simp [hj]
  have hv : (file.take n).take 10 = file.take 10 := by
    rw [List.take_take]; congr 1; omega
  simp only [hf 0 (by omega), hf 1 (by omega), hf 2 (by omega), hf 3 (by omega), hf 4 (by omega), hf 5 (by omega), hv]

/-- **A file cut before the end of its primary TEXT segment cannot be loaded** (whatever the HEADER says the
offsets are, as long as they are the intact file's): combined with `truncated_data_fails` this covers every cut
up to the end of DATA for files whose segments are in HEADER–TEXT–DATA order. -/
theorem cut_inside_text_fails (file : Bytes) (n : Nat) (h : Header) (h58 : 58 ≤ n)
    (hh : parseHeader file = .ok h) (hb : 0 ≤ h.textBegin) (hbe : h.textBegin ≤ h.textEnd) (hcut : (n : Int) ≤ h.textEnd) :
    ∃ err, loadFile (file.take n) = .error err := by
  unfold loadFile
  rw [parseHeader_take file n h58, hh]
  obtain ⟨err, he⟩ := readTextSeg_beyond_eof (file.take n) h.textBegin h.textEnd none false hb hbe
    (by simp only [List.length_take]; omega)
  simp only [he]
  exact ⟨err, rfl⟩

/-- the keywords the model treats as required are the ones `FCSFile.__init__` indexes in the source now (regenerated on every run) -/
theorem required_keywords_match_source : Generated.fileKeywords = FlowCal.File.requiredKeywords := rfl

end FlowCal.C16
