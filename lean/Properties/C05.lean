import FlowCalModel.Density
import FlowCalModel.Generated
/-!
# C05 — The density gate keeps the densest whole bins holding the requested share
-/
namespace FlowCal.C05
open FlowCal.Density

theorem acceptCount_le (cs : List Nat) (t : Nat) : acceptCount cs t ≤ cs.length := by
  induction cs generalizing t with
  | nil => simp [acceptCount]
  | cons c cs ih =>
    simp only [acceptCount]
    split
    · simp
    · have := ih (t - c); simp; omega

/-- **Lower bound**: if the requested number does not exceed the events in the grid,
the accepted bins hold at least that many events. -/
theorem lower_bound (cs : List Nat) (t : Nat) (h : t ≤ cs.sum) :
    t ≤ (cs.take (acceptCount cs t)).sum := by
  induction cs generalizing t with
  | nil => simpa using h
  | cons c cs ih =>
    simp only [acceptCount]
    split
    · simp; omega
    · rename_i hc
      have hle : t - c ≤ cs.sum := by simp at h; omega
      have := ih (t - c) hle
      rw [Nat.add_comm 1, List.take_succ_cons]
      simp; omega

/-- **Minimality**: dropping the last (least dense) accepted bin leaves fewer than `t` events. -/
theorem minimal (cs : List Nat) (t : Nat) (ht : 0 < t) :
    (cs.take (acceptCount cs t - 1)).sum < t := by
  induction cs generalizing t with
  | nil => simpa using ht
  | cons c cs ih =>
    simp only [acceptCount]
    split
    · simpa using ht
    · rename_i hc
      have := ih (t - c) (by omega)
      cases hk : acceptCount cs (t - c) with
      | zero =>
        simp
        omega
      | succ k =>
        rw [hk] at this
        simp at this ⊢
        omega

/-- the last accepted bin is not empty -/
theorem last_accepted_nonempty (cs : List Nat) (t : Nat) (ht : 0 < t) (h : t ≤ cs.sum) :
    (cs.take (acceptCount cs t - 1)).sum < (cs.take (acceptCount cs t)).sum :=
  Nat.lt_of_lt_of_le (minimal cs t ht) (lower_bound cs t h)

/-- **Monotone in the target** (hence in the gate fraction): a larger target accepts a
superset — the accepted bins are a prefix of the density order in both cases. -/
theorem monotone_target (cs : List Nat) (t t' : Nat) (h : t ≤ t') :
    acceptCount cs t ≤ acceptCount cs t' := by
  induction cs generalizing t t' with
  | nil => simp [acceptCount]
  | cons c cs ih =>
    simp only [acceptCount]
    split
    · split <;> omega
    · split
      · omega
      · have := ih (t - c) (t' - c) (by omega); omega

theorem none_at_zero (cs : List Nat) : accepted cs 0 = 0 := by simp [accepted]

/-- at the full target every non-empty bin up to the last non-empty one is accepted: all in-grid events are kept -/
theorem all_at_total (cs : List Nat) (h : 0 < cs.sum) :
    (cs.take (accepted cs cs.sum)).sum = cs.sum := by
  have hne : cs.sum ≠ 0 := by omega
  simp only [accepted, hne, if_false]
  have h1 := lower_bound cs cs.sum (Nat.le_refl _)
  have h2 : (cs.take (acceptCount cs cs.sum)).sum ≤ cs.sum := by
    have := List.take_append_drop (acceptCount cs cs.sum) cs
    have hs : (cs.take (acceptCount cs cs.sum)).sum + (cs.drop (acceptCount cs cs.sum)).sum = cs.sum := by
      rw [← List.sum_append, this]
    omega
  omega

/-- **Density ordered**: if the bins are listed by non-increasing density, no dropped bin is denser than an accepted one. -/
theorem density_ordered (ds : List Int) (k : Nat) (hs : ds.Pairwise (· ≥ ·)) :
    ∀ a ∈ ds.take k, ∀ b ∈ ds.drop k, b ≤ a := by
  intro a ha b hb
  have := List.take_append_drop k ds
  rw [← this] at hs
  exact (List.pairwise_append.mp hs).2.2 a ha b hb

/-- **Permutation invariance**: the histogram, hence the accepted bins and the fate of every
event, does not depend on the order of the events. -/
theorem hist_perm {β : Type} [DecidableEq β] (bins : List β) (ev ev' : List (Option β)) (h : ev.Perm ev') :
    hist bins ev = hist bins ev' := by
  simp only [hist]
  apply List.map_congr_left
  intro b _
  exact h.count_eq (some b)

/-- **Atomicity / outside never kept / replay**: the event mask is a function of the event's bin
and of the accepted set only; events outside the grid are never kept. -/
theorem eventMask_spec {β : Type} [DecidableEq β] (acc : List β) (ev : List (Option β)) (i : Nat) (hi : i < ev.length) :
    (eventMask acc ev)[i]'(by simp [eventMask]; exact hi) =
      (match ev[i] with | none => false | some b => acc.contains b) := by
  simp only [eventMask, List.getElem_map]
  cases ev[i] <;> rfl

theorem eventMask_perm {β : Type} [DecidableEq β] (acc : List β) (ev ev' : List (Option β)) (h : ev.Perm ev') :
    (eventMask acc ev).Perm (eventMask acc ev') := by
  simp only [eventMask]; exact h.map _

/-! Non-vacuity -/
example : acceptCount [5, 3, 3, 0, 1] 6 = 2 ∧ acceptCount [5, 3, 3, 0, 1] 5 = 1 ∧ acceptCount [5, 3, 3, 0, 1] 12 = 5 := by decide
example : validGate [5, 3, 3, 0, 1] [9, 7, 7, 2, 1] [true, true, false, false, false] 6 = (true, true, true) := by decide
example : validGate [5, 3, 3, 0, 1] [9, 7, 7, 2, 1] [true, false, true, false, false] 6 = (true, true, true) := by decide   -- tie at the cut: either is valid
example : validGate [5, 3, 3, 0, 1] [9, 7, 7, 2, 1] [true, true, true, false, false] 6 = (true, false, true) := by decide

/-- the bin-selection statements of `gate.density2d` in the source now (regenerated on every run) are the ones the model stands for -/
theorem selection_statements_match_source : Generated.densitySelection = FlowCal.Density.sourceSpec := rfl

end FlowCal.C05
