import Properties.C09
import FlowCalModel.GeneratedExpr
/-!
# C09 — the bead model, residual and standard curve found in the source are the model's
-/
namespace FlowCal.C09
open FlowCal FlowCal.Mef


theorem source_std_curve_eq {α : Type} [Mul α] (o : Ops α) (p0 p1 x : α) : GeneratedExpr.src_std_curve o p0 p1 x = stdCurve o p0 p1 x := rfl
theorem source_beads_model_eq {α : Type} [Add α] [Sub α] [Mul α] (o : Ops α) (p0 p1 p2 x : α) : GeneratedExpr.src_beads_model o p0 p1 p2 x = beadsModel o p0 p1 p2 x := rfl
theorem source_residual_eq {α : Type} [Add α] [Sub α] [Mul α] (o : Ops α) (p0 p1 p2 x y : α) : GeneratedExpr.src_residual o p0 p1 p2 x y = residual o p0 p1 p2 x y := rfl

end FlowCal.C09
