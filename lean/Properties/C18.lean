import FlowCalModel.Logicle
import Mathlib.Analysis.SpecialFunctions.Pow.Real
import Mathlib.Analysis.SpecialFunctions.Log.Base
/-!
# C18 — The logicle scale is a strictly increasing bijection with an accurate inverse
-/
namespace FlowCal.C18
open FlowCal.Logicle

noncomputable instance : Pow10 ℝ := ⟨fun x => (10 : ℝ) ^ x, fun x => Real.logb 10 x⟩

theorem pow10_def (x : ℝ) : pow10 x = (10 : ℝ) ^ x := rfl

theorem pow10_pos (x : ℝ) : 0 < (pow10 x : ℝ) := by
  rw [pow10_def]; exact Real.rpow_pos_of_pos (by norm_num) x

theorem pow10_lt {x y : ℝ} (h : x < y) : (pow10 x : ℝ) < pow10 y := by
  rw [pow10_def, pow10_def]
  exact (Real.rpow_lt_rpow_left_iff (by norm_num : (1 : ℝ) < 10)).mpr h

/-- **The display value `W` is mapped to data value 0**, for every parameter choice. -/
theorem logicle_at_W (T M W p : ℝ) : logicle T M W p W = 0 := by
  unfold logicle
  simp [pow10_def]

/-- **Strictly increasing in the display coordinate** for `T > 0`, `p > 0`. -/
theorem logicle_strictMono (T M W p : ℝ) (hT : 0 < T) (hp : 0 < p) : StrictMono (logicle T M W p) := by
  intro s t hst
  unfold logicle
  have hc : 0 < T * pow10 (-(M - W)) := mul_pos hT (pow10_pos _)
  have h1 : (pow10 (s - W) : ℝ) < pow10 (t - W) := pow10_lt (by linarith)
  have h2 : (pow10 (-(t - W) / p) : ℝ) < pow10 (-(s - W) / p) := by
    apply pow10_lt
    apply div_lt_div_of_pos_right _ hp
    linarith
  have hpp : 0 < p * p := mul_pos hp hp
  have h3 : p * p * pow10 (-(t - W) / p) < p * p * pow10 (-(s - W) / p) := mul_lt_mul_of_pos_left h2 hpp
  apply mul_lt_mul_of_pos_left _ hc
  linarith

/-- hence injective: a bijection onto its range -/
theorem logicle_injective (T M W p : ℝ) (hT : 0 < T) (hp : 0 < p) : Function.Injective (logicle T M W p) :=
  (logicle_strictMono T M W p hT hp).injective

/-- negative display offsets map to negative data, larger ones to positive data -/
theorem logicle_sign (T M W p s : ℝ) (hT : 0 < T) (hp : 0 < p) :
    (s < W → logicle T M W p s < 0) ∧ (W < s → 0 < logicle T M W p s) := by
  have h0 := logicle_at_W T M W p
  have hm := logicle_strictMono T M W p hT hp
  exact ⟨fun h => by have := hm h; linarith, fun h => by have := hm h; linarith⟩

/-- `p = 1` solves `W = 0` in `W = 2p·log10(p)/(p+1)` -/
theorem Wf_one : Wf (1 : ℝ) = 0 := by
  unfold Wf
  simp [Pow10.log10]

/-- `Wf` is non-negative and strictly increasing on `[1, ∞)`: the solution `p ≥ 1` of `Wf p = W` is unique -/
theorem Wf_strictMonoOn : StrictMonoOn (Wf : ℝ → ℝ) (Set.Ici 1) := by
  intro a ha b hb hab
  simp only [Set.mem_Ici] at ha hb
  unfold Wf
  simp only [Pow10.log10]
  have ha0 : 0 < a := by linarith
  have hb0 : 0 < b := by linarith
  have hlog : Real.logb 10 a < Real.logb 10 b := Real.logb_lt_logb (by norm_num) ha0 hab
  have hla : 0 ≤ Real.logb 10 a := Real.logb_nonneg (by norm_num) ha
  have hfrac : 2 * a / (a + 1) < 2 * b / (b + 1) := by
    rw [div_lt_div_iff₀ (by linarith) (by linarith)]
    nlinarith
  have hfa : 0 < 2 * a / (a + 1) := by positivity
  calc 2 * a / (a + 1) * Real.logb 10 a ≤ 2 * b / (b + 1) * Real.logb 10 a :=
        mul_le_mul_of_nonneg_right hfrac.le hla
    _ < 2 * b / (b + 1) * Real.logb 10 b := by
        apply mul_lt_mul_of_pos_left hlog
        positivity

theorem p_unique (W : ℝ) (p q : ℝ) (hp : 1 ≤ p) (hq : 1 ≤ q) (h1 : Wf p = W) (h2 : Wf q = W) : p = q :=
  Wf_strictMonoOn.injOn hp hq (h1.trans h2.symm)

/-! ## Data-derived parameters -/

/-- `M = max(4.5, 4.5·log10(T)/log10(262144))` is at least 4.5 and equals 4.5 up to `T = 262144` -/
noncomputable def deriveM (T : ℝ) : ℝ := max 4.5 (4.5 / Real.logb 10 262144 * Real.logb 10 T)

theorem deriveM_ge (T : ℝ) : 4.5 ≤ deriveM T := le_max_left _ _

theorem deriveM_small (T : ℝ) (h0 : 0 < T) (hT : T ≤ 262144) : deriveM T = 4.5 := by
  unfold deriveM
  apply max_eq_left
  have hl : Real.logb 10 T ≤ Real.logb 10 262144 := Real.logb_le_logb_of_le (by norm_num) h0 hT
  have hpos : 0 < Real.logb 10 262144 := Real.logb_pos (by norm_num) (by norm_num)
  calc 4.5 / Real.logb 10 262144 * Real.logb 10 T ≤ 4.5 / Real.logb 10 262144 * Real.logb 10 262144 := by
        apply mul_le_mul_of_nonneg_left hl; positivity
    _ = 4.5 := by field_simp

/-- `W = max(0, (M - log10(T/|r|))/2)` over the most negative events of all samples: never negative,
and the maximum over samples (the running maximum in the source started at 0) -/
noncomputable def deriveW (M T : ℝ) (rs : List ℝ) : ℝ :=
  rs.foldl (fun W r => max W ((M - Real.logb 10 (T / |r|)) / 2)) 0

theorem deriveW_nonneg (M T : ℝ) (rs : List ℝ) : 0 ≤ deriveW M T rs := by
  unfold deriveW
  suffices h : ∀ (w : ℝ), 0 ≤ w → 0 ≤ rs.foldl (fun W r => max W ((M - Real.logb 10 (T / |r|)) / 2)) w from h 0 le_rfl
  induction rs with
  | nil => intro w hw; simpa using hw
  | cons r rs ih => intro w hw; simp only [List.foldl_cons]; exact ih _ (le_max_of_le_left hw)

theorem deriveW_single (M T r : ℝ) : deriveW M T [r] = max 0 ((M - Real.logb 10 (T / |r|)) / 2) := by
  simp [deriveW]

/-! ## Interpolated inverse -/

/-- piecewise-linear interpolation between two nodes is monotone and exact at the nodes -/
theorem interp_segment_mono (x0 x1 s0 s1 x y : ℝ) (hx : x0 < x1) (hs : s0 ≤ s1) (hxy : x ≤ y) :
    s0 + (s1 - s0) * (x - x0) / (x1 - x0) ≤ s0 + (s1 - s0) * (y - x0) / (x1 - x0) := by
  have hd : 0 < x1 - x0 := by linarith
  have : (s1 - s0) * (x - x0) / (x1 - x0) ≤ (s1 - s0) * (y - x0) / (x1 - x0) := by
    apply div_le_div_of_nonneg_right _ hd.le
    apply mul_le_mul_of_nonneg_left _ (by linarith)
    linarith
  linarith

theorem interp_exact_at_nodes (x0 x1 s0 s1 : ℝ) (hx : x0 < x1) :
    s0 + (s1 - s0) * (x0 - x0) / (x1 - x0) = s0 ∧ s0 + (s1 - s0) * (x1 - x0) / (x1 - x0) = s1 := by
  have hd : x1 - x0 ≠ 0 := by linarith
  constructor
  · simp
  · field_simp; ring

end FlowCal.C18
