import Properties.C01
/-!
# C16 — Truncated or inconsistent FCS files fail loudly instead of yielding other data

The data-level theorems are those of `Properties.C01` (`readData_ok`,
`readData_short_file_error`), restated here as the C16 obligations, plus the
header-level facts.
-/
namespace FlowCal.C16
open FlowCal.Data FlowCal.Py FlowCal.File FlowCal.C01

/-- Loading succeeds only if the declared size is the extent or the extent minus one,
the array lies inside the file, and one row per declared event is returned. -/
theorem load_ok_only_if_sizes_match (file : List Nat) (b e : Nat) (dt : DType) (n : Nat) (ws : List Nat)
    (be : Bool) (bu : Option (List Nat)) (m : List (List Nat))
    (h : readData file b e dt n ws be bu = .ok m) :
    (totalBytes dt n ws = e + 1 - b ∧ b ≤ e + 1 ∨ totalBytes dt n ws = e - b ∧ b ≤ e) ∧
    b + totalBytes dt n ws ≤ file.length ∧ m.length = n := by
  have := readData_ok file b e dt n ws be bu m h
  exact ⟨this.1, this.2.1, this.2.2.2⟩

/-- Cutting the file anywhere inside (or before) the declared array makes the read fail. -/
theorem truncated_data_fails (file : List Nat) (cut b e : Nat) (dt : DType) (n : Nat) (ws : List Nat)
    (be : Bool) (bu : Option (List Nat)) (hcut : cut < b + totalBytes dt n ws) :
    ∃ err, readData (file.take cut) b e dt n ws be bu = .error err := by
  apply readData_short_file_error
  simp
  omega

/-- A corrupted `$TOT`, `$PAR`, `$PnB` or offset whose implied size is neither the
extent nor the extent minus one is refused. -/
theorem inconsistent_size_fails (file : List Nat) (b e : Nat) (dt : DType) (n : Nat) (ws : List Nat)
    (be : Bool) (bu : Option (List Nat))
    (h1 : ¬ (totalBytes dt n ws = e + 1 - b ∧ b ≤ e + 1)) (h2 : ¬ (totalBytes dt n ws = e - b ∧ b ≤ e)) :
    ∃ err, readData file b e dt n ws be bu = .error err := by
  cases hr : readData file b e dt n ws be bu with
  | error err => exact ⟨err, rfl⟩
  | ok m =>
    have := (readData_ok file b e dt n ws be bu m hr).1
    rcases this with h | h
    · exact absurd h h1
    · exact absurd h h2

theorem pyIntBytes_nil : pyIntBytes [] = .error .ValueError := by decide

/-- A file cut inside the HEADER's first four offset fields cannot be loaded. -/
theorem short_header_fails (file : List Nat) (h : file.length ≤ 34) :
    ∃ err, loadFile file = .error err := by
  have hf : (file.drop (10 + 8 * 3)).take 8 = [] := by
    simp; omega
  have hp : ∃ err, parseHeader file = .error err := by
    unfold parseHeader
    simp only [hf, pyIntBytes_nil]
    cases pyIntBytes (List.take 8 (List.drop (10 + 8 * 0) file)) with
    | error e => exact ⟨e, rfl⟩
    | ok a =>
      cases pyIntBytes (List.take 8 (List.drop (10 + 8 * 1) file)) with
      | error e => exact ⟨e, rfl⟩
      | ok b =>
        cases pyIntBytes (List.take 8 (List.drop (10 + 8 * 2) file)) with
        | error e => exact ⟨e, rfl⟩
        | ok c => exact ⟨_, rfl⟩
  obtain ⟨err, he⟩ := hp
  exact ⟨err, by unfold loadFile; rw [he]⟩

theorem empty_file_fails : loadFile [] = .error .ValueError := by decide

end FlowCal.C16
