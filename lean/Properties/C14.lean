import FlowCalModel.Text
/-!
# C14 — TEXT keywords and values are returned exactly as written, or rejected

Theorems about the model `FlowCal.Text.parseSeg` of `read_fcs_text_segment`.
-/
namespace FlowCal.C14
open FlowCal.Text

set_option linter.unusedSectionVars false
set_option linter.unusedSimpArgs false
variable {α : Type} [DecidableEq α]

/-- every piece followed by the delimiter -/
def J (d : α) (ps : List (List α)) : List α := ps.flatMap (· ++ [d])

theorem J_split (d : α) (s : List α) : J d (split d s) = s ++ [d] := by
  induction s with
  | nil => simp [J, split, splitAux]
  | cons c s ih =>
    simp only [J, split, splitAux] at ih ⊢
    by_cases h : c = d
    · subst h; simp [ih]
    · simp [h]; simpa using ih

theorem split_no_delim (d : α) (s : List α) : ∀ p ∈ split d s, d ∉ p := by
  induction s with
  | nil => simp [split, splitAux]
  | cons c s ih =>
    simp only [split, splitAux] at ih ⊢
    by_cases h : c = d
    · subst h; intro p hp; simp at hp; rcases hp with rfl | hp
      · simp
      · exact ih p (by simpa using hp)
    · intro p hp; simp [h] at hp; rcases hp with rfl | hp
      · intro hm; simp at hm; rcases hm with rfl | hm
        · exact h rfl
        · exact ih _ (by simp) hm
      · exact ih p (by simp [hp])

theorem esc_no_delim (d : α) (e : List α) (h : d ∉ e) : esc d e = e := by
  induction e with
  | nil => rfl
  | cons c e ih =>
    simp at h
    have : c ≠ d := fun hc => h.1 hc.symm
    simp [esc, this] at ih ⊢
    exact ih h.2

theorem esc_append (d : α) (a b : List α) : esc d (a ++ b) = esc d a ++ esc d b := by
  simp [esc]

theorem esc_replicate (d : α) (n : Nat) : esc d (List.replicate n d) = List.replicate (2 * n) d := by
  induction n with
  | zero => rfl
  | succ n ih =>
    simp [esc, List.replicate_succ] at ih ⊢
    rw [ih]; simp [Nat.mul_succ, List.replicate_succ]


theorem render_cons (d : α) (t : List α) (ts : List (List α)) :
    render d (t :: ts) = esc d t ++ [d] ++ render d ts := by
  simp [render]

theorem valid_of_no_delim (d : α) (e x : List α) (hne : e ≠ []) (hd : d ∉ e) : Valid d (e ++ x) := by
  cases e with
  | nil => exact absurd rfl hne
  | cons c e =>
    constructor
    · simp
    · simp at hd ⊢; exact fun h => hd.1 h.symm

/-- The scan invariant: the pieces consumed so far, each followed by a
delimiter, spell `k` delimiters followed by the FCS escaping of `acc`. -/
def Inv (d : α) (ps : List (List α)) (st : ScanState α) : Prop :=
  J d ps = List.replicate st.k d ++ render d st.acc ∧ ∀ t ∈ st.acc, Valid d t

theorem step_warned (d : α) (e : List α) (st : ScanState α)
    (h : (step d e st).warned = false) : st.warned = false := by
  unfold step at h
  split at h
  · exact h
  · split at h
    · exact h
    · split at h
      · exact h
      · split at h
        · simp at h
        · exact h

theorem step_inv (d : α) (e : List α) (ps : List (List α)) (st : ScanState α)
    (he : d ∉ e) (hw : (step d e st).warned = false) (h : Inv d ps st) :
    Inv d (e :: ps) (step d e st) := by
  obtain ⟨hJ, hV⟩ := h
  have hJ' : J d (e :: ps) = e ++ [d] ++ J d ps := by simp [J]
  unfold step at hw ⊢
  split
  · -- empty piece
    rename_i hnil
    subst hnil
    refine ⟨?_, hV⟩
    simp [hJ', hJ, List.replicate_succ]
  · rename_i hne
    split
    · -- k = 0
      rename_i hk
      refine ⟨?_, ?_⟩
      · simp [hJ', hJ, hk, render_cons, esc_no_delim d e he]
      · intro t ht
        simp at ht
        rcases ht with rfl | ht
        · simpa using valid_of_no_delim d t [] hne he
        · exact hV t ht
    · rename_i hk
      split
      · -- k even, non-zero
        rename_i hev
        refine ⟨?_, ?_⟩
        · have h2 : 2 * (st.k / 2) = st.k := by omega
          simp only [hJ', hJ, render_cons, esc_append, esc_no_delim d e he, esc_replicate, h2,
            List.replicate_zero, List.nil_append]
          have : [d] ++ List.replicate st.k d = List.replicate st.k d ++ [d] := by
            rw [← List.replicate_succ', List.replicate_succ]; rfl
          simp only [List.append_assoc]
          rw [← List.append_assoc [d], this]
          simp
        · intro t ht
          simp at ht
          rcases ht with rfl | ht
          · exact valid_of_no_delim d e _ hne he
          · exact hV t ht
      · rename_i hodd
        split
        · -- warn branch: excluded by hw
          rename_i hacc
          rw [hacc] at hw
          simp [hk, hodd, hne] at hw
        · rename_i t rest hacc
          rw [hacc] at hJ hV
          refine ⟨?_, ?_⟩
          · have h2 : 2 * ((st.k + 1) / 2) = st.k + 1 := by omega
            simp only [hJ', hJ, render_cons, esc_append, esc_no_delim d e he, esc_replicate, h2,
              List.replicate_zero, List.nil_append]
            simp [List.replicate_succ]
          · intro t' ht'
            simp at ht'
            rcases ht' with rfl | ht'
            · have := valid_of_no_delim d e (List.replicate ((st.k + 1) / 2) d ++ t) hne he
              simpa using this
            · exact hV t' (by simp [ht'])


theorem scan_cons (d : α) (e : List α) (ps : List (List α)) :
    scan d (e :: ps) = step d e (scan d ps) := rfl

theorem scan_inv (d : α) (ps : List (List α)) (hps : ∀ p ∈ ps, d ∉ p)
    (hw : (scan d ps).warned = false) : Inv d ps (scan d ps) := by
  induction ps with
  | nil => simp [Inv, scan, init, J, render]
  | cons e ps ih =>
    rw [scan_cons] at hw ⊢
    have hw' := step_warned d e _ hw
    exact step_inv d e ps _ (hps e (by simp)) hw
      (ih (fun p hp => hps p (by simp [hp])) hw')

theorem splitLast_none (d : α) (seg : List α) (h : splitLast d seg = none) : d ∉ seg := by
  induction seg with
  | nil => simp
  | cons c s ih =>
    simp only [splitLast] at h
    split at h
    · simp at h
    · rename_i hs
      split at h
      · simp at h
      · rename_i hc
        intro hm
        simp at hm
        rcases hm with rfl | hm
        · exact hc rfl
        · exact ih hs hm

theorem splitLast_some (d : α) (seg b a : List α) (h : splitLast d seg = some (b, a)) :
    seg = b ++ d :: a ∧ d ∉ a := by
  induction seg generalizing b with
  | nil => simp [splitLast] at h
  | cons c s ih =>
    simp only [splitLast] at h
    split at h
    · rename_i b' a' hs
      simp at h
      obtain ⟨hb, ha⟩ := h
      subst hb ha
      obtain ⟨h1, h2⟩ := ih b' hs
      exact ⟨by rw [h1]; simp, h2⟩
    · rename_i hs
      split at h
      · rename_i hc
        simp at h
        obtain ⟨hb, ha⟩ := h
        subst hb ha hc
        exact ⟨by simp, splitLast_none c s hs⟩
      · simp at h

theorem valid_head_esc (d : α) (t x : List α) (h : Valid d t) : (esc d t ++ x).head? ≠ some d := by
  obtain ⟨hne, hh⟩ := h
  cases t with
  | nil => exact absurd rfl hne
  | cons c t =>
    simp at hh
    simp [esc, hh]

/-- **Soundness** (no silent re-pairing).  Whenever the model of
`read_fcs_text_segment` accepts a non-empty segment containing the delimiter
without a warning, the segment *is* the FCS escaping of the returned tokens: up
to and including its last delimiter it reads `d^k ++ render toks` with `k ≤ 1`
(`k = 1` for a primary segment), what follows contains no delimiter, every
token is a legal keyword/value (non-empty, not starting with the delimiter), and
they pair up. -/
theorem sound (d : α) (supp : Bool) (seg : List α) (toks : List (List α))
    (hne : seg ≠ []) (hd : d ∈ seg)
    (h : parseSeg d supp seg = .ok ⟨toks, false⟩) :
    ∃ k tail, k ≤ 1 ∧ seg = List.replicate k d ++ render d toks ++ tail ∧ d ∉ tail ∧
      (∀ t ∈ toks, Valid d t) ∧ toks.length % 2 = 0 ∧ (supp = false → k = 1) := by
  unfold parseSeg at h
  simp only [hne, if_false] at h
  split at h
  · simp at h
  · rename_i hstart
    split at h
    · -- delimiter not found: impossible since d ∈ seg
      rename_i hbl
      exact absurd hd (splitLast_none d seg hbl)
    · rename_i raw tl hbl
      obtain ⟨hseg, htail⟩ := splitLast_some d seg raw tl hbl
      unfold finish at h
      split at h
      · split at h
        · split at h <;> simp at h
        · simp at h
      · rename_i hk
        split at h
        · simp at h
        · rename_i heven
          simp at h
          obtain ⟨hacc, hwarn⟩ := h
          have hinv := scan_inv d (split d raw) (split_no_delim d raw) hwarn
          obtain ⟨hJ, hV⟩ := hinv
          rw [J_split, hacc] at hJ
          rw [hacc] at hV heven
          refine ⟨(scan d (split d raw)).k, tl, by omega, ?_, htail, hV, by omega, ?_⟩
          · rw [← hJ, hseg]; simp
          · intro hs
            subst hs
            simp at hstart
            -- primary: the segment starts with d, so k cannot be 0
            apply Classical.byContradiction
            intro hk1
            have hk0 : (scan d (split d raw)).k = 0 := by omega
            rw [hk0] at hJ
            simp at hJ
            have hseg' : seg = render d toks ++ tl := by rw [← hJ, hseg]; simp
            cases toks with
            | nil =>
              simp [render] at hJ
            | cons t ts =>
              rw [render_cons] at hseg'
              have hv := valid_head_esc d t ([d] ++ render d ts ++ tl) (hV t (by simp))
              rw [hseg'] at hstart
              simp only [List.append_assoc] at hstart hv
              exact hv hstart


/-! ## Completeness: every legal encoding is read back exactly -/

theorem split_cons_delim (d : α) (s : List α) : split d (d :: s) = [] :: split d s := by
  simp [split, splitAux]

theorem split_cons_ne (d c : α) (s : List α) (h : c ≠ d) :
    split d (c :: s) = (c :: (splitAux d s).1) :: (splitAux d s).2 := by
  simp [split, splitAux, h]

theorem split_append_delim (d : α) (a b : List α) :
    split d (a ++ d :: b) = split d a ++ split d b := by
  induction a with
  | nil => simp [split_cons_delim]; simp [split, splitAux]
  | cons c a ih =>
    by_cases h : c = d
    · subst h; simp [split_cons_delim, ih]
    · simp only [List.cons_append, split_cons_ne d c _ h]
      have : split d (a ++ d :: b) = (splitAux d (a ++ d :: b)).1 :: (splitAux d (a ++ d :: b)).2 := rfl
      rw [this] at ih
      have h2 : split d a = (splitAux d a).1 :: (splitAux d a).2 := rfl
      rw [h2] at ih
      simp at ih
      simp [ih.1, ih.2]

/-- number of leading delimiters -/
def lead (d : α) : List α → Nat
  | [] => 0
  | c :: u => if c = d then lead d u + 1 else 0

/-- what follows the leading delimiters -/
def rest (d : α) : List α → List α
  | [] => []
  | c :: u => if c = d then rest d u else c :: u

theorem lead_rest (d : α) (u : List α) : u = List.replicate (lead d u) d ++ rest d u := by
  induction u with
  | nil => simp [lead, rest]
  | cons x u ihu =>
    by_cases hx : x = d
    · subst hx; simp [rest, lead, List.replicate_succ]; exact ihu
    · simp [rest, lead, hx]

theorem rest_nil (d : α) (u : List α) (hr : rest d u = []) : u = List.replicate (lead d u) d := by
  have := lead_rest d u
  rw [hr] at this
  simpa using this

def consHead (c : α) (st : ScanState α) : ScanState α :=
  { st with acc := match st.acc with
      | t :: r => (c :: t) :: r
      | [] => [] }

theorem step_cons_head (d c : α) (p : List α) (st : ScanState α) (hp : p ≠ []) :
    step d (c :: p) st = consHead c (step d p st) := by
  unfold step consHead
  simp [hp]
  split
  · rfl
  · split
    · rfl
    · split <;> rfl

/-- Result of scanning the pieces of one escaped string `u`, started from a
state with no pending empty pieces. -/
theorem scan_esc (d : α) (u : List α) (acc : List (List α)) (w : Bool) :
    (split d (esc d u)).foldr (step d) ⟨0, acc, w⟩ =
      if rest d u = [] then ⟨2 * lead d u + 1, acc, w⟩ else ⟨2 * lead d u, rest d u :: acc, w⟩ := by
  induction u with
  | nil => simp [esc, split, splitAux, step, rest, lead]
  | cons c u ih =>
    by_cases hc : c = d
    · subst hc
      have : esc c (c :: u) = c :: c :: esc c u := by simp [esc]
      rw [this, split_cons_delim, split_cons_delim]
      simp only [List.foldr_cons, ih, rest, lead, if_true]
      split <;> simp [step] <;> omega
    · have hesc : esc d (c :: u) = c :: esc d u := by simp [esc, hc]
      rw [hesc, split_cons_ne d c _ hc]
      simp only [List.foldr_cons, rest, lead, hc, if_false]
      have hsp : split d (esc d u) = (splitAux d (esc d u)).1 :: (splitAux d (esc d u)).2 := rfl
      rw [hsp] at ih
      simp only [List.foldr_cons] at ih
      generalize hS : List.foldr (step d) ⟨0, acc, w⟩ (splitAux d (esc d u)).2 = S at ih ⊢
      generalize (splitAux d (esc d u)).1 = p0 at ih ⊢
      by_cases hp0 : p0 = []
      · subst hp0
        simp only [step, if_true] at ih
        split at ih
        · -- u is all delimiters
          rename_i hr
          have hk : S.k = 2 * lead d u := by
            have := congrArg ScanState.k ih; simp at this; omega
          have hacc : S.acc = acc := by have := congrArg ScanState.acc ih; simpa using this
          have hw : S.warned = w := by have := congrArg ScanState.warned ih; simpa using this
          have hu : u = List.replicate (lead d u) d := rest_nil d u hr
          simp only [step]
          simp
          by_cases hl : lead d u = 0
          · have : u = [] := by rw [hu, hl]; rfl
            subst this
            simp [hk, hacc, hw, lead]
          · have hk0 : S.k ≠ 0 := by omega
            have hke : S.k % 2 = 0 := by omega
            have hk2 : S.k / 2 = lead d u := by omega
            simp [hk0, hke, hk2, hacc, hw]
            rw [← hu]
        · rename_i hr
          have hk : S.k + 1 = 2 * lead d u := by
            have := congrArg ScanState.k ih; simpa using this
          have hacc : S.acc = rest d u :: acc := by have := congrArg ScanState.acc ih; simpa using this
          have hw : S.warned = w := by have := congrArg ScanState.warned ih; simpa using this
          have hu : u = List.replicate (lead d u) d ++ rest d u := lead_rest d u
          have hk0 : S.k ≠ 0 := by omega
          have hko : ¬ S.k % 2 = 0 := by omega
          have hk2 : (S.k + 1) / 2 = lead d u := by omega
          simp only [step]
          simp [hk0, hko, hacc, hk2, hw]
          rw [← hu]
      · rw [step_cons_head d c p0 S hp0, ih]
        have hk0 : (step d p0 S).k = 0 := by
          unfold step; simp [hp0]; split
          · assumption
          · split
            · rfl
            · split <;> rfl
        rw [ih] at hk0
        split at hk0
        · simp at hk0
        · rename_i hr
          simp at hk0
          have hu : rest d u = u := by
            cases u with
            | nil => simp [rest] at hr
            | cons x u =>
              by_cases hx : x = d
              · subst hx; simp [lead] at hk0
              · simp [rest, hx]
          rw [hu] at hr
          simp [hr, consHead, hk0, hu]


theorem scan_valid_token (d : α) (t : List α) (acc : List (List α)) (w : Bool) (hv : Valid d t) :
    (split d (esc d t)).foldr (step d) ⟨0, acc, w⟩ = ⟨0, t :: acc, w⟩ := by
  rw [scan_esc]
  obtain ⟨hne, hh⟩ := hv
  cases t with
  | nil => exact absurd rfl hne
  | cons c t =>
    simp at hh
    simp [rest, lead, hh]

/-- the split pieces of all escaped tokens -/
def piecesOf (d : α) (toks : List (List α)) : List (List α) :=
  toks.flatMap (fun t => split d (esc d t))

theorem split_render (d : α) (toks : List (List α)) :
    split d (render d toks) = piecesOf d toks ++ [[]] := by
  induction toks with
  | nil => simp [render, piecesOf, split, splitAux]
  | cons t ts ih =>
    rw [render_cons]
    simp only [List.append_assoc, List.singleton_append]
    rw [split_append_delim, ih]
    simp [piecesOf]

theorem scan_piecesOf (d : α) (toks : List (List α)) (hV : ∀ t ∈ toks, Valid d t) :
    (piecesOf d toks).foldr (step d) init = ⟨0, toks, false⟩ := by
  induction toks with
  | nil => simp [piecesOf, init]
  | cons t ts ih =>
    have : piecesOf d (t :: ts) = split d (esc d t) ++ piecesOf d ts := by simp [piecesOf]
    rw [this, List.foldr_append, ih (fun t' ht' => hV t' (by simp [ht']))]
    exact scan_valid_token d t ts false (hV t (by simp))

theorem split_snoc_delim (d : α) (a : List α) : split d (a ++ [d]) = split d a ++ [[]] := by
  have := split_append_delim d a []
  simpa [split, splitAux] using this

theorem splitLast_not_mem (d : α) (s : List α) (h : d ∉ s) : splitLast d s = none := by
  induction s with
  | nil => rfl
  | cons c s ih =>
    simp at h
    simp [splitLast, ih h.2]
    exact fun hc => h.1 hc.symm

theorem splitLast_append (d : α) (b tl : List α) (h : d ∉ tl) :
    splitLast d (b ++ d :: tl) = some (b, tl) := by
  induction b with
  | nil => simp [splitLast, splitLast_not_mem d tl h]
  | cons c b ih => simp [splitLast, ih]

theorem encode_snoc (d : α) (toks : List (List α)) : ∃ r, d :: render d toks = r ++ [d] := by
  induction toks with
  | nil => exact ⟨[], by simp [render]⟩
  | cons t ts ih =>
    obtain ⟨r, hr⟩ := ih
    refine ⟨d :: esc d t ++ r, ?_⟩
    rw [render_cons]
    simp only [List.append_assoc, List.singleton_append, List.cons_append, List.nil_append]
    rw [hr]

theorem render_snoc (d : α) (toks : List (List α)) (h : toks ≠ []) : ∃ r, render d toks = r ++ [d] := by
  cases toks with
  | nil => exact absurd rfl h
  | cons t ts =>
    obtain ⟨r, hr⟩ := encode_snoc d ts
    refine ⟨esc d t ++ r, ?_⟩
    rw [render_cons]
    simp only [List.append_assoc, List.singleton_append, List.cons_append, List.nil_append]
    rw [hr]

/-- **Completeness, primary segments.**  For every delimiter, every even-length
list of legal tokens (non-empty, not starting with the delimiter — they may
contain or end with delimiters) and every delimiter-free trailer, the segment
written by the FCS escaping rule is read back as exactly those tokens, without
a warning. -/
theorem complete_primary (d : α) (toks : List (List α)) (tail : List α)
    (hV : ∀ t ∈ toks, Valid d t) (heven : toks.length % 2 = 0) (htail : d ∉ tail) :
    parseSeg d false (encode d toks ++ tail) = .ok ⟨toks, false⟩ := by
  -- the segment up to its last delimiter
  obtain ⟨raw, hraw⟩ : ∃ raw, encode d toks = raw ++ [d] := encode_snoc d toks
  have hseg : encode d toks ++ tail = raw ++ d :: tail := by rw [hraw]; simp
  have hsplit : split d raw = [] :: piecesOf d toks := by
    have h1 : split d (raw ++ [d]) = split d raw ++ [[]] := split_snoc_delim d raw
    rw [← hraw] at h1
    simp only [encode] at h1
    rw [split_cons_delim, split_render] at h1
    have h2 : ([] :: piecesOf d toks) ++ [[]] = split d raw ++ [[]] := by simpa using h1
    exact (List.append_cancel_right h2).symm
  unfold parseSeg
  have hne : encode d toks ++ tail ≠ [] := by simp [encode]
  have hhead : (encode d toks ++ tail).head? = some d := by simp [encode]
  simp only [hne, if_false, hhead]
  simp
  rw [hseg, splitLast_append d raw tail htail]
  simp only [hsplit, scan, List.foldr_cons, scan_piecesOf d toks hV]
  simp [step, finish]
  omega

/-- **Completeness, supplemental / ANALYSIS segments** (with or without a leading delimiter). -/
theorem complete_supplemental (d : α) (toks : List (List α)) (tail : List α) (lead1 : Bool)
    (hV : ∀ t ∈ toks, Valid d t) (heven : toks.length % 2 = 0) (htail : d ∉ tail) :
    parseSeg d true ((if lead1 then [d] else []) ++ render d toks ++ tail) = .ok ⟨toks, false⟩ := by
  cases lead1 with
  | true =>
    -- identical to the primary case
    have hp := complete_primary d toks tail hV heven htail
    unfold parseSeg at hp ⊢
    simp only [encode] at hp
    have hne : [d] ++ render d toks ++ tail ≠ [] := by simp
    simp only [if_true, hne, if_false] at hp ⊢
    have hne' : d :: render d toks ++ tail ≠ [] := by simp
    simp only [hne', if_false] at hp
    simp at hp ⊢
    cases hsl : splitLast d (d :: (render d toks ++ tail)) with
    | none =>
      exfalso
      have := splitLast_none d _ hsl
      simp at this
    | some p =>
      rw [hsl] at hp
      obtain ⟨raw, tl⟩ := p
      simp only at hp ⊢
      -- finish differs between primary and supplemental only in the error branches
      unfold finish at hp ⊢
      split at hp
      · split at hp <;> simp at hp
      · rename_i hk
        simp only [hk, if_false] at ⊢
        exact hp
  | false =>
    simp only [Bool.false_eq_true, if_false, List.nil_append]
    by_cases hnil : toks = []
    · subst hnil
      simp only [render, List.flatMap_nil, List.nil_append]
      unfold parseSeg
      by_cases ht : tail = []
      · simp [ht]
      · simp [ht, splitLast_not_mem d tail htail]
    · obtain ⟨raw, hraw⟩ := render_snoc d toks hnil
      have hsplit : split d raw = piecesOf d toks := by
        have h1 := split_snoc_delim d raw
        rw [← hraw, split_render] at h1
        exact (List.append_cancel_right h1).symm
      unfold parseSeg
      have hne : render d toks ++ tail ≠ [] := by rw [hraw]; simp
      simp only [hne, if_false]
      simp
      have hseg : render d toks ++ tail = raw ++ d :: tail := by
        rw [hraw]; simp
      rw [hseg, splitLast_append d _ tail htail]
      simp only [hsplit, scan, scan_piecesOf d toks hV]
      simp [finish]
      omega


/-! ## Dictionary semantics and the supplemental merge -/

theorem lookup_insert (k k' v : List α) (m : List (List α × List α)) :
    dictLookup k (dictInsert k' v m) = if k' = k then some v else dictLookup k m := by
  induction m with
  | nil => simp [dictInsert, dictLookup]
  | cons kv m ih =>
    obtain ⟨k0, v0⟩ := kv
    simp only [dictInsert]
    by_cases h0 : k0 = k'
    · subst h0; simp [dictLookup]
      by_cases h : k0 = k <;> simp [h]
    · simp only [h0, if_false, dictLookup]
      by_cases h : k0 = k
      · subst h; simp; intro h'; exact absurd h'.symm h0
      · simp [h, ih]

/-- value of the last pair with key `k` in `s` -/
def lastVal (k : List α) : List (List α × List α) → Option (List α)
  | [] => none
  | (k', v) :: rest => match lastVal k rest with
    | some v' => some v'
    | none => if k' = k then some v else none

/-- **Merge.** After `primary.update(supplemental)` a keyword maps to its
supplemental value if the supplemental segment defines it (the last definition
wins) and to its primary value otherwise. -/
theorem merge_spec (k : List α) (p s : List (List α × List α)) :
    dictLookup k (dictUpdate p s) = (lastVal k s).orElse (fun _ => dictLookup k p) := by
  unfold dictUpdate
  induction s generalizing p with
  | nil => simp [lastVal]
  | cons kv s ih =>
    obtain ⟨k', v⟩ := kv
    simp only [List.foldl_cons, ih, lastVal]
    cases hl : lastVal k s with
    | some v' => simp
    | none =>
      simp [lookup_insert]
      by_cases h : k' = k <;> simp [h]

/-- A dictionary built from the parsed pairs maps every keyword to the value of its last occurrence. -/
theorem toDict_spec (k : List α) (ps : List (List α × List α)) :
    dictLookup k (toDict ps) = lastVal k ps := by
  have := merge_spec k [] ps
  simpa [dictUpdate, toDict, dictLookup] using this

/-- A supplemental segment without any delimiter is an empty dictionary. -/
theorem supplemental_no_delim (d : α) (seg : List α) (h : d ∉ seg) :
    parseSeg d true seg = .ok ⟨[], false⟩ := by
  unfold parseSeg
  by_cases hs : seg = []
  · simp [hs]
  · simp [hs, splitLast_not_mem d seg h]

/-- A primary segment that does not start with the delimiter is refused. -/
theorem primary_must_start_with_delim (d : α) (seg : List α) (hne : seg ≠ []) (h : seg.head? ≠ some d) :
    parseSeg d false seg = .error .notStartDelim := by
  unfold parseSeg
  simp [hne, h]

/-- An odd number of tokens is refused (never silently re-paired). -/
theorem odd_refused (d : α) (supp : Bool) (seg : List α) (p : Parsed α)
    (h : parseSeg d supp seg = .ok p) : p.toks.length % 2 = 0 := by
  unfold parseSeg at h
  split at h
  · simp at h; subst h; rfl
  · split at h
    · simp at h
    · split at h
      · split at h <;> simp at h; subst h; rfl
      · unfold finish at h
        split at h
        · split at h
          · split at h <;> simp at h
          · simp at h
        · split at h
          · simp at h
          · rename_i he; simp at h; subst h; simp at he ⊢; omega

/-! ## Non-vacuity: concrete segments from the test-suite, evaluated by the kernel -/

-- '/' = 47, 'k' = 107, 'v' = 118, '1' = 49
example : parseSeg 47 false [47,107,47,47,49,47,47,47,118,47]   -- /k//1///v/
    = .ok ⟨[[107,47,49,47],[118]], false⟩ := by decide
example : encode 47 [[107,47,49,47],[118]] = [47,107,47,47,49,47,47,47,118,47] := by decide
example : Valid 47 [107,47,49,47] ∧ Valid 47 [118] := by decide
example : parseSeg 47 false [47,107,47,118,47,47] = .ok ⟨[[107],[118]], true⟩ := by decide  -- /k/v// warns
example : parseSeg 47 false [47,47,107,47,118,47] = .error .illFormed := by decide            -- //k/v/
example : parseSeg 47 false [47,107,47] = .error .oddCount := by decide                        -- /k/
example : parseSeg 47 true [107,47,118,47] = .ok ⟨[[107],[118]], false⟩ := by decide          -- k/v/

end FlowCal.C14
