import Properties.C01e
import Properties.C01d
import Properties.C16c
import Mathlib.Tactic.IntervalCases
/-!
# C01 — the whole of `loadFile`: keywords that describe the DATA segment make the file load exactly the recorded events
-/
namespace FlowCal.C01
open FlowCal.Data FlowCal.Py FlowCal.File FlowCal.Text

/-- a `for` loop whose every step succeeds and appends one value collects exactly those values -/
theorem forIn_collect {α β : Type} (l : List α) (step : α → List β → Except PyErr (ForInStep (List β))) (g : α → β) (init : List β)
    (h : ∀ a ∈ l, ∀ acc, step a acc = .ok (ForInStep.yield (acc ++ [g a]))) :
    forIn l init step = (.ok (init ++ l.map g) : Except PyErr (List β)) := by
  induction l generalizing init with
  | nil => simp [forIn, pure, Except.pure]
  | cons a l ih =>
    simp only [List.forIn_cons, h a (by simp) init, bind, Except.bind]
    rw [ih (init ++ [g a]) (fun b hb => h b (by simp [hb]))]
    simp

/-- the layout checks succeed on a keyword dictionary that answers every lookup with well-formed values (integer data, little-endian) -/
theorem checkLayout_ok (text : Dict) (D : Nat) (wsf : Nat → Int)
    (hmode : lookup text "$MODE" = .ok (s2l "L")) (hdt : lookup text "$DATATYPE" = .ok (s2l "I"))
    (hpar : intKw text "$PAR" = .ok (D : Int))
    (hws : ∀ p, p < D → intKw text s!"$P{p+1}B" = .ok (wsf p))
    (h8 : ∀ p, p < D → wsf p % 8 = 0)
    (hbo : lookup text "$BYTEORD" = .ok (s2l "1,2,3,4")) (hnd : intKw text "$NEXTDATA" = .ok 0) :
    checkLayout text = .ok (s2l "I", (D : Int), (List.range D).map wsf, false, false) := by
  have hall : ((List.range D).map wsf).all (fun w => w % 8 == 0) = true := by
    simp only [List.all_eq_true, List.mem_map, List.mem_range]
    rintro w ⟨p, hp, rfl⟩
    simpa using h8 p hp
  have e1 : (s2l "L" != s2l "L") = false := by decide
  have e2 : (!(s2l "I" == s2l "I" || s2l "I" == s2l "F" || s2l "I" == s2l "D")) = false := by decide
  have e3 : (s2l "I" == s2l "I") = true := by decide
  have e4 : (!(s2l "1,2,3,4" == s2l "4,3,2,1" || s2l "1,2,3,4" == s2l "2,1" || s2l "1,2,3,4" == s2l "1,2,3,4" || s2l "1,2,3,4" == s2l "1,2")) = false := by decide
  have e5 : (s2l "1,2,3,4" == s2l "4,3,2,1" || s2l "1,2,3,4" == s2l "2,1") = false := by decide
  unfold checkLayout
  simp only [bind, Except.bind, hmode, hdt, hpar, hbo, hnd, e1, e2, Bool.false_eq_true, if_false, pure, Except.pure, Int.toNat_natCast]
  rw [forIn_collect (List.range D) _ wsf [] (by
    intro a ha acc
    have := hws a (List.mem_range.mp ha)
    simp only [this])]
  simp only [List.nil_append, e3, if_true, hall, Bool.not_true, Bool.false_eq_true, if_false, e5]
  simp

/-- the `$PnR` stage succeeds when every range keyword is present and yields a bit count -/
theorem readBits_ok (text : Dict) (D : Nat) (rf : Nat → Bytes) (bf : Nat → Option Nat)
    (hr : ∀ p, p < D → lookup text s!"$P{p+1}R" = .ok (rf p)) (hb : ∀ p, p < D → rangeBits (rf p) = .ok (bf p)) :
    readBits text (D : Int) = .ok ((List.range D).map bf) := by
  unfold readBits
  simp only [bind, Except.bind, pure, Except.pure, Int.toNat_natCast]
  rw [forIn_collect (List.range D) _ bf [] (by
    intro a ha acc
    have h1 := hr a (List.mem_range.mp ha)
    have h2 := hb a (List.mem_range.mp ha)
    simp only [h1, h2])]
  simp

/-- **Keywords that describe the DATA segment make the file load exactly its events.**  For an FCS 2.0 file (no optional
segments) whose HEADER parses to `h`, whose primary TEXT segment parses to a dictionary `text` answering every lookup of
`FCSFile.__init__` with well-formed values (integer data, little-endian byte order), and whose DATA segment — at the HEADER's
offsets — decodes to `events`, `loadFile` returns `events`, the dictionary unchanged, an empty ANALYSIS dictionary and no warning
beyond the TEXT parser's own. -/
theorem loadFile_of_keywords (file : Bytes) (h : Header) (text : Dict) (dl : Option Nat) (w0 : Bool)
    (D n : Nat) (wsf : Nat → Int) (rf : Nat → Bytes) (bf : Nat → Nat) (events : List (List Nat))
    (hh : parseHeader file = .ok h) (hv : isV3 h.version = false)
    (ht : readTextSeg file h.textBegin h.textEnd none false = .ok (text, dl, w0))
    (ha : h.analysisBegin = 0 ∨ h.analysisEnd = 0)
    (hmode : lookup text "$MODE" = .ok (s2l "L")) (hdt : lookup text "$DATATYPE" = .ok (s2l "I"))
    (hpar : intKw text "$PAR" = .ok (D : Int))
    (hws : ∀ p, p < D → intKw text s!"$P{p+1}B" = .ok (wsf p)) (h8 : ∀ p, p < D → wsf p % 8 = 0) (hwpos : ∀ p, p < D → 0 ≤ wsf p)
    (hbo : lookup text "$BYTEORD" = .ok (s2l "1,2,3,4")) (hnd : intKw text "$NEXTDATA" = .ok 0)
    (hr : ∀ p, p < D → lookup text s!"$P{p+1}R" = .ok (rf p)) (hb : ∀ p, p < D → rangeBits (rf p) = .ok (some (bf p)))
    (hdb : h.dataBegin ≠ 0) (hde : h.dataEnd ≠ 0) (hdb0 : 0 ≤ h.dataBegin) (hde0 : 0 ≤ h.dataEnd)
    (htot : intKw text "$TOT" = .ok (n : Int))
    (hread : readData file h.dataBegin.toNat h.dataEnd.toNat .I n ((List.range D).map (fun p => (wsf p).toNat)) false
      (some ((List.range D).map bf)) = .ok events) :
    loadFile file = .ok ⟨text, [], events, D, false, resultWidth ((List.range D).map (fun p => (wsf p).toNat)), if w0 then ["text"] else []⟩ := by
  have hmerge : mergeText file h (text, dl, w0) = .ok (text, if w0 then ["text"] else []) := by
    unfold mergeText; simp [hv]
  have hana : readAnalysis file h dl text = .ok ([], false) := by
    unfold readAnalysis
    rcases ha with ha | ha <;> simp [ha, hv, pure, Except.pure]
  have hk : loadKeywords file h (text, dl, w0) =
      .ok ⟨text, [], if w0 then ["text"] else [], s2l "I", (List.range D).map wsf, false, (List.range D).map (fun p => some (bf p))⟩ := by
    unfold loadKeywords
    simp only [hmerge, checkLayout_ok text D wsf hmode hdt hpar hws h8 hbo hnd, hana,
      readBits_ok text D rf (fun p => some (bf p)) hr hb]
    simp
  unfold loadFile
  simp only [hh, ht]
  unfold loadRest
  simp only [hk]
  unfold loadData dataOffsets
  have e1 : (h.dataBegin != 0 && h.dataEnd != 0) = true := by simp [hdb, hde]
  have e2 : dtypeOf (s2l "I") = DType.I := by decide
  have e3 : ((List.range D).map wsf).any (fun x => decide (x < 0)) = false := by
    simp only [List.any_eq_false, List.mem_map, List.mem_range]
    rintro x ⟨p, hp, rfl⟩
    have := hwpos p hp
    simp; omega
  have e4 : ((List.range D).map (fun p => some (bf p))).any Option.isNone = false := by
    simp [List.any_eq_false]
  have e5 : ((List.range D).map (fun p => some (bf p))).map (fun x => x.getD 0) = (List.range D).map bf := by
    simp [List.map_map, Function.comp_def]
  have e6 : ((List.range D).map wsf).map Int.toNat = (List.range D).map (fun p => (wsf p).toNat) := by
    simp [List.map_map, Function.comp_def]
  simp only [e1, if_true, htot, e2, e3, e4]
  simp only [Int.toNat_natCast, e5, e6, hread]
  simp [widthOf]
  omega

/-- **Loading returns exactly the events recorded in the file** (mixed-width integer files, little-endian, FCS 2.0): if the bytes
at the HEADER's DATA offsets are the encoding of `m` for the width vector the keywords give, and every value fits the bits its
declared range needs, then `loadFile` returns `m` — whatever precedes the DATA segment (`pre`: HEADER, TEXT, padding) and whatever
follows it (`post`), for either end-offset convention. -/
theorem loadFile_returns_recorded_events (pre post : Bytes) (h : Header) (text : Dict) (dl : Option Nat) (w0 : Bool)
    (D : Nat) (wsf : Nat → Int) (rf : Nat → Bytes) (bf : Nat → Nat) (m : List (List Nat)) (ws : List Nat) (past : Bool)
    (hwsEq : ws = (List.range D).map (fun p => (wsf p).toNat))
    (hfile : parseHeader (pre ++ encodeEvents false ws m ++ post) = .ok h) (hv : isV3 h.version = false)
    (ht : readTextSeg (pre ++ encodeEvents false ws m ++ post) h.textBegin h.textEnd none false = .ok (text, dl, w0))
    (ha : h.analysisBegin = 0 ∨ h.analysisEnd = 0)
    (hmode : lookup text "$MODE" = .ok (s2l "L")) (hdt : lookup text "$DATATYPE" = .ok (s2l "I"))
    (hpar : intKw text "$PAR" = .ok (D : Int))
    (hws : ∀ p, p < D → intKw text s!"$P{p+1}B" = .ok (wsf p)) (h8 : ∀ p, p < D → wsf p % 8 = 0) (hwpos : ∀ p, p < D → 0 ≤ wsf p)
    (hbo : lookup text "$BYTEORD" = .ok (s2l "1,2,3,4")) (hnd : intKw text "$NEXTDATA" = .ok 0)
    (hr : ∀ p, p < D → lookup text s!"$P{p+1}R" = .ok (rf p)) (hb : ∀ p, p < D → rangeBits (rf p) = .ok (some (bf p)))
    (htot : intKw text "$TOT" = .ok (m.length : Int))
    -- the HEADER's DATA offsets are those of the encoded events
    (hne : pre ≠ []) (hdb : h.dataBegin = (pre.length : Nat))
    (hde : h.dataEnd = ((pre.length + m.length * rowBytes ws - (if past then 0 else 1) : Nat) : Int)) (hde0 : h.dataEnd ≠ 0)
    (hext : 0 < m.length * rowBytes ws ∨ past = true)
    -- a mixed-width layout whose events are well formed and fit their declared ranges
    (hu : isUniform ws = false) (h64 : ∀ w ∈ ws, w ≤ 64) (hU : ∀ w ∈ ws, w ≤ upcastBits ws) (hpos : ws.foldl max 0 ≠ 0)
    (hwf : WellFormed ws m) (hfits : ∀ b ∈ (List.range D).map bf, b ≤ upcastBits ws) (hbits : FitsBits ((List.range D).map bf) m) :
    ∃ L, loadFile (pre ++ encodeEvents false ws m ++ post) = .ok L ∧ L.data = m ∧ L.text = text ∧ L.analysis = [] := by
  have h8' : ∀ w ∈ ws, w % 8 = 0 := by
    intro w hw
    rw [hwsEq] at hw
    simp only [List.mem_map, List.mem_range] at hw
    obtain ⟨p, hp, rfl⟩ := hw
    have := h8 p hp; have := hwpos p hp
    omega
  have hlen : ((List.range D).map bf).length = ws.length := by rw [hwsEq]; simp
  have hread := readData_mixed_roundtrip_masked false ws ((List.range D).map bf) m pre post past hu h8' h64 hU hwf hne hpos hext hlen hfits hbits
  have hpre0 : h.dataBegin ≠ 0 := by
    rw [hdb]; intro h0
    have : pre.length = 0 := by exact_mod_cast h0
    exact hne (List.eq_nil_of_length_eq_zero this)
  refine ⟨_, loadFile_of_keywords _ h text dl w0 D m.length wsf rf bf m hfile hv ht ha hmode hdt hpar hws h8 hwpos hbo hnd hr hb
    hpre0 hde0 (by rw [hdb]; omega) (by rw [hde]; omega) htot ?_, rfl, rfl, rfl⟩
  rw [hdb, hde, ← hwsEq]
  simpa using hread

/-! ### the hypotheses are jointly satisfiable: a complete 194-byte FCS2.0 file with an 8-bit and a 16-bit parameter and two events
(written by the harness's independent writer); the theorem, not evaluation, gives its load -/

def mixedFile : List Nat := [70, 67, 83, 50, 46, 48, 32, 32, 32, 32, 32, 32, 32, 32, 32, 32, 53, 56, 32, 32, 32, 32, 32, 49, 56, 55, 32, 32, 32, 32, 32, 49, 56, 56, 32, 32, 32, 32, 32, 49, 57, 51, 32, 32, 32, 32, 32, 32, 32, 48, 32, 32, 32, 32, 32, 32, 32, 48, 47, 36, 66, 89, 84, 69, 79, 82, 68, 47, 49, 44, 50, 44, 51, 44, 52, 47, 36, 68, 65, 84, 65, 84, 89, 80, 69, 47, 73, 47, 36, 77, 79, 68, 69, 47, 76, 47, 36, 78, 69, 88, 84, 68, 65, 84, 65, 47, 48, 47, 36, 80, 65, 82, 47, 50, 47, 36, 84, 79, 84, 47, 50, 47, 36, 80, 49, 66, 47, 56, 47, 36, 80, 49, 78, 47, 65, 47, 36, 80, 49, 82, 47, 50, 53, 54, 47, 36, 80, 49, 69, 47, 48, 44, 48, 47, 36, 80, 50, 66, 47, 49, 54, 47, 36, 80, 50, 78, 47, 66, 47, 36, 80, 50, 82, 47, 49, 48, 50, 52, 47, 36, 80, 50, 69, 47, 48, 44, 48, 47, 7, 44, 1, 9, 232, 3]

def mixedHeader : Header := ⟨[70, 67, 83, 50, 46, 48], 58, 187, 188, 193, 0, 0⟩

def mixedText : Dict := [(s2l "$BYTEORD", s2l "1,2,3,4"), (s2l "$DATATYPE", s2l "I"), (s2l "$MODE", s2l "L"), (s2l "$NEXTDATA", s2l "0"), (s2l "$PAR", s2l "2"), (s2l "$TOT", s2l "2"), (s2l "$P1B", s2l "8"), (s2l "$P1N", s2l "A"), (s2l "$P1R", s2l "256"), (s2l "$P1E", s2l "0,0"), (s2l "$P2B", s2l "16"), (s2l "$P2N", s2l "B"), (s2l "$P2R", s2l "1024"), (s2l "$P2E", s2l "0,0")]

theorem mixedFile_text : readTextSeg mixedFile 58 187 none false = .ok (mixedText, some 47, false) := by decide +kernel

/-- the load of the concrete file, obtained from the theorem (every hypothesis discharged by evaluation of a lookup) -/
theorem mixedFile_loads :
    loadFile mixedFile = .ok ⟨mixedText, [], [[7, 300], [9, 1000]], 2, false, resultWidth [8, 16], []⟩ := by
  have hh : parseHeader mixedFile = .ok mixedHeader := by decide +kernel
  have := loadFile_of_keywords mixedFile mixedHeader mixedText (some 47) false 2 2 (fun p => if p = 0 then 8 else 16)
    (fun p => if p = 0 then s2l "256" else s2l "1024") (fun p => if p = 0 then 8 else 10) [[7, 300], [9, 1000]]
    hh (by decide) mixedFile_text (Or.inl rfl)
    (by decide +kernel) (by decide +kernel) (by decide +kernel)
    (by intro p hp; interval_cases p <;> decide +kernel)
    (by intro p hp; interval_cases p <;> decide) (by intro p hp; interval_cases p <;> decide)
    (by decide +kernel) (by decide +kernel)
    (by intro p hp; interval_cases p <;> decide +kernel)
    (by intro p hp; interval_cases p <;> decide +kernel)
    (by decide) (by decide) (by decide) (by decide)
    (by decide +kernel)
    (by decide +kernel)
  rw [this]; decide +kernel

end FlowCal.C01
