import Properties.C03
/-!
# C03 (continued) — a batch call equals the single-channel calls, at the level of the `to_rfi` model
-/
namespace FlowCal.C03
open FlowCal.Transform FlowCal.Py

theorem mapM_ok_length {α β : Type} (f : α → Except PyErr β) (l : List α) (r : List β) (h : l.mapM f = .ok r) :
    r.length = l.length := by
  induction l generalizing r with
  | nil => simp [List.mapM_nil, pure, Except.pure] at h; subst h; rfl
  | cons a l ih =>
    simp only [List.mapM_cons, bind, Except.bind, pure, Except.pure] at h
    split at h
    · simp at h
    · split at h
      · simp at h
      · rename_i r' hr'; simp at h; subst h; simp [ih r' hr']

theorem mapM_ok_get {α β : Type} (f : α → Except PyErr β) (l : List α) (r : List β) (h : l.mapM f = .ok r)
    (i : Nat) (hi : i < l.length) : f l[i] = .ok (r[i]'(by rw [mapM_ok_length f l r h]; exact hi)) := by
  induction l generalizing r i with
  | nil => simp at hi
  | cons a l ih =>
    simp only [List.mapM_cons, bind, Except.bind, pure, Except.pure] at h
    split at h
    · simp at h
    · rename_i b hb
      split at h
      · simp at h
      · rename_i r' hr'
        simp at h; subst h
        cases i with
        | zero => simpa using hb
        | succ i => simpa using ih r' hr' i (by simpa using hi)

variable {P : Type}

/-- `to_rfi` on a list of channels with per-channel setting lists is a per-channel map -/
theorem toRfi_list_eq (isZero : P → Bool) (m : Meta P) (refs : List Ref)
    (ats : List (Option (P × P))) (ags rs : List (Option P))
    (h1 : ats.length = refs.length) (h2 : ags.length = refs.length) (h3 : rs.length = refs.length) :
    toRfi isZero m (some (.inr refs)) (.list ats) (.list ags) (.list rs) =
      (do let cis ← refs.mapM (resolve m)
          (cis.zip (rs.zip (ats.zip ags))).mapM (fun (c, r, a, g) => decide1 isZero m c r a g)) := by
  simp [toRfi, normList, h1, h2, h3, bind, Except.bind, pure, Except.pure]

/-- **Several channels in one call = each channel on its own**: if the batch call succeeds with the action
list `acts`, then converting only the `i`-th requested channel with its own settings succeeds with exactly
`acts[i]` — the decision for a channel never depends on the other channels of the call. -/
theorem batch_eq_single (isZero : P → Bool) (m : Meta P) (refs : List Ref)
    (ats : List (Option (P × P))) (ags rs : List (Option P)) (acts : List (Nat × Law P))
    (h1 : ats.length = refs.length) (h2 : ags.length = refs.length) (h3 : rs.length = refs.length)
    (h : toRfi isZero m (some (.inr refs)) (.list ats) (.list ags) (.list rs) = .ok acts)
    (i : Nat) (hi : i < refs.length) :
    ∃ (hia : i < acts.length),
      toRfi isZero m (some (.inr [refs[i]])) (.list [ats[i]]) (.list [ags[i]]) (.list [rs[i]]) = .ok [acts[i]] := by
  rw [toRfi_list_eq isZero m refs ats ags rs h1 h2 h3] at h
  simp only [bind, Except.bind] at h
  split at h
  · simp at h
  · rename_i cis hcis
    have hcl := mapM_ok_length _ _ _ hcis
    have hzl : (cis.zip (rs.zip (ats.zip ags))).length = refs.length := by
      simp [List.length_zip, hcl, h1, h2, h3]
    have hal := mapM_ok_length _ _ _ h
    have hia : i < acts.length := by rw [hal, hzl]; exact hi
    refine ⟨hia, ?_⟩
    have hci := mapM_ok_get _ _ _ hcis i hi
    have hdi := mapM_ok_get _ _ _ h i (by rw [hzl]; exact hi)
    simp only [List.getElem_zip] at hdi
    rw [toRfi_list_eq isZero m [refs[i]] [ats[i]] [ags[i]] [rs[i]] rfl rfl rfl]
    simp only [List.mapM_cons, List.mapM_nil, bind, Except.bind, pure, Except.pure, hci]
    simp only [List.zip_cons_cons, List.zip_nil_right, List.mapM_cons, List.mapM_nil, bind, Except.bind, pure, Except.pure]
    rw [hdi]

end FlowCal.C03
