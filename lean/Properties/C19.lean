import Properties.C18
/-!
# C19 — Histogram bin edges are increasing, complete and centred on channel values
-/
namespace FlowCal.C19
open FlowCal.Logicle FlowCal.C18

/-- linear edges are strictly increasing in the edge index -/
theorem edgeLinear_strictMono (lo hi res n : ℝ) (h : lo < hi) (hres : 1 < res) (hn : 0 < n) :
    StrictMono (edgeLinear lo hi res n) := by
  intro i j hij
  unfold edgeLinear
  simp only
  have hδ : 0 < (hi - lo) / (res - 1) := div_pos (by linarith) (by linarith)
  have hstep : 0 < ((hi + (hi - lo) / (res - 1) / 2) - (lo - (hi - lo) / (res - 1) / 2)) / n := by
    apply div_pos _ hn; linarith
  nlinarith

/-- **Coverage**: the first edge lies below the lower limit and the last edge above the upper limit,
so every value the detector can report falls inside the binning. -/
theorem edgeLinear_cover (lo hi res n : ℝ) (h : lo < hi) (hres : 1 < res) (hn : 0 < n) :
    edgeLinear lo hi res n 0 < lo ∧ hi < edgeLinear lo hi res n n := by
  unfold edgeLinear
  simp only
  have hδ : 0 < (hi - lo) / (res - 1) := div_pos (by linarith) (by linarith)
  constructor
  · linarith
  · have hn' : n ≠ 0 := ne_of_gt hn
    have : n * (((hi + (hi - lo) / (res - 1) / 2) - (lo - (hi - lo) / (res - 1) / 2)) / n)
        = (hi + (hi - lo) / (res - 1) / 2) - (lo - (hi - lo) / (res - 1) / 2) := by field_simp
    rw [this]; linarith

/-- **Value-centred bins** with the default bin count (`n = res`): edge `i` is `lo - δ/2 + i·δ`, so the
`i`-th representable value `lo + i·δ` is exactly the centre of bin `i`. -/
theorem edgeLinear_centred (lo hi res i : ℝ) (hres : 1 < res) :
    let δ := (hi - lo) / (res - 1)
    edgeLinear lo hi res res i = lo - δ / 2 + i * δ ∧
    (edgeLinear lo hi res res i + edgeLinear lo hi res res (i + 1)) / 2 = lo + i * δ := by
  simp only
  have h1 : res - 1 ≠ 0 := by linarith
  have h2 : res ≠ 0 := by linarith
  have hstep : ((hi + (hi - lo) / (res - 1) / 2) - (lo - (hi - lo) / (res - 1) / 2)) / res = (hi - lo) / (res - 1) := by
    field_simp; ring
  unfold edgeLinear
  simp only
  rw [hstep]
  constructor
  · ring
  · ring

/-- log edges are positive and strictly increasing (also when the range starts at zero, after the
lower limit has been replaced by a positive one) -/
theorem edgeLog_pos (lo hi res n i : ℝ) : 0 < edgeLog lo hi res n i := pow10_pos _

theorem edgeLog_strictMono (lo hi res n : ℝ) (hlo : 0 < lo) (h : lo < hi) (hres : 1 < res) (hn : 0 < n) :
    StrictMono (edgeLog lo hi res n) := by
  intro i j hij
  unfold edgeLog
  apply pow10_lt
  have : (log10 lo : ℝ) < log10 hi := Real.logb_lt_logb (by norm_num) hlo h
  exact edgeLinear_strictMono _ _ res n this hres hn hij

/-- in log scale with the default bin count the representable values of a log-amplified channel
(geometrically spaced) are the geometric centres of their bins -/
theorem edgeLog_centred (lo hi res i : ℝ) (hres : 1 < res) :
    let δ := (Real.logb 10 hi - Real.logb 10 lo) / (res - 1)
    edgeLog lo hi res res i * edgeLog lo hi res res (i + 1) = (pow10 (Real.logb 10 lo + i * δ) : ℝ) ^ (2 : ℕ) := by
  simp only
  unfold edgeLog
  have hc := (edgeLinear_centred (Real.logb 10 lo) (Real.logb 10 hi) res i hres).2
  simp only [Pow10.log10] at hc ⊢
  rw [pow10_def, pow10_def, pow10_def, ← Real.rpow_add (by norm_num), ← Real.rpow_natCast, ← Real.rpow_mul (by norm_num)]
  congr 1
  push_cast
  linarith

/-- logicle edges are the images of a uniform grid in display space, hence strictly increasing -/
theorem edgeLogicle_strictMono (T M W p res n : ℝ) (hT : 0 < T) (hp : 0 < p) (hM : 0 < M) (hres : 1 < res) (hn : 0 < n) :
    StrictMono (edgeLogicle T M W p res n) := by
  intro i j hij
  unfold edgeLogicle
  simp only
  apply logicle_strictMono T M W p hT hp
  have hδ : 0 < M / (res - 1) := div_pos hM (by linarith)
  have hstep : 0 < ((M + M / (res - 1) / 2) - (-(M / (res - 1)) / 2)) / n := by
    apply div_pos _ hn; linarith
  nlinarith

/-- with the default `T` = upper range limit and `W ≥ 0`, the first logicle edge is below 0 -/
theorem edgeLogicle_first_neg (T M W p res n : ℝ) (hT : 0 < T) (hp : 0 < p) (hM : 0 < M) (hW : 0 ≤ W) (hres : 1 < res) :
    edgeLogicle T M W p res n 0 < 0 := by
  unfold edgeLogicle
  simp only
  have hδ : 0 < M / (res - 1) := div_pos hM (by linarith)
  have := (logicle_sign T M W p (-(M / (res - 1)) / 2 + 0 * ((M + M / (res - 1) / 2 - -(M / (res - 1)) / 2) / n)) hT hp).1
  apply this
  linarith

end FlowCal.C19
