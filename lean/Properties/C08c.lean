import FlowCalModel.Gate
import FlowCalModel.GeneratedExpr
/-!
# C08 — the ellipse predicate found in the source (centre, rotate by `R = [[c, s], [-s, c]]`, quadratic form ≤ 1) is the model's form
-/
namespace FlowCal.C08
open FlowCal

theorem source_ellipse_form_eq {α : Type} [Add α] [Sub α] [Mul α] [Div α] (cx cy a b c s x y : α) :
    GeneratedExpr.src_ellipse_form cx cy a b c s x y = Gate.ellipseForm cx cy a b c s x y := rfl

end FlowCal.C08
