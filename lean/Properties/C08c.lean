import FlowCalModel.Gate
import FlowCalModel.GeneratedExpr
import FlowCalModel.Generated
/-!
# C08 — the ellipse predicate found in the source (centre, rotate by `R = [[c, s], [-s, c]]`, quadratic form ≤ 1) is the model's form
-/
namespace FlowCal.C08
open FlowCal

theorem source_ellipse_form_eq {α : Type} [Add α] [Sub α] [Mul α] [Div α] (cx cy a b c s x y : α) :
    GeneratedExpr.src_ellipse_form cx cy a b c s x y = Gate.ellipseForm cx cy a b c s x y := rfl

/-- `start_end` and `high_low` in the source now (regenerated on every run) are, statement for statement, what the model stands for -/
theorem gate_definitions_match_source : Generated.gateDefinitions = Gate.sourceSpec := rfl

end FlowCal.C08
