import FlowCalModel.Heap
import FlowCalModel.Generated
/-!
# C13 — No call changes its inputs, and results share no state with them
-/
namespace FlowCal.C13
open FlowCal.Heap FlowCal.Generated

/-! ## (b) write sites regenerated from the source on every run -/

/-- In-place writes through parameters or internal-state aliases that are intended:
objects initialising or restoring themselves, and a `**kwargs` dictionary that is
fresh per call. Anything else found in the source breaks `writeSites_allowed`. -/
def allowedWrite (w : WriteSite) : Bool :=
  (w.kind == "store" && w.target == "self") ||
  (w.function == "FCSFile.__init__") ||
  (w.module == "plot" && w.target == "kwargs") ||
  (w.function == "FCSData.__setitem__")

/-- **Generated-facts theorem**: every in-place write the extractor finds in the public
functions and methods of io, transform, gate, stats, mef and plot is on the allow-list. -/
theorem writeSites_allowed : writeSites.all allowedWrite = true := by decide

/-! ## (a) frame theorems over the heap model -/

theorem copyLocs_read (h : Heap) (ls : List Loc) (l : Loc) (hl : l < h.next) :
    (h.copyLocs ls).1.read l = h.read l := by
  simp [Heap.copyLocs, Heap.read, Heap.next] at *
  rw [List.getElem?_append_left hl]

theorem copyLocs_next (h : Heap) (ls : List Loc) : h.next ≤ (h.copyLocs ls).1.next := by
  simp [Heap.copyLocs, Heap.next]

theorem finalizeFrom_read (h : Heap) (o : Obj) (buf : Option Loc) (cols : List Nat) (l : Loc) (hl : l < h.next) :
    (finalizeFrom h o buf cols).1.read l = h.read l := by
  unfold finalizeFrom
  simp only
  have h1 := copyLocs_read h (cols.map fun c => o.ranges.getD c 0) l hl
  have n1 := copyLocs_next h (cols.map fun c => o.ranges.getD c 0)
  have h2 := copyLocs_read (h.copyLocs (cols.map fun c => o.ranges.getD c 0)).1 [o.text] l (Nat.lt_of_lt_of_le hl n1)
  have n2 := copyLocs_next (h.copyLocs (cols.map fun c => o.ranges.getD c 0)).1 [o.text]
  cases buf with
  | some b => simp only; rw [h2, h1]
  | none =>
    simp only
    rw [copyLocs_read _ _ _ (Nat.lt_of_lt_of_le (Nat.lt_of_lt_of_le hl n1) n2), h2, h1]

/-- **Frame, one step**: a library operation leaves the content of every existing
location unchanged (event values, range lists, dictionaries of every object that
existed before the call — in particular of its arguments). -/
theorem step_frame (h : Heap) (op : Op) (hop : op.isLibrary = true) (l : Loc) (hl : l < h.next) :
    (step h op).read l = h.read l := by
  cases op <;> simp only [step, Op.isLibrary] at hop ⊢
  case load nch => simp [Heap.read, Heap.next] at *; rw [List.getElem?_append_left hl]
  case view i =>
    split
    · rfl
    · rename_i o _; exact finalizeFrom_read h o _ _ l hl
  case sliceColsBasic i cols =>
    split
    · rfl
    · rename_i o _; exact finalizeFrom_read h o _ _ l hl
  case sliceColsAdv i cols =>
    split
    · rfl
    · rename_i o _; exact finalizeFrom_read h o _ _ l hl
  case fresh i =>
    split
    · rfl
    · rename_i o _; exact finalizeFrom_read h o _ _ l hl
  case rangeOf i ch =>
    split
    · rfl
    · split <;> rfl
  case writeHandle => simp at hop
  case writeBuf => simp at hop

theorem step_next (h : Heap) (op : Op) : h.next ≤ (step h op).next := by
  cases op <;> simp only [step]
  case load nch => simp [Heap.next]
  case view i =>
    split
    · exact Nat.le_refl _
    · unfold finalizeFrom; simp [Heap.copyLocs, Heap.next] <;> omega
  case sliceColsBasic i cols =>
    split
    · exact Nat.le_refl _
    · unfold finalizeFrom; simp [Heap.copyLocs, Heap.next] <;> omega
  case sliceColsAdv i cols =>
    split
    · exact Nat.le_refl _
    · unfold finalizeFrom; simp [Heap.copyLocs, Heap.next] <;> omega
  case fresh i =>
    split
    · exact Nat.le_refl _
    · unfold finalizeFrom; simp [Heap.copyLocs, Heap.next] <;> omega
  case query i => exact Nat.le_refl _
  case rangeOf i ch =>
    split
    · exact Nat.le_refl _
    · split <;> exact Nat.le_refl _
  case writeHandle k v =>
    split
    · exact Nat.le_refl _
    · simp [Heap.next]
  case writeBuf i v =>
    split
    · exact Nat.le_refl _
    · simp [Heap.next]

/-- **Frame, every history**: after any sequence of library operations (any
number, any order, on any objects), every location that existed at the start
still holds the same content — so the answer of any query on a pre-existing
object does not depend on which other calls were made before it. -/
theorem history_frame (h : Heap) (ops : List Op) (hops : ∀ op ∈ ops, op.isLibrary = true)
    (l : Loc) (hl : l < h.next) : (run h ops).read l = h.read l := by
  induction ops generalizing h with
  | nil => rfl
  | cons op ops ih =>
    simp only [run, List.foldl_cons]
    have h1 := step_frame h op (hops op (by simp)) l hl
    have n1 := step_next h op
    have := ih (step h op) (fun o ho => hops o (by simp [ho])) (Nat.lt_of_lt_of_le hl n1)
    simp only [run] at this
    rw [this, h1]

/-- Non-vacuity: load, slice channels, convert, query, keep a range handle — location contents stay put;
and the write through the handle (a caller's edit) is what changes a cell. -/
example : let h := run empty [.load 3, .sliceColsAdv 0 [2, 0], .fresh 1, .query 0, .rangeOf 0 1]
    (h.objs.length = 3 ∧ (run h [.writeHandle 0 7]).read 3 = 7 ∧ h.read 3 = 0) := by decide

end FlowCal.C13
