import Properties.C18
import Mathlib.Topology.Order.IntermediateValue
import Mathlib.Analysis.SpecialFunctions.Pow.Continuity
/-!
# C18 — the logicle scale is onto: every data value has a display position
-/
namespace FlowCal.C18
open FlowCal.Logicle

theorem logicle_continuous (T M W p : ℝ) (_hp : 0 < p) : Continuous (logicle T M W p) := by
  unfold logicle
  simp only [pow10_def]
  have h10 : (10 : ℝ) ≠ 0 := by norm_num
  have c1 : Continuous fun s : ℝ => (10 : ℝ) ^ (s - W) :=
    Continuous.rpow continuous_const (by fun_prop) (fun _ => Or.inl h10)
  have c2 : Continuous fun s : ℝ => (10 : ℝ) ^ (-(s - W) / p) :=
    Continuous.rpow continuous_const (by fun_prop) (fun _ => Or.inl h10)
  fun_prop

theorem pow10_logb (x : ℝ) (hx : 0 < x) : (pow10 (Real.logb 10 x) : ℝ) = x := by
  rw [pow10_def]; exact Real.rpow_logb (by norm_num) (by norm_num) hx

/-- **Onto**: every real data value is the image of a display position. -/
theorem logicle_surjective (T M W p : ℝ) (hT : 0 < T) (hp : 0 < p) : Function.Surjective (logicle T M W p) := by
  intro y
  have hc : 0 < T * pow10 (-(M - W)) := mul_pos hT (pow10_pos _)
  set c := T * pow10 (-(M - W)) with hcdef
  have hpp : 0 < p * p := mul_pos hp hp
  set z := |y / c| with hz
  have hz0 : 0 ≤ z := abs_nonneg _
  have hyz : y ≤ c * z ∧ -(c * z) ≤ y := by
    have h1 : y = c * (y / c) := by field_simp
    have h2 := le_abs_self (y / c)
    have h3 := neg_abs_le (y / c)
    constructor
    · calc y = c * (y / c) := h1
        _ ≤ c * z := mul_le_mul_of_nonneg_left h2 hc.le
    · calc -(c * z) = c * (-z) := by ring
        _ ≤ c * (y / c) := mul_le_mul_of_nonneg_left h3 hc.le
        _ = y := h1.symm
  apply mem_range_of_exists_le_of_exists_ge (logicle_continuous T M W p hp)
  · -- a display position mapped below y
    refine ⟨W - p * Real.logb 10 (z / (p * p) + 1), ?_⟩
    have harg : 0 < z / (p * p) + 1 := by positivity
    have hl : 0 ≤ Real.logb 10 (z / (p * p) + 1) := Real.logb_nonneg (by norm_num) (by
      have : 0 ≤ z / (p * p) := by positivity
      linarith)
    unfold logicle
    rw [← hcdef]
    have e1 : -(W - p * Real.logb 10 (z / (p * p) + 1) - W) / p = Real.logb 10 (z / (p * p) + 1) := by
      field_simp; ring
    rw [e1, pow10_logb _ harg]
    have e2 : (pow10 (W - p * Real.logb 10 (z / (p * p) + 1) - W) : ℝ) ≤ 1 := by
      rw [pow10_def]
      apply Real.rpow_le_one_of_one_le_of_nonpos (by norm_num)
      have := mul_nonneg hp.le hl
      linarith
    have e3 : p * p * (z / (p * p) + 1) = z + p * p := by field_simp
    have : c * (pow10 (W - p * Real.logb 10 (z / (p * p) + 1) - W) - p * p * (z / (p * p) + 1) + p * p - 1) ≤ c * (-z) := by
      apply mul_le_mul_of_nonneg_left _ hc.le
      rw [e3]; linarith
    calc _ ≤ c * (-z) := this
      _ = -(c * z) := by ring
      _ ≤ y := hyz.2
  · -- a display position mapped above y
    refine ⟨W + Real.logb 10 (z + 1), ?_⟩
    have harg : 0 < z + 1 := by linarith
    have hl : 0 ≤ Real.logb 10 (z + 1) := Real.logb_nonneg (by norm_num) (by linarith)
    unfold logicle
    rw [← hcdef]
    have e1 : W + Real.logb 10 (z + 1) - W = Real.logb 10 (z + 1) := by ring
    rw [e1, pow10_logb _ harg]
    have e2 : (pow10 (-Real.logb 10 (z + 1) / p) : ℝ) ≤ 1 := by
      rw [pow10_def]
      apply Real.rpow_le_one_of_one_le_of_nonpos (by norm_num)
      apply div_nonpos_of_nonpos_of_nonneg _ hp.le
      linarith
    have : c * z ≤ c * (z + 1 - p * p * pow10 (-Real.logb 10 (z + 1) / p) + p * p - 1) := by
      apply mul_le_mul_of_nonneg_left _ hc.le
      have := mul_le_mul_of_nonneg_left e2 hpp.le
      linarith
    calc y ≤ c * z := hyz.1
      _ ≤ _ := this

/-- **The logicle scale is a bijection** between display positions and data values, for every `T > 0`
and `p > 0` (in particular for every `p ≥ 1` the `W`-equation yields). -/
theorem logicle_bijective (T M W p : ℝ) (hT : 0 < T) (hp : 0 < p) : Function.Bijective (logicle T M W p) :=
  ⟨logicle_injective T M W p hT hp, logicle_surjective T M W p hT hp⟩

/-- its inverse (what `_LogicleTransform.inverted()` approximates by interpolation) exists, is unique and is strictly increasing -/
theorem logicle_inverse_strictMono (T M W p : ℝ) (hT : 0 < T) (hp : 0 < p) (g : ℝ → ℝ)
    (hg : ∀ s, g (logicle T M W p s) = s) : StrictMono g := by
  intro x y hxy
  obtain ⟨s, rfl⟩ := logicle_surjective T M W p hT hp x
  obtain ⟨t, rfl⟩ := logicle_surjective T M W p hT hp y
  rw [hg, hg]
  exact (logicle_strictMono T M W p hT hp).lt_iff_lt.mp hxy

end FlowCal.C18
