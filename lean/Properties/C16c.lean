import Properties.C16b
import Properties.C14b
/-!
# C16 (continued) — one statement about the whole of `loadFile`: a file that loads physically contains the DATA extent
that its own HEADER / keywords declare; hence every cut before the end of DATA is refused
-/
namespace FlowCal.C16
open FlowCal.Data FlowCal.Py FlowCal.File FlowCal.C01

/-- a successful DATA stage means: the offsets were found, are non-negative, and `read_fcs_data_segment` succeeded on them -/
theorem loadData_ok (file : Bytes) (h : Header) (k : Keywords) (L : Loaded) (hL : loadData file h k = .ok L) :
    L.text = k.text ∧ ∃ db de tot : Int, dataOffsets h k.text = .ok (db, de) ∧ 0 ≤ db ∧ 0 ≤ de ∧ 0 ≤ tot ∧
      readData file db.toNat de.toNat (dtypeOf k.dts) tot.toNat (k.ws.map Int.toNat) k.big (some (k.bits.map (·.getD 0))) = .ok L.data := by
  unfold loadData at hL
  split at hL
  · simp at hL
  · rename_i db de hoff
    split at hL
    · simp at hL
    · rename_i tot htot
      split at hL
      · simp at hL
      · rename_i hneg
        split at hL
        · simp at hL
        · split at hL
          · simp at hL
          · simp only [] at hL
            split at hL
            · simp at hL
            · rename_i data hdata
              simp only [Except.ok.injEq] at hL
              subst hL
              simp only [Bool.or_eq_true, decide_eq_true_eq, not_or] at hneg
              exact ⟨rfl, db, de, tot, hoff, by omega, by omega, by omega, hdata⟩

theorem loadFile_ok (file : Bytes) (L : Loaded) (hL : loadFile file = .ok L) :
    ∃ h t k, parseHeader file = .ok h ∧ readTextSeg file h.textBegin h.textEnd none false = .ok t ∧
      loadKeywords file h t = .ok k ∧ loadData file h k = .ok L := by
  unfold loadFile at hL
  split at hL
  · simp at hL
  · rename_i h hh
    split at hL
    · simp at hL
    · rename_i t ht
      unfold loadRest at hL
      split at hL
      · simp at hL
      · rename_i k hk
        exact ⟨h, t, k, hh, ht, hk, hL⟩

/-- **Every file that loads contains the whole DATA extent it declares**: the offsets found by the documented rule
(HEADER, else `$BEGINDATA`/`$ENDDATA` of the merged keywords that the load returns) are non-negative and the end offset does
not exceed the length of the file. -/
theorem loaded_file_contains_declared_data (file : Bytes) (L : Loaded) (hL : loadFile file = .ok L) :
    ∃ h db de, parseHeader file = .ok h ∧ dataOffsets h L.text = .ok (db, de) ∧ 0 ≤ db ∧ 0 ≤ de ∧ de ≤ (file.length : Int) := by
  obtain ⟨h, t, k, hh, _, _, hd⟩ := loadFile_ok file L hL
  obtain ⟨htext, db, de, tot, hoff, hdb, hde, _, hread⟩ := loadData_ok file h k L hd
  have hr := readData_ok file db.toNat de.toNat _ _ _ _ _ _ hread
  refine ⟨h, db, de, hh, by rw [htext]; exact hoff, hdb, hde, ?_⟩
  obtain ⟨hsz, hin, _, _⟩ := hr
  rcases hsz with ⟨h1, h2⟩ | ⟨h1, h2⟩ <;> omega

/-- **A file cut before the end of the DATA segment its HEADER declares cannot be loaded**, wherever TEXT, supplemental TEXT
and ANALYSIS lie and whatever they contain. -/
theorem cut_before_data_end_fails (file : Bytes) (n : Nat) (h : Header) (h58 : 58 ≤ n)
    (hh : parseHeader file = .ok h) (hb : h.dataBegin ≠ 0) (he : h.dataEnd ≠ 0) (hcut : (n : Int) < h.dataEnd) :
    ∃ err, loadFile (file.take n) = .error err := by
  cases hL : loadFile (file.take n) with
  | error err => exact ⟨err, rfl⟩
  | ok L =>
    exfalso
    obtain ⟨h', db, de, hh', hoff, _, _, hlen⟩ := loaded_file_contains_declared_data _ L hL
    rw [parseHeader_take file n h58, hh] at hh'
    cases hh'
    have : dataOffsets h L.text = .ok (h.dataBegin, h.dataEnd) := by
      unfold dataOffsets
      simp [hb, he]
    rw [this] at hoff
    cases hoff
    simp only [List.length_take] at hlen
    omega

/-- the same for files whose HEADER leaves the DATA offsets to the keywords (large files): if the cut file loads at all,
the `$ENDDATA` of the keywords it returns lies inside what is left of the file -/
theorem cut_file_loads_only_with_data_inside (file : Bytes) (n : Nat) (L : Loaded) (hL : loadFile (file.take n) = .ok L) :
    ∃ h db de, parseHeader (file.take n) = .ok h ∧ dataOffsets h L.text = .ok (db, de) ∧ de ≤ (n : Int) := by
  obtain ⟨h, db, de, hh, hoff, _, _, hlen⟩ := loaded_file_contains_declared_data _ L hL
  refine ⟨h, db, de, hh, hoff, ?_⟩
  simp only [List.length_take] at hlen
  omega

/-- **A file loads only if its declarations are consistent**: the number of bytes implied by `$TOT` and the `$PnB` equals the
declared DATA extent or the extent minus one (the tolerated one-past-the-end convention), and the load then returns exactly `$TOT`
events — whatever else the file contains. A corrupted `$TOT`, `$PAR`, `$PnB` or DATA offset that breaks this is refused. -/
theorem loaded_file_is_consistent (file : Bytes) (L : Loaded) (hL : loadFile file = .ok L) :
    ∃ (h : Header) (k : Keywords) (db de tot : Int), parseHeader file = .ok h ∧ dataOffsets h L.text = .ok (db, de) ∧ 0 ≤ tot ∧
      (let need := totalBytes (dtypeOf k.dts) tot.toNat (k.ws.map Int.toNat)
       (need = de.toNat + 1 - db.toNat ∧ db.toNat ≤ de.toNat + 1) ∨ (need = de.toNat - db.toNat ∧ db.toNat ≤ de.toNat)) ∧
      L.data.length = tot.toNat := by
  obtain ⟨h, t, k, hh, _, _, hd⟩ := loadFile_ok file L hL
  obtain ⟨htext, db, de, tot, hoff, _, _, htot, hread⟩ := loadData_ok file h k L hd
  have hr := readData_ok file db.toNat de.toNat _ _ _ _ _ _ hread
  exact ⟨h, k, db, de, tot, hh, by rw [htext]; exact hoff, htot, hr.1, hr.2.2.2⟩

/-- reading a whole TEXT-like segment that lies inside the first `n` bytes gives the same result on the file cut at `n` -/
theorem readTextSeg_take (file : Bytes) (n : Nat) (b e : Int) (d : Option (Option Nat)) (supp : Bool)
    (hb : 0 ≤ b) (hbe : b ≤ e) (hin : e + 1 ≤ n) :
    readTextSeg (file.take n) b e d supp = readTextSeg file b e d supp := by
  unfold readTextSeg
  have hd : resolveDelim (file.take n) b d supp = resolveDelim file b d supp := by
    unfold resolveDelim
    cases d with
    | none =>
      cases supp with
      | true => rfl
      | false => simp only [Bool.false_eq_true, if_false]; rw [readAt_take file n b 1 hb (by omega) (by omega)]
    | some c => cases c <;> rfl
  rw [hd]
  cases resolveDelim file b d supp with
  | error err => rfl
  | ok dd => exact readTextBody_take file n b e dd supp hb (by omega) hin

/-- the merge of primary and supplemental keywords is the same on the cut file when the supplemental segment the primary keywords
declare (if any) lies inside the first `n` bytes -/
theorem mergeText_take (file : Bytes) (n : Nat) (h : Header) (t : Dict × Option Nat × Bool)
    (hs : ∀ sb se, intKw t.1 "$BEGINSTEXT" = .ok sb → intKw t.1 "$ENDSTEXT" = .ok se → sb ≠ 0 → se ≠ 0 → 0 ≤ sb ∧ sb ≤ se ∧ se + 1 ≤ n) :
    mergeText (file.take n) h t = mergeText file h t := by
  obtain ⟨text0, delim, w0⟩ := t
  unfold mergeText
  simp only
  split
  · cases hsb : intKw text0 "$BEGINSTEXT" with
    | error err => rfl
    | ok sb =>
      cases hse : intKw text0 "$ENDSTEXT" with
      | error err => rfl
      | ok se =>
        simp only
        split
        · rename_i hnz
          simp only [Bool.and_eq_true, bne_iff_ne, ne_eq] at hnz
          obtain ⟨h1, h2, h3⟩ := hs sb se hsb hse hnz.1 hnz.2
          rw [readTextSeg_take file n sb se _ true h1 h2 h3]
        · rfl
  · rfl

/-- **A file cut before the end of the DATA segment that its own keywords declare cannot be loaded** (HEADER offsets zero or not):
for an intact file that loads, every cut `n` that leaves the HEADER, the primary TEXT segment and the declared supplemental TEXT
segment intact but ends before the declared end of DATA is refused. -/
theorem cut_before_declared_data_end_fails (file : Bytes) (n : Nat) (L : Loaded) (hL : loadFile file = .ok L)
    (h : Header) (t : Dict × Option Nat × Bool) (db de : Int) (h58 : 58 ≤ n)
    (hh : parseHeader file = .ok h) (ht : readTextSeg file h.textBegin h.textEnd none false = .ok t)
    (htb : 0 ≤ h.textBegin) (hte : h.textBegin ≤ h.textEnd) (htn : h.textEnd + 1 ≤ n)
    (hs : ∀ sb se, intKw t.1 "$BEGINSTEXT" = .ok sb → intKw t.1 "$ENDSTEXT" = .ok se → sb ≠ 0 → se ≠ 0 → 0 ≤ sb ∧ sb ≤ se ∧ se + 1 ≤ n)
    (hoff : dataOffsets h L.text = .ok (db, de)) (hcut : (n : Int) < de) :
    ∃ err, loadFile (file.take n) = .error err := by
  cases hL' : loadFile (file.take n) with
  | error err => exact ⟨err, rfl⟩
  | ok L' =>
    exfalso
    -- the keywords of the cut file are those of the intact file
    obtain ⟨h1, t1, k1, hh1, ht1, hk1, hd1⟩ := loadFile_ok file L hL
    obtain ⟨h2, t2, k2, hh2, ht2, hk2, hd2⟩ := loadFile_ok _ L' hL'
    rw [hh] at hh1; cases hh1
    rw [parseHeader_take file n h58, hh] at hh2; cases hh2
    rw [ht] at ht1; cases ht1
    rw [readTextSeg_take file n h.textBegin h.textEnd none false htb hte htn, ht] at ht2; cases ht2
    obtain ⟨w1, hm1⟩ := FlowCal.C14.loadKeywords_text file h t k1 hk1
    obtain ⟨w2, hm2⟩ := FlowCal.C14.loadKeywords_text _ h t k2 hk2
    rw [mergeText_take file n h t hs, hm1] at hm2
    have hkt : k2.text = k1.text := by
      have := Except.ok.inj hm2
      exact (Prod.mk.inj this).1.symm
    have e1 := (loadData_ok file h k1 L hd1).1
    have e2 := (loadData_ok _ h k2 L' hd2).1
    obtain ⟨h', db', de', hh', hoff', _, _, hlen⟩ := loaded_file_contains_declared_data _ L' hL'
    rw [parseHeader_take file n h58, hh] at hh'; cases hh'
    rw [e2, hkt, ← e1, hoff] at hoff'
    cases hoff'
    simp only [List.length_take] at hlen
    omega

/-! ### the premises are satisfiable: a complete 156-byte FCS2.0 file with two one-byte events (written by the harness's independent writer) -/

def tinyFile : List Nat := [70, 67, 83, 50, 46, 48, 32, 32, 32, 32, 32, 32, 32, 32, 32, 32, 53, 56, 32, 32, 32, 32, 32, 49, 53, 51, 32, 32, 32, 32, 32, 49, 53, 52, 32, 32, 32, 32, 32, 49, 53, 53, 32, 32, 32, 32, 32, 32, 32, 48, 32, 32, 32, 32, 32, 32, 32, 48, 47, 36, 66, 89, 84, 69, 79, 82, 68, 47, 49, 44, 50, 44, 51, 44, 52, 47, 36, 68, 65, 84, 65, 84, 89, 80, 69, 47, 73, 47, 36, 77, 79, 68, 69, 47, 76, 47, 36, 78, 69, 88, 84, 68, 65, 84, 65, 47, 48, 47, 36, 80, 65, 82, 47, 49, 47, 36, 84, 79, 84, 47, 50, 47, 36, 80, 49, 66, 47, 56, 47, 36, 80, 49, 78, 47, 65, 47, 36, 80, 49, 82, 47, 50, 53, 54, 47, 36, 80, 49, 69, 47, 48, 44, 48, 47, 7, 9]

example : (loadFile tinyFile).toOption.map (·.data) = some [[7], [9]] := by decide +kernel
example : parseHeader tinyFile = .ok ⟨[70, 67, 83, 50, 46, 48], 58, 153, 154, 155, 0, 0⟩ := by decide +kernel
/-- the two last cuts, one of which (`n = 155 = dataEnd`) lies outside `cut_before_data_end_fails` because of the tolerated
one-past-the-end convention and is covered by `truncated_data_fails` -/
example : (loadFile (tinyFile.take 154)).toOption = none ∧ (loadFile (tinyFile.take 155)).toOption = none := by decide +kernel

end FlowCal.C16
