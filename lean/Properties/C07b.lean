import Properties.C07
import Properties.C09
import Mathlib.Analysis.SpecialFunctions.Pow.Real
/-!
# C07 (continued) — the conversion laws are strictly increasing over the reals, so `gate_convert_comm` applies to them
-/
namespace FlowCal.C07
open FlowCal.C09

/-- log-amplifier law `a1 · 10^(a0/r · x)` -/
noncomputable def rfiLog (a0 a1 r x : ℝ) : ℝ := a1 * (10 : ℝ) ^ (a0 / r * x)

/-- linear-amplifier law `x / g` -/
noncomputable def rfiLin (g x : ℝ) : ℝ := x / g

theorem rfiLog_strictMono (a0 a1 r : ℝ) (h0 : 0 < a0) (h1 : 0 < a1) (hr : 0 < r) : StrictMono (rfiLog a0 a1 r) := by
  intro x y hxy
  unfold rfiLog
  apply mul_lt_mul_of_pos_left _ h1
  apply (Real.rpow_lt_rpow_left_iff (by norm_num : (1 : ℝ) < 10)).mpr
  exact mul_lt_mul_of_pos_left hxy (div_pos h0 hr)

theorem rfiLin_strictMono (g : ℝ) (hg : 0 < g) : StrictMono (rfiLin g) := by
  intro x y hxy
  unfold rfiLin
  exact div_lt_div_of_pos_right hxy hg

/-- channel value 0 maps to `a1` (the offset of the log amplifier) -/
theorem rfiLog_zero (a0 a1 r : ℝ) : rfiLog a0 a1 r 0 = a1 := by simp [rfiLog]

/-- a strictly increasing real function is an order embedding in the sense used by `gate_convert_comm` -/
theorem orderEmb_of_strictMono (f : ℝ → ℝ) (h : StrictMono f) : OrderEmb f :=
  fun _ _ => ⟨fun hab => h hab, fun hfab => h.lt_iff_lt.mp hfab⟩

/-- **Saturation gating commutes with RFI conversion** of a log-amplified channel, over the reals. -/
theorem gate_comm_rfiLog (s : FlowCal.Transform.Ranged ℝ) (c : Nat) (a0 a1 r : ℝ) (h0 : 0 < a0) (h1 : 0 < a1) (hr : 0 < r) :
    FlowCal.Transform.gateRows (FlowCal.Transform.convert c (rfiLog a0 a1 r) s) = FlowCal.Transform.gateRows s :=
  gate_convert_comm s c _ (orderEmb_of_strictMono _ (rfiLog_strictMono a0 a1 r h0 h1 hr))

theorem gate_comm_rfiLin (s : FlowCal.Transform.Ranged ℝ) (c : Nat) (g : ℝ) (hg : 0 < g) :
    FlowCal.Transform.gateRows (FlowCal.Transform.convert c (rfiLin g) s) = FlowCal.Transform.gateRows s :=
  gate_convert_comm s c _ (orderEmb_of_strictMono _ (rfiLin_strictMono g hg))

/-- … and with MEF conversion by any standard curve of positive slope (`sign(x)·exp(b)·|x|^m`). -/
theorem gate_comm_stdCurve (s : FlowCal.Transform.Ranged ℝ) (c : Nat) (m b : ℝ) (hm : 0 < m) :
    FlowCal.Transform.gateRows (FlowCal.Transform.convert c (sc m b) s) = FlowCal.Transform.gateRows s :=
  gate_convert_comm s c _ (orderEmb_of_strictMono _ (sc_strictMono m b hm))

end FlowCal.C07
