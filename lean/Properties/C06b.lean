import Properties.C06
import Mathlib.Data.List.Forall2
/-!
# C06 (continued) — names and positions are interchangeable spellings of a channel

On a sample whose channel names are distinct, the name of column `i` and the position `i` resolve to the same channel; hence the plan
`to_mef` executes (which curve goes to which column) is the same however the requested channels and the channels of the curves are spelt.
-/
namespace FlowCal.C06
open FlowCal.Transform FlowCal.Py FlowCal.C03

variable {P : Type}

/-- two references that name the same channel of the sample `m` -/
def SameChannel (m : Meta P) (r r' : Ref) : Prop := resolve m r = resolve m r'

theorem idxOf?_getElem_of_nodup (l : List String) (h : l.Nodup) (i : Nat) (hi : i < l.length) : l.idxOf? l[i] = some i := by
  induction l generalizing i with
  | nil => simp at hi
  | cons a l ih =>
    cases i with
    | zero => simp [List.idxOf?, List.findIdx?_cons]
    | succ i =>
      have hi' : i < l.length := by simpa using hi
      have hne : l[i] ≠ a := by
        intro he
        have : a ∈ l := he ▸ List.getElem_mem hi'
        exact (List.nodup_cons.mp h).1 this
      have := ih (List.nodup_cons.mp h).2 i hi'
      simp only [List.idxOf?, List.getElem_cons_succ] at this ⊢
      rw [List.findIdx?_cons]
      have hb : (a == l[i]) = false := by
        simpa [beq_eq_false_iff_ne] using fun h' => hne h'.symm
      simp [hb, this]

/-- on a sample with distinct channel names, the name of column `i` and the position `i` are the same channel -/
theorem name_pos_same (m : Meta P) (hs : m.isSample = true) (hn : m.names.Nodup) (hl : m.names.length = m.ncols) (i : Nat) (hi : i < m.ncols) :
    SameChannel m (.name (m.names[i]'(hl ▸ hi))) (.pos (i : Int)) := by
  unfold SameChannel resolve
  simp only [hs, if_true]
  rw [idxOf?_getElem_of_nodup m.names hn i (hl ▸ hi)]
  have h1 : ((i : Int) < (m.ncols : Int) && (i : Int) ≥ -(m.ncols : Int)) = true := by
    simp; omega
  simp only [h1, if_true]

theorem mapM_resolve_congr (m : Meta P) (l l' : List Ref) (h : List.Forall₂ (SameChannel m) l l') :
    l.mapM (resolve m) = l'.mapM (resolve m) := by
  induction h with
  | nil => rfl
  | cons hr _ ih =>
    simp only [List.mapM_cons, bind, Except.bind]
    rw [hr, ih]

/-- **The plan of `to_mef` does not depend on how channels are spelt**: replacing any reference — in the requested channels or in the
channels of the curves — by another spelling of the same channel leaves the result unchanged (the same columns get the same curves, or the
same refusal). -/
theorem toMef_spelling_irrelevant (m : Meta P) (hs : m.isSample = true) (n : Nat) (req req' sc sc' : List Ref)
    (hreq : List.Forall₂ (SameChannel m) req req') (hsc : List.Forall₂ (SameChannel m) sc sc') :
    toMef m (some (.inr req)) n (some sc) = toMef m (some (.inr req')) n (some sc') := by
  have hlen : sc.length = sc'.length := List.Forall₂.length_eq hsc
  unfold toMef
  simp only [hs, if_true, hlen, mapM_resolve_congr m sc sc' hsc, mapM_resolve_congr m req req' hreq]

/-- the same for a single requested channel -/
theorem toMef_spelling_irrelevant_scalar (m : Meta P) (hs : m.isSample = true) (n : Nat) (r r' : Ref) (sc sc' : List Ref)
    (hr : SameChannel m r r') (hsc : List.Forall₂ (SameChannel m) sc sc') :
    toMef m (some (.inl r)) n (some sc) = toMef m (some (.inl r')) n (some sc') := by
  have hlen : sc.length = sc'.length := List.Forall₂.length_eq hsc
  unfold SameChannel at hr
  unfold toMef
  simp only [hs, if_true, hlen, mapM_resolve_congr m sc sc' hsc, hr]

/-- non-vacuity: a three-channel sample; `['FL1-H', 0]` and `[1, 'FSC-H']` are the same request -/
example : let m : Meta Nat := ⟨true, 3, ["FSC-H", "FL1-H", "FL2-H"], [], [], []⟩
    toMef m (some (.inr [.name "FL1-H", .pos 0])) 2 (some [.pos 1, .name "FSC-H"]) =
    toMef m (some (.inr [.pos 1, .name "FSC-H"])) 2 (some [.name "FL1-H", .pos 0]) ∧
    toMef m (some (.inr [.name "FL1-H", .pos 0])) 2 (some [.pos 1, .name "FSC-H"]) = .ok [(1, 0), (0, 1)] := by decide

end FlowCal.C06
