import Properties.C08
import Mathlib.Tactic.FieldSimp
import Mathlib.Tactic.Ring
/-!
# C08 (continued) — symmetries of the ellipse gate: the sign of a semi-axis and a half turn do not matter
-/
namespace FlowCal.C08
open FlowCal.Gate

variable {F : Type} [Field F]

/-- the quadratic form depends on the semi-axes through their squares only: a negative semi-axis describes the same gate -/
theorem form_neg_axes (cx cy a b c s x y : F) :
    ellipseForm cx cy (-a) b c s x y = ellipseForm cx cy a b c s x y ∧
    ellipseForm cx cy a (-b) c s x y = ellipseForm cx cy a b c s x y ∧
    ellipseForm cx cy (-a) (-b) c s x y = ellipseForm cx cy a b c s x y := by
  unfold ellipseForm
  simp only [div_neg, neg_mul_neg, and_self]

/-- rotating the ellipse by a half turn (`(c, s) ↦ (-c, -s)`) gives the same gate -/
theorem form_half_turn (cx cy a b c s x y : F) :
    ellipseForm cx cy a b (-c) (-s) x y = ellipseForm cx cy a b c s x y := by
  unfold ellipseForm
  simp only
  have h1 : (x - cx) * -c + (y - cy) * -s = -((x - cx) * c + (y - cy) * s) := by ring
  have h2 : (y - cy) * -c - (x - cx) * -s = -((y - cy) * c - (x - cx) * s) := by ring
  rw [h1, h2, neg_div, neg_div, neg_mul_neg, neg_mul_neg]

/-- the gate is symmetric about its centre: an event and its mirror image through the centre get the same value -/
theorem form_point_symmetry (cx cy a b c s x y : F) :
    ellipseForm cx cy a b c s (2 * cx - x) (2 * cy - y) = ellipseForm cx cy a b c s x y := by
  unfold ellipseForm
  simp only
  have h1 : (2 * cx - x - cx) * c + (2 * cy - y - cy) * s = -((x - cx) * c + (y - cy) * s) := by ring
  have h2 : (2 * cy - y - cy) * c - (2 * cx - x - cx) * s = -((y - cy) * c - (x - cx) * s) := by ring
  rw [h1, h2, neg_div, neg_div, neg_mul_neg, neg_mul_neg]

end FlowCal.C08
