import FlowCalModel.Mef
import FlowCalModel.GeneratedExpr
import Mathlib.Data.Real.Basic
import Mathlib.Tactic.Linarith
import Mathlib.Tactic.NormNum
/-!
# C02 — a subpopulation whose events pile up at a detector limit takes no part in the fit

`selection_std` compares, in the rescaled (display) coordinate, the mean of each subpopulation minus / plus a
multiple of its standard deviation with two thresholds placed 1.5 % inside the rescaled range limits.
The formulas are translated from the source on every run (`GeneratedExpr.src_threshold_*`, `src_reach_*`).
-/
namespace FlowCal.C02
open FlowCal FlowCal.Mef

theorem source_threshold_low_eq {β : Type} [Add β] [Sub β] [Mul β] [OfScientific β] (s0 s1 : β) :
    GeneratedExpr.src_threshold_low s0 s1 = thresholdLow s0 s1 := rfl
theorem source_threshold_high_eq {β : Type} [Add β] [Sub β] [Mul β] [OfScientific β] (s0 s1 : β) :
    GeneratedExpr.src_threshold_high s0 s1 = thresholdHigh s0 s1 := rfl
theorem source_reach_low_eq {β : Type} [Add β] [Sub β] [Mul β] [OfScientific β] (n mean std : β) :
    GeneratedExpr.src_reach_low n mean std = reachLow n mean std := rfl
theorem source_reach_high_eq {β : Type} [Add β] [Sub β] [Mul β] [OfScientific β] (n mean std : β) :
    GeneratedExpr.src_reach_high n mean std = reachHigh n mean std := rfl

/-- the default thresholds lie strictly inside the (rescaled) range, the lower one below the upper one -/
theorem thresholds_inside (s0 s1 : ℝ) (h : s0 < s1) :
    s0 < thresholdLow s0 s1 ∧ thresholdLow s0 s1 < thresholdHigh s0 s1 ∧ thresholdHigh s0 s1 < s1 := by
  unfold thresholdLow thresholdHigh
  refine ⟨by nlinarith, by nlinarith, by nlinarith⟩

/-- **Piled up at the upper limit ⇒ not selected**: a subpopulation whose mean (in the rescaled coordinate) is at or above the
upper range limit is dropped, for every non-negative standard deviation and every non-negative `n_std_high`. -/
theorem piled_high_excluded (s0 s1 nLow nHigh mean std : ℝ) (h : s0 < s1) (hm : s1 ≤ mean) (hs : 0 ≤ std) (hn : 0 ≤ nHigh) :
    ¬ Selected (thresholdLow s0 s1) (thresholdHigh s0 s1) nLow nHigh mean std := by
  intro hsel
  have hh := hsel.2
  have ht := (thresholds_inside s0 s1 h).2.2
  unfold reachHigh at hh
  have : 0 ≤ nHigh * std := mul_nonneg hn hs
  linarith

/-- **Piled up at the lower limit ⇒ not selected.** -/
theorem piled_low_excluded (s0 s1 nLow nHigh mean std : ℝ) (h : s0 < s1) (hm : mean ≤ s0) (hs : 0 ≤ std) (hn : 0 ≤ nLow) :
    ¬ Selected (thresholdLow s0 s1) (thresholdHigh s0 s1) nLow nHigh mean std := by
  intro hsel
  have hl := hsel.1
  have ht := (thresholds_inside s0 s1 h).1
  unfold reachLow at hl
  have : 0 ≤ nLow * std := mul_nonneg hn hs
  linarith

/-- more generally: whatever lies within `n·std` of a threshold (on the outer side) is dropped, and a subpopulation that keeps
`n·std` clear of both thresholds is kept — the mask is exactly this predicate -/
theorem selected_iff (low high nLow nHigh mean std : ℝ) :
    Selected low high nLow nHigh mean std ↔ low + nLow * std < mean ∧ mean < high - nHigh * std := by
  unfold Selected reachLow reachHigh
  constructor
  · rintro ⟨h1, h2⟩; exact ⟨by linarith, by linarith⟩
  · rintro ⟨h1, h2⟩; exact ⟨by linarith, by linarith⟩

/-- the same statements for the formulas found in the source -/
theorem source_piled_high_excluded (s0 s1 nLow nHigh mean std : ℝ) (h : s0 < s1) (hm : s1 ≤ mean) (hs : 0 ≤ std) (hn : 0 ≤ nHigh) :
    ¬ (GeneratedExpr.src_reach_low nLow mean std > GeneratedExpr.src_threshold_low s0 s1 ∧
       GeneratedExpr.src_reach_high nHigh mean std < GeneratedExpr.src_threshold_high s0 s1) :=
  piled_high_excluded s0 s1 nLow nHigh mean std h hm hs hn

theorem source_piled_low_excluded (s0 s1 nLow nHigh mean std : ℝ) (h : s0 < s1) (hm : mean ≤ s0) (hs : 0 ≤ std) (hn : 0 ≤ nLow) :
    ¬ (GeneratedExpr.src_reach_low nLow mean std > GeneratedExpr.src_threshold_low s0 s1 ∧
       GeneratedExpr.src_reach_high nHigh mean std < GeneratedExpr.src_threshold_high s0 s1) :=
  piled_low_excluded s0 s1 nLow nHigh mean std h hm hs hn

/-- non-vacuity: on a display range [0, 4.5] a subpopulation at 2 with spread 0.05 is selected, one at 4.5 is not -/
example : Selected (thresholdLow (0 : ℝ) 4.5) (thresholdHigh 0 4.5) 2.5 2.5 2 0.05 := by
  unfold Selected thresholdLow thresholdHigh reachLow reachHigh; constructor <;> norm_num

end FlowCal.C02
