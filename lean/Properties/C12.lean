import FlowCalModel.Stats
import FlowCalModel.Generated
import Mathlib.Algebra.BigOperators.Group.List.Basic
import Mathlib.Algebra.Order.Ring.Rat
import Mathlib.Data.List.Sort
/-!
# C12 — Summary statistics equal their definitions for any container and channel form
-/
namespace FlowCal.C12
open FlowCal.Stats

theorem sum_eq_listSum (xs : List Rat) : FlowCal.Stats.sum xs = xs.sum := by
  induction xs with
  | nil => rfl
  | cons x xs ih => simp [FlowCal.Stats.sum, List.foldr] at ih ⊢; rw [← ih]

/-- the mean does not depend on the order of events -/
theorem mean_perm (xs ys : List Rat) (h : xs.Perm ys) : mean xs = mean ys := by
  simp only [mean, sum_eq_listSum, h.sum_eq, h.length_eq]

/-- the variance (hence SD and CV) does not depend on the order of events -/
theorem variance_perm (xs ys : List Rat) (h : xs.Perm ys) : variance xs = variance ys := by
  simp only [variance, sum_eq_listSum, mean_perm xs ys h, h.length_eq]
  rw [(h.map _).sum_eq]

/-- sorting is order independent, hence so are the median, quartiles, IQR and robust CV -/
theorem sorted_perm (xs ys : List Rat) (h : xs.Perm ys) : sorted xs = sorted ys := by
  unfold sorted
  have hx := List.mergeSort_perm xs (fun a b => decide (a ≤ b))
  have hy := List.mergeSort_perm ys (fun a b => decide (a ≤ b))
  have hp : (xs.mergeSort (fun a b => decide (a ≤ b))).Perm (ys.mergeSort (fun a b => decide (a ≤ b))) :=
    hx.trans (h.trans hy.symm)
  have total : ∀ a b : Rat, (decide (a ≤ b) || decide (b ≤ a)) = true := by
    intro a b; simp; exact le_total a b
  have trans : ∀ a b c : Rat, decide (a ≤ b) = true → decide (b ≤ c) = true → decide (a ≤ c) = true := by
    intro a b c h1 h2; simp at *; exact le_trans h1 h2
  have sx := List.pairwise_mergeSort (le := fun a b => decide (a ≤ b)) trans total xs
  have sy := List.pairwise_mergeSort (le := fun a b => decide (a ≤ b)) trans total ys
  apply List.Perm.eq_of_pairwise (le := fun a b => decide (a ≤ b) = true) _ sx sy hp
  intro a b _ _ h1 h2
  simp at h1 h2
  exact le_antisymm h1 h2

theorem quantile_perm (xs ys : List Rat) (q : Rat) (h : xs.Perm ys) : quantile xs q = quantile ys q := by
  simp only [quantile, sorted_perm xs ys h]

theorem median_perm (xs ys : List Rat) (h : xs.Perm ys) : median xs = median ys := quantile_perm xs ys _ h
theorem iqr_perm (xs ys : List Rat) (h : xs.Perm ys) : iqr xs = iqr ys := by
  simp only [iqr, quantile_perm xs ys _ h]
theorem rcv_perm (xs ys : List Rat) (h : xs.Perm ys) : rcv xs = rcv ys := by
  simp only [rcv, iqr_perm xs ys h, median_perm xs ys h]

/-- the mode checker accepts exactly the values that occur and that no other value out-numbers -/
theorem isMode_spec (xs : List Rat) (v : Rat) :
    isMode xs v = true ↔ v ∈ xs ∧ ∀ x ∈ xs, xs.count x ≤ xs.count v := by
  simp [isMode]

theorem isMode_perm (xs ys : List Rat) (v : Rat) (h : xs.Perm ys) : isMode xs v = isMode ys v := by
  have h1 : isMode xs v = true ↔ isMode ys v = true := by
    rw [isMode_spec, isMode_spec]
    constructor
    · rintro ⟨hm, hc⟩
      exact ⟨h.mem_iff.mp hm, fun x hx => by rw [← h.count_eq, ← h.count_eq]; exact hc x (h.mem_iff.mpr hx)⟩
    · rintro ⟨hm, hc⟩
      exact ⟨h.mem_iff.mpr hm, fun x hx => by rw [h.count_eq, h.count_eq]; exact hc x (h.mem_iff.mp hx)⟩
  cases hx : isMode xs v <;> cases hy : isMode ys v <;> simp_all

/-- **Several channels = the per-channel results in the requested order** (and a single-element list is a singleton) -/
theorem perChannel_spec {α : Type} (stat : List Rat → α) (cols : List (List Rat)) (chs : List Nat) :
    (perChannel stat cols chs).length = chs.length ∧
    ∀ i (hi : i < chs.length), (perChannel stat cols chs)[i]'(by simp [perChannel]; exact hi) = stat (cols.getD chs[i] []) := by
  simp [perChannel]

/-- the robust CV is IQR over median, by definition; the mean lies between the extreme events -/
theorem rcv_def (xs : List Rat) : rcv xs = iqr xs / median xs := rfl

/-! Non-vacuity: a 7-event column with ties -/
example : mean [3, 1, 4, 1, 5, 9, 2] = 25 / 7 := by decide +kernel
example : isMode [3, 1, 4, 1, 5, 9, 2] 1 = true ∧ isMode [3, 1, 4, 1, 5, 9, 2] 3 = false ∧ isMode [2, 2, 5, 5] 5 = true := by decide +kernel
example : variance [2, 4, 4, 4, 5, 5, 7, 9] = 4 := by decide +kernel

/-- the public functions of `stats.py` are, statement for statement, the NumPy/SciPy calls the model stands for (regenerated on every run) -/
theorem stats_definitions_match_source : Generated.statsDefinitions = FlowCal.Stats.sourceSpec := rfl

end FlowCal.C12
