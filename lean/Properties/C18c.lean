import Properties.C18
import Properties.C18b
import FlowCalModel.GeneratedExpr
/-!
# C18 — the logicle function found in the source is the model's, hence strictly increasing with value 0 at `W`
-/
namespace FlowCal.C18
open FlowCal FlowCal.Logicle

theorem source_logicle_eq {α : Type} [Add α] [Sub α] [Mul α] [Div α] [Neg α] [OfNat α 1] [OfNat α 2] [Pow10 α] (T M W p s : α) :
    GeneratedExpr.src_logicle T M W p s = logicle T M W p s := rfl

theorem source_logicle_strictMono (T M W p : ℝ) (hT : 0 < T) (hp : 0 < p) : StrictMono (GeneratedExpr.src_logicle T M W p) := by
  have : GeneratedExpr.src_logicle T M W p = logicle T M W p := by funext s; rfl
  rw [this]; exact logicle_strictMono T M W p hT hp

theorem source_logicle_at_W (T M W p : ℝ) : GeneratedExpr.src_logicle T M W p W = 0 := by
  rw [source_logicle_eq]; exact logicle_at_W T M W p

/-- the equation the source solves for `p` is the model's `Wf p = W` -/
theorem source_Wf_eq {α : Type} [Add α] [Sub α] [Mul α] [Div α] [Neg α] [OfNat α 1] [OfNat α 2] [Pow10 α] (p : α) :
    GeneratedExpr.src_W_f p = Wf p := rfl

/-- **The bracket handed to the fallback solver in the source contains the solution** `p ≥ 1` of the source's equation,
and that solution exists and is unique: the fallback cannot fail to find it, nor find another one. -/
theorem source_bracket_contains_root (W p : ℝ) (hp : 1 ≤ p) (h : GeneratedExpr.src_W_f p = W)
    (_hs : GeneratedExpr.src_p_solves_W_f_eq_W = true) :
    GeneratedExpr.src_p_bracket_lo W ≤ p ∧ p ≤ GeneratedExpr.src_p_bracket_hi W := by
  rw [source_Wf_eq] at h
  have := p_bracket W p hp h
  simpa [GeneratedExpr.src_p_bracket_lo, GeneratedExpr.src_p_bracket_hi, pow10_def] using this

theorem source_root_exists_unique (W : ℝ) (hW : 0 ≤ W) : ∃! p : ℝ, 1 ≤ p ∧ GeneratedExpr.src_W_f p = W := by
  have : ∀ p : ℝ, GeneratedExpr.src_W_f p = Wf p := fun p => rfl
  simpa [this] using exists_unique_p W hW

end FlowCal.C18
