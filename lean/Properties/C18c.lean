import Properties.C18
import FlowCalModel.GeneratedExpr
/-!
# C18 — the logicle function found in the source is the model's, hence strictly increasing with value 0 at `W`
-/
namespace FlowCal.C18
open FlowCal FlowCal.Logicle

theorem source_logicle_eq {α : Type} [Add α] [Sub α] [Mul α] [Div α] [Neg α] [OfNat α 1] [OfNat α 2] [Pow10 α] (T M W p s : α) :
    GeneratedExpr.src_logicle T M W p s = logicle T M W p s := rfl

theorem source_logicle_strictMono (T M W p : ℝ) (hT : 0 < T) (hp : 0 < p) : StrictMono (GeneratedExpr.src_logicle T M W p) := by
  have : GeneratedExpr.src_logicle T M W p = logicle T M W p := by funext s; rfl
  rw [this]; exact logicle_strictMono T M W p hT hp

theorem source_logicle_at_W (T M W p : ℝ) : GeneratedExpr.src_logicle T M W p W = 0 := by
  rw [source_logicle_eq]; exact logicle_at_W T M W p

end FlowCal.C18
