import FlowCalModel.Excel
import FlowCalModel.Generated
/-!
# C11 — In a batch, a failing row is reported in place and does not affect other rows
-/
namespace FlowCal.C11
open FlowCal.Excel

variable {Row R : Type}

/-- a row whose processing raises only documented faults (or succeeds) -/
def Contained (proc : Row → RowOutcome R) (row : Row) : Prop := proc row ≠ .escape

/-- **No abort**: if every row either succeeds or raises a documented fault, the batch completes. -/
theorem batch_completes (proc : Row → RowOutcome R) (rows : List (String × Row))
    (h : ∀ r ∈ rows, Contained proc r.2) : ∃ res, processTable proc rows = some res := by
  induction rows with
  | nil => exact ⟨[], rfl⟩
  | cons r rest ih =>
    obtain ⟨id, row⟩ := r
    obtain ⟨res, hres⟩ := ih (fun r hr => h r (by simp [hr]))
    have hc : proc row ≠ .escape := h (id, row) (by simp)
    simp only [processTable, hres]
    cases hp : proc row with
    | escape => exact absurd hp hc
    | ok v => exact ⟨_, rfl⟩
    | fault f => exact ⟨_, rfl⟩

/-- **Order and isolation**: results appear under the row identifiers in table order, and each row's entry is
exactly what that row yields when processed alone — independent of the other rows and of their position. -/
theorem isolation (proc : Row → RowOutcome R) (rows : List (String × Row)) (res : List (String × RowOutcome R))
    (h : processTable proc rows = some res) :
    res = rows.map (fun r => (r.1, proc r.2)) := by
  induction rows generalizing res with
  | nil => simp [processTable] at h; subst h; rfl
  | cons r rest ih =>
    obtain ⟨id, row⟩ := r
    simp only [processTable] at h
    cases hp : proc row with
    | escape => simp [hp] at h
    | ok v =>
      simp only [hp] at h
      cases hr : processTable proc rest with
      | none => simp [hr] at h
      | some rr => simp [hr] at h; subst h; simp [ih rr hr, hp]
    | fault f =>
      simp only [hp] at h
      cases hr : processTable proc rest with
      | none => simp [hr] at h
      | some rr => simp [hr] at h; subst h; simp [ih rr hr, hp]

theorem single_row (proc : Row → RowOutcome R) (id : String) (row : Row) (hc : Contained proc row) :
    processTable proc [(id, row)] = some [(id, proc row)] := by
  simp only [processTable]
  cases hp : proc row with
  | escape => exact absurd hp hc
  | ok v => rfl
  | fault f => rfl

theorem empty_table (proc : Row → RowOutcome R) : processTable proc [] = some [] := rfl

/-- an exception that is not a documented row fault aborts the batch (what the source does; the defect of
`ve.message` was exactly a documented fault turning into such an escape) -/
theorem escape_aborts (proc : Row → RowOutcome R) (pre post : List (String × Row)) (id : String) (row : Row)
    (h : proc row = .escape) : processTable proc (pre ++ (id, row) :: post) = none := by
  induction pre with
  | nil => simp [processTable, h]
  | cons r pre ih =>
    obtain ⟨i, rw⟩ := r
    simp only [List.cons_append, processTable, ih]
    cases proc rw <;> rfl

/-- **Every documented row fault is recorded as that row's error and never aborts the batch**: whatever
combination of faults the rows of a table have, processing completes with one entry per row. -/
theorem documented_faults_never_abort (rows : List (String × SampleRow)) :
    ∃ res, processTable sampleRowOutcome rows = some res ∧ res = rows.map (fun r => (r.1, sampleRowOutcome r.2)) := by
  have hc : ∀ r ∈ rows, Contained sampleRowOutcome r.2 := by
    intro r _
    unfold Contained sampleRowOutcome
    cases sampleRowFault r.2 <;> simp
  obtain ⟨res, hres⟩ := batch_completes sampleRowOutcome rows hc
  exact ⟨res, hres, isolation sampleRowOutcome rows res hres⟩

/-- precedence of the checks: a missing file hides everything else; too few events hide unit and gate problems -/
theorem fault_precedence (r : SampleRow) :
    (r.fileFound = false → sampleRowFault r = some .fileNotFound) ∧
    (r.fileFound = true → r.nEvents < 400 → sampleRowFault r = some .tooFewEvents) := by
  constructor
  · intro h; simp [sampleRowFault, h]
  · intro h1 h2; simp [sampleRowFault, h1, h2]

/-- a healthy row (file present, enough events, recognised units, calibration available and matching, gate
fraction in range) reports no fault -/
theorem healthy_row_no_fault (r : SampleRow) (h1 : r.fileFound = true) (h2 : 400 ≤ r.nEvents)
    (h3 : ∀ c ∈ r.channels, channelFault r.beadsTableGiven c.1 c.2 = none) (h4 : r.gateFractionOk = true) :
    sampleRowFault r = none := by
  have hn : ¬ r.nEvents < 400 := by omega
  have hf : r.channels.findSome? (fun (u, m) => channelFault r.beadsTableGiven u m) = none := by
    rw [List.findSome?_eq_none_iff]
    intro c hc
    exact h3 c hc
  simp [sampleRowFault, h1, hn, hf, h4]

/-- the decision table's MEF branch is "first failing check" over `mefChecks`, … -/
theorem channelFault_mef (bt : Bool) (u : List Char) (m : MefFacts) (hu : classify u = .mef) :
    channelFault bt u m = ((mefChecks bt m).find? (·.2)).map (·.1) := by
  obtain ⟨f, i, h, a, v⟩ := m
  unfold channelFault mefChecks
  rw [hu]
  cases bt <;> cases f <;> cases i <;> cases h <;> cases a <;> cases v <;> rfl

/-- … whose order is the order of the raise sites in the source, … -/
theorem mefChecks_in_source_order (bt : Bool) (m : MefFacts) :
    (mefChecks bt m).map (·.1) = (sampleFaultSites.drop 2).take 6 := rfl

/-- … and the raise sites the model lists are the ones the source has now, in the same order (regenerated on every run) -/
theorem raise_sites_match_source :
    Generated.sampleRaiseSites = sampleFaultSites.map faultMessage ∧ Generated.beadsRaiseSites = beadsFaultSites.map faultMessage := by
  constructor <;> rfl

/-! Non-vacuity: a 3-row table, middle row faulty -/
example : processTable (fun (n : Nat) => if n = 0 then RowOutcome.fault Fault.gateFraction else RowOutcome.ok (n * 2))
    [("a", 3), ("b", 0), ("c", 5)] = some [("a", .ok 6), ("b", .fault .gateFraction), ("c", .ok 10)] := by decide

end FlowCal.C11
