import FlowCalModel.Index
import FlowCalModel.Generated
/-!
# C04 — Channel metadata stays aligned with columns under every indexing expression
-/
namespace FlowCal.C04
open FlowCal.Index FlowCal.Py FlowCal.Generated

/-- The seven channel attributes. -/
def channelAttrs : List String :=
  ["channels", "amplification_type", "detector_voltage", "amplifier_gain", "channel_labels", "range", "resolution"]

/-- **Generated-facts theorem** (re-checked against /repo on every run): `__getitem__`
has exactly three metadata branches, and every branch re-slices every one of the
seven channel attributes, each from itself only. -/
theorem branches_uniform :
    getitemBranches.length = 3 ∧
    ∀ br ∈ getitemBranches, br = channelAttrs.map (fun a => (a, [a])) := by decide


/-! ## Slices select in-range positions -/

theorem go_pos (st cur stop : Int) (fuel : Nat) (hst : st > 0) (hc : 0 ≤ cur) :
    ∀ x ∈ sliceIndices.go st cur stop fuel, cur ≤ (x : Int) ∧ (x : Int) < stop := by
  induction fuel generalizing cur with
  | zero => intro x hx; simp [sliceIndices.go] at hx
  | succ fuel ih =>
    intro x hx
    simp only [sliceIndices.go] at hx
    split at hx
    · rename_i hcond
      simp at hx hcond
      rcases hx with rfl | hx
      · omega
      · have := ih (cur + st) (by omega) x hx
        omega
    · simp at hx

theorem go_neg (st cur stop : Int) (fuel : Nat) (hst : st < 0) (hs : -1 ≤ stop) :
    ∀ x ∈ sliceIndices.go st cur stop fuel, stop < (x : Int) ∧ (x : Int) ≤ cur := by
  induction fuel generalizing cur with
  | zero => intro x hx; simp [sliceIndices.go] at hx
  | succ fuel ih =>
    intro x hx
    simp only [sliceIndices.go] at hx
    split at hx
    · rename_i hcond
      simp at hx hcond
      rcases hx with rfl | hx
      · omega
      · have := ih (cur + st) x hx
        omega
    · simp at hx

/-- every position a slice selects lies inside the axis -/
theorem sliceIndices_lt (a b c : Option Int) (len : Nat) (l : List Nat)
    (h : sliceIndices a b c len = .ok l) : ∀ i ∈ l, i < len := by
  unfold sliceIndices at h
  simp only at h
  split at h
  · simp at h
  · rename_i hst
    simp at h hst
    subst h
    intro i hi
    by_cases hpos : c.getD 1 > 0
    · have hneg : ¬ c.getD 1 < 0 := by omega
      simp only [hneg, if_false] at hi
      have := go_pos _ _ _ _ hpos (by cases a <;> simp <;> (try split) <;> (try split) <;> omega) i hi
      have h2 := this.2
      cases b <;> simp at h2 <;> (try split at h2) <;> (try split at h2) <;> omega
    · have hneg : c.getD 1 < 0 := by omega
      simp only [hneg, if_true] at hi
      have := go_neg _ _ _ _ hneg (by cases b <;> simp <;> (try split) <;> (try split) <;> omega) i hi
      have h2 := this.2
      cases a <;> simp at h2 <;> (try split at h2) <;> (try split at h2) <;> omega


variable {μ : Type} [DecidableEq μ]

theorem filterMap_in_range (md : List μ) (is : List Nat) (h : ∀ i ∈ is, i < md.length) :
    (is.filterMap (fun i => md[i]?)).map some = is.map (fun i => md[i]?) := by
  induction is with
  | nil => rfl
  | cons i is ih =>
    have hi : i < md.length := h i (by simp)
    have : md[i]? = some md[i] := by simp [hi]
    simp [List.filterMap_cons, this, ih (fun j hj => h j (by simp [hj]))]

/-- metadata picked with Python semantics = metadata at the column NumPy uses (one position) -/
theorem pick_one (md : List μ) (c : Int) (k : Nat) (x : μ)
    (hk : npIndex md.length c = .ok k)
    (hx : (match pyIndex md.length c with
      | some k => (match md[k]? with | some m => Except.ok m | none => Except.error PyErr.IndexError)
      | none => Except.error PyErr.IndexError) = Except.ok x) : md[k]? = some x := by
  unfold npIndex at hk
  cases hp : pyIndex md.length c with
  | none => simp [hp] at hk
  | some k' =>
    simp [hp] at hk hx
    subst hk
    cases hm : md[k']? with
    | none => simp [hm] at hx
    | some m => simp [hm] at hx; simp [hx]

theorem pick_many (md : List μ) (cs : List Int) (cl : List Nat) (m : List μ)
    (hcl : cs.mapM (npIndex md.length) = .ok cl)
    (hm : cs.mapM (fun c => match pyIndex md.length c with
      | some k => (match md[k]? with | some m => Except.ok m | none => Except.error PyErr.IndexError)
      | none => Except.error PyErr.IndexError) = .ok m) :
    m.map some = cl.map (fun c => md[c]?) := by
  induction cs generalizing cl m with
  | nil => simp [List.mapM_nil, pure, Except.pure] at hcl hm; subst hcl hm; rfl
  | cons c cs ih =>
    simp only [List.mapM_cons, bind, Except.bind, pure, Except.pure] at hcl hm
    split at hcl
    · simp at hcl
    · rename_i k hk
      split at hcl
      · simp at hcl
      · rename_i cl' hcl'
        simp at hcl
        subst hcl
        split at hm
        · simp at hm
        · rename_i x hx
          split at hm
          · simp at hm
          · rename_i m' hm'
            simp at hm
            subst hm
            have h1 := pick_one md c k x hk hx
            simp [h1, ih cl' m' hcl' hm']

theorem mapM_length {α β : Type} (f : α → Except PyErr β) (l : List α) (r : List β)
    (h : l.mapM f = .ok r) : r.length = l.length := by
  induction l generalizing r with
  | nil => simp [List.mapM_nil, pure, Except.pure] at h; subst h; rfl
  | cons a l ih =>
    simp only [List.mapM_cons, bind, Except.bind, pure, Except.pure] at h
    split at h
    · simp at h
    · split at h
      · simp at h
      · rename_i r' hr'
        simp at h; subst h
        simp [ih r' hr']


set_option linter.unusedSectionVars false
set_option linter.unusedSimpArgs false

/-- the metadata list `m` is the metadata at the selected columns -/
def ColsMatch (md : List μ) (cs : Sel) (m : List μ) : Prop :=
  match cs with
  | .single k => ∃ x, m = [x] ∧ md[k]? = some x
  | .basic cl => m.map some = cl.map (fun c => md[c]?)
  | .adv cl => m.map some = cl.map (fun c => md[c]?)

/-- alignment of the column selection alone: what `metaSelect` returns is the
metadata at exactly the columns `selCols` hands to NumPy -/
theorem meta_matches_cols (md : List μ) (csel : Option ColSel) (cs : Sel) (m : List μ)
    (hcs : selCols md.length csel = .ok cs) (hm : metaSelect md csel = .ok m) :
    ColsMatch md cs m := by
  unfold ColsMatch
  cases csel with
  | none =>
    simp [selCols] at hcs; subst hcs
    simp [metaSelect] at hm; subst hm
    simp
    apply List.ext_getElem?
    intro i
    simp
    by_cases hi : i < md.length <;> simp [hi]
  | some sel =>
    cases sel with
    | single c =>
      simp only [selCols, bind, Except.bind] at hcs
      split at hcs
      · simp at hcs
      · rename_i k hk
        simp [pure, Except.pure] at hcs; subst hcs
        simp only [metaSelect] at hm
        cases hp : pyIndex md.length c with
        | none => simp [hp] at hm
        | some k' =>
          simp only [hp] at hm
          cases hx : md[k']? with
          | none => simp [hx] at hm
          | some x =>
            simp [hx] at hm; subst hm
            refine ⟨x, rfl, ?_⟩
            simp [npIndex, hp] at hk; subst hk; exact hx
    | basic a b c =>
      simp only [selCols, bind, Except.bind] at hcs
      split at hcs
      · simp at hcs
      · rename_i is his
        simp [pure, Except.pure] at hcs; subst hcs
        simp only [metaSelect, bind, Except.bind, his] at hm
        simp [pure, Except.pure] at hm; subst hm
        exact filterMap_in_range md is (sliceIndices_lt a b c md.length is his)
    | adv l =>
      simp only [selCols, bind, Except.bind] at hcs
      split at hcs
      · simp at hcs
      · rename_i cl hcl
        simp [pure, Except.pure] at hcs; subst hcs
        simp only [metaSelect] at hm
        exact pick_many md l cl m hcl hm


theorem zip_snd {α β : Type} (a : List α) (b : List β) (h : a.length = b.length) : (a.zip b).map (·.2) = b := by
  induction a generalizing b with
  | nil => cases b <;> simp_all
  | cons x a ih =>
    cases b with
    | nil => simp at h
    | cons y b => simp at h; simp [ih b h]

/-- alignment given what NumPy selected and what the metadata bookkeeping produced -/
theorem aligned_of_parts (md : List μ) (rs cs : Sel) (m : List μ) (sh : Shape)
    (hsel : npSelect rs cs = .ok sh)
    (hm : ColsMatch md cs m) :
    (∃ r c, sh = .scalar r c) ∨ Aligned md ⟨sh, some m⟩ = true := by
  unfold ColsMatch at hm
  cases rs <;> cases cs <;> simp only [npSelect] at hsel <;> simp only at hm
  case single.single r c => left; simp at hsel; exact ⟨r, c, hsel.symm⟩
  case single.basic r cl =>
    right; simp at hsel; subst hsel
    simp only [Aligned]; simp at hm ⊢; left; simp [hm, List.map_map, Function.comp_def]
  case single.adv r cl =>
    right; simp at hsel; subst hsel
    simp only [Aligned]; simp at hm ⊢; left; simp [hm, List.map_map, Function.comp_def]
  case basic.single rl c =>
    right; simp at hsel; subst hsel
    obtain ⟨x, hx, hc⟩ := hm; subst hx
    simp only [Aligned]; simp; right; intro _ _; exact hc
  case adv.single rl c =>
    right; simp at hsel; subst hsel
    obtain ⟨x, hx, hc⟩ := hm; subst hx
    simp only [Aligned]; simp; right; intro _ _; exact hc
  case basic.basic rl cl => right; simp at hsel; subst hsel; simp only [Aligned]; simpa using hm
  case basic.adv rl cl => right; simp at hsel; subst hsel; simp only [Aligned]; simpa using hm
  case adv.basic rl cl => right; simp at hsel; subst hsel; simp only [Aligned]; simpa using hm
  case adv.adv rl cl =>
    right
    split at hsel
    · rename_i hl
      simp at hsel hl; subst hsel
      simp only [Aligned]; simp at hm ⊢; left
      have := zip_snd rl cl hl
      have h2 : List.map (fun p => md[p.snd]?) (rl.zip cl) = List.map (fun c => md[c]?) (List.map (·.2) (rl.zip cl)) := by
        simp [List.map_map, Function.comp_def]
      rw [h2, this]; exact hm
    · split at hsel
      · simp at hsel; subst hsel
        simp only [Aligned]; simp at hm ⊢; left; simp [hm, List.map_map, Function.comp_def]
      · split at hsel
        · rename_i h1
          simp at hsel h1; subst hsel
          match cl, h1 with
          | [c], _ =>
            simp at hm
            cases m with
            | nil => simp at hm
            | cons x m' =>
              cases m' with
              | nil =>
                simp at hm
                simp only [Aligned]; simp; right; intro _ _; exact hm.symm
              | cons y m'' => simp at hm
        · simp at hsel

/-- **C04, main theorem.** For every sample (any number of events and
channels, names and metadata of equal length) and every key of the grammar —
rows by int, slice, int list, boolean mask or Ellipsis; channels by position,
negative position, name, slice, list/tuple mixing names and positions, or
Ellipsis — a successful `__getitem__` returns either a plain scalar (single
cell) or an object whose metadata is aligned with the provenance of its
values: exactly the metadata of the selected columns, in the selected order. -/
theorem getitem_aligned (names : List String) (md : List μ) (n : Nat) (rk : RowKey) (ck : ColKey)
    (r : Result μ) (hlen : names.length = md.length) (h : getitem names md n rk ck = .ok r) :
    Aligned md r = true := by
  unfold getitem at h
  simp only [bind, Except.bind] at h
  split at h
  · simp at h
  · rename_i csel hcsel
    split at h
    · simp [throw, throwThe, MonadExceptOf.throw] at h
    · split at h
      · -- empty broadcast
        rename_i heb
        split at h
        · simp at h
        · rename_i m hm
          simp [pure, Except.pure] at h; subst h
          -- the metadata list has at most one element or is empty; cells are empty
          simp only [Aligned]
          cases m with
          | nil => simp
          | cons x m' =>
            cases m' with
            | nil => simp
            | cons y m'' =>
              exfalso
              -- emptyBroadcast forces the advanced column list to have length ≤ 1
              cases csel with
              | none => cases rk <;> simp [isEmptyBroadcast] at heb
              | some sel =>
                cases sel with
                | single c => cases rk <;> simp [isEmptyBroadcast] at heb
                | basic a b c => cases rk <;> simp [isEmptyBroadcast] at heb
                | adv cl =>
                  simp only [metaSelect] at hm
                  have hl := mapM_length _ cl _ hm
                  simp at hl
                  cases rk with
                  | ints rl =>
                    simp [isEmptyBroadcast] at heb
                    rcases heb with ⟨h1, h2⟩ | ⟨h1, h2⟩
                    · omega
                    · subst h1; simp at hl
                  | mask ml =>
                    simp [isEmptyBroadcast] at heb
                    obtain ⟨_, h2⟩ := heb
                    rcases h2 with ⟨h1, h3⟩ | ⟨h1, h3⟩
                    · omega
                    · subst h1; simp at hl
                  | int i => simp [isEmptyBroadcast] at heb
                  | slice a b c => simp [isEmptyBroadcast] at heb
                  | ellipsis => simp [isEmptyBroadcast] at heb
      · split at h
        · simp at h
        · rename_i rs hrs
          split at h
          · simp at h
          · rename_i cs hcs
            split at h
            · simp at h
            · rename_i sh hsh
              rw [hlen] at hcs
              split at h
              · simp [pure, Except.pure] at h; subst h; simp [Aligned]
              · rename_i hns
                split at h
                · simp at h
                · rename_i m hm
                  simp [pure, Except.pure] at h; subst h
                  have hparts := meta_matches_cols md csel cs m hcs hm
                  rcases aligned_of_parts md rs cs m sh hsh hparts with ⟨r', c', hsc⟩ | hal
                  · exact absurd hsc (hns r' c')
                  · exact hal


/-- Unknown channel names and out-of-range positions are refused. -/
theorem unknown_name_refused (names : List String) (md : List μ) (n : Nat) (rk : RowKey) (s : String)
    (h : names.idxOf? s = none) : getitem names md n rk (.atom (.name s)) = .error .ValueError := by
  simp [getitem, translateCol, nameToIndex1, h, bind, Except.bind]

theorem out_of_range_refused (names : List String) (md : List μ) (n : Nat) (rk : RowKey) (i : Int)
    (h : ¬ (i < names.length ∧ i ≥ -(names.length : Int))) :
    getitem names md n rk (.atom (.pos i)) = .error .ValueError := by
  simp only [getitem, translateCol, nameToIndex1, bind, Except.bind]
  have : ¬ ((decide (i < (names.length : Int)) && decide (i ≥ -(names.length : Int))) = true) := by
    simpa using h
  simp [this]

/-- Boolean and NumPy-integer channel indices are refused (never mis-aligned). -/
theorem bool_refused (names : List String) (md : List μ) (n : Nat) (rk : RowKey) (b : Bool) :
    getitem names md n rk (.atom (.bool b)) = .error .TypeError := by
  simp [getitem, translateCol, nameToIndex1, bind, Except.bind]

/-! Non-vacuity: a 4×3 sample, key `([0,2], ['c', 0])` -/
example : (getitem ["a", "b", "c"] [10, 20, 30] 4 (.ints [0, 2]) (.list [.name "c", .pos 0])).toOption.map (fun r => (r.shape, r.md))
    = some (.vec [(0, 2), (2, 0)], some [30, 10]) := by decide
example : (getitem ["a", "b", "c"] [10, 20, 30] 4 (.slice none none (some (-1))) (.slice (some (-1)) none (some (-2)))).toOption.map (fun r => (r.shape, r.md))
    = some (.mat [3, 2, 1, 0] [2, 0], some [30, 10]) := by decide

end FlowCal.C04
