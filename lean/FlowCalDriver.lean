import FlowCalDriver.Json
import FlowCalDriver.Text
import FlowCalDriver.File
import FlowCalDriver.Index
import FlowCalDriver.Pickle
import FlowCalDriver.Heap
import FlowCalDriver.Gate
import FlowCalDriver.Density
