import FlowCalDriver.Json
import FlowCalDriver.Text
import FlowCalDriver.File
