import FlowCalDriver.Json
import FlowCalDriver.Text
