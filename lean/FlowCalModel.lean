import FlowCalModel.Generated
import FlowCalModel.Py
import FlowCalModel.Text
import FlowCalModel.Data
import FlowCalModel.File
import FlowCalModel.Index
import FlowCalModel.Pickle
import FlowCalModel.Heap
