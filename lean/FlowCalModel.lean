import FlowCalModel.Basic
