import FlowCalModel.Generated
import FlowCalModel.Text
