import Properties.C14
import Properties.C01
import Properties.C16
import Properties.C04
