import Properties.T0
