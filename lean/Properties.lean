import Properties.C14
import Properties.C01
import Properties.C16
import Properties.C04
import Properties.C20
import Properties.C13
import Properties.C08
import Properties.C05
