import Properties.C14
