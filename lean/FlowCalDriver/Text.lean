import FlowCalDriver.Json
import FlowCalModel.Text
namespace FlowCal.Driver
open Lean FlowCal.Text

def errName : TextErr → String
  | .notStartDelim => "notStartDelim"
  | .keywordStartsDelim => "keywordStartsDelim"
  | .illFormed => "illFormed"
  | .oddCount => "oddCount"

/-- {"op":"text","d":47,"supp":false,"seg":[...]}  -/
def handleText (j : Json) : R Json := do
  let d ← natF j "d"
  let supp ← boolF j "supp"
  let seg ← listF asNat j "seg"
  match parseSeg d supp seg with
  | .error e => pure (Json.mkObj [("err", Json.str (errName e))])
  | .ok p =>
    let dict := toDict (pairUp p.toks)
    pure (Json.mkObj [("toks", jList (jList jNat) p.toks), ("warned", Json.bool p.warned),
      ("dict", jList (fun kv => Json.arr #[jList jNat kv.1, jList jNat kv.2]) dict)])

/-- {"op":"text_encode","d":47,"toks":[[..],..]} -> bytes of `encode` -/
def handleTextEncode (j : Json) : R Json := do
  let d ← natF j "d"
  let toks ← listF (asList asNat) j "toks"
  pure (Json.mkObj [("bytes", jList jNat (encode d toks)), ("render", jList jNat (render d toks))])

/-- {"op":"text_dict","d":..,"supp":..,"lead":..,"toks":[[..]..],"tail":[..]}: write then read -/
def handleTextDict (j : Json) : R Json := do
  let d ← natF j "d"
  let supp ← boolF j "supp"
  let lead ← boolF j "lead"
  let toks ← listF (asList asNat) j "toks"
  let tail ← listF asNat j "tail"
  let seg := (if lead then [d] else []) ++ render d toks ++ tail
  match parseSeg d supp seg with
  | .error e => pure (Json.mkObj [("err", Json.str (errName e)), ("bytes", jList jNat seg)])
  | .ok p =>
    let dict := toDict (pairUp p.toks)
    pure (Json.mkObj [("bytes", jList jNat seg), ("warned", Json.bool p.warned),
      ("dict", jList (fun kv => Json.arr #[jList jNat kv.1, jList jNat kv.2]) dict)])

/-- {"op":"dict_update","p":[[k,v],..],"s":[[k,v],..]} -/
def handleDictUpdate (j : Json) : R Json := do
  let pr (x : Json) : R (List Nat × List Nat) := do
    let a ← asArr x
    if h : a.size = 2 then pure (← asList asNat a[0], ← asList asNat a[1]) else throw "pair"
  let p ← listF pr j "p"
  let s ← listF pr j "s"
  let r := dictUpdate (toDict p) s
  pure (Json.mkObj [("dict", jList (fun kv => Json.arr #[jList jNat kv.1, jList jNat kv.2]) r)])

end FlowCal.Driver
