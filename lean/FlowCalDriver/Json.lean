import Lean.Data.Json
/-! JSON helpers for the line-protocol driver. -/
namespace FlowCal.Driver
open Lean

abbrev R := Except String

def fld (j : Json) (k : String) : R Json := j.getObjVal? k
def asInt (j : Json) : R Int := j.getInt?
def asNat (j : Json) : R Nat := j.getNat?
def asBool (j : Json) : R Bool := j.getBool?
def asStr (j : Json) : R String := j.getStr?
def asArr (j : Json) : R (Array Json) := j.getArr?
def asList (f : Json → R α) (j : Json) : R (List α) := do
  let a ← j.getArr?
  a.toList.mapM f
def intF (j : Json) (k : String) : R Int := do asInt (← fld j k)
def natF (j : Json) (k : String) : R Nat := do asNat (← fld j k)
def boolF (j : Json) (k : String) : R Bool := do asBool (← fld j k)
def strF (j : Json) (k : String) : R String := do asStr (← fld j k)
def listF (f : Json → R α) (j : Json) (k : String) : R (List α) := do asList f (← fld j k)
def optF (j : Json) (k : String) : Option Json :=
  match j.getObjVal? k with
  | .ok .null => none
  | .ok v => some v
  | .error _ => none

def jNat (n : Nat) : Json := Json.num (JsonNumber.fromNat n)
def jInt (n : Int) : Json := Json.num (JsonNumber.fromInt n)
def jList (f : α → Json) (l : List α) : Json := Json.arr (l.map f).toArray
def jOpt (f : α → Json) : Option α → Json
  | none => Json.null
  | some a => f a

end FlowCal.Driver
