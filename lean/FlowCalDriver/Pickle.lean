import FlowCalDriver.Json
import FlowCalModel.Pickle
namespace FlowCal.Driver
open Lean FlowCal.Pickle

/-- {"op":"pickle","state":[[attr, fingerprint],..]} -/
def handlePickle (j : Json) : R Json := do
  let pr (x : Json) : R (String × String) := do
    let a ← asArr x
    if h : a.size = 2 then pure (← asStr a[0], ← asStr a[1]) else throw "pair"
  let st ← listF pr j "state"
  let out (s : State String) : Json := jList (fun kv => Json.arr #[Json.str kv.1, Json.str kv.2]) s
  pure (Json.mkObj [("unpickled", jOpt out (setstate (reduce st))), ("finalized", out (finalize st)),
    ("reduce_fields", jList Json.str ((reduce st).map (·.1)))])

end FlowCal.Driver
