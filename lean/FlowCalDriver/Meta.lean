import FlowCalDriver.Json
import FlowCalModel.Meta
namespace FlowCal.Driver
open Lean FlowCal.Meta FlowCal.Py

def jStr (s : Str) : Json := jList jNat s

def jMoment (m : Moment) : Json :=
  Json.mkObj [("date", jOpt (fun (d : Date) => Json.arr #[jNat d.y, jNat d.m, jNat d.d]) m.date),
    ("time", Json.arr #[jNat m.time.h, jNat m.time.m, jNat m.time.s, jNat m.time.us])]

/-- {"op":"meta","text":[[k,v]..],"npar":n} -/
def handleMeta (j : Json) : R Json := do
  let pr (x : Json) : R (Str × Str) := do
    let a ← asArr x
    if h : a.size = 2 then pure (← asList asNat a[0], ← asList asNat a[1]) else throw "pair"
  let d ← listF pr j "text"
  let npar ← natF j "npar"
  match optionalAttrs d npar with
  | .error e => pure (Json.mkObj [("err", Json.str e.name)])
  | .ok a =>
    let acq := match acqSource a.names a with
      | .ok (.timeChannel c) => Json.mkObj [("src", Json.str "time_channel"), ("col", jNat c)]
      | .ok .startEnd => Json.mkObj [("src", Json.str "start_end")]
      | .ok .absent => Json.mkObj [("src", Json.str "absent")]
      | .error e => Json.mkObj [("err", Json.str e.name)]
    let amp := (List.range npar).map (fun i => match ampType d (i + 1) with
      | .ok (some (a0, a1, _)) => Json.arr #[jStr a0, jStr a1]
      | .ok none => Json.null
      | .error e => Json.str e.name)
    pure (Json.mkObj [
      ("time_step", jOpt (fun (t : TimeStep) => Json.mkObj [("lit", jStr t.literal), ("div1000", Json.bool t.div1000)]) a.timeStep),
      ("start", jOpt jMoment a.start), ("stop", jOpt jMoment a.stop),
      ("voltages", jList (jOpt jStr) a.voltages), ("gains", jList (jOpt jStr) a.gains),
      ("labels", jList (jOpt jStr) a.labels), ("names", jList (jOpt jStr) a.names), ("acq", acq), ("amp", Json.arr amp.toArray)])

end FlowCal.Driver
