import FlowCalDriver.Json
import FlowCalModel.Heap
namespace FlowCal.Driver
open Lean FlowCal.Heap

def parseOp (j : Json) : R Op := do
  let t ← strF j "t"
  match t with
  | "load" => pure (.load (← natF j "n"))
  | "view" => pure (.view (← natF j "i"))
  | "slice_basic" => pure (.sliceColsBasic (← natF j "i") (← listF asNat j "cols"))
  | "slice_adv" => pure (.sliceColsAdv (← natF j "i") (← listF asNat j "cols"))
  | "fresh" => pure (.fresh (← natF j "i"))
  | "query" => pure (.query (← natF j "i"))
  | "range_of" => pure (.rangeOf (← natF j "i") (← natF j "ch"))
  | "write_handle" => pure (.writeHandle (← natF j "k") (← intF j "v"))
  | "write_buf" => pure (.writeBuf (← natF j "i") (← intF j "v"))
  | _ => throw s!"heap op {t}"

/-- {"op":"heap","ops":[..]} -> objects with their locations and current contents -/
def handleHeap (j : Json) : R Json := do
  let ops ← listF parseOp j "ops"
  let h := run empty ops
  pure (Json.mkObj [("objs", jList (fun (o : Obj) => Json.mkObj [("buf", jNat o.buf), ("ranges", jList jNat o.ranges), ("text", jNat o.text),
      ("bufv", jInt (h.read o.buf)), ("rangev", jList (fun l => jInt (h.read l)) o.ranges)]) h.objs),
    ("handles", jList jNat h.handles)])

end FlowCal.Driver
