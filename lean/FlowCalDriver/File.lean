import FlowCalDriver.Json
import FlowCalModel.File
namespace FlowCal.Driver
open Lean FlowCal.File FlowCal.Data FlowCal.Py

def jDict (d : Dict) : Json := jList (fun kv => Json.arr #[jList jNat kv.1, jList jNat kv.2]) d

/-- {"op":"load","file":[..]} -/
def handleLoad (j : Json) : R Json := do
  let file ← listF asNat j "file"
  match loadFile file with
  | .error e => pure (Json.mkObj [("err", Json.str e.name)])
  | .ok l => pure (Json.mkObj [("text", jDict l.text), ("analysis", jDict l.analysis),
      ("data", jList (jList jNat) l.data), ("npar", jNat l.npar), ("isFloat", Json.bool l.isFloat),
      ("width", jNat l.width), ("warnings", jList Json.str l.warnings)])

/-- {"op":"encode_events","be":..,"widths":[..],"events":[[..]]} -/
def handleEncodeEvents (j : Json) : R Json := do
  let be ← boolF j "be"
  let ws ← listF asNat j "widths"
  let ev ← listF (asList asNat) j "events"
  pure (Json.mkObj [("bytes", jList jNat (encodeEvents be ws ev))])

/-- {"op":"pyint","s":[..],"bytes":bool} / {"op":"pyfloat","s":[..]} : micro-correspondence of Py.lean -/
def handlePyInt (j : Json) : R Json := do
  let s ← listF asNat j "s"
  let b ← boolF j "bytes"
  match (if b then pyIntBytes s else pyIntStr s) with
  | .ok v => pure (Json.mkObj [("v", jInt v)])
  | .error _ => pure (Json.mkObj [("err", Json.str "ValueError")])

def handlePyFloat (j : Json) : R Json := do
  let s ← listF asNat j "s"
  pure (Json.mkObj [("ok", Json.bool (pyFloatAccepts s))])

end FlowCal.Driver
