import FlowCalDriver.Json
import FlowCalModel.Transform
namespace FlowCal.Driver
open Lean FlowCal.Transform FlowCal.Py

def parseRef (j : Json) : R Ref :=
  match j with
  | .str s => pure (.name s)
  | v => do pure (.pos (← asInt v))

def optOf (f : Json → R α) (j : Json) : R (Option α) :=
  match j with
  | .null => pure none
  | v => do pure (some (← f v))

def parsePair (j : Json) : R (Nat × Nat) := do
  let a ← asArr j
  if h : a.size = 2 then pure (← asNat a[0], ← asNat a[1]) else throw "pair"

def parseArg (f : Json → R α) (j : Json) (k : String) : R (Arg α) :=
  match optF j k with
  | none => pure .none
  | some v =>
    match v.getObjVal? "scalar" with
    | .ok s => do pure (.scalar (← f s))
    | .error _ => do pure (.list (← asList (optOf f) (← fld v "list")))

def parseChannels (j : Json) (k : String) : R (Option (Sum Ref (List Ref))) :=
  match optF j k with
  | none => pure none
  | some v =>
    match v.getObjVal? "scalar" with
    | .ok s => do pure (some (.inl (← parseRef s)))
    | .error _ => do pure (some (.inr (← asList parseRef (← fld v "list"))))

def parseMeta (j : Json) : R (Meta Nat) := do
  pure ⟨← boolF j "isSample", ← natF j "ncols", ← listF asStr j "names",
        ← listF (optOf parsePair) j "ampType", ← listF (optOf asNat) j "gain", ← listF asNat j "res"⟩

def isZeroBits (b : Nat) : Bool := b % 2^63 == 0

def jLaw : Law Nat → Json
  | .lin g => Json.mkObj [("lin", jOpt jNat g)]
  | .log a0 a1 r => Json.mkObj [("log", Json.arr #[jNat a0, jNat a1, jNat r])]

def handleToRfi (j : Json) : R Json := do
  let m ← parseMeta (← fld j "meta")
  let ch ← parseChannels j "channels"
  let a ← parseArg parsePair j "at"
  let g ← parseArg asNat j "ag"
  let r ← parseArg asNat j "res"
  match toRfi isZeroBits m ch a g r with
  | .ok acts => pure (Json.mkObj [("acts", jList (fun (p : Nat × Law Nat) => Json.arr #[jNat p.1, jLaw p.2]) acts)])
  | .error e => pure (Json.mkObj [("err", Json.str e.name)])

def handleToMef (j : Json) : R Json := do
  let m ← parseMeta (← fld j "meta")
  let ch ← parseChannels j "channels"
  let n ← natF j "ncurves"
  let sc ← match optF j "sc_channels" with
    | none => pure none
    | some v => do pure (some (← asList parseRef v))
  match toMef m ch n sc with
  | .ok acts => pure (Json.mkObj [("acts", jList (fun (p : Nat × Nat) => Json.arr #[jNat p.1, jNat p.2]) acts)])
  | .error e => pure (Json.mkObj [("err", Json.str e.name)])

end FlowCal.Driver
