import FlowCalDriver.Json
import FlowCalModel.Index
namespace FlowCal.Driver
open Lean FlowCal.Index FlowCal.Py

def optInt (j : Json) : R (Option Int) :=
  match j with
  | .null => pure none
  | v => do pure (some (← asInt v))

def parseSlice (j : Json) : R (Option Int × Option Int × Option Int) := do
  let a ← asArr j
  if h : a.size = 3 then pure (← optInt a[0], ← optInt a[1], ← optInt a[2]) else throw "slice"

def parseRowKey (j : Json) : R RowKey := do
  let t ← strF j "t"
  match t with
  | "int" => pure (.int (← intF j "v"))
  | "slice" => do let (a, b, c) ← parseSlice (← fld j "v"); pure (.slice a b c)
  | "ints" => pure (.ints (← listF asInt j "v"))
  | "mask" => pure (.mask (← listF asBool j "v"))
  | "ellipsis" => pure .ellipsis
  | _ => throw s!"row key {t}"

def parseAtom (j : Json) : R ColAtom := do
  let t ← strF j "t"
  match t with
  | "pos" => pure (.pos (← intF j "v"))
  | "name" => pure (.name (← strF j "v"))
  | "bool" => pure (.bool (← boolF j "v"))
  | "npint" => pure (.npint (← intF j "v"))
  | _ => throw s!"atom {t}"

def parseColKey (j : Json) : R ColKey := do
  let t ← strF j "t"
  match t with
  | "slice" => do let (a, b, c) ← parseSlice (← fld j "v"); pure (.slice a b c)
  | "list" => pure (.list (← listF parseAtom j "v"))
  | "ellipsis" => pure .ellipsis
  | _ => pure (.atom (← parseAtom j))

def jShape : Shape → Json
  | .scalar r c => Json.mkObj [("k", Json.str "scalar"), ("cells", jList (fun p => Json.arr #[jNat p.1, jNat p.2]) [(r, c)])]
  | .vec cells => Json.mkObj [("k", Json.str "vec"), ("cells", jList (fun (p : Nat × Nat) => Json.arr #[jNat p.1, jNat p.2]) cells)]
  | .mat rs cs => Json.mkObj [("k", Json.str "mat"), ("rows", jList jNat rs), ("cols", jList jNat cs)]

/-- {"op":"getitem","names":[..],"n":N,"row":{..},"col":{..}}; metadata = column positions 0..D-1 -/
def handleGetitem (j : Json) : R Json := do
  let names ← listF asStr j "names"
  let n ← natF j "n"
  let rk ← parseRowKey (← fld j "row")
  let ck ← parseColKey (← fld j "col")
  let md := List.range names.length
  match getitem names md n rk ck with
  | .error e => pure (Json.mkObj [("err", Json.str e.name)])
  | .ok r => pure (Json.mkObj [("shape", jShape r.shape), ("meta", jOpt (jList jNat) r.md),
      ("aligned", Json.bool (Aligned md r))])

def handleSliceIndices (j : Json) : R Json := do
  let (a, b, c) ← parseSlice (← fld j "v")
  let n ← natF j "len"
  match sliceIndices a b c n with
  | .ok l => pure (Json.mkObj [("idx", jList jNat l)])
  | .error e => pure (Json.mkObj [("err", Json.str e.name)])

end FlowCal.Driver
