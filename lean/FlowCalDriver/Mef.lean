import FlowCalDriver.Json
import FlowCalDriver.Logicle
import FlowCalModel.Mef
namespace FlowCal.Driver
open Lean FlowCal.Mef

/-- {"op":"beads_model","p":[p0,p1,p2] bits,"x":[bits..]} -> std curve and bead model values at Float -/
def handleBeadsModel (j : Json) : R Json := do
  let p ← listF asNat j "p"
  let p0 := fOf (p.getD 0 0); let p1 := fOf (p.getD 1 0); let p2 := fOf (p.getD 2 0)
  let xs ← listF asNat j "x"
  pure (Json.mkObj [("sc", jList (fun b => jF (stdCurve floatOps p0 p1 (fOf b))) xs),
    ("bm", jList (fun b => jF (beadsModel floatOps p0 p1 p2 (fOf b))) xs)])

/-- {"op":"populations","labels":[..],"keys":[int per population in label-first-occurrence order],"mef":[bits|null..],"sel":[bool..]} -/
def handlePopulations (j : Json) : R Json := do
  let labels ← listF asNat j "labels"
  let pops := populations labels
  pure (Json.mkObj [("pops", jList (jList jNat) pops), ("uniq", jList jNat labels.eraseDups)])

def handleSelectPairs (j : Json) : R Json := do
  let stats ← listF asNat j "stats"
  let mef ← listF (fun v => match v with | .null => pure none | x => do pure (some (← asNat x))) j "mef"
  let sel ← listF asBool j "sel"
  let ps := selectPairs stats mef sel
  pure (Json.mkObj [("rfi", jList jNat (ps.map (·.1))), ("mef", jList jNat (ps.map (·.2)))])

/-- {"op":"selection","s0","s1": bits of the rescaled range limits,"nlow","nhigh": bits,"pops":[[mean bits, std bits]..]} -> default thresholds
and the selection mask at Float -/
def handleSelection (j : Json) : R Json := do
  let s0 := fOf (← natF j "s0"); let s1 := fOf (← natF j "s1")
  let nl := fOf (← natF j "nlow"); let nh := fOf (← natF j "nhigh")
  let pops ← listF (fun v => do let l ← asList asNat v; pure (fOf (l.getD 0 0), fOf (l.getD 1 0))) j "pops"
  let lo : Float := thresholdLow s0 s1
  let hi : Float := thresholdHigh s0 s1
  let mask := pops.map (fun (m, sd) => decide (reachLow nl m sd > lo) && decide (reachHigh nh m sd < hi))
  pure (Json.mkObj [("low", jF lo), ("high", jF hi), ("mask", jList (fun b => Json.bool b) mask)])

end FlowCal.Driver
