import FlowCalDriver.Json
import FlowCalModel.Logicle
namespace FlowCal.Driver
open Lean FlowCal.Logicle

def fOf (n : Nat) : Float := Float.ofBits n.toUInt64
def jF (x : Float) : Json := jNat x.toBits.toNat
def fF (j : Json) (k : String) : R Float := do pure (fOf (← natF j k))

/-- {"op":"logicle","T","M","W","p": bits, "s":[bits..]} -/
def handleLogicle (j : Json) : R Json := do
  let T ← fF j "T"; let M ← fF j "M"; let W ← fF j "W"; let p ← fF j "p"
  let s ← listF asNat j "s"
  pure (Json.mkObj [("x", jList (fun b => jF (logicle T M W p (fOf b))) s), ("Wf", jF (Wf p))])

/-- {"op":"edges","scale":"linear"|"log"|"logicle", ...} -/
def handleEdges (j : Json) : R Json := do
  let scale ← strF j "scale"
  let res ← fF j "res"
  let n ← natF j "n"
  let nf := Float.ofNat n
  let idx := List.range (n + 1)
  match scale with
  | "linear" => do
    let lo ← fF j "lo"; let hi ← fF j "hi"
    pure (Json.mkObj [("edges", jList (fun i => jF (edgeLinear lo hi res nf (Float.ofNat i))) idx)])
  | "log" => do
    let lo ← fF j "lo"; let hi ← fF j "hi"
    pure (Json.mkObj [("edges", jList (fun i => jF (edgeLog lo hi res nf (Float.ofNat i))) idx)])
  | _ => do
    let T ← fF j "T"; let M ← fF j "M"; let W ← fF j "W"; let p ← fF j "p"
    pure (Json.mkObj [("edges", jList (fun i => jF (edgeLogicle T M W p res nf (Float.ofNat i))) idx)])

end FlowCal.Driver
