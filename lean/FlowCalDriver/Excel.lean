import FlowCalDriver.Json
import FlowCalModel.Excel
namespace FlowCal.Driver
open Lean FlowCal.Excel

def jStep : Step → Json
  | .toRfi cs => Json.arr #[Json.str "to_rfi", jList Json.str cs]
  | .toMef c => Json.arr #[Json.str "to_mef", Json.str c]
  | .startEnd a b => Json.arr #[Json.str "start_end", jNat a, jNat b]
  | .highLow cs => Json.arr #[Json.str "high_low", jList Json.str cs]
  | .density2d cs => Json.arr #[Json.str "density2d", jList Json.str cs]

def faultName : Fault → String
  | .fileNotFound => "fileNotFound" | .tooFewEvents => "tooFewEvents" | .unitsNotRecognized => "unitsNotRecognized"
  | .mefNotAvailable => "mefNotAvailable" | .otherInstrument => "otherInstrument" | .amplificationType => "amplificationType"
  | .detectorVoltage => "detectorVoltage" | .noCurveForChannel => "noCurveForChannel" | .gateFraction => "gateFraction"
  | .unequalMefCounts => "unequalMefCounts"

/-- {"op":"sample_plan","fsc","ssc","fl":[..],"units":[[ch, str|null]..],"integer":bool} -/
def handleSamplePlan (j : Json) : R Json := do
  let pr (x : Json) : R (String × Option (List Char)) := do
    let a ← asArr x
    if h : a.size = 2 then
      let u ← match a[1] with
        | .null => pure none
        | v => do pure (some (← asStr v).toList)
      pure (← asStr a[0], u)
    else throw "pair"
  let f : RowFacts := ⟨← strF j "fsc", ← strF j "ssc", ← listF asStr j "fl", ← listF pr j "units", ← boolF j "integer"⟩
  match samplePlan f with
  | .ok p => pure (Json.mkObj [("plan", jList jStep p), ("report", jList Json.str ((reportChannels f).map (·.1)))])
  | .error e => pure (Json.mkObj [("fault", Json.str (faultName e))])

/-- {"op":"process_table","rows":[[id, "ok"|"escape"|"fault"]..]} -/
def handleProcessTable (j : Json) : R Json := do
  let pr (x : Json) : R (String × String) := do
    let a ← asArr x
    if h : a.size = 2 then pure (← asStr a[0], ← asStr a[1]) else throw "pair"
  let rows ← listF pr j "rows"
  let proc (s : String) : RowOutcome String :=
    if s == "escape" then .escape else if s.startsWith "fault" then .fault .gateFraction else .ok s
  match processTable proc rows with
  | none => pure (Json.mkObj [("aborted", Json.bool true)])
  | some res => pure (Json.mkObj [("ids", jList Json.str (res.map (·.1))),
      ("kinds", jList (fun (r : String × RowOutcome String) => match r.2 with
        | .ok _ => Json.str "ok" | .fault _ => Json.str "fault" | .escape => Json.str "escape") res)])

/-- {"op":"row_faults","rows":[{"file_found","n_events","beads_table","gate_ok","channels":[{"units":str,"fxn","same_inst","has_mef","amp","volt"}..]}..]} -/
def handleRowFaults (j : Json) : R Json := do
  let ch (x : Json) : R (List Char × MefFacts) := do
    pure ((← strF x "units").toList, ⟨← boolF x "fxn", ← boolF x "same_inst", ← boolF x "has_mef", ← boolF x "amp", ← boolF x "volt"⟩)
  let row (x : Json) : R SampleRow := do
    pure ⟨← boolF x "file_found", ← natF x "n_events", ← listF ch x "channels", ← boolF x "beads_table", ← boolF x "gate_ok"⟩
  let rows ← listF row j "rows"
  let tagged := (List.range rows.length).zip rows |>.map (fun (i, r) => (toString i, r))
  match processTable sampleRowOutcome tagged with
  | none => pure (Json.mkObj [("aborted", Json.bool true)])
  | some res => pure (Json.mkObj [("faults", jList (fun (r : String × RowOutcome Unit) => match r.2 with
        | .ok _ => Json.str "none" | .fault f => Json.str (faultName f) | .escape => Json.str "escape") res)])

/-- {"op":"read_filter","ids":[str|null..]} -/
def handleReadFilter (j : Json) : R Json := do
  let ids ← listF (fun v => match v with | .null => pure none | x => do pure (some (← asStr x))) j "ids"
  match readFilter (ids.zip (List.range ids.length)) with
  | .ok out => pure (Json.mkObj [("kept", jList (fun (p : String × Nat) => Json.arr #[Json.str p.1, jNat p.2]) out)])
  | .error e => pure (Json.mkObj [("err", Json.str e.name)])

def handleSchema (j : Json) : R Json := do
  let chs ← listF asStr j "channels"
  let hist ← boolF j "hist"
  pure (Json.mkObj [("columns", jList Json.str (samplesStatsColumns chs)), ("sheets", jList Json.str (outputSheets hist))])

end FlowCal.Driver
