import FlowCalDriver.Json
import FlowCalModel.Stats
import FlowCalModel.Num
namespace FlowCal.Driver
open Lean FlowCal.Stats FlowCal.Num

def jRat (r : Rat) : Json := Json.arr #[jInt r.num, jNat r.den]

/-- {"op":"stats","col":[bits..],"mode":bits|null} : exact rational statistics of one channel -/
def handleStats (j : Json) : R Json := do
  let xs := (← listF asNat j "col").map ratOfBits
  let modeOk ← match optF j "mode" with
    | none => pure Json.null
    | some v => do pure (Json.bool (isMode xs (ratOfBits (← asNat v))))
  pure (Json.mkObj [("mean", jRat (mean xs)), ("variance", jRat (variance xs)), ("median", jRat (median xs)),
    ("q25", jRat (quantile xs (1/4))), ("q75", jRat (quantile xs (3/4))), ("iqr", jRat (iqr xs)), ("mode_ok", modeOk)])

end FlowCal.Driver
