import FlowCalDriver.Json
import FlowCalModel.Gate
import FlowCalModel.Num
namespace FlowCal.Driver
open Lean FlowCal.Gate FlowCal.Num

def optKey (j : Json) : R (Option Int) :=
  match j with
  | .null => pure none
  | v => do pure (some (orderKey (← asNat v)))

/-- {"op":"start_end","n":..,"s":..,"e":..} -/
def handleStartEnd (j : Json) : R Json := do
  match startEnd (← natF j "n") (← intF j "s") (← intF j "e") with
  | .ok m => pure (Json.mkObj [("mask", jList Json.bool m)])
  | .error e => pure (Json.mkObj [("err", Json.str e.name)])

/-- {"op":"high_low","rows":[[bits..]..],"high":[bits|null..],"low":[..]} (doubles as bit patterns) -/
def handleHighLow (j : Json) : R Json := do
  let rows ← listF (asList asNat) j "rows"
  let high ← listF optKey j "high"
  let low ← listF optKey j "low"
  let keys := rows.map (·.map orderKey)
  -- NaN compares false with everything (thresholds default to ±inf, never to "absent"), so a row holding a NaN is dropped
  let isNaN (b : Nat) : Bool := (b / 2^52 % 2048 == 2047) && (b % 2^52 != 0)
  let m0 := highLow keys high low
  let m := (rows.zip m0).map (fun (r, k) => k && !(r.any isNaN))
  pure (Json.mkObj [("mask", jList Json.bool m), ("kept", jList jNat ((List.range rows.length).filter (fun i => m.getD i false)))])

/-- {"op":"ellipse","pts":[[xbits,ybits]..],"cx","cy","a","b","c","s"} all doubles as bit patterns:
exact rational value of the quadratic form, classified against 1 with a band -/
def handleEllipse (j : Json) : R Json := do
  let pts ← listF (asList asNat) j "pts"
  let g (k : String) : R Rat := do pure (ratOfBits (← natF j k))
  let cx ← g "cx"; let cy ← g "cy"; let a ← g "a"; let b ← g "b"; let c ← g "c"; let s ← g "s"
  let band : Rat := (1 : Rat) / 1000000000
  let cls := pts.map (fun p =>
    let f := ellipseForm cx cy a b c s (ratOfBits (p.getD 0 0)) (ratOfBits (p.getD 1 0))
    if f < 1 - band then 1 else if f > 1 + band then 0 else 2)
  pure (Json.mkObj [("cls", jList jNat cls)])

end FlowCal.Driver
