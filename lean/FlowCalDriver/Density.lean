import FlowCalDriver.Json
import FlowCalModel.Density
import FlowCalModel.Num
namespace FlowCal.Driver
open Lean FlowCal.Density FlowCal.Num

/-- {"op":"density","H":[..],"D":[bits..],"t":n,"mask":[bool..]}: check the implementation's bin mask and
recompute the accepted set from the density order (ties broken by index; `strict` says whether the order is strict at the cut) -/
def handleDensity (j : Json) : R Json := do
  let H ← listF asNat j "H"
  let Dk := (← listF asNat j "D").map orderKey
  let t ← natF j "t"
  let mask ← listF asBool j "mask"
  let (lo, mi, od) := validGate H Dk mask t
  -- density order: stable sort of bin indices by decreasing key
  let idx := (List.range H.length).toArray.qsort (fun a b => Dk.getD a 0 > Dk.getD b 0 || (Dk.getD a 0 == Dk.getD b 0 && a < b))
  let counts := idx.toList.map (fun i => H.getD i 0)
  let k := accepted counts t
  let acc := idx.toList.take k
  let accMask := (List.range H.length).map (fun i => acc.contains i)
  -- is the cut strict? (last accepted key strictly greater than first dropped key)
  let strict := match idx.toList[k - 1]?, idx.toList[k]? with
    | some a, some b => Dk.getD a 0 > Dk.getD b 0
    | _, _ => true
  pure (Json.mkObj [("lower", Json.bool lo), ("minimal", Json.bool mi), ("ordered", Json.bool od),
    ("accept", jList Json.bool accMask), ("strict", Json.bool strict), ("k", jNat k)])

end FlowCal.Driver
