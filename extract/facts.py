#!/usr/bin/env python3
"""placeholder; replaced below"""
