#!/usr/bin/env python3
"""Source-facts extractor: regenerates lean/FlowCalModel/Generated.lean and
extract/facts.json from /repo's current working tree (Python ast, no imports of
FlowCal).  Facts extracted:
  * sampleFields   : attributes assigned on the new object in FCSData.__new__
  * finalizeFields : attributes copied in FCSData.__array_finalize__
  * pickleFields   : _FCSDataPickleState.field_names
  * reduceFields / setstateFields : fields packed in __reduce__ / restored in __setstate__
  * getitemBranches: per branch of __getitem__, the attributes re-sliced
  * writeSites     : in-place writes through parameters / internal-state aliases in public functions
  * normalised-AST hashes of anchored functions (informational)
"""
import ast, hashlib, json, os, sys

REPO = os.environ.get('FLOWCAL_REPO', '/repo')
HERE = os.path.dirname(os.path.abspath(__file__))
OUT_LEAN = os.path.join(os.path.dirname(HERE), 'lean', 'FlowCalModel', 'Generated.lean')
OUT_JSON = os.path.join(HERE, 'facts.json')


def parse(name):
    return ast.parse(open(os.path.join(REPO, 'FlowCal', name)).read())


def find_class(tree, name):
    for n in tree.body:
        if isinstance(n, ast.ClassDef) and n.name == name:
            return n


def find_func(node, name):
    for n in node.body:
        if isinstance(n, ast.FunctionDef) and n.name == name:
            return n


def attr_assign_targets(fn, obj_name):
    """self._x = ... style assignments: returns attribute names in source order."""
    res = []
    for n in ast.walk(fn):
        if isinstance(n, ast.Assign):
            for t in n.targets:
                if isinstance(t, ast.Attribute) and isinstance(t.value, ast.Name) and t.value.id == obj_name:
                    res.append((n.lineno, t.attr))
    res.sort()
    out = []
    for _, a in res:
        if a not in out:
            out.append(a)
    return out


def lean_list(xs):
    return '[' + ', '.join('"%s"' % x for x in xs) + ']'


def fhash(fn):
    return hashlib.sha256(ast.dump(fn, annotate_fields=False, include_attributes=False).encode()).hexdigest()[:16]


# ---- write-site analysis (C13) ---------------------------------------------
MUTATORS = {'append', 'extend', 'insert', 'sort', 'reverse', 'update', 'pop', 'popitem', 'remove', 'clear',
            'setdefault', 'fill', 'resize', 'partition', 'put', 'itemset', 'setflags', 'byteswap'}
STATE_ACCESSORS = {'range', 'text', 'analysis', 'channels', 'resolution', 'amplification_type',
                   'detector_voltage', 'amplifier_gain', 'channel_labels'}
FRESH_CALLS = {'copy', 'deepcopy', 'astype', 'array', 'zeros', 'ones', 'zeros_like', 'ones_like', 'empty', 'empty_like',
               'list', 'dict', 'tuple', 'set', 'sorted', 'linspace', 'logspace', 'arange', 'asarray_chkfinite',
               'log10', 'log', 'exp', 'sqrt', 'concatenate', 'vstack', 'hstack', 'ravel_copy', 'tolist', 'reshape_copy',
               'histogram', 'histogram2d', 'digitize', 'cumsum', 'argsort', 'mean', 'median', 'std', 'sum', 'tile',
               'frompyfunc', 'namedtuple', 'partial', 'format', 'join', 'split', 'figure', 'gca', 'gcf', 'subplot',
               'DataFrame', 'OrderedDict', 'transform_non_affine', 'hist_bins', 'inverted', 'view'}


class Alias:
    FRESH, PARAM, STATE, UNKNOWN = 'fresh', 'param', 'state', 'unknown'


def classify(expr, env):
    """Very small syntactic alias abstraction: what may `expr` point to?"""
    if isinstance(expr, ast.Name):
        return env.get(expr.id, (Alias.UNKNOWN, expr.id))
    if isinstance(expr, ast.Call):
        f = expr.func
        if isinstance(f, ast.Attribute):
            if f.attr == 'view':
                return classify(f.value, env)      # a view aliases its base buffer
            if f.attr in FRESH_CALLS:
                return (Alias.FRESH, f.attr)
            if f.attr in STATE_ACCESSORS:
                base = classify(f.value, env)
                if base[0] in (Alias.PARAM, Alias.STATE):
                    return (Alias.STATE, '%s.%s()' % (base[1], f.attr))
            return (Alias.FRESH, 'call')
        if isinstance(f, ast.Name):
            return (Alias.FRESH, f.id)
        return (Alias.FRESH, 'call')
    if isinstance(expr, ast.Subscript):
        base = classify(expr.value, env)
        # basic slicing of a numpy array gives a view; indexing a list gives the element
        if base[0] in (Alias.PARAM, Alias.STATE):
            return (base[0], base[1] + '[...]')
        return base
    if isinstance(expr, ast.Attribute):
        base = classify(expr.value, env)
        if base[0] in (Alias.PARAM, Alias.STATE):
            return (Alias.STATE if expr.attr.startswith('_') or expr.attr in STATE_ACCESSORS else base[0], base[1] + '.' + expr.attr)
        return base
    if isinstance(expr, (ast.List, ast.Tuple, ast.Dict, ast.ListComp, ast.DictComp, ast.SetComp, ast.GeneratorExp,
                         ast.BinOp, ast.UnaryOp, ast.Compare, ast.BoolOp, ast.Constant, ast.JoinedStr, ast.Lambda)):
        return (Alias.FRESH, type(expr).__name__)
    if isinstance(expr, ast.IfExp):
        a, b = classify(expr.body, env), classify(expr.orelse, env)
        for c in (a, b):
            if c[0] != Alias.FRESH:
                return c
        return a
    return (Alias.UNKNOWN, type(expr).__name__)


def root_name(t):
    while isinstance(t, (ast.Subscript, ast.Attribute)):
        t = t.value
    return t.id if isinstance(t, ast.Name) else None


def write_sites(modname, tree):
    sites = []

    def visit_fn(fn, qual):
        params = [a.arg for a in fn.args.args + fn.args.kwonlyargs]
        if fn.args.vararg:
            params.append(fn.args.vararg.arg)
        if fn.args.kwarg:
            params.append(fn.args.kwarg.arg)
        env = {p: (Alias.PARAM, p) for p in params}

        def record(kind, target, lineno):
            cls = classify(target, env)
            if cls[0] in (Alias.PARAM, Alias.STATE):
                sites.append({'module': modname, 'function': qual, 'kind': kind,
                              'target': cls[1], 'alias': cls[0]})

        def walk(stmts):
            for s in stmts:
                if isinstance(s, (ast.FunctionDef, ast.ClassDef)):
                    continue
                if isinstance(s, ast.Assign):
                    for t in s.targets:
                        if isinstance(t, (ast.Subscript, ast.Attribute)):
                            record('store', t.value, s.lineno)
                        elif isinstance(t, ast.Name):
                            env[t.id] = classify(s.value, env)
                        elif isinstance(t, ast.Tuple):
                            for e in t.elts:
                                if isinstance(e, ast.Name):
                                    env[e.id] = (Alias.FRESH, 'unpack')
                elif isinstance(s, ast.AugAssign):
                    if isinstance(s.target, (ast.Subscript, ast.Attribute)):
                        record('augstore', s.target.value, s.lineno)
                    elif isinstance(s.target, ast.Name):
                        c = env.get(s.target.id)
                        if c and c[0] in (Alias.PARAM, Alias.STATE):
                            record('augassign', s.target, s.lineno)
                elif isinstance(s, ast.Expr) and isinstance(s.value, ast.Call):
                    f = s.value.func
                    if isinstance(f, ast.Attribute) and f.attr in MUTATORS:
                        record('call.' + f.attr, f.value, s.lineno)
                elif isinstance(s, ast.Delete):
                    for t in s.targets:
                        if isinstance(t, (ast.Subscript, ast.Attribute)):
                            record('delete', t.value, s.lineno)
                if isinstance(s, ast.For):
                    it = classify(s.iter, env)
                    if isinstance(s.target, ast.Name):
                        env[s.target.id] = (it[0], it[1] + '[i]') if it[0] in (Alias.PARAM, Alias.STATE) else (Alias.FRESH, 'iter')
                    elif isinstance(s.target, ast.Tuple):
                        for e in s.target.elts:
                            if isinstance(e, ast.Name):
                                env[e.id] = (Alias.FRESH, 'iter')
                for fld in ('body', 'orelse', 'finalbody'):
                    if hasattr(s, fld):
                        walk(getattr(s, fld))
                if isinstance(s, ast.Try):
                    for h in s.handlers:
                        walk(h.body)
                if isinstance(s, ast.With):
                    pass
        walk(fn.body)

    for n in tree.body:
        if isinstance(n, ast.FunctionDef) and not n.name.startswith('_'):
            visit_fn(n, n.name)
        elif isinstance(n, ast.ClassDef):
            for m in n.body:
                if isinstance(m, ast.FunctionDef):
                    visit_fn(m, n.name + '.' + m.name)
    # canonical, order independent, duplicates removed
    uniq = []
    for s in sites:
        if s not in uniq:
            uniq.append(s)
    uniq.sort(key=lambda s: (s['module'], s['function'], s['kind'], s['target']))
    return uniq


def main():
    io = parse('io.py')
    cls = find_class(io, 'FCSData')
    new = find_func(cls, '__new__')
    fin = find_func(cls, '__array_finalize__')
    red = find_func(cls, '__reduce__')
    sst = find_func(cls, '__setstate__')
    getitem = find_func(cls, '__getitem__')

    sample_fields = [a for a in attr_assign_targets(new, 'obj')]
    finalize_fields = attr_assign_targets(fin, 'self')
    setstate_fields = attr_assign_targets(sst, 'self')
    pickle_fields = []
    for n in io.body:
        if isinstance(n, ast.Assign) and any(isinstance(t, ast.Name) and t.id == '_FCSDataPickleState' for t in n.targets):
            for kw in n.value.keywords:
                if kw.arg == 'field_names':
                    pickle_fields = [e.value for e in kw.value.elts]
    reduce_fields = []   # (field, attribute) pairs in the _FCSDataPickleState(...) call
    for n in ast.walk(red):
        if isinstance(n, ast.Call) and isinstance(n.func, ast.Name) and n.func.id == '_FCSDataPickleState':
            for kw in n.keywords:
                v = kw.value
                reduce_fields.append((kw.arg, v.attr if isinstance(v, ast.Attribute) else '?'))
    setstate_pairs = []  # (attribute, field)
    for n in ast.walk(sst):
        if isinstance(n, ast.Assign) and isinstance(n.targets[0], ast.Attribute) and isinstance(n.value, ast.Attribute):
            setstate_pairs.append((n.targets[0].attr, n.value.attr))
    # getitem branches: for each If branch body inside the first branch, which attributes are reassigned and from which
    branches = []
    for n in ast.walk(getitem):
        if isinstance(n, ast.If):
            for body in (n.body, n.orelse):
                pairs = []
                for s in body:
                    if isinstance(s, ast.Assign) and isinstance(s.targets[0], ast.Attribute) \
                            and isinstance(s.targets[0].value, ast.Name) and s.targets[0].value.id == 'new_arr':
                        srcs = sorted({a.attr for a in ast.walk(s.value) if isinstance(a, ast.Attribute)
                                       and isinstance(a.value, ast.Name) and a.value.id == 'new_arr'})
                        pairs.append((s.targets[0].attr, srcs))
                if len(pairs) >= 3:
                    branches.append(pairs)
    trees = {m: parse(m + '.py') for m in ('io', 'transform', 'gate', 'stats', 'mef', 'plot', 'excel_ui')}
    ws = []
    for m in ('io', 'transform', 'gate', 'stats', 'mef', 'plot'):
        ws.extend(write_sites(m, trees[m]))

    hashes = {}
    for m, t in trees.items():
        for n in t.body:
            if isinstance(n, ast.FunctionDef):
                hashes['%s.%s' % (m, n.name)] = fhash(n)
            elif isinstance(n, ast.ClassDef):
                for f in n.body:
                    if isinstance(f, ast.FunctionDef):
                        hashes['%s.%s.%s' % (m, n.name, f.name)] = fhash(f)

    # ---- excel_ui: workbook schema and the order of the documented fault checks -----------------------------
    ex = trees['excel_ui']

    def top_func(tree, name):
        for n in tree.body:
            if isinstance(n, ast.FunctionDef) and n.name == name:
                return n

    def leading_text(e):
        while True:
            if isinstance(e, ast.Constant) and isinstance(e.value, str):
                return e.value
            if isinstance(e, ast.Call) and isinstance(e.func, ast.Attribute) and e.func.attr == 'format':
                e = e.func.value
            elif isinstance(e, ast.BinOp):
                e = e.left
            elif isinstance(e, ast.JoinedStr) and e.values:
                e = e.values[0]
            else:
                return ast.unparse(e)

    def raise_sites(fn):
        out = []
        for n in ast.walk(fn):
            if isinstance(n, ast.Raise) and isinstance(n.exc, ast.Call) and ast.unparse(n.exc.func).endswith('ExcelUIException') and n.exc.args:
                out.append((n.lineno, leading_text(n.exc.args[0])))
        return [t for _, t in sorted(out)]
    sample_raises = raise_sites(top_func(ex, 'process_samples_table'))
    beads_raises = raise_sites(top_func(ex, 'process_beads_table'))
    # sheets appended in run(): (name, only when hist_sheet)
    sheets = []
    runf = top_func(ex, 'run')

    def visit(stmts, cond):
        for st in stmts:
            if isinstance(st, ast.If):
                c = cond or ast.unparse(st.test) == 'hist_sheet'
                other = cond or ast.unparse(st.test) != 'hist_sheet'
                visit(st.body, c if ast.unparse(st.test) == 'hist_sheet' else cond)
                visit(st.orelse, cond)
            elif isinstance(st, (ast.For, ast.While, ast.With, ast.Try)):
                visit(getattr(st, 'body', []), cond)
            elif isinstance(st, ast.Expr) and isinstance(st.value, ast.Call) and ast.unparse(st.value.func) == 'table_list.append' and st.value.args \
                    and isinstance(st.value.args[0], ast.Tuple) and isinstance(st.value.args[0].elts[0], ast.Constant):
                sheets.append((st.lineno, st.value.args[0].elts[0].value, bool(cond)))
    visit(runf.body, False)
    sheets = [(n, c) for _, n, c in sorted(sheets)]
    # result columns created by add_samples_stats: table-level ones, then per reported channel (channel + suffix), in first-assignment order
    head, per = [], []
    for n in ast.walk(top_func(ex, 'add_samples_stats')):
        if isinstance(n, ast.Assign) and len(n.targets) == 1 and isinstance(n.targets[0], ast.Subscript) and ast.unparse(n.targets[0].value) == 'samples_table':
            k = n.targets[0].slice
            if isinstance(k, ast.Constant) and isinstance(k.value, str):
                head.append((n.lineno, k.value))
            elif isinstance(k, ast.BinOp) and isinstance(k.op, ast.Add) and ast.unparse(k.left) == 'channel' and isinstance(k.right, ast.Constant):
                per.append((n.lineno, k.right.value))
    head = [t for _, t in sorted(head)]
    per = [t for _, t in sorted(per)]

    # library calls of the two workflows in source order: (callee, arguments after the sample, innermost enclosing if-test)
    def lib_calls(fn):
        out = []

        def walk(node, guard):
            for ch in ast.iter_child_nodes(node):
                if isinstance(ch, ast.If):
                    walk(ch.test, guard)
                    for b in ch.body:
                        walk_stmt(b, ast.unparse(ch.test))
                    for b in ch.orelse:
                        walk_stmt(b, 'not (' + ast.unparse(ch.test) + ')')
                else:
                    visit_node(ch, guard)

        def walk_stmt(st, guard):
            if isinstance(st, ast.If):
                walk(ast.Module(body=[st], type_ignores=[]), guard)
            else:
                visit_node(st, guard)

        def visit_node(n, guard):
            if isinstance(n, ast.Call):
                name = ast.unparse(n.func)
                if name.startswith('FlowCal.') and name.count('.') == 2 and not name.startswith('FlowCal.plot') and not name.startswith('FlowCal.io'):
                    args = [ast.unparse(a) for a in n.args[1:]] + ['%s=%s' % (k.arg, ast.unparse(k.value)) for k in n.keywords if k.arg != 'data']
                    out.append((n.lineno, name[len('FlowCal.'):], ', '.join(args), guard))
            walk(n, guard)
        walk(fn, '')
        return [(a, b, c) for _, a, b, c in sorted(out)]
    sample_calls = lib_calls(top_func(ex, 'process_samples_table'))
    # statistic written into each per-channel result column: (suffix, function, object it is computed on)
    stat_cols = []
    pos_rule = []
    for n in ast.walk(top_func(ex, 'add_samples_stats')):
        if isinstance(n, ast.Assign) and len(n.targets) == 1 and isinstance(n.targets[0], ast.Subscript) and ast.unparse(n.targets[0].value) == 'samples_table.at' \
                and isinstance(n.value, ast.Call) and ast.unparse(n.value.func).startswith('FlowCal.stats.'):
            k = n.targets[0].slice
            suffix = k.elts[1].right.value if (isinstance(k, ast.Tuple) and isinstance(k.elts[1], ast.BinOp) and isinstance(k.elts[1].right, ast.Constant)) else ast.unparse(k)
            stat_cols.append((n.lineno, suffix, ast.unparse(n.value.func)[len('FlowCal.stats.'):], ', '.join(ast.unparse(a) for a in n.value.args)))
        if isinstance(n, ast.Assign) and len(n.targets) == 1 and ast.unparse(n.targets[0]) == 'sample_positive':
            pos_rule.append((n.lineno, ast.unparse(n.value)))
        if isinstance(n, ast.If) and 'sample_positive' in ast.unparse(n.body[0] if n.body else n) and 'np.any' in ast.unparse(n.test):
            pos_rule.append((n.lineno, 'if ' + ast.unparse(n.test)))
    stat_cols = [(a, b, c) for _, a, b, c in sorted(stat_cols)]
    pos_rule = [t for _, t in sorted(pos_rule)]

    # keyword names (templates) looked up in the TEXT dictionary, in order of first use
    def keyword_uses(fn, dict_exprs):
        out = []

        def key_text(e):
            if isinstance(e, ast.Constant) and isinstance(e.value, str):
                return e.value
            if isinstance(e, ast.Call) and isinstance(e.func, ast.Attribute) and e.func.attr == 'format' and isinstance(e.func.value, ast.Constant):
                return e.func.value.value
            return None
        for n in ast.walk(fn):
            k = None
            if isinstance(n, ast.Subscript) and ast.unparse(n.value) in dict_exprs:
                k = key_text(n.slice)
            elif isinstance(n, ast.Call) and isinstance(n.func, ast.Attribute) and n.func.attr == 'get' and ast.unparse(n.func.value) in dict_exprs and n.args:
                k = key_text(n.args[0])
            elif isinstance(n, ast.Compare) and len(n.ops) == 1 and isinstance(n.ops[0], ast.In) and ast.unparse(n.comparators[0]) in dict_exprs:
                k = key_text(n.left)
            if k is not None:
                out.append((n.lineno, n.col_offset, k))
        res = []
        for _, _, k in sorted(out):
            if k not in res:
                res.append(k)
        return res
    sample_keywords = keyword_uses(new, ('fcs_file.text',))
    file_keywords = keyword_uses(find_func(find_class(io, 'FCSFile'), '__init__'), ('self._text',))
    vendor_marks = []
    for n in ast.walk(new):
        if isinstance(n, ast.Compare) and len(n.ops) == 1 and isinstance(n.ops[0], ast.In) and isinstance(n.left, ast.Constant) and isinstance(n.left.value, str) \
                and "get('CREATOR')" in ast.unparse(n.comparators[0]):
            vendor_marks.append((n.lineno, n.left.value))
    vendor_marks = [t for _, t in sorted(vendor_marks)]

    def alpha(node):
        """source text of a node with local variable names replaced by v0, v1, ... in order of first appearance (so that renaming a
        local variable does not change the extracted fact); module roots, builtins and attribute names are kept"""
        keep = {'bool', 'num_start', 'num_end', 'high', 'low', 'full_output', 'np', 'scipy', 'FlowCal', 'None', 'True', 'False', 'float', 'int', 'len', 'str', 'list', 'range', 'isinstance', 'hasattr', 'warnings', 'six',
                'collections', 'os', 'pd', 'ExcelUIException', 'ValueError', 'data', 'channels'}
        names = {}

        class R(ast.NodeTransformer):
            def visit_Name(self, n):
                if n.id in keep:
                    return n
                if n.id not in names:
                    names[n.id] = 'v%d' % len(names)
                return ast.copy_location(ast.Name(id=names[n.id], ctx=n.ctx), n)
        import copy
        return ast.unparse(R().visit(copy.deepcopy(node)))

    # gate.density2d: the statements that select the accepted bins (identified by their target names) and the fraction check
    dens = []
    d2 = top_func(trees['gate'], 'density2d')
    want = ['n', 'vD', 'vH', 'sidx', 'svH', 'csvH', 'Nidx', 'accepted_bin_indices']
    for n in ast.walk(d2):
        if isinstance(n, ast.Assign) and len(n.targets) == 1 and isinstance(n.targets[0], ast.Name) and n.targets[0].id in want:
            dens.append((n.lineno, ' '.join(ast.unparse(n).split())))
        if isinstance(n, ast.If) and 'gate_fraction' in ast.unparse(n.test) and any(isinstance(b, ast.Raise) for b in n.body):
            dens.append((n.lineno, 'refuse if ' + ' '.join(ast.unparse(n.test).split())))
        if isinstance(n, ast.Subscript) and isinstance(n.ctx, ast.Store) and ast.unparse(n.value) == 'v_bin_mask':
            dens.append((n.lineno, 'v_bin_mask[' + ast.unparse(n.slice) + '] = True'))
    dens = [t for _, t in sorted(dens)]

    # stats.py: for every public function the channel slicing rule and the numeric statements (everything that is not the slicing)
    stats_defs = []
    for n in trees['stats'].body:
        if isinstance(n, ast.FunctionDef) and not n.name.startswith('_'):
            body = [st for st in n.body if not (isinstance(st, ast.Expr) and isinstance(st.value, ast.Constant) and isinstance(st.value.value, str))]
            whole = alpha(ast.Module(body=body, type_ignores=[]))
            stats_defs.append((n.name, ' ; '.join(' '.join(x.split()) for x in whole.split('\n'))))

    def body_text(fn):
        body = [st for st in fn.body if not (isinstance(st, ast.Expr) and isinstance(st.value, ast.Constant) and isinstance(st.value.value, str))]
        whole = alpha(ast.Module(body=body, type_ignores=[]))
        return ' ; '.join(' '.join(x.split()) for x in whole.split('\n'))
    gate_defs = [(nm, body_text(top_func(trees['gate'], nm))) for nm in ('start_end', 'high_low')]

    strip = lambda xs: [x.lstrip('_') for x in xs]
    facts = {
        'sampleFields': strip(sample_fields), 'finalizeFields': strip(finalize_fields),
        'pickleFields': pickle_fields, 'setstateFields': strip(setstate_fields),
        'reduceFields': [[a, b.lstrip('_')] for a, b in reduce_fields],
        'setstatePairs': [[a.lstrip('_'), b] for a, b in setstate_pairs],
        'getitemBranches': [[[a.lstrip('_'), [x.lstrip('_') for x in b]] for a, b in br] for br in branches],
        'writeSites': ws, 'hashes': hashes,
        'sampleRaiseSites': sample_raises, 'beadsRaiseSites': beads_raises, 'outputSheetSpec': [[n, c] for n, c in sheets],
        'statsHeadColumns': head, 'statsPerChannelSuffixes': per,
        'statsDefinitions': [list(t) for t in stats_defs], 'densitySelection': dens, 'gateDefinitions': [list(t) for t in gate_defs],
        'sampleKeywords': sample_keywords, 'fileKeywords': file_keywords, 'vendorMarks': vendor_marks,
        'samplePipelineCalls': [list(t) for t in sample_calls], 'statColumnFunctions': [list(t) for t in stat_cols], 'positiveEventsRule': pos_rule,
        'summary': {'sampleFields': len(sample_fields), 'finalizeFields': len(finalize_fields),
                    'pickleFields': len(pickle_fields), 'writeSites': len(ws), 'functions_hashed': len(hashes)},
    }
    json.dump(facts, open(OUT_JSON, 'w'), indent=1)

    L = []
    L.append('/-! GENERATED by extract/facts.py from /repo on every run. Do not edit. -/')
    L.append('namespace FlowCal.Generated')
    L.append('def sampleFields : List String := ' + lean_list(facts['sampleFields']))
    L.append('def finalizeFields : List String := ' + lean_list(facts['finalizeFields']))
    L.append('def pickleFields : List String := ' + lean_list(facts['pickleFields']))
    L.append('def setstateFields : List String := ' + lean_list(facts['setstateFields']))
    L.append('def reduceFields : List (String × String) := [' + ', '.join('("%s", "%s")' % (a, b) for a, b in facts['reduceFields']) + ']')
    L.append('def setstatePairs : List (String × String) := [' + ', '.join('("%s", "%s")' % (a, b) for a, b in facts['setstatePairs']) + ']')
    L.append('def getitemBranches : List (List (String × List String)) := [' + ', '.join(
        '[' + ', '.join('("%s", %s)' % (a, lean_list(b)) for a, b in br) + ']' for br in facts['getitemBranches']) + ']')
    L.append('structure WriteSite where\n  module : String\n  function : String\n  kind : String\n  target : String\n  deriving DecidableEq, Repr')
    L.append('def writeSites : List WriteSite := [' + ',\n  '.join(
        '⟨"%s", "%s", "%s", "%s"⟩' % (w['module'], w['function'], w['kind'], w['target'].replace('"', "'")) for w in ws) + ']')
    lstr = lambda x: '"' + x.replace('\\', '\\\\').replace('"', '\\"') + '"'
    L.append('def sampleRaiseSites : List String := [' + ', '.join(lstr(x) for x in sample_raises) + ']')
    L.append('def beadsRaiseSites : List String := [' + ', '.join(lstr(x) for x in beads_raises) + ']')
    L.append('def outputSheetSpec : List (String × Bool) := [' + ', '.join('(%s, %s)' % (lstr(n), 'true' if c else 'false') for n, c in sheets) + ']')
    L.append('def statsHeadColumns : List String := [' + ', '.join(lstr(x) for x in head) + ']')
    L.append('def statsPerChannelSuffixes : List String := [' + ', '.join(lstr(x) for x in per) + ']')
    L.append('def sampleKeywords : List String := [' + ', '.join(lstr(x) for x in sample_keywords) + ']')
    L.append('def fileKeywords : List String := [' + ', '.join(lstr(x) for x in file_keywords) + ']')
    L.append('def vendorMarks : List String := [' + ', '.join(lstr(x) for x in vendor_marks) + ']')
    L.append('def statsDefinitions : List (String × String) := [' + ',\n  '.join('(%s, %s)' % tuple(lstr(x) for x in t) for t in stats_defs) + ']')
    L.append('def gateDefinitions : List (String × String) := [' + ',\n  '.join('(%s, %s)' % tuple(lstr(x) for x in t) for t in gate_defs) + ']')
    L.append('def densitySelection : List String := [' + ',\n  '.join(lstr(x) for x in dens) + ']')
    L.append('def samplePipelineCalls : List (String × String × String) := [' + ',\n  '.join('(%s, %s, %s)' % tuple(lstr(x) for x in t) for t in sample_calls) + ']')
    L.append('def statColumnFunctions : List (String × String × String) := [' + ',\n  '.join('(%s, %s, %s)' % tuple(lstr(x) for x in t) for t in stat_cols) + ']')
    L.append('def positiveEventsRule : List String := [' + ', '.join(lstr(x) for x in pos_rule) + ']')
    L.append('end FlowCal.Generated')
    new_src = '\n'.join(L) + '\n'
    old = open(OUT_LEAN).read() if os.path.exists(OUT_LEAN) else None
    if old != new_src:
        os.makedirs(os.path.dirname(OUT_LEAN), exist_ok=True)
        open(OUT_LEAN, 'w').write(new_src)
    return 0


if __name__ == '__main__':
    sys.exit(main())
