#!/usr/bin/env python3
"""Formula translator: regenerates lean/FlowCalModel/GeneratedExpr.lean from /repo's current working tree.

The arithmetic expressions FlowCal evaluates for the two amplifier laws, the bead model / standard curve /
residual, the logicle function and the ellipse predicate are located in the source by (function, role),
translated from the Python ast to Lean terms over the same generic number interfaces the hand-written model
uses (`Pow10`, `Mef.Ops`, field operations), and written out as definitions `src_*`.  The property files then
prove `src_* = <model definition>` (by `rfl`), so the theorems about the model formulas are theorems about the
formulas the source contains now.  A formula that cannot be located or translated is left out (and listed in
`missing`), which makes the corresponding property file fail to compile: a broken obligation for that property.
"""
import ast, json, os, sys

REPO = os.environ.get('FLOWCAL_REPO', '/repo')
HERE = os.path.dirname(os.path.abspath(__file__))
OUT_LEAN = os.path.join(os.path.dirname(HERE), 'lean', 'FlowCalModel', 'GeneratedExpr.lean')
OUT_JSON = os.path.join(HERE, 'exprs.json')


class Untranslatable(Exception):
    pass


def parse(name):
    return ast.parse(open(os.path.join(REPO, 'FlowCal', name)).read())


def find(node, kind, name):
    for n in ast.walk(node):
        if isinstance(n, kind) and getattr(n, 'name', None) == name:
            return n
    raise Untranslatable('%s %s not found' % (kind.__name__, name))


NP_FUNS = {'exp': 'o.exp', 'log': 'o.log', 'sign': 'o.sign', 'abs': 'o.abs', 'log10': 'log10'}


def tr(e, env, mode):
    """Python expression -> Lean term.  env: names/subscripts -> Lean variables.  mode: 'pow10' | 'ops' | 'field'."""
    if not isinstance(e, (ast.Name, ast.Constant)) and ast.unparse(e).replace(' ', '') in env:
        return env[ast.unparse(e).replace(' ', '')]
    if isinstance(e, ast.Constant) and isinstance(e.value, float) and mode == 'sci' and 0 < e.value < 1:
        # a decimal fraction like 0.015 -> OfScientific literal (exact decimal, as written in the source)
        txt = repr(e.value)
        if 'e' in txt or not txt.startswith('0.'):
            raise Untranslatable('constant ' + txt)
        return '(%s)' % txt
    if isinstance(e, ast.Name):
        if e.id in env:
            return env[e.id]
        raise Untranslatable('free name %s' % e.id)
    if isinstance(e, ast.Attribute) and isinstance(e.value, ast.Name) and e.value.id == 'self':
        key = 'self.' + e.attr
        if key in env:
            return env[key]
        raise Untranslatable('free attribute %s' % key)
    if isinstance(e, ast.Constant) and isinstance(e.value, (int, float)) and not isinstance(e.value, bool) and e.value in (0, 1, 2):
        return str(int(e.value))
    if isinstance(e, ast.Attribute) and ast.unparse(e) in env:
        return env[ast.unparse(e)]
    if isinstance(e, ast.Subscript):
        key = ast.unparse(e).replace(' ', '')
        if key in env:
            return env[key]
        raise Untranslatable('free subscript %s' % key)
    if isinstance(e, ast.UnaryOp) and isinstance(e.op, ast.USub):
        return '(-%s)' % tr(e.operand, env, mode)
    if isinstance(e, ast.BinOp):
        if isinstance(e.op, ast.Pow):
            if isinstance(e.left, ast.Constant) and e.left.value == 10 and mode == 'pow10':
                return '(pow10 %s)' % tr(e.right, env, mode)
            if isinstance(e.right, ast.Constant) and e.right.value == 2:
                x = tr(e.left, env, mode)
                return '(%s * %s)' % (x, x)
            if mode == 'ops':
                return '(o.rpow %s %s)' % (tr(e.left, env, mode), tr(e.right, env, mode))
            raise Untranslatable('power ' + ast.unparse(e))
        ops = {ast.Add: '+', ast.Sub: '-', ast.Mult: '*', ast.Div: '/'}
        if type(e.op) not in ops:
            raise Untranslatable('operator ' + ast.unparse(e))
        return '(%s %s %s)' % (tr(e.left, env, mode), ops[type(e.op)], tr(e.right, env, mode))
    if isinstance(e, ast.Call):
        f = e.func
        if isinstance(f, ast.Name) and f.id == 'float' and len(e.args) == 1:
            return tr(e.args[0], env, mode)
        if isinstance(f, ast.Attribute) and isinstance(f.value, ast.Name) and f.value.id == 'np' and f.attr in NP_FUNS and len(e.args) == 1 and not e.keywords:
            if f.attr == 'log10' and mode == 'pow10':
                return '(log10 %s)' % tr(e.args[0], env, mode)
            if mode != 'ops':
                raise Untranslatable('call ' + ast.unparse(e))
            return '(%s %s)' % (NP_FUNS[f.attr], tr(e.args[0], env, mode))
    raise Untranslatable(ast.unparse(e))


def lambdas_assigned(fn, target):
    out = []
    for n in ast.walk(fn):
        if isinstance(n, ast.Assign) and len(n.targets) == 1 and isinstance(n.targets[0], ast.Name) and n.targets[0].id == target \
                and isinstance(n.value, ast.Lambda):
            out.append((n.lineno, n.value))
    return [l for _, l in sorted(out, key=lambda t: t[0])]


def single_return(fn):
    rets = [n for n in ast.walk(fn) if isinstance(n, ast.Return) and n.value is not None]
    if len(rets) != 1:
        raise Untranslatable('%s has %d return statements' % (fn.name, len(rets)))
    return rets[0].value


def main():
    defs, missing, src = [], [], {}

    def attempt(name, header, f, ty='α'):
        try:
            body, text = f()
            defs.append('/-- source: `%s` -/\ndef %s %s : %s :=\n  %s\n' % (text.replace('-/', '- /'), name, header, ty, body))
            src[name] = text
        except Untranslatable as ex:
            missing.append('%s: %s' % (name, ex))
        except Exception as ex:             # the source no longer has the expected shape
            missing.append('%s: %s: %s' % (name, type(ex).__name__, ex))

    # ---- transform.to_rfi: the two laws -------------------------------------------------------------
    t = parse('transform.py')

    def law(idx, env):
        def f():
            fn = find(t, ast.FunctionDef, 'to_rfi')
            ls = lambdas_assigned(fn, 'tf')
            if len(ls) != 2:
                raise Untranslatable('%d assignments of a lambda to tf in to_rfi' % len(ls))
            lam = ls[idx]
            if [a.arg for a in lam.args.args] != ['x']:
                raise Untranslatable('lambda parameters ' + ast.unparse(lam.args))
            return tr(lam.body, env, 'pow10'), ast.unparse(lam)
        return f
    attempt('src_rfi_lin', '(ag x : α)', law(0, {'x': 'x', 'ag': 'ag'}))
    attempt('src_rfi_log', '(at0 at1 r x : α)', law(1, {'x': 'x', 'r': 'r', 'at[0]': 'at0', 'at[1]': 'at1'}))

    # ---- plot._LogicleTransform.transform_non_affine ------------------------------------------------
    p = parse('plot.py')

    def logicle():
        cls = find(p, ast.ClassDef, '_LogicleTransform')
        fn = find(cls, ast.FunctionDef, 'transform_non_affine')
        # local aliases  T = self.T  etc.
        env = {'s': 's'}
        for n in fn.body:
            if isinstance(n, ast.Assign) and len(n.targets) == 1 and isinstance(n.targets[0], ast.Name) and isinstance(n.value, ast.Attribute) \
                    and isinstance(n.value.value, ast.Name) and n.value.value.id == 'self':
                env[n.targets[0].id] = n.value.attr.lstrip('_') if n.value.attr.lstrip('_') in ('T', 'M', 'W', 'p') else n.value.attr
        env.update({'self.T': 'T', 'self.M': 'M', 'self.W': 'W', 'self._p': 'p', 'self._T': 'T', 'self._M': 'M', 'self._W': 'W'})
        r = single_return(fn)
        return tr(r, env, 'pow10'), ast.unparse(r)
    attempt('src_logicle', '(T M W p s : α)', logicle)

    # ---- plot._LogicleTransform.__init__: the equation solved for p and the bracket of the fallback solver ----
    def lt_init():
        return find(find(p, ast.ClassDef, '_LogicleTransform'), ast.FunctionDef, '__init__')

    def w_f():
        fn = find(lt_init(), ast.FunctionDef, 'W_f')
        if [a.arg for a in fn.args.args] != ['p']:
            raise Untranslatable('W_f parameters ' + ast.unparse(fn.args))
        r = single_return(fn)
        return tr(r, {'p': 'p'}, 'pow10'), ast.unparse(r)
    attempt('src_W_f', '(p : α)', w_f)

    def w_root():
        fn = find(lt_init(), ast.FunctionDef, 'W_root')
        r = single_return(fn)
        if [a.arg for a in fn.args.args] != ['p', 'W_target'] or ast.unparse(r) != 'W_f(p) - W_target':
            raise Untranslatable('W_root is %s -> %s' % (ast.unparse(fn.args), ast.unparse(r)))
        solves = [n for n in ast.walk(lt_init()) if isinstance(n, ast.Call) and ast.unparse(n.func) in ('scipy.optimize.root', 'scipy.optimize.brentq')]
        for c in solves:
            kw = {k.arg: ast.unparse(k.value) for k in c.keywords}
            if not c.args or ast.unparse(c.args[0]) != 'W_root' or kw.get('args') not in ('W', '(W,)'):
                raise Untranslatable('solver call ' + ast.unparse(c))
        if sorted(ast.unparse(c.func) for c in solves) != ['scipy.optimize.brentq', 'scipy.optimize.root']:
            raise Untranslatable('solver calls: %s' % [ast.unparse(c.func) for c in solves])
        stores = [ast.unparse(n.value) for n in ast.walk(lt_init()) if isinstance(n, ast.Assign) and ast.unparse(n.targets[0]) == 'self._p']
        if len(stores) != 2 or stores[0] != 'sol.x[0]' or not stores[1].startswith('scipy.optimize.brentq('):
            raise Untranslatable('assignments to self._p: %s' % stores)
        return 'true', 'W_root(p, W_target) = W_f(p) - W_target, solved for W_target = W by scipy.optimize.root, else by scipy.optimize.brentq; self._p is the root'
    attempt('src_p_solves_W_f_eq_W', '', w_root, 'Bool')

    def bracket(i):
        def f():
            calls = [n for n in ast.walk(lt_init()) if isinstance(n, ast.Call) and ast.unparse(n.func) == 'scipy.optimize.brentq']
            if len(calls) != 1 or len(calls[0].args) != 3:
                raise Untranslatable('brentq calls: %s' % [ast.unparse(c) for c in calls])
            return tr(calls[0].args[1 + i], {'W': 'W'}, 'pow10'), ast.unparse(calls[0])
        return f
    attempt('src_p_bracket_lo', '(W : α)', bracket(0))
    attempt('src_p_bracket_hi', '(W : α)', bracket(1))

    # ---- mef.fit_beads_autofluorescence: residual, bead model, standard curve -------------------------
    m = parse('mef.py')

    def inner(name, env, unwrap_sum_sq=False):
        def f():
            fn = find(find(m, ast.FunctionDef, 'fit_beads_autofluorescence'), ast.FunctionDef, name)
            r = single_return(fn)
            if unwrap_sum_sq:
                ok = isinstance(r, ast.Call) and isinstance(r.func, ast.Attribute) and r.func.attr == 'sum' and len(r.args) == 1 and \
                    isinstance(r.args[0], ast.BinOp) and isinstance(r.args[0].op, ast.Pow) and isinstance(r.args[0].right, ast.Constant) and r.args[0].right.value == 2
                if not ok:
                    raise Untranslatable('err_fun is not np.sum((residual)**2): ' + ast.unparse(r))
                r = r.args[0].left
            return tr(r, env, 'ops'), ast.unparse(r)
        return f
    pe = {'p[0]': 'p0', 'p[1]': 'p1', 'p[2]': 'p2', 'x': 'x', 'y': 'y'}
    attempt('src_residual', '(o : FlowCal.Mef.Ops α) (p0 p1 p2 x y : α)', inner('err_fun', pe, True))
    attempt('src_beads_model', '(o : FlowCal.Mef.Ops α) (p0 p1 p2 x : α)', inner('fit_fun', pe))
    attempt('src_std_curve', '(o : FlowCal.Mef.Ops α) (p0 p1 x : α)', inner('sc_fun', pe))

    # ---- mef.selection_std: default thresholds and the two comparisons of the mask -----------------------
    def sel_fn():
        return find(m, ast.FunctionDef, 'selection_std')

    def threshold(name):
        def f():
            asg = [n for n in ast.walk(sel_fn()) if isinstance(n, ast.Assign) and len(n.targets) == 1 and isinstance(n.targets[0], ast.Name) and n.targets[0].id == name
                   and isinstance(n.value, ast.BinOp)]
            if len(asg) != 1:
                raise Untranslatable('%d arithmetic assignments to %s in selection_std' % (len(asg), name))
            return tr(asg[0].value, {'sf(r[0])': 's0', 'sf(r[1])': 's1'}, 'sci'), ast.unparse(asg[0])
        return f
    attempt('src_threshold_low', '(s0 s1 : β)', threshold('low'), 'β')
    attempt('src_threshold_high', '(s0 s1 : β)', threshold('high'), 'β')

    def mask_side(i):
        def f():
            asg = [n for n in ast.walk(sel_fn()) if isinstance(n, ast.Assign) and isinstance(n.targets[0], ast.Name) and n.targets[0].id == 'selected_mask']
            if len(asg) != 1:
                raise Untranslatable('%d assignments to selected_mask' % len(asg))
            c = asg[0].value
            ok = isinstance(c, ast.Call) and ast.unparse(c.func) == 'np.logical_and' and len(c.args) == 2 and all(isinstance(a, ast.Compare) and len(a.ops) == 1 for a in c.args) \
                and isinstance(c.args[0].ops[0], ast.Gt) and isinstance(c.args[1].ops[0], ast.Lt) and ast.unparse(c.args[0].comparators[0]) == 'low' \
                and ast.unparse(c.args[1].comparators[0]) == 'high'
            if not ok:
                raise Untranslatable('selection mask is ' + ast.unparse(c))
            env = {'pop_mean': 'mean', 'pop_std': 'std', 'n_std_low': 'nLow', 'n_std_high': 'nHigh'}
            return tr(c.args[i].left, env, 'sci'), ast.unparse(c)
        return f
    attempt('src_reach_low', '(nLow mean std : β)', mask_side(0), 'β')
    attempt('src_reach_high', '(nHigh mean std : β)', mask_side(1), 'β')

    # ---- gate.ellipse: rotation matrix and quadratic form ------------------------------------------------
    g = parse('gate.py')

    def ellipse():
        fn = find(g, ast.FunctionDef, 'ellipse')
        R = mask = None
        for n in ast.walk(fn):
            if isinstance(n, ast.Assign) and len(n.targets) == 1 and isinstance(n.targets[0], ast.Name):
                if n.targets[0].id == 'R':
                    R = n.value
                elif n.targets[0].id == 'mask':
                    mask = n.value
        if R is None or mask is None:
            raise Untranslatable('R or mask assignment not found')
        want = "np.array([[np.cos(theta), np.sin(theta)], [-np.sin(theta), np.cos(theta)]])"
        if ast.unparse(R) != want:
            raise Untranslatable('rotation matrix is ' + ast.unparse(R))
        rot = [n for n in ast.walk(fn) if isinstance(n, ast.Assign) and isinstance(n.targets[0], ast.Name) and n.targets[0].id == 'data_rotated']
        if len(rot) != 1 or ast.unparse(rot[0].value) != 'np.dot(data_centered, R.T)':
            raise Untranslatable('rotation step is ' + (ast.unparse(rot[0].value) if rot else 'missing'))
        cen = [n for n in ast.walk(fn) if isinstance(n, ast.Assign) and isinstance(n.targets[0], ast.Name) and n.targets[0].id == 'data_centered']
        if len(cen) != 1 or ast.unparse(cen[0].value) != 'data_ch - center':
            raise Untranslatable('centring step is ' + (ast.unparse(cen[0].value) if cen else 'missing'))
        if not (isinstance(mask, ast.Compare) and len(mask.ops) == 1 and isinstance(mask.ops[0], ast.LtE) and isinstance(mask.comparators[0], ast.Constant)
                and mask.comparators[0].value == 1):
            raise Untranslatable('mask is ' + ast.unparse(mask))
        # data_rotated = (data - center) . R^T  with R = [[c, s], [-s, c]]:  xr = dx*c + dy*s ; yr = dx*(-s) + dy*c
        env = {'a': 'a', 'b': 'b', 'data_rotated[:,0]': '(((x - cx) * c) + ((y - cy) * s))', 'data_rotated[:,1]': '(((y - cy) * c) - ((x - cx) * s))'}
        return tr(mask.left, env, 'field'), ast.unparse(mask) + '  with  ' + want
    attempt('src_ellipse_form', '(cx cy a b c s x y : α)', ellipse)

    # ---- io.FCSData.hist_bins: grid end points per scale ---------------------------------------------------
    io = parse('io.py')

    def branch(scale):
        fn = find(find(io, ast.ClassDef, 'FCSData'), ast.FunctionDef, 'hist_bins')
        for n in ast.walk(fn):
            if isinstance(n, ast.If) and isinstance(n.test, ast.Compare) and ast.unparse(n.test) == "scale_channel == '%s'" % scale:
                return n.body
        raise Untranslatable("branch scale_channel == '%s' not found" % scale)

    def grid(scale, env0, which, wrapper):
        def f():
            body = branch(scale)
            env = dict(env0)
            lin = None
            for st in body:
                if isinstance(st, ast.Assign) and len(st.targets) == 1 and isinstance(st.targets[0], ast.Name):
                    nm = st.targets[0].id
                    if nm == 'delta_res':
                        env['delta_res'] = tr(st.value, env, 'field')
                    elif isinstance(st.value, ast.Call) and ast.unparse(st.value.func) == 'np.linspace':
                        lin = st
            if lin is None or 'delta_res' not in env:
                raise Untranslatable('no delta_res / np.linspace in the %s branch' % scale)
            a = lin.value.args
            if len(a) != 3 or ast.unparse(a[2]) != 'nbins_channel + 1' or lin.value.keywords:
                raise Untranslatable('linspace call is ' + ast.unparse(lin.value))
            # what is done with the grid afterwards
            after = [ast.unparse(st.value) for st in body if isinstance(st, ast.Assign) and st is not lin and isinstance(st.targets[0], ast.Name)
                     and st.targets[0].id == 'bins_channel']
            if after != wrapper:
                raise Untranslatable('grid post-processing is %s, expected %s' % (after, wrapper))
            dr = [st for st in body if isinstance(st, ast.Assign) and isinstance(st.targets[0], ast.Name) and st.targets[0].id == 'delta_res'][0]
            return tr(a[which], env, 'field'), '%s branch: delta_res = %s; %s' % (scale, ast.unparse(dr.value), ast.unparse(lin.value))
        return f
    lin_env = {'range_channel[0]': 'lo', 'range_channel[1]': 'hi', 'res_channel': 'res'}
    attempt('src_grid_linear_start', '(lo hi res : α)', grid('linear', lin_env, 0, []))
    attempt('src_grid_linear_stop', '(lo hi res : α)', grid('linear', lin_env, 1, []))
    # in the log branch range_channel has been replaced by its log10 before (checked below); lo, hi are the log10 values
    attempt('src_grid_log_start', '(lo hi res : α)', grid('log', lin_env, 0, ['10 ** bins_channel']))
    attempt('src_grid_log_stop', '(lo hi res : α)', grid('log', lin_env, 1, ['10 ** bins_channel']))
    lgc_env = {'t.M': 'M', 'res_channel': 'res'}
    attempt('src_grid_logicle_start', '(M res : α)', grid('logicle', lgc_env, 0, ['t.transform_non_affine(s)']))
    attempt('src_grid_logicle_stop', '(M res : α)', grid('logicle', lgc_env, 1, ['t.transform_non_affine(s)']))

    def log_prelude():
        body = branch('log')
        pre = [ast.unparse(st.value) for st in body if isinstance(st, ast.Assign) and isinstance(st.targets[0], ast.Name) and st.targets[0].id == 'range_channel'
               and isinstance(st.value, ast.List)]
        if pre != ['[np.log10(range_channel[0]), np.log10(range_channel[1])]']:
            raise Untranslatable('log branch does not take log10 of both limits: %s' % pre)
        last = [st for st in body if isinstance(st, ast.Assign)][-1]
        return 'true', 'log branch: range_channel = ' + pre[0] + '; ... ; ' + ast.unparse(last)
    attempt('src_log_branch_takes_log10_of_limits', '', log_prelude, 'Bool')

    def logicle_post():
        body = branch('logicle')
        last = [st for st in body if isinstance(st, ast.Assign)][-1]
        if ast.unparse(last) != 'bins_channel = t.transform_non_affine(s)':
            raise Untranslatable('logicle branch ends with ' + ast.unparse(last))
        return 'true', ast.unparse(last)
    attempt('src_logicle_branch_applies_transform', '', logicle_post, 'Bool')

    lean = ['/-! GENERATED by extract/exprs.py from the FlowCal sources -- do not edit.\n',
            'Formulas found in the source, translated term by term.  Missing (not located / not translatable): %s -/' % (missing or 'none'),
            'import FlowCalModel.Logicle', 'import FlowCalModel.Mef', 'import FlowCalModel.Gate', 'namespace FlowCal.GeneratedExpr', 'open FlowCal.Logicle', '',
            'variable {α : Type} [Add α] [Sub α] [Mul α] [Div α] [Neg α] [OfNat α 1] [OfNat α 2] [Pow10 α]',
            'variable {β : Type} [Add β] [Sub β] [Mul β] [OfScientific β]', '']
    # the import lines must precede the module doc comment
    head = [l for l in lean if l.startswith('import ')]
    rest = [l for l in lean if not l.startswith('import ')]
    text = '\n'.join(head + rest + defs + ['end FlowCal.GeneratedExpr', ''])
    old = open(OUT_LEAN).read() if os.path.exists(OUT_LEAN) else None
    if old != text:
        open(OUT_LEAN, 'w').write(text)
    json.dump({'translated': src, 'missing': missing}, open(OUT_JSON, 'w'), indent=1, sort_keys=True)
    return 0


if __name__ == '__main__':
    sys.exit(main())
