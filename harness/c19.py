"""C19 — Histogram bin edges are increasing, complete and centred on channel values."""
import math

import numpy as np

import common
import fcsgen
import samples
import FlowCal
from c03 import bits, unbits

np.seterr(all='ignore')


def solve_p(W):
    """the logicle parameter p >= 1 with W = 2 p log10(p) / (p + 1), by bisection on the documented equation"""
    import scipy.optimize
    if W <= 0:
        return 1.0
    f = lambda q: 2 * q / (q + 1) * math.log10(q) - W
    hi = 10.0 ** (W + 1) + 10.0
    return float(scipy.optimize.brentq(f, 1.0, hi, xtol=1e-15, rtol=4 * np.finfo(float).eps, maxiter=500))


class Prop(common.PropertyCheck):
    pid = 'C19'
    rule = ("samples with resolutions 2^8..2^18 and non-powers of two, raw and RFI/MEF-converted ranges (lower limits 0 and 1) x channel forms "
            "(name, position, list, all) x n in {1, 2, default, arbitrary, per-channel lists} x scale in {linear, log, logicle, per-channel lists} x logicle "
            "overrides: the real edges are checked exactly for count, strict increase, finiteness, coverage, one-representable-value-per-bin (default n), "
            "multi-channel = per-channel answers on fresh objects, unknown scale refused; and compared with the Lean Float instance of the edge formulas. "
            "Non-trivial = distinct (resolution, unit state, scale, n class, channel form).")
    batch_size = 80

    def gen_cases(self):
        rng = self.rng
        for _ in range(self.budget(500, 6000)):
            yield {'res': rng.choice([256, 1024, 1000, 4096, 65536, 262144, 777]), 'units': rng.choice(['raw', 'rfi', 'mef']),
                   'scale': rng.choice(['linear', 'log', 'logicle']), 'n': rng.choice([None, 1, 2, 17, 256, 'res']),
                   'chform': rng.choice(['name', 'pos', 'list', 'all', 'list_mixed']), 'over': rng.choice([None, None, 'T', 'M', 'W', 'W0', 'Wbig', 'Tsmall', 'TM']),
                   'dt': rng.choice(['I', 'I', 'F']), 'tinyneg': rng.random() < 0.4, 'nan': rng.random() < 0.3, 'seed': rng.randrange(1 << 30)}
        yield {'res': 1024, 'units': 'raw', 'scale': 'cubic', 'n': None, 'chform': 'name', 'over': None, 'seed': 1}
        # unknown scale names that are fragments / other spellings of the valid ones
        for i, bad in enumerate(['', 'l', 'g', 'logic', 'logicl', 'icle', 'lin', 'linea', 'lo', 'Linear', 'LOG', 'logicle ', ' log']):
            yield {'res': 1024, 'units': ['raw', 'rfi'][i % 2], 'scale': 'cubic', 'badscale': bad, 'n': [None, 8][i % 2], 'chform': ['name', 'list', 'all'][i % 3], 'over': None,
                   'seed': 40 + i}
        # samples without events (everything gated out): range and resolution still define the bins
        for i in range(self.budget(9, 60)):
            yield {'res': rng.choice([256, 1024, 4096]), 'units': ['raw', 'rfi', 'mef'][i % 3], 'scale': ['logicle', 'linear', 'log'][(i // 3) % 3], 'n': [None, 17, 'res'][i % 3],
                   'chform': ['name', 'list', 'all'][i % 3], 'over': None, 'dt': ['I', 'F'][i % 2], 'tinyneg': False, 'nan': False, 'seed': rng.randrange(1 << 30), 'empty': True}
        # more bins than the channel has values (integer and floating-point samples alike)
        for i in range(self.budget(9, 60)):
            res = [256, 1000, 1024][i % 3]
            yield {'res': res, 'units': ['raw', 'rfi', 'raw'][i % 3], 'scale': ['linear', 'log', 'logicle'][(i // 3) % 3], 'n': [res + 1, 2 * res + 3, res + 77][i % 3],
                   'chform': ['name', 'list', 'all'][i % 3], 'over': None, 'dt': ['I', 'I', 'F'][i % 3], 'tinyneg': False, 'nan': False, 'seed': rng.randrange(1 << 30)}
        # one per-channel list of bin counts (None = default) used for two queries on channels of different resolution
        for i in range(self.budget(6, 40)):
            yield {'res': rng.choice([256, 4096, 65536]), 'units': ['raw', 'rfi'][i % 2], 'scale': ['linear', 'logicle', 'log'][i % 3], 'n': 'reuse', 'chform': 'list', 'over': None,
                   'dt': 'I', 'tinyneg': False, 'nan': False, 'seed': rng.randrange(1 << 30), 'nb_reuse': True}
        # explicit W = 0 (a falsy value) on floating-point samples with negative events, every channel form
        for chf in ('name', 'list', 'all'):
            yield {'res': rng.choice([1024, 4096]), 'units': 'raw', 'scale': 'logicle', 'n': rng.choice([None, 17]), 'chform': chf, 'over': 'W0', 'dt': 'F', 'tinyneg': False,
                   'nan': False, 'seed': rng.randrange(1 << 30), 'negev': True}
        # unsupported entries inside a per-channel scale list
        for badsc in (['linear', 'Log'], ['loglog', 'linear'], ['logicle', None], ['cubic', 'cubic'], ['linear', '']):
            yield {'res': 1024, 'units': rng.choice(['raw', 'rfi']), 'scale': 'cubic', 'badlist': badsc, 'n': rng.choice([None, 8]), 'chform': 'list', 'over': None,
                   'seed': rng.randrange(1 << 30)}

        # the same channel requested more than once with different bin counts; positions counted from the end (alone and inside lists)
        for i in range(self.budget(36, 300)):
            yield {'res': [256, 1024, 4096, 1000][i % 4], 'units': ['raw', 'rfi', 'mef'][(i // 2) % 3], 'scale': ['logicle', 'linear', 'log'][i % 3], 'n': [None, 17][(i // 3) % 2],
                   'chform': ['repeat', 'neg1', 'repeat3', 'list_neg', 'neg3'][i % 5], 'over': None, 'dt': ['I', 'F'][(i // 5) % 2], 'tinyneg': i % 7 == 0, 'nan': False,
                   'seed': rng.randrange(1 << 30)}

        # converted channels whose lower range limit is negative (autofluorescence offset) while the events are not, or less so: W follows the events
        for i in range(self.budget(12, 100)):
            yield {'res': [1024, 4096, 256][i % 3], 'units': 'mef_offset', 'scale': 'logicle', 'n': [None, 17][i % 2], 'chform': ['name', 'list', 'all'][i % 3], 'over': None,
                   'dt': ['I', 'F'][i % 2], 'tinyneg': False, 'nan': False, 'seed': rng.randrange(1 << 30)}
        # logicle bins generated right after bins for a W that differs in the fifth decimal only
        for i in range(self.budget(12, 100)):
            yield {'res': [1024, 4096, 262144][i % 3], 'units': ['raw', 'rfi'][i % 2], 'scale': 'logicle', 'n': [None, 17][i % 2], 'chform': ['name', 'list', 'all'][i % 3], 'over': 'Wnear',
                   'dt': ['F', 'I'][i % 2], 'tinyneg': False, 'nan': False, 'seed': 3 * rng.randrange(1 << 28) + i % 3}

        # events above the upper range limit (saturated / compensated floating-point values): the grid follows the range, not the events
        for i in range(9):
            yield {'res': [1024, 4096, 262144][i % 3], 'units': ['raw', 'rfi', 'raw'][(i // 3) % 3], 'scale': 'logicle', 'n': [None, 17][i % 2], 'chform': ['name', 'list', 'all'][i % 3], 'over': None,
                   'dt': 'F', 'tinyneg': False, 'nan': False, 'seed': 8800 + i, 'overev': True}

    def sample(self, case):
        import random
        r = random.Random(case['seed'])
        res = case['res']
        spec = samples.spec_rich(r, N=12, D=3, datatype=case.get('dt', 'I'), log_channels=[1, 2], res=[res, res, 1024])
        spec['widths'] = [32, 32, 32]
        spec['pne'] = {'1': '0,0', '2': r.choice(['4,1', '4,0', '3,1', '4.5,1', '6,0.01', '7,0.001', '5,0.3']), '3': '4,1'}
        d, _ = samples.load(spec, name='c19.fcs')
        if case.get('nan') and case.get('dt') == 'F':
            # one event without a value next to negative events
            d = d.copy()
            d[3, 1] = np.nan
            d[4, 0] = np.nan
        if case.get('negev') and case.get('dt') == 'F':
            # clearly negative events in every channel (the data-derived W is then well above 0)
            d = d.copy()
            d[1, 0] = -0.01 * res; d[2, 1] = -0.02 * res; d[3, 2] = -12.0
        if case.get('overev') and case.get('dt') == 'F':
            d = d.copy()
            d[5, 0] = 3.0 * res; d[6, 1] = 2.5 * res; d[7, 2] = 5000.0
        if case.get('tinyneg') and case.get('dt') == 'F':
            # negative events only slightly below zero (well inside the linear region the default W would give)
            d = FlowCal.transform.transform(d, None, lambda x: np.where(np.asarray(x) < 0, np.asarray(x) * 1e-5, np.asarray(x)))
        if case['units'] in ('rfi', 'mef', 'mef_offset'):
            d = FlowCal.transform.to_rfi(d)
        if case['units'] == 'mef_offset':
            # a standard curve with an autofluorescence offset: the lower range limit of the converted channel is negative, below every event
            d = FlowCal.transform.to_mef(d, [1], [lambda x: math.exp(2.0) * np.abs(x) ** 1.05 * np.sign(x) - 35.0], [1])
        if case['units'] == 'mef':
            d = FlowCal.transform.to_mef(d, [1], [(lambda x: np.sign(x) * math.exp(2.0) * np.abs(x) ** 1.05) if case['seed'] % 3 == 1 else
                                              (lambda x: 0.5 * np.sign(x) * np.abs(x) ** 1.5) if (case['seed'] % 3 == 2 or case['scale'] not in ('log', 'linear')) else
                                              (lambda x: math.exp(2.0) * np.abs(x) ** 1.05 * np.sign(x) - 35.0)], [1])
        if case.get('empty'):
            d = d[:0]
        return d

    def run_impl(self, case):
        d = self.sample(case)
        names = list(d.channels)
        chf = case['chform']
        if chf == 'name':
            ch, cols = names[1], [1]
        elif chf == 'pos':
            ch, cols = 0, [0]
        elif chf == 'list':
            ch, cols = [names[1], names[0]], [1, 0]
        elif chf == 'list_mixed':
            ch, cols = [2, names[1]], [2, 1]
        elif chf == 'repeat':
            ch, cols = [names[1], names[1]], [1, 1]
        elif chf == 'repeat3':
            ch, cols = [names[1], 1, names[0]], [1, 1, 0]
        elif chf == 'neg1':
            ch, cols = -1, [len(names) - 1]
        elif chf == 'neg3':
            ch, cols = -len(names), [0]
        elif chf == 'list_neg':
            ch, cols = [-1, names[0], -2], [len(names) - 1, 0, len(names) - 2]
        else:
            ch, cols = None, [0, 1, 2]
        n = case['n']
        scale = case['scale']
        scalar = chf in ('name', 'pos', 'neg1', 'neg3')
        kw = {}
        if case['over'] and scale == 'logicle':
            kw = {'T': {'T': 5e4}, 'M': {'M': 5.0}, 'W': {'W': 0.8}, 'W0': {'W': 0 if case['seed'] % 2 else 0.0}, 'Wbig': {'W': 3.0},
                  'Tsmall': {'T': 20.0}, 'TM': {'T': 3e5, 'M': 6.0}, 'Wnear': {'W': [0.50004, 1.23459, 0.00004][case['seed'] % 3]}}[case['over']]
            if case['over'] == 'Wnear':
                # bins for a W that agrees with this one to four decimals were generated just before (each generation solves its own equation)
                try:
                    self.sample(case).hist_bins(0, 8, 'logicle', W=[0.5, 1.23456, 0.0][case['seed'] % 3])
                except Exception:
                    pass
        nb = n
        if n == 'res':
            nb = None
        if chf == 'list' and n == 17:
            nb = [17, 5]
        if chf == 'repeat':
            nb = [n, 5] if n else [256, 64]
        if chf in ('repeat3', 'list_neg'):
            nb = [None, 5, n] if n else [33, None, 5]
        if chf == 'list_mixed' and scale != 'cubic':
            sc = [scale, 'linear']
        else:
            sc = scale
        if case.get('badlist'):
            sc = list(case['badlist'])
        if 'badscale' in case:
            sc = case['badscale'] if chf != 'list' else ['linear', case['badscale']]
        nb_plain = None
        if case.get('nb_reuse'):
            nb = [None, 5]
            nb_plain = [None, 5]
            try:
                d.hist_bins([names[2], names[0]], nb, sc)          # the caller's list, first used where position 0 is a channel of another resolution
            except Exception:
                pass
        out = {'cols': cols, 'scalar': scalar, 'ranges': [[float(x) for x in d.range(c)] for c in cols], 'resol': [int(d.resolution(c)) for c in cols]}
        if case['units'] == 'raw':
            # what the file declares ($PnR), independently of the loaded object
            decl = [case['res'], case['res'], 1024]
            out['declared'] = [[0.0, float(decl[c] - 1), int(decl[c])] for c in cols]
        try:
            e = d.hist_bins(ch, nb, sc, **kw)
        except Exception as ex:
            out['err'] = type(ex).__name__
            return out
        edges = [e] if scalar else list(e)
        out['edges'] = [[bits(v) for v in np.asarray(x, dtype=float)] for x in edges]
        out['range_after'] = [[float(x) for x in d.range(c)] for c in cols]
        out['nb'] = [(nb[i] if isinstance(nb, list) else nb) for i in range(len(cols))] if nb_plain is None else list(nb_plain)
        out['scales'] = [(sc[i] if isinstance(sc, list) else sc) for i in range(len(cols))]
        # the caller owns the returned edges: overwriting them (e.g. opening the outer bins to infinity) does not reach later answers, and the answers
        # for several channels are separate arrays
        try:
            if len(edges) >= 2 and any(np.shares_memory(np.asarray(edges[i]), np.asarray(edges[j])) for i in range(len(edges)) for j in range(i)):
                out['edges_shared'] = 'the edge arrays returned for several channels share memory'
            returned = edges
            edges = [np.array(x, dtype=float, copy=True) for x in returned]          # (what the rest of this check works on)
            for x in returned:
                if isinstance(x, np.ndarray) and x.flags.writeable and x.size:
                    x[0] = -np.inf; x[-1] = np.inf
            e2 = self.sample(case).hist_bins(ch, nb, sc, **kw)
            edges2 = [e2] if scalar else list(e2)
            if [[bits(v) for v in np.asarray(x, dtype=float)] for x in edges2] != out['edges']:
                out['edges_shared'] = 'after the caller overwrote the edges it was given, the same query on a fresh sample returns other edges'
        except Exception as ex:
            out['edges_shared'] = 'second query raised %s' % type(ex).__name__
        # per-channel answers on fresh objects
        per = []
        tms = []
        for i, c in enumerate(cols):
            f = self.sample(case)
            try:
                per.append([bits(v) for v in np.asarray(f.hist_bins(c, out['nb'][i], out['scales'][i], **kw), dtype=float)])
            except Exception as ex:
                per.append('err:' + type(ex).__name__)
            if out['scales'][i] == 'logicle':
                t = FlowCal.plot._LogicleTransform(data=self.sample(case), channel=c, **kw)
                tms.append([bits(t.T), bits(t.M), bits(t.W), bits(t._p)])
                # the documented rules, computed here from the data: T = upper range limit, M = max(4.5, 4.5 log10(T)/log10(262144)),
                # W = (M - log10(T/|most negative event|))/2 floored at 0 -- each unless given explicitly
                col = np.asarray(f[:, c], dtype=float)
                Tw = kw.get('T', float(f.range(c)[1]))
                Mw = kw.get('M', max(4.5, 4.5 * math.log10(Tw) / math.log10(262144)))
                mn = float(col.min()) if col.size else 0.0
                Ww = kw.get('W', max(0.0, (Mw - math.log10(Tw / abs(mn))) / 2) if mn < 0 else 0.0)
                out.setdefault('tmw_doc', {})[str(i)] = [Tw, Mw, Ww, float(t.T), float(t.M), float(t.W)]
                ev = np.asarray(edges[i], dtype=float)
                if len(ev) <= 3000 and len(ev) >= 3:
                    u = np.asarray(t.inverted().transform_non_affine(ev), dtype=float)      # data -> display (interpolated inverse)
                    du = np.diff(u)
                    out.setdefault('uniform_dev', {})[str(i)] = [float(np.max(np.abs(du - du.mean()))), float(t.M), float(t.T), float(t.W)]
                if len(ev) >= 2 and np.all(np.isfinite(ev)):
                    # the documented function, evaluated here from the parameters: edges = S(uniform grid from -d/2 to M + d/2), d = M/(res - 1)
                    Tt, Mt, Wt = float(t.T), float(t.M), float(t.W)
                    pt = solve_p(Wt)          # solved here from W = 2 p log10(p) / (p + 1), independently of the library's root finder
                    dl = Mt / (float(f.resolution(c)) - 1.0)
                    sg = np.linspace(-dl / 2.0, Mt + dl / 2.0, len(ev))
                    doc = Tt * 10 ** (-(Mt - Wt)) * (10 ** (sg - Wt) - pt ** 2 * 10 ** (-(sg - Wt) / pt) + pt ** 2 - 1)
                    scale_ = Tt * 10 ** (-(Mt - Wt)) * (1 + pt ** 2)
                    out.setdefault('logicle_doc_dev', {})[str(i)] = [float(np.max(np.abs(ev - doc) / (np.abs(doc) + scale_))), Tt, Mt, Wt]
                if 3 <= len(ev) <= 400 and np.all(np.isfinite(ev)):
                    # exact display positions: the forward function (display -> data) inverted by bisection for every edge
                    import scipy.optimize
                    _T, _M, _W = float(t.T), float(t.M), float(t.W)
                    _p = solve_p(_W)
                    fwd = lambda sv, target: _T * 10 ** (-(_M - _W)) * (10 ** (sv - _W) - _p ** 2 * 10 ** (-(sv - _W) / _p) + _p ** 2 - 1) - target
                    us = []
                    for x in ev:
                        a_, b_ = -1.0, float(t.M) + 1.0
                        for _k in range(60):
                            if fwd(a_, x) <= 0 <= fwd(b_, x):
                                break
                            a_, b_ = a_ - (b_ - a_), b_ + (b_ - a_)
                        us.append(scipy.optimize.brentq(fwd, a_, b_, args=(float(x),), xtol=1e-13, rtol=1e-14))
                    dus = np.diff(np.array(us))
                    out.setdefault('uniform_exact', {})[str(i)] = [float(np.max(np.abs(dus - dus.mean()))), float(t.M), float(t.T), float(t.W), float(us[0]), float(us[-1])]
            else:
                tms.append(None)
        out['per'] = per
        out['tmwp'] = tms
        # a second query on the SAME object with other override values must equal the answer of a fresh object
        if kw and scale == 'logicle':
            kw2 = {k: (v * 2 if k == 'T' else v + 1.0 if k == 'M' else v + 0.3) for k, v in kw.items()}
            try:
                again = d.hist_bins(ch, nb, sc, **kw2)
                fresh = self.sample(case).hist_bins(ch, nb, sc, **kw2)
                ea, ef = ([again], [fresh]) if scalar else (list(again), list(fresh))
                out['history_ok'] = all(np.array_equal(np.asarray(x, dtype=float), np.asarray(y, dtype=float)) for x, y in zip(ea, ef))
            except Exception as ex:
                out['history_ok'] = 'err:' + type(ex).__name__
        # data values of the channel (for "every reportable value in exactly one bin")
        return out

    def post(self):
        fcsgen.cleanup()

    def oracle(self, case, impl):
        if case['scale'] == 'cubic':
            return None if impl.get('err') == 'ValueError' else 'unknown scale not refused: %s' % impl.get('err', 'accepted')
        if 'err' in impl:
            return 'hist_bins raised %s for %s' % (impl['err'], case)
        for i, dcl in enumerate(impl.get('declared') or []):
            if impl['ranges'][i] != dcl[:2] or impl['resol'][i] != dcl[2]:
                return 'channel %d of a raw sample has range %s and resolution %d, the file declares $PnR = %d (range [0, %d])' % (
                    impl['cols'][i], impl['ranges'][i], impl['resol'][i], dcl[2], dcl[2] - 1)
        for i, v in (impl.get('tmw_doc') or {}).items():
            for nm, w, g in zip('TMW', v[:3], v[3:]):
                if common.far(g, w, 2e-6 * max(1.0, abs(w))):
                    return 'logicle parameter %s used for the bins of channel %s is %r, the documented rule gives %r (overrides %s)' % (nm, impl['cols'][int(i)], g, w, case['over'])
        if impl.get('edges_shared'):
            return '%s scale, channels %s: %s' % (case['scale'], case['chform'], impl['edges_shared'])
        if impl.get('history_ok') not in (None, True):
            return 'a second hist_bins query on the same object with other %s values differs from the same query on a fresh object (%s)' % (case['over'], impl['history_ok'])
        if impl['range_after'] != impl['ranges']:
            return 'hist_bins changed the stored range %s -> %s' % (impl['ranges'], impl['range_after'])
        for i, eb in enumerate(impl['edges']):
            e = [unbits(b) for b in eb]
            res = impl['resol'][i]
            n = impl['nb'][i] if impl['nb'][i] is not None else res
            lo, hi = impl['ranges'][i]
            scale = impl['scales'][i]
            if len(e) != n + 1:
                return '%d edges for %d bins (%s)' % (len(e), n, scale)
            if not all(math.isfinite(v) for v in e):
                return 'non-finite edge (%s, range %s)' % (scale, [lo, hi])
            if any(b <= a for a, b in zip(e, e[1:])):
                return 'edges not strictly increasing (%s, n=%d, range %s, res %d)' % (scale, n, [lo, hi], res)
            if scale == 'linear':
                if not (e[0] < lo and e[-1] > hi):
                    return 'linear edges [%r, %r] do not cover the range %s' % (e[0], e[-1], [lo, hi])
            elif scale == 'log':
                if e[0] <= 0:
                    return 'log edges start at %r' % e[0]
                lo_eff = lo if lo > 0 else min(1., hi / 1e5)
                if not (e[0] < lo_eff and e[-1] > hi):
                    return 'log edges [%r, %r] do not cover [%r, %r]' % (e[0], e[-1], lo_eff, hi)
            else:
                if lo < 0 and case['units'] == 'mef_offset':
                    # a range that begins below zero lies outside the quantified domain (ranges starting at 0 or 1): the lower end of a logicle grid follows
                    # the most negative EVENT (documented rule for W), not the limit; only the upper end is judged
                    self.exclude('logicle grid of a range that begins below zero: lower end not judged')
                    if not (case['over'] in ('T', 'Tsmall', 'TM') or e[-1] >= hi * (1 - 1e-9)):
                        return 'logicle edges [%r, %r] do not reach the upper range limit %r' % (e[0], e[-1], hi)
                elif not (e[0] <= min(lo, 0) and (case['over'] in ('T', 'Tsmall', 'TM') or e[-1] >= hi * (1 - 1e-9))):
                    return 'logicle edges [%r, %r] do not cover the range %s' % (e[0], e[-1], [lo, hi])
            # value-centred bins with the default bin count
            if impl['nb'][i] is None and res <= 4096:
                if scale == 'linear':
                    vals = [lo + k * (hi - lo) / (res - 1) for k in range(res)]
                elif scale == 'log' and lo > 0:
                    vals = [10 ** (math.log10(lo) + k * (math.log10(hi) - math.log10(lo)) / (res - 1)) for k in range(res)]
                else:
                    vals = None
                if vals is not None:
                    idx = np.digitize(vals, e) - 1
                    if list(idx) != list(range(res)):
                        bad = [k for k in range(res) if idx[k] != k][:3]
                        return '%s scale, default bins: representable values %s do not fall in their own bins' % (scale, bad)
                    k = res // 3
                    centre = (e[k] + e[k + 1]) / 2 if scale == 'linear' else math.sqrt(e[k] * e[k + 1])
                    if common.far(centre, vals[k], 1e-9 * max(1, abs(vals[k]))):
                        return '%s scale: value %r is not at the centre %r of its bin' % (scale, vals[k], centre)
            dd = (impl.get('logicle_doc_dev') or {}).get(str(i))
            if dd and dd[0] > (3e-6 if case.get('dt') == 'F' else 1e-9):
                return ('logicle edges differ from the images of the uniform display grid under the documented logicle function (T=%r M=%r W=%r, overrides %s) '
                        'by up to %.3g relative' % (dd[1], dd[2], dd[3], case['over'], dd[0]))
            ux = (impl.get('uniform_exact') or {}).get(str(i))
            # single-precision samples evaluate the logicle expressions in single precision (relative 1e-7 of the value)
            if ux and ux[0] > (3e-6 if case.get('dt') == 'F' else 2e-8) * max(1.0, ux[1]):
                return ('logicle edges are not the images of a uniform grid in display space (T=%r M=%r W=%r, overrides %s): the display positions of the edges, '
                        'found by inverting the logicle function itself, are unevenly spaced by up to %r' % (ux[2], ux[1], ux[3], case['over'], ux[0]))
            ud = (impl.get('uniform_dev') or {}).get(str(i))
            if ud and ud[0] > 0.01 * ud[1]:      # the interpolated inverse itself is accurate to ~2e-3*M near zero
                return 'logicle edges are not the images of a uniform display grid under the logicle function with the requested parameters T=%r M=%r W=%r (overrides %s): spacing deviates by %r display units' % (ud[2], ud[1], ud[3], case['over'], ud[0])
            if impl['per'][i] != eb:
                return 'edges of channel %d asked together with others differ from the edges asked alone' % impl['cols'][i]
        return None

    def model_request(self, case, impl):
        if 'err' in impl or case['scale'] == 'cubic':
            return None
        i = 0
        res = impl['resol'][i]
        n = impl['nb'][i] if impl['nb'][i] is not None else res
        if n > 5000:
            return None
        lo, hi = impl['ranges'][i]
        sc = impl['scales'][i]
        if sc == 'logicle':
            T, M, W, p = impl['tmwp'][i]
            return {'op': 'edges', 'scale': 'logicle', 'T': T, 'M': M, 'W': W, 'p': p, 'res': bits(res), 'n': n}
        if sc == 'log' and lo <= 0:
            lo = min(1., hi / 1e5)
        return {'op': 'edges', 'scale': sc, 'lo': bits(lo), 'hi': bits(hi), 'res': bits(res), 'n': n}

    def compare(self, case, impl, model):
        if 'driver_error' in model:
            return 'driver: ' + model['driver_error']
        me = [unbits(b) for b in model['edges']]
        ie = [unbits(b) for b in impl['edges'][0]]
        if len(me) != len(ie):
            return 'edge count: impl %d vs model %d' % (len(ie), len(me))
        span = max(abs(ie[0]), abs(ie[-1]))
        # single-precision samples: the data-derived W is a float32 scalar and NumPy 2 then evaluates the logicle expressions in single precision
        rel = 2e-6 if (case.get('dt') == 'F' and impl['scales'][0] == 'logicle') else 1e-9
        for a, b in zip(me, ie):
            if common.far(a, b, rel * (abs(b) + (span if impl['scales'][0] == 'linear' else 0) + 1e-300)) and common.far(a, b, 1e-7 * abs(ie[1] - ie[0])):
                return '%s edges: Lean Float %r vs implementation %r' % (impl['scales'][0], a, b)
        return None

    def nontrivial_key(self, case, impl):
        return (case['res'], case['units'], case['scale'], str(case['n']), case['chform'], case['over'], case.get('dt'), case.get('tinyneg'), str(case.get('badlist')))
