"""C03 — RFI conversion applies exactly the amplifier law of each selected channel."""
import math
import struct
from decimal import Decimal, getcontext

import numpy as np
np.seterr(all='ignore')

import common
import fcsgen
import fingerprint as fpm
import samples
import FlowCal

getcontext().prec = 60


def bits(x):
    return struct.unpack('<Q', struct.pack('<d', float(x)))[0]


def unbits(b):
    return struct.unpack('<d', struct.pack('<Q', b))[0]


def ulps(a, b):
    if a == b:
        return 0
    if not (math.isfinite(a) and math.isfinite(b)):
        return 10 ** 9
    ia, ib = struct.unpack('<q', struct.pack('<d', a))[0], struct.unpack('<q', struct.pack('<d', b))[0]
    if ia < 0:
        ia = -(ia & 0x7fffffffffffffff)
    if ib < 0:
        ib = -(ib & 0x7fffffffffffffff)
    return abs(ia - ib)


def meta_of(d):
    if isinstance(d, FlowCal.io.FCSData):
        D = d.shape[1]
        return {'isSample': True, 'ncols': D, 'names': list(d.channels),
                'ampType': [None if a is None else [bits(a[0]), bits(a[1])] for a in d.amplification_type()],
                'gain': [None if g is None else bits(g) for g in d.amplifier_gain()],
                'res': [bits(r) for r in d.resolution()]}
    return {'isSample': False, 'ncols': d.shape[1], 'names': [], 'ampType': [], 'gain': [], 'res': []}


def arr_bits(a):
    a = np.asarray(a, dtype=np.float64)
    return [[bits(v) for v in row] for row in a]


def range_bits(d):
    if not isinstance(d, FlowCal.io.FCSData):
        return None
    return [None if r is None else [bits(r[0]), bits(r[1])] for r in d.range()]


class Prop(common.PropertyCheck):
    pid = 'C03'
    rule = ("loaded samples (log and linear channels, a0 in {2,3,4,4.5,7.3}, a1 incl. the non-standard 0, gains present/absent) and plain arrays x channel "
            "argument absent / scalar position or name / lists (subsets, any order, names and (negative) positions mixed) x each of amplification_type, "
            "amplifier_gain, resolution absent / explicit / lists with None entries (taken from file) x malformed length combinations (one list, or all three lists of one common wrong length); integer and floating-point files (log $PnE on float files included). "
            "Non-trivial = distinct (container, channel form, override pattern, law mix, outcome).")
    batch_size = 150
    assumptions = ["the two amplifier laws are evaluated by NumPy/libm; selection logic is compared exactly (bitwise replay of the chosen laws), the law value within 1e-15*(10+10|exponent|) relative of a 60-digit decimal evaluation (the float exponent a0/r*x carries rounding error amplified by ln10*exponent)"]

    def gen_cases(self):
        rng = self.rng
        for _ in range(self.budget(500, 6000)):
            cont = rng.choice(['sample', 'sample', 'sample', 'array'])
            D = rng.randrange(2, 6)
            form = rng.choice(['none', 'scalar', 'list', 'list', 'list'])
            yield {'cont': cont, 'D': D, 'N': rng.choice([0, 1, 7, 25]), 'form': form, 'seed': rng.randrange(1 << 30),
                   'at': rng.choice(['none', 'none', 'given', 'partial']), 'ag': rng.choice(['none', 'none', 'given', 'partial']),
                   'res': rng.choice(['none', 'none', 'given', 'partial']), 'bad': rng.choice([None] * 8 + ['len_at', 'len_ag', 'len_res', 'scalar_at', 'len_all_short', 'len_all_long']),
                   'dt': rng.choice(['I', 'I', 'F'])}
        # more events than channel values, integer containers, log channels sharing a0 and resolution but not a1 (table-driven implementations)
        for _ in range(self.budget(10, 120)):
            yield {'cont': rng.choice(['sample', 'array_int']), 'D': 3, 'N': rng.choice([300, 700, 1100]), 'form': rng.choice(['list', 'none']), 'seed': rng.randrange(1 << 30),
                   'at': 'given', 'ag': 'none', 'res': 'given', 'bad': None, 'dt': 'I', 'many': True}
        # samples sliced with a slice object after a by-name query on the parent (stale name tables)
        for _ in range(self.budget(40, 500)):
            yield {'cont': 'sample', 'D': rng.randrange(3, 6), 'N': rng.choice([1, 7]), 'form': rng.choice(['scalar', 'list', 'list']), 'seed': rng.randrange(1 << 30),
                   'at': rng.choice(['none', 'none', 'partial']), 'ag': 'none', 'res': 'none', 'bad': None, 'dt': 'I', 'presl': rng.choice(['tail', 'rev', 'mid'])}
        # instruments with ten or more parameters (two-digit keyword numbers), settings taken from the file
        for _ in range(self.budget(12, 150)):
            yield {'cont': 'sample', 'D': rng.randrange(10, 14), 'N': rng.choice([1, 5]), 'form': rng.choice(['none', 'list', 'scalar']), 'seed': rng.randrange(1 << 30),
                   'at': 'none', 'ag': rng.choice(['none', 'partial']), 'res': 'none', 'bad': None, 'dt': rng.choice(['I', 'F'])}
        # files of FlowJo Collector's Edition: the gains are recorded in CytekPnnG (two digits) instead of $PnG
        for i in range(self.budget(10, 100)):
            yield {'cont': 'sample', 'D': [12, 3, 10, 5, 11][i % 5], 'N': rng.choice([1, 5]), 'form': ['none', 'list', 'scalar'][i % 3], 'seed': rng.randrange(1 << 30),
                   'at': 'none', 'ag': 'none', 'res': 'none', 'bad': None, 'dt': 'I', 'cytek': True, 'lin': i % 2 == 0}
        # zero decades with a non-zero second entry ($PnE 0,1 is written by some instruments; (0, x) given by callers): a linear channel
        for i in range(self.budget(16, 160)):
            yield {'cont': ['sample', 'array'][i % 2], 'D': rng.randrange(2, 5), 'N': rng.choice([1, 5]), 'form': ['none', 'list', 'scalar'][i % 3], 'seed': rng.randrange(1 << 30),
                   'at': ['given', 'none', 'partial'][i % 3] if i % 2 == 0 else 'given', 'ag': rng.choice(['none', 'partial', 'given']), 'res': 'none', 'bad': None, 'dt': 'I', 'zero_dec': True}
        # the caller's lists of settings (with None entries) used for a second call with the channels in another order
        for i in range(self.budget(16, 160)):
            yield {'cont': 'sample', 'D': rng.randrange(3, 6), 'N': rng.choice([1, 5]), 'form': 'list', 'seed': rng.randrange(1 << 30),
                   'at': 'partial', 'ag': 'partial', 'res': 'partial', 'bad': None, 'dt': 'I', 'reuse': True}
        # samples whose channels were selected with a stepped slice (every second channel), settings taken from the file
        for i in range(self.budget(24, 240)):
            yield {'cont': 'sample', 'D': rng.randrange(4, 8), 'N': rng.choice([1, 7]), 'form': ['none', 'list', 'scalar'][i % 3], 'seed': rng.randrange(1 << 30),
                   'at': ['none', 'partial'][i % 2], 'ag': 'none', 'res': 'none', 'bad': None, 'dt': ['I', 'F'][(i // 2) % 2], 'presl': ['even', 'odd', 'third'][i % 3]}
        # channel names that differ in letter case only, selected by name
        for i in range(self.budget(18, 150)):
            yield {'cont': 'sample', 'D': rng.randrange(3, 6), 'N': rng.choice([1, 7]), 'form': ['list', 'scalar', 'none'][i % 3], 'seed': rng.randrange(1 << 30),
                   'at': 'none', 'ag': 'none', 'res': 'none', 'bad': None, 'dt': 'I', 'case_twins': True}
        # conversions in two steps with a channel selection in between
        for i in range(self.budget(18, 150)):
            yield {'cont': 'sample', 'D': rng.randrange(3, 7), 'N': rng.choice([1, 7]), 'form': ['none', 'list'][i % 2], 'seed': rng.randrange(1 << 30),
                   'at': 'none', 'ag': 'none', 'res': 'none', 'bad': None, 'dt': ['I', 'F'][i % 2], 'two_step': True}
        # explicit settings whose second entry is zero: a1 = 0 given by the caller is the caller's a1 (the law then gives 0 everywhere)
        for i in range(self.budget(12, 100)):
            yield {'cont': ['sample', 'array'][i % 2], 'D': rng.randrange(2, 5), 'N': rng.choice([1, 5]), 'form': ['list', 'scalar'][i % 2], 'seed': rng.randrange(1 << 30),
                   'at': 'given', 'ag': 'none', 'res': 'given', 'bad': None, 'dt': 'I', 'a1_zero': True}
        # samples with a time channel that has an amplifier setting of its own (gain 0.01, or a log amplifier): "all channels" includes it
        for i in range(self.budget(18, 180)):
            yield {'cont': 'sample', 'D': rng.randrange(3, 6), 'N': rng.choice([1, 7]), 'form': ['none', 'none', 'list'][i % 3], 'seed': rng.randrange(1 << 30),
                   'at': 'none', 'ag': 'none', 'res': 'none', 'bad': None, 'dt': ['I', 'F'][i % 2], 'timech': ['gain', 'log', 'gain'][(i // 2) % 3]}
        for _ in range(self.budget(1, 5)):
            yield {'k': 'big', 'n': (1 << 20) * rng.choice([1, 2]) + rng.randrange(1, 5000), 'seed': rng.randrange(1 << 30)}

    def run_big(self, case):
        r = np.random.RandomState(case['seed'] % (1 << 31))
        n = case['n']
        a = r.randint(0, 1024, size=(n, 3)).astype(np.float64)
        try:
            t = np.asarray(FlowCal.transform.to_rfi(a, [2, 0], [(4, 1), (0, 0)], [None, 2.], [1024, None]), dtype=float)
        except Exception as e:
            return {'big': 'raised %s %s' % (type(e).__name__, str(e)[:80])}
        want = a.copy()
        want[:, 2] = 1. * 10 ** (4 / 1024. * a[:, 2]); want[:, 0] = a[:, 0] / 2.
        bad = np.argwhere(~(np.abs(t - want) <= 1e-12 * np.abs(want)))
        if len(bad):
            return {'big': '%d of %d events not converted with their channel law (first: event %d column %d is %r, expected %r)' % (
                len(set(bad[:, 0].tolist())), n, bad[0][0], bad[0][1], float(t[bad[0][0], bad[0][1]]), float(want[bad[0][0], bad[0][1]]))}
        return {'big': None}

    def build(self, case):
        import random
        r = random.Random(case['seed'])
        D, N = case['D'], case['N']
        if case['cont'] == 'sample':
            spec = samples.spec_rich(r, N=N, D=D, datatype=case.get('dt', 'I'), res=[256, 256, 1000][:D] if case.get('many') else None,
                                     log_channels=[0, 1, 2] if case.get('many') else None, time_channel=bool(case.get('timech')))
            if case.get('case_twins') and D >= 3:
                # two channels whose names differ in letter case only (different names): each is addressed by its own name
                spec['names'] = list(spec['names'])
                spec['names'][0] = spec['names'][2].lower()
            if case.get('timech'):
                # the clock channel is recorded with a setting of its own, like any other channel
                spec['extra'] = [kv for kv in spec['extra'] if kv[0] != '$P%dG' % D]
                if case['timech'] == 'gain' or spec['datatype'] != 'I':
                    spec['pne'][str(D)] = '0,0'
                    spec['extra'].append(['$P%dG' % D, '0.01'])
                else:
                    spec['pne'][str(D)] = '3,1'
            if case.get('zero_dec'):
                spec['pne'] = {k: (v if not v.startswith('0,') else r.choice(['0,1', '0,0', '0,0.5', '0,10'])) for k, v in spec['pne'].items()}
            if case.get('cytek'):
                if case.get('lin'):
                    spec['pne'] = {k: '0,0' for k in spec['pne']}
                gains = ['2', '0.5', '8', '2.5', '4', '1.0']
                spec['extra'] = [kv for kv in spec['extra'] if not kv[0].endswith('G')] + [['CREATOR', 'FlowJoCollectorsEdition 7.5.110.7']] + [
                    ['CytekP%02dG' % (c + 1), gains[(c + case['seed']) % len(gains)]] for c in range(D) if (c + case['seed']) % 4 != 1]
            d, _ = samples.load(spec, name='c03.fcs')
            names = list(d.channels)
            # the settings as the file records them (independent of the loader)
            fat, fg = [], []
            ex = dict((k, v) for k, v in spec['extra'])
            for c in range(D):
                a0, a1 = [float(v) for v in spec['pne'][str(c + 1)].split(',')]
                if a0 != 0 and a1 == 0:
                    a1 = 1.0
                fat.append([bits(a0), bits(a1)])
                g = ex.get('$P%dG' % (c + 1))
                if g is None and case.get('cytek'):
                    g = ex.get('CytekP%02dG' % (c + 1))
                fg.append(None if g is None else bits(float(g)))
            self._file_meta = {'ampType': fat, 'gain': fg, 'res': [bits(float(x)) for x in spec['ranges']]}
            if case.get('presl'):
                d.amplification_type(names[1]); d.range(names[-1])            # by-name queries on the parent
                sl = {'tail': slice(1, None), 'rev': slice(None, None, -1), 'mid': slice(1, D - 0 if D < 4 else D - 1),
                      'even': slice(None, None, 2), 'odd': slice(1, None, 2), 'third': slice(D - 1, None, -3)}[case['presl']]
                d = d[:, sl]
                names = list(d.channels)
                self._file_meta = {k: v[sl] for k, v in self._file_meta.items()}
                D = d.shape[1]
        else:
            d = np.array([[r.randrange(0, 256 if case.get('many') else 1024) for _ in range(D)] for _ in range(N)],
                         dtype=np.int64 if case['cont'] == 'array_int' else np.float64).reshape(N, D)
            names = None
            self._file_meta = None
        form = case['form']
        if form == 'none':
            ch, chs = None, list(range(D))
        elif form == 'scalar':
            c = r.randrange(0, D)
            ch = names[c] if (names and r.random() < 0.5) else (c - D if r.random() < 0.2 else c)
            chs = [ch]
        else:
            k = r.randrange(1, D + 1)
            cols = r.sample(range(D), k)
            chs = [names[c] if (names and r.random() < 0.5) else (c - D if (names and r.random() < 0.2) else c) for c in cols]
            ch = list(chs)
        n = len(chs)

        def settings(kind, gen):
            if kind == 'none':
                return None
            if form == 'scalar':
                return gen()
            if kind == 'given':
                return [gen() for _ in range(n)]
            return [gen() if r.random() < 0.5 else None for _ in range(n)]
        if case.get('many'):
            at = settings('given', lambda: r.choice([(4, 1), (4, 0.01), (4, 10.), (4.5, 1)]))
            res = settings('given', lambda: 256)
        else:
            pool = [(0, 0), (0., 0.), (4, 1), (4.5, 0.5), (3, 1), (2, 1), (7.3, 1.), (8, 1)] + ([(0, 1), (0, 0.5), (0., 10.), (0, 1)] if case.get('zero_dec') else [])
            if case.get('a1_zero'):
                pool = [(4, 0), (4., 0.), (3, 0), (4, 1), (2.5, 0.)]
            at = settings(case['at'], lambda: r.choice(pool))
        ag = settings(case['ag'], lambda: r.choice([0.5, 2., 8., 1.]))
        if not case.get('many'):
            res = settings(case['res'], lambda: r.choice([256, 1000, 1024, 4096, 262144]))
        if case['cont'] == 'array' and at is None:
            at = settings('given', lambda: r.choice([(0, 0), (4, 1), (3, 1)]))
        if case['cont'] in ('array', 'array_int') and isinstance(at, list):
            at = [a if a is not None else (4, 1) for a in at]
            if res is None or (isinstance(res, list) and None in res):
                res = [1024] * n
        if case['cont'] in ('array', 'array_int') and form == 'scalar' and res is None:
            res = 1024
        bad = case['bad']
        if bad and form != 'scalar':
            if bad == 'len_at':
                at = [(4, 1)] * (n + 1)
            elif bad == 'len_ag':
                ag = [1.] * (n + 1) if n else [1.]
            elif bad == 'len_res':
                res = [1024] * max(0, n - 1) if n > 1 else [1024, 1024]
            elif bad == 'scalar_at' and form == 'list':
                at = 5
            elif bad in ('len_all_short', 'len_all_long'):
                # all three lists of one common length that is not the number of channels
                m = max(0, n - 1) if bad == 'len_all_short' else n + 1
                at, ag, res = [(4, 1)] * m, [2.] * m, [1024] * m
        return d, ch, at, ag, res, names

    def to_arg(self, v, kind):
        if v is None:
            return None
        if isinstance(v, list):
            return {'list': [None if x is None else ([bits(x[0]), bits(x[1])] if kind == 'pair' else bits(x)) for x in v]}
        if kind == 'pair' and not isinstance(v, tuple):
            return {'scalar': 'bad'}
        return {'scalar': [bits(v[0]), bits(v[1])] if kind == 'pair' else bits(v)}

    def run_impl(self, case):
        if case.get('k') == 'big':
            return self.run_big(case)
        try:
            d, ch, at, ag, res, names = self.build(case)
        except (IndexError, KeyError, TypeError, ValueError, AttributeError) as e:
            if not case.get('presl'):
                raise
            return {'accessor_err': 'selecting the channels of the loaded sample raised %s: %s' % (type(e).__name__, str(e)[:80])}
        if case.get('two_step') and names and len(names) >= 3:
            # a conversion of one channel, then a selection of the other channels in another order, then their conversion: the same as converting that
            # selection of the loaded sample directly (an earlier conversion leaves nothing behind that a later one could trip over)
            try:
                r1 = FlowCal.transform.to_rfi(d, [names[0]])
                keep = list(reversed(names[1:]))
                a = FlowCal.transform.to_rfi(r1[:, keep])
                b = FlowCal.transform.to_rfi(d[:, keep])
                if not np.array_equal(np.asarray(a), np.asarray(b), equal_nan=True) or a.range() != b.range():
                    cols = [keep[j] for j in range(len(keep)) if not np.array_equal(np.asarray(a)[:, j], np.asarray(b)[:, j], equal_nan=True)]
                    return {'accessor_err': 'to_rfi(%s) -> [:, %s] -> to_rfi(): channels %s differ from the conversion of the same selection of the loaded sample' % (names[0], keep, cols or 'ranges')}
                a2 = FlowCal.transform.to_rfi(FlowCal.transform.to_rfi(d, names[:2])[:, names[2:]])
                b2 = FlowCal.transform.to_rfi(d[:, names[2:]])
                if not np.array_equal(np.asarray(a2), np.asarray(b2), equal_nan=True) or a2.range() != b2.range():
                    return {'accessor_err': 'to_rfi(first two channels) -> drop them -> to_rfi(): differs from the conversion of the remaining channels of the loaded sample'}
            except Exception as e:
                return {'accessor_err': 'two-step conversion raised %s: %s' % (type(e).__name__, str(e)[:80])}
        try:
            out = {'meta': meta_of(d), 'in': arr_bits(d), 'in_range': range_bits(d),
                   'args': {'channels': None if ch is None else ({'list': ch} if isinstance(ch, list) else {'scalar': ch}),
                            'at': self.to_arg(at, 'pair'), 'ag': self.to_arg(ag, 'num'), 'res': self.to_arg(res, 'num')}}
        except Exception as e:
            return {'accessor_err': 'reading the settings of the sample raised %s: %s' % (type(e).__name__, str(e)[:80])}
        out['file_meta'] = self._file_meta
        st0 = fpm.state(d) if names else None
        if case.get('reuse') and isinstance(ch, list) and len(ch) >= 2:
            # the same list objects of settings, first used with the channels in reverse order (None = taken from the file, for that channel)
            try:
                FlowCal.transform.to_rfi(d, list(reversed(ch)), at, ag, res)
            except Exception:
                pass
        try:
            t = FlowCal.transform.to_rfi(d, ch, at, ag, res)
        except Exception as e:
            out['err'] = type(e).__name__
            out['msg'] = str(e)[:80]
            return out
        out['out'] = arr_bits(t)
        out['out_range'] = range_bits(t)
        out['type_same'] = type(t) is type(d)
        out['dtype'] = str(np.asarray(t).dtype)
        if names:
            st1 = fpm.state(t)
            out['meta_same'] = [a for a, b in zip(st0, st1) if a != b and a[0] != 'range'] == []
            out['input_same'] = fpm.state(d) == st0
        # one at a time, in another order, other spellings
        if isinstance(ch, list) and len(ch) > 0 and case['bad'] is None:
            import random
            r = random.Random(case['seed'] + 1)
            order = list(range(len(ch)))
            r.shuffle(order)
            cur = d
            try:
                for i in order:
                    c = ch[i]
                    if names and r.random() < 0.5:
                        c = names.index(c) if isinstance(c, str) else names[c]
                    cur = FlowCal.transform.to_rfi(cur, c, None if at is None else at[i], None if ag is None else ag[i],
                                                   None if res is None else res[i])
                out['seq_same'] = (arr_bits(cur) == out['out'] and range_bits(cur) == out['out_range'])
            except Exception as e:
                out['seq_same'] = 'err:' + type(e).__name__ + ':' + str(e)[:60]
        return out

    def post(self):
        fcsgen.cleanup()

    # expected law per column, written independently of the model
    def expected_laws(self, impl):
        m, a = impl['meta'], impl['args']
        if impl.get('file_meta'):
            m = dict(m, **impl['file_meta'])
        D = m['ncols']
        chs = a['channels']
        if chs is None:
            refs = list(range(D))
        elif 'scalar' in chs:
            refs = [chs['scalar']]
        else:
            refs = chs['list']

        def col(r):
            if isinstance(r, str):
                return m['names'].index(r)
            return r % D

        def pick(arg, i):
            if arg is None:
                return None
            if 'scalar' in arg:
                return arg['scalar']
            return arg['list'][i]
        laws = {}
        for i, r in enumerate(refs):
            c = col(r)
            at = pick(a['at'], i)
            if at is None:
                at = m['ampType'][c]
            a0, a1 = unbits(at[0]), unbits(at[1])
            if a0 == 0:
                g = pick(a['ag'], i)
                g = unbits(g) if g is not None else (unbits(m['gain'][c]) if (m['isSample'] and m['gain'][c] is not None) else 1.0)
                laws[c] = ('lin', g)
            else:
                rr = pick(a['res'], i)
                rr = unbits(rr) if rr is not None else unbits(m['res'][c])
                laws[c] = ('log', a0, a1, rr)
        return laws

    def oracle(self, case, impl):
        if case.get('k') == 'big':
            return None if impl['big'] is None else 'array of %d events: %s' % (case['n'], impl['big'])
        if 'accessor_err' in impl:
            return '%s (sample prepared with %s)' % (impl['accessor_err'], case.get('presl') or 'a plain load')
        bad = case['bad'] if case['form'] != 'scalar' else None
        if bad == 'scalar_at' and case['form'] != 'list':
            bad = None
        if bad:
            if impl.get('err') != 'ValueError':
                return 'inconsistent argument lengths (%s) not refused with ValueError: %s' % (bad, impl.get('err', 'accepted'))
            return None
        if 'err' in impl:
            return 'valid conversion raised %s %s (%s)' % (impl['err'], impl.get('msg'), impl['args'])
        if not impl['type_same'] or impl['dtype'] != 'float64':
            return 'result type %s / dtype %s' % (impl['type_same'], impl['dtype'])
        if impl['meta']['isSample'] and (not impl['meta_same'] or not impl['input_same']):
            return 'non-range metadata changed by the conversion'
        fm = impl.get('file_meta')
        if fm:
            for k in ('ampType', 'gain', 'res'):
                if fm[k] != impl['meta'][k]:
                    return 'the loaded sample reports %s %s, the file records %s' % (k, [None if v is None else ([unbits(x) for x in v] if isinstance(v, list) else unbits(v)) for v in impl['meta'][k]],
                                                                                      [None if v is None else ([unbits(x) for x in v] if isinstance(v, list) else unbits(v)) for v in fm[k]])
        laws = self.expected_laws(impl)
        D = impl['meta']['ncols']
        for r, (rin, rout) in enumerate(zip(impl['in'], impl['out'])):
            if len(rout) != D:
                return 'shape changed'
            for c in range(D):
                x = unbits(rin[c]); y = unbits(rout[c])
                if c not in laws:
                    if rin[c] != rout[c]:
                        return 'unselected channel %d changed (event %d: %r -> %r)' % (c, r, x, y)
                    continue
                law = laws[c]
                if law[0] == 'lin':
                    want = float(Decimal(x) / Decimal(law[1]))
                else:
                    pw = Decimal(10) ** (Decimal(law[1]) / Decimal(law[3]) * Decimal(x))
                    want = float(Decimal(law[2]) * pw) if Decimal(law[2]) * pw < Decimal('1.7976931348623157e308') else float('inf')
                    # the documented expression a1 * 10**(a0*x/r) is evaluated factor by factor: where the power alone leaves the double range
                    # (above 1.797e308, or below the smallest subnormal) the faithful value is inf (resp. 0), whatever the product would be
                    if pw > Decimal('1.797693134e308') and y == float('inf') and law[2] > 0:
                        continue
                    if pw < Decimal('5e-324') and y == 0.0:
                        continue
                    # a1 = 0 given by the caller and the power beyond the double range: 0 * inf is nan in the factor-by-factor evaluation, 0 exactly
                    if pw > Decimal('1.797693134e308') and law[2] == 0 and (y != y or y == 0.0):
                        continue
                # the float exponent a0/r*x carries ~2 roundings, amplified by ln(10)*|exponent| in the result
                expo = abs(law[1] / law[3] * x) if law[0] == 'log' else 0.0
                if ulps(want, y) > 4 and common.far(want, y, 1e-15 * (10 + 10 * expo) * abs(want)):
                    return 'channel %d event %d: got %r, the %s law gives %r (params %s)' % (c, r, y, law[0], want, law[1:])
        if len(impl['out']) != len(impl['in']):
            return 'number of events changed'
        if impl.get('seq_same') not in (None, True):
            return 'converting the channels one at a time in another order / spelling differs from the single call (%s)' % impl['seq_same']
        return None

    def model_request(self, case, impl):
        if case.get('k') == 'big' or 'accessor_err' in impl:
            return None
        a = impl['args']
        if a['at'] is not None and a['at'].get('scalar') == 'bad':
            return None
        return {'op': 'to_rfi', 'meta': impl['meta'], 'channels': a['channels'], 'at': a['at'], 'ag': a['ag'], 'res': a['res']}

    def compare(self, case, impl, model):
        if 'driver_error' in model:
            return 'driver: ' + model['driver_error']
        if model.get('err') == 'Other':
            self.exclude('argument shape outside the model')
            return None
        if 'err' in model or 'err' in impl:
            if ('err' in model) != ('err' in impl):
                return 'impl %s vs model %s' % (impl.get('err', 'ok'), model.get('err', 'ok'))
            return None
        # replay the model's decisions with the documented expressions on the array path
        data = np.array([[unbits(v) for v in row] for row in impl['in']], dtype=np.float64).reshape(len(impl['in']), impl['meta']['ncols'])
        rng = None if impl['in_range'] is None else [None if r is None else [unbits(r[0]), unbits(r[1])] for r in impl['in_range']]
        for col, law in model['acts']:
            if 'lin' in law:
                g = 1.0 if law['lin'] is None else unbits(law['lin'])
                tf = lambda x, g=g: x / g
            else:
                a0, a1, r = [unbits(v) for v in law['log']]
                tf = lambda x, a0=a0, a1=a1, r=r: a1 * 10 ** (a0 / float(r) * x)
            data[:, col] = tf(data[:, col])
            if rng is not None and rng[col] is not None:
                rng[col] = np.asarray(tf(np.array(rng[col], dtype=np.float64))).tolist()
        if arr_bits(data) != impl['out']:
            return 'replaying the model decisions %s does not reproduce the implementation data' % (model['acts'],)
        if rng is not None:
            rb = [None if r is None else [bits(r[0]), bits(r[1])] for r in rng]
            if rb != impl['out_range']:
                return 'replaying the model decisions does not reproduce the implementation ranges: %s vs %s' % (rb, impl['out_range'])
        return None

    def nontrivial_key(self, case, impl):
        if case.get('k') == 'big':
            return ('big', case['n'] >> 20)
        if 'accessor_err' in impl:
            return None
        laws = None
        if 'err' not in impl and not case['bad']:
            try:
                laws = tuple(sorted(v[0] for v in self.expected_laws(impl).values()))
            except Exception:
                laws = None
        return (case['cont'], case['form'], case['at'], case['ag'], case['res'], case['bad'], laws, 'err' if 'err' in impl else 'ok')
