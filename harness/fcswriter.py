"""Independent FCS 2.0/3.0/3.1 writer used by the harnesses (not derived from
FlowCal's reader and not from the Lean model; cross-checked byte for byte with
the Lean writer on TEXT segments and DATA segments).

A file is described by a plain dict `spec` (JSON-serialisable) so that every
generated file can be stored in a replay:

  version      'FCS2.0' | 'FCS3.0' | 'FCS3.1'
  delim        one character
  datatype     'I' | 'F' | 'D' (or anything, for malformed files)
  byteord      '1,2,3,4' | '4,3,2,1' | '1,2' | '2,1' | other
  widths       list of bit widths ($PnB)
  ranges       list of $PnR values (ints or strings)
  events       list of rows; ints for 'I', IEEE bit patterns (ints) for F/D
  names        list of $PnN
  extra        list of [key, value] pairs appended to TEXT (optional keywords)
  stext        list of [key, value] pairs of a supplemental TEXT segment, or None
  analysis     list of [key, value] pairs of an ANALYSIS segment, or None
  raw_analysis raw string for the ANALYSIS segment (overrides `analysis`)
  placement    'header' | 'text'    where the DATA offsets are given (text => HEADER has zeros)
  analysis_placement 'header' | 'text'
  end_conv     'last' | 'past'      DATA end offset = last byte | one past
  pad_text     bytes of padding between HEADER and TEXT
  pad_data     bytes of padding before DATA
  pad_after    bytes appended after the last segment
  order        'TDA' (TEXT, DATA, ANALYSIS) | 'DTA' | 'TAD' ...
  mode         $MODE (default 'L'); tot: override $TOT; par: override $PAR
  overrides    dict keyword -> value replacing generated TEXT keywords
  header_overrides dict field -> int replacing HEADER offsets (text_begin, ...)
"""
import struct

ENC = 'ISO-8859-1'


def esc(s, d):
    return s.replace(d, d + d)


def render_text(pairs, d, leading=True):
    out = d if leading else ''
    for k, v in pairs:
        out += esc(k, d) + d + esc(v, d) + d
    return out


def encode_events(events, datatype, widths, byteord):
    big = byteord in ('4,3,2,1', '2,1')
    out = bytearray()
    for row in events:
        for v, w in zip(row, widths):
            if datatype == 'I':
                out += int(v).to_bytes(w // 8, 'big' if big else 'little')
            elif datatype == 'F':
                out += int(v).to_bytes(4, 'big' if big else 'little')
            elif datatype == 'D':
                out += int(v).to_bytes(8, 'big' if big else 'little')
            else:
                out += int(v).to_bytes(max(1, w // 8), 'big')
    return bytes(out)


OFFW = 10  # fixed width of offsets written in TEXT keywords (zero padded)


def off(n, style=None):
    """an offset as written in a TEXT keyword: zero padded (default), right-justified with blanks, or followed by blanks -- all of fixed width"""
    if style == 'blank_left':
        return ('%' + str(OFFW) + 'd') % n
    if style == 'blank_right':
        return ('%-' + str(OFFW) + 'd') % n
    return ('%0' + str(OFFW) + 'd') % n


def build(spec):
    """Returns (file_bytes, layout) where layout records the offsets used."""
    version = spec.get('version', 'FCS3.0')
    d = spec.get('delim', '/')
    datatype = spec.get('datatype', 'I')
    byteord = spec.get('byteord', '1,2,3,4')
    widths = spec['widths']
    ranges = spec['ranges']
    events = spec['events']
    names = spec.get('names') or ['P%d' % (i + 1) for i in range(len(widths))]
    placement = spec.get('placement', 'header')
    aplacement = spec.get('analysis_placement', 'header')
    end_conv = spec.get('end_conv', 'last')
    order = spec.get('order', 'TDA')
    v3 = version in ('FCS3.0', 'FCS3.1')

    data = spec['raw_data'].encode(ENC) if spec.get('raw_data') is not None else \
        encode_events(events, datatype, widths, byteord)
    if spec.get('raw_analysis') is not None:
        analysis = spec['raw_analysis'].encode(ENC)
    elif spec.get('analysis') is not None:
        analysis = render_text(spec['analysis'], d, leading=spec.get('analysis_leading', True)).encode(ENC)
    else:
        analysis = b''
    if spec.get('raw_stext') is not None:
        stext = spec['raw_stext'].encode(ENC)
    elif spec.get('stext') is not None:
        stext = render_text(spec['stext'], d, leading=spec.get('stext_leading', True)).encode(ENC)
    else:
        stext = b''

    _off = off

    def text_bytes(lay, off=lambda n: _off(n, spec.get('offset_style'))):
        pairs = []
        if v3:
            pairs += [('$BEGINANALYSIS', off(lay['ab'] if aplacement == 'text' or True else 0)),
                      ('$ENDANALYSIS', off(lay['ae'])),
                      ('$BEGINSTEXT', off(lay['sb'])), ('$ENDSTEXT', off(lay['se'])),
                      ('$BEGINDATA', off(lay['db'])), ('$ENDDATA', off(lay['de']))]
        pairs += [('$BYTEORD', byteord), ('$DATATYPE', datatype), ('$MODE', spec.get('mode', 'L')),
                  ('$NEXTDATA', str(spec.get('nextdata', 0))),
                  ('$PAR', str(spec.get('par', len(widths)))),
                  ('$TOT', str(spec.get('tot', len(events))))]
        for i, (w, r, n) in enumerate(zip(widths, ranges, names), 1):
            pairs += [('$P%dB' % i, str(w)), ('$P%dN' % i, n), ('$P%dR' % i, str(r))]
            e = (spec.get('pne') or {}).get(str(i), '0,0')
            if e is not None:
                pairs.append(('$P%dE' % i, e))
        ov = dict(spec.get('overrides') or {})
        pairs = [(k, ov.pop(k) if k in ov else v) for k, v in pairs]
        pairs = [(k, v) for k, v in pairs if v is not None]
        pairs += [(k, v) for k, v in ov.items() if v is not None]
        pairs += [tuple(kv) for kv in (spec.get('extra') or [])]
        if spec.get('raw_text') is not None:
            return spec['raw_text'].encode(ENC), pairs
        return (render_text(pairs, d) + spec.get('text_trailer', '')).encode(ENC), pairs

    # two passes: TEXT length does not depend on offsets (fixed width)
    lay = dict(ab=0, ae=0, sb=0, se=0, db=0, de=0)
    t0, _ = text_bytes(lay)
    pos = 58 + spec.get('pad_text', 0)
    segs = {}
    for c in order:
        if c == 'T':
            segs['T'] = (pos, pos + len(t0) - 1)
            pos += len(t0)
        elif c == 'S' and stext:
            segs['S'] = (pos, pos + len(stext) - 1)
            pos += len(stext)
        elif c == 'D':
            pos += spec.get('pad_data', 0)
            segs['D'] = (pos, pos + len(data) - 1)
            pos += len(data)
        elif c == 'A' and analysis:
            pos += spec.get('pad_analysis', 0)
            segs['A'] = (pos, pos + len(analysis) - 1)
            pos += len(analysis)
    if stext and 'S' not in segs:
        segs['S'] = (pos, pos + len(stext) - 1)
        pos += len(stext)
    db, de = segs['D']
    if end_conv == 'past':
        de += 1
    lay = dict(db=db, de=de, ab=0, ae=0, sb=0, se=0)
    if 'A' in segs:
        lay['ab'], lay['ae'] = segs['A']
    if 'S' in segs:
        lay['sb'], lay['se'] = segs['S']
    elif spec.get('empty_stext'):
        # a supplemental TEXT segment of length zero, declared with non-zero offsets (end = begin - 1)
        lay['sb'] = segs['D'][0]
        lay['se'] = lay['sb'] - 1
    text_lay = dict(lay)
    if placement == 'header' and not spec.get('text_offsets_too', True):
        text_lay['db'] = text_lay['de'] = 0
    if aplacement == 'header' and 'A' in segs and not spec.get('text_offsets_too', True):
        text_lay['ab'] = text_lay['ae'] = 0
    t, pairs = text_bytes(text_lay)
    assert len(t) == len(t0)
    hdr = dict(text_begin=segs['T'][0], text_end=segs['T'][1],
               data_begin=lay['db'] if placement == 'header' else 0,
               data_end=lay['de'] if placement == 'header' else 0,
               analysis_begin=lay['ab'] if (aplacement == 'header' and 'A' in segs) else 0,
               analysis_end=lay['ae'] if (aplacement == 'header' and 'A' in segs) else 0)
    hdr.update(spec.get('header_overrides') or {})

    def f8(n):
        s = str(n) if not isinstance(n, str) else n
        return s.rjust(8)[:8] if len(s) <= 8 else s[:8]
    header = (version.ljust(10)[:10] + f8(hdr['text_begin']) + f8(hdr['text_end']) +
              f8(hdr['data_begin']) + f8(hdr['data_end']) +
              (' ' * 8 if (hdr['analysis_begin'] == 0 and spec.get('blank_analysis', False)) else f8(hdr['analysis_begin'])) +
              (' ' * 8 if (hdr['analysis_end'] == 0 and spec.get('blank_analysis', False)) else f8(hdr['analysis_end'])))
    header = header.encode(ENC)
    assert len(header) == 58
    buf = bytearray(header)
    pad_byte = spec.get('pad_byte', ' ').encode(ENC)
    parts = {'T': t, 'S': stext, 'D': data, 'A': analysis}
    for c, (b, e) in sorted(segs.items(), key=lambda kv: kv[1][0]):
        if len(buf) < b:
            buf += pad_byte * (b - len(buf))
        assert len(buf) == b, (c, len(buf), b)
        buf += parts[c]
    buf += pad_byte * spec.get('pad_after', 0)
    layout = {'header': hdr, 'segs': {k: list(v) for k, v in segs.items()}, 'text_pairs': [list(p) for p in pairs],
              'data_len': len(data), 'file_len': len(buf)}
    return bytes(buf), layout
