"""C20 — A sample survives copying, viewing and pickling in any analysis state."""
import copy
import os
import pickle

import numpy as np

import common
import fcsgen
import fcswriter
import fingerprint as fpm
import samples
import FlowCal

DUPS = ['copy', 'copy.copy', 'deepcopy', 'view'] + ['pickle%d' % p for p in range(6)]
OPS = ['slice_ch', 'slice_ev', 'to_rfi', 'to_mef', 'gate', 'reads', 'column', 'row']


def apply_op(d, op, rng_vals):
    a, b = rng_vals
    if d.ndim != 2 or d.shape[1] == 0:
        return d
    D = d.shape[1]
    if op == 'slice_ch':
        idx = [(a + i * (b + 1)) % D for i in range(1 + a % D)]
        idx = list(dict.fromkeys(idx))
        return d[:, [d.channels[i] if (i + b) % 2 else i for i in idx]] if a % 3 else d[:, (a % D):]
    if op == 'slice_ev':
        return d[(a % 3):(d.shape[0] - b % 3)] if a % 2 else d[np.arange(d.shape[0]) % 2 == (b % 2)]
    if op == 'to_rfi':
        ch = [i for i in range(D) if (a >> i) & 1] or [0]
        return FlowCal.transform.to_rfi(d, channels=ch)
    if op == 'to_mef':
        ch = [i for i in range(D) if (b >> i) & 1] or [D - 1]
        return FlowCal.transform.to_mef(d, channels=ch, sc_list=[(lambda k: (lambda x: 2.0 * x + k))(float(i)) for i in ch], sc_channels=ch)
    if op == 'reads':
        # reads that return no array (a single value, a refused index, derived quantities): the sample is as before
        try:
            d[0, d.channels[a % D]] if d.shape[0] else None
            d[d.shape[0] + 5, 0]
        except Exception:
            pass
        try:
            d.acquisition_time; d.range(a % D); str(d)
        except Exception:
            pass
        return d
    if op == 'reorder':
        # the same events in another order (sorted by a channel, or reversed): same shape, other first and last events
        return d[np.argsort(np.asarray(d[:, a % D]), kind='stable')] if a % 2 else d[::-1]
    if op == 'column':
        return d[:, d.channels[a % D]] if a % 2 else d[:, b % D]          # a one-channel, one-dimensional state
    if op == 'row':
        return d[a % d.shape[0]] if d.shape[0] else d                     # a single event, one-dimensional
    if op == 'gate':
        if a % 2:
            n0 = min(a % 3, d.shape[0]); n1 = min(b % 3, d.shape[0] - n0)
            return FlowCal.gate.start_end(d, num_start=n0, num_end=n1)
        return FlowCal.gate.high_low(d, channels=[a % D])
    return d


def duplicate(d, how):
    if how == 'copy':
        return d.copy()
    if how == 'copy.copy':
        return copy.copy(d)
    if how == 'deepcopy':
        return copy.deepcopy(d)
    if how == 'view':
        return d.view()
    return pickle.loads(pickle.dumps(d, protocol=int(how[6:])))


class Prop(common.PropertyCheck):
    pid = 'C20'
    rule = ("generated samples (integer and float, rich per-channel metadata) and test/Data001.fcs x all analysis states reachable by <= 3 of "
            "{slice channels, slice events, to RFI, to MEF, gate} x {copy, copy.copy, deepcopy, view, pickle protocols 0..5}: full fingerprint equality, "
            "independence after mutating either side, and FCSFile equality / inequality after flipping one event bit or keyword in place. "
            "Non-trivial = distinct (op sequence, duplication method) where at least one attribute differs from its freshly-loaded value.")
    batch_size = 300
    assumptions = ["NumPy's own array pickling and copy semantics are trusted; the model covers the FCSData-specific state"]

    def gen_cases(self):
        rng = self.rng
        nsamples = self.budget(5, 40)
        for si in range(nsamples):
            spec = samples.spec_rich(rng, N=rng.randrange(0, 14), datatype=rng.choice(['I', 'I', 'F']))
            if si % 2 == 1 and len(spec['names']) >= 3:
                # two parameters with the same $PnN (and different settings): attributes are per position, not per name
                spec['names'][2] = spec['names'][1]
            seqs = [[]]
            for L in (1, 2, 3):
                allseq = [tuple(rng.choice(OPS) for _ in range(L)) for _x in range(self.budget(10, 60))]
                seqs += [list(s) for s in dict.fromkeys(allseq)]
            for ops in seqs:
                vals = [[rng.randrange(0, 64), rng.randrange(0, 64)] for _ in ops]
                for how in DUPS:
                    c = {'k': 'dup', 'spec': spec, 'ops': ops, 'vals': vals, 'how': how}
                    if si % 3 == 2:
                        c['oddpath'] = 1 + len(ops)
                    yield c
        # samples with a time channel: derived quantities are read, then the events are re-ordered / converted (same shape), then the sample is duplicated
        for si in range(self.budget(3, 20)):
            spec = samples.spec_rich(rng, N=[12, 7, 3][si % 3], D=rng.randrange(3, 6), datatype=['I', 'F'][si % 2], time_channel=True)
            spec['extra'] = [kv for kv in spec['extra'] if kv[0] != '$TIMESTEP'] + [['$TIMESTEP', '0.01']]
            for ops in (['reads', 'reorder'], ['reads', 'reorder', 'reads'], ['reorder', 'reads', 'reorder'], ['reads', 'to_mef'], ['reads', 'to_rfi', 'reorder'], ['reads', 'reorder', 'slice_ch']):
                for vi in range(2):
                    vals = [[2 * rng.randrange(0, 32) + (1 - vi), rng.randrange(0, 64) | (1 << (len(spec['names']) - 1))] for _ in ops]
                    for how in DUPS:
                        yield {'k': 'dup', 'spec': spec, 'ops': ops, 'vals': vals, 'how': how}
        # detectors recorded with a voltage / gain of exactly zero (a switched-off detector, a clock channel): zero is a value like any other
        for si in range(self.budget(2, 10)):
            spec = samples.spec_rich(rng, N=rng.randrange(3, 12), D=4, datatype=['I', 'F'][si % 2])
            spec['extra'] = [kv for kv in spec['extra'] if kv[0] not in ('$P1V', '$P3V', '$P4G')] + [['$P1V', '0'], ['$P3V', '0.0'], ['$P4G', '0']]
            for ops in ([], ['slice_ev'], ['slice_ch', 'reads'], ['gate']):
                vals = [[rng.randrange(0, 64), rng.randrange(0, 64)] for _ in ops]
                for how in DUPS:
                    yield {'k': 'dup', 'spec': spec, 'ops': ops, 'vals': vals, 'how': how}
        # samples loaded from an open file object: copies and views in every analysis state (an open file cannot be pickled; not tried)
        for si in range(self.budget(2, 10)):
            spec = samples.spec_rich(rng, N=rng.randrange(3, 12), datatype=['I', 'F'][si % 2])
            for ops in ([], ['slice_ch'], ['to_rfi', 'gate'], ['slice_ev', 'to_mef'], ['reads', 'column']):
                vals = [[rng.randrange(0, 64), rng.randrange(0, 64)] for _ in ops]
                for how in ('copy', 'copy.copy', 'deepcopy', 'view'):
                    yield {'k': 'dup', 'spec': spec, 'ops': ops, 'vals': vals, 'how': how, 'fileobj': True}
        # files that differ in one keyword value of the ANALYSIS segment only (located by the HEADER, or by $BEGINANALYSIS / $ENDANALYSIS alone)
        for i in range(self.budget(8, 40)):
            sp = fcsgen.gen_spec(rng, max_events=5, max_par=3)
            sp.update({'version': ['FCS3.0', 'FCS3.1'][i % 2], 'analysis': [['GATE1', 'v1'], ['GATE2', 'v1x']], 'analysis_placement': ['text', 'header'][(i // 2) % 2],
                       'text_offsets_too': (i // 4) % 2 == 0, 'order': 'TDA'})
            sp.pop('stext', None); sp.pop('malformed', None)
            yield {'k': 'fileeq', 'spec': sp, 'flip': 'analysis', 'pos': i}
        # files holding more than 1 MiB of events that differ in one byte of one event: near the end, in the middle, at the very beginning
        for i, frac in enumerate([1.0, 0.999, 0.75, 0.5, 0.0, 0.97][:self.budget(4, 6)]):
            yield {'k': 'fileeq', 'flip': 'event', 'big': {'n': [45000, 70001][i % 2], 'D': [8, 6][i % 2], 'dt': ['F', 'I'][i % 2], 'seed': 9100 + i}, 'pos_frac': frac}
        for _ in range(self.budget(30, 300)):
            sp = fcsgen.gen_spec(rng, max_events=6, max_par=3)
            if sp['datatype'] == 'I':
                sp['ranges'] = [1 << w for w in sp['widths']]      # every stored bit is part of the event value
            yield {'k': 'fileeq', 'spec': sp, 'flip': rng.choice(['event', 'keyword', 'none']), 'pos': rng.randrange(0, 1000)}
        for i in range(self.budget(6, 40)):
            sp = fcsgen.gen_spec(rng, max_events=6, max_par=3)
            sp['extra'] = list(sp.get('extra') or []) + [['Operator', 'somebody']]
            yield {'k': 'fileeq', 'spec': sp, 'flip': 'kwcase', 'pos': i}
        # large values differing by one unit / one ulp (equality must be exact)
        for dt in ('I', 'F', 'D'):
            for be in ('1,2,3,4', '4,3,2,1'):
                yield {'k': 'fileeq', 'flip': 'lowbit', 'pos': 0, 'spec': {
                    'version': 'FCS3.0', 'delim': '/', 'datatype': dt, 'byteord': be,
                    'widths': [32 if dt != 'D' else 64] * 2, 'ranges': [2 ** 32, 2 ** 32],
                    'events': [[1000000, 7], [0x47C35000 if dt != 'D' else 0x40F86A0000000000, 3]] if dt == 'I' else
                              [[0x47C35000 if dt == 'F' else 0x40F86A0000000000, 0x3F800000 if dt == 'F' else 0x3FF0000000000000]] * 2}}

    def build_state(self, case):
        d, path = samples.load(case['spec'])
        if case.get('oddpath'):
            # the same file reached through a path that is not in normal form: the sample remembers the path it was given
            import os
            head, tail = os.path.split(path)
            odd = [os.path.join(head, '.', tail), head + os.sep + os.sep + tail, os.path.join(head, os.path.basename(head), '..', tail) if False else os.path.join(head, '.', '.', tail)][case['oddpath'] % 3]
            d = FlowCal.io.FCSData(odd)
        if case.get('fileobj'):
            # the sample is loaded from an open file object instead of a file name
            self._open_files = getattr(self, '_open_files', [])
            fh = open(path, 'rb')
            self._open_files.append(fh)
            d = FlowCal.io.FCSData(fh)
        for op, v in zip(case['ops'], case['vals']):
            d = apply_op(d, op, v)
        return d

    def run_impl(self, case):
        if case['k'] == 'fileeq':
            return self.run_fileeq(case)
        try:
            d = self.build_state(case)
        except Exception as e:
            return {'skip': 'state not reachable: %s %s' % (type(e).__name__, str(e)[:60])}
        if not isinstance(d, FlowCal.io.FCSData):
            return {'skip': 'not a sample'}
        try:
            fresh, _ = samples.load(case['spec'])
            fp0 = fpm.sample_fp(d)
            e = duplicate(d, case['how'])
            fp1 = fpm.sample_fp(e)
            fp0_after = fpm.sample_fp(d)
            def derived(x):
                # public quantities computed from events and keywords
                out = []
                for f in (lambda: x.acquisition_time, lambda: x.acquisition_start_time, lambda: x.acquisition_end_time, lambda: x.time_step):
                    try:
                        out.append(fpm.fval(f()))
                    except Exception as ex:
                        out.append('raised ' + type(ex).__name__)
                return out
            res = {'derived': [derived(d), derived(e)], 'orig': fp0, 'dup': fp1, 'orig_after_dup': fp0_after, 'is_sample': isinstance(e, FlowCal.io.FCSData),
                   'changed_from_fresh': [f for (f, v), (_, w) in zip(fp0['state'], fpm.state(fresh)) if v != w and f != 'infile']}
            # independence: mutate the duplicate, the original must not notice (and vice versa)
            ind = {}
            for side, (x, y) in (('dup', (e, d)), ('orig', (d, e))):
                before = fpm.sample_fp(y)
                try:
                    if x._range and x._range[0] is not None:
                        x._range[0][0] = -12345.0
                    x._text['VERIF'] = 'x'
                    x._analysis['VERIF'] = 'y'
                    if x.size and x.flags.writeable:
                        x.flat[0] = x.flat[0] + 1
                except Exception as ex:
                    ind[side + '_err'] = type(ex).__name__
                after = fpm.sample_fp(y)
                shares = bool(np.shares_memory(x, y))
                ind[side] = {'state_same': before['state'] == after['state'], 'array_same': before['array'] == after['array'], 'shares': shares}
            res['indep'] = ind
            # a second duplicate, taken after the keywords of a first duplicate were edited, still equals the original
            try:
                d2 = self.build_state(case)
                base = fpm.sample_fp(d2)
                e1 = duplicate(d2, case['how'])
                if isinstance(e1, FlowCal.io.FCSData):
                    e1.text['VERIF2'] = 'edited'; e1.analysis['VERIF2'] = 'edited'
                e2 = duplicate(d2, 'copy' if case['how'] == 'view' else case['how'])
                fp2 = fpm.sample_fp(e2)
                res['second_dup_equal'] = bool(fp2['state'] == base['state'] and fp2['array'] == base['array'] and fpm.sample_fp(d2)['state'] == base['state'])
            except Exception as ex:
                res['second_dup_equal'] = 'err:' + type(ex).__name__ + ':' + str(ex)[:60]
            # a duplicate that has not been looked at yet does not follow later edits of the original's keywords
            try:
                d3 = self.build_state(case)
                e3 = duplicate(d3, case['how'])
                d3.text['VERIF3'] = 'later'; d3.analysis['VERIF3'] = 'later'
                first = list(d3.text)[0] if len(d3.text) else None
                if first is not None:
                    d3.text[first] = 'overwritten later'
                res['untouched_dup_independent'] = bool('VERIF3' not in e3.text and 'VERIF3' not in e3.analysis and
                                                        (first is None or e3.text.get(first) != 'overwritten later'))
            except Exception as ex:
                res['untouched_dup_independent'] = 'err:' + type(ex).__name__ + ':' + str(ex)[:60]
            return res
        except Exception as ex:
            return {'err': type(ex).__name__ + ':' + str(ex)[:100]}

    def big_spec(self, big):
        # more than 1 MiB of events (block-wise comparisons): N events x D parameters of 32 bits, every byte non-zero
        raw = np.random.RandomState(big['seed'] % (1 << 31)).randint(1, 120, size=(big['n'], 4 * big['D'])).astype(np.uint8)
        return {'version': 'FCS3.0', 'delim': '/', 'datatype': big['dt'], 'byteord': '1,2,3,4', 'widths': [32] * big['D'], 'ranges': [1 << 32] * big['D'],
                'events': [], 'tot': big['n'], 'raw_data': raw.tobytes().decode(fcswriter.ENC), 'placement': 'header', 'text_offsets_too': True}

    def run_fileeq(self, case):
        if case.get('big'):
            case = dict(case, spec=self.big_spec(case['big']))
            case['pos'] = int(case['pos_frac'] * (case['big']['n'] * 4 * case['big']['D'] - 1))
        data, layout = fcswriter.build(case['spec'])
        path = fcsgen.write_tmp(data, name='eq_%d.fcs' % self.evaluations)
        try:
            a = FlowCal.io.FCSFile(path)
            b = FlowCal.io.FCSFile(path)
            u = FlowCal.io.FCSFile(path)          # left untouched (no attribute read, no comparison) until the file has been replaced
            res = {'same_eq': bool(a == b), 'same_ne': bool(a != b), 'same_hash': hash(a) == hash(b)}
            d2 = bytearray(data)
            flipped = False
            if case['flip'] in ('event', 'lowbit') and layout['data_len'] > 0:
                b0, e0 = layout['segs']['D']
                if case['flip'] == 'lowbit':
                    # lowest-order bit of the first value
                    w = case['spec']['widths'][0] // 8
                    pos = b0 + (w - 1 if case['spec']['byteord'] == '4,3,2,1' else 0)
                else:
                    pos = b0 + case['pos'] % layout['data_len']
                d2[pos] ^= 1
                flipped = True
            elif case['flip'] == 'keyword':
                tb, te = layout['segs']['T']
                txt = bytes(d2[tb:te + 1])
                i = txt.find(b'$MODE')
                j = txt.find(b'P1')          # the name of parameter 1
                if j > 0:
                    d2[tb + j] = ord('Q')
                    flipped = True
            elif case['flip'] == 'analysis' and 'A' in layout['segs']:
                # one character of a value of the ANALYSIS segment (same length)
                ab, ae = layout['segs']['A']
                j = bytes(d2[ab:ae + 1]).find(b'v1')
                if j > 0:
                    d2[ab + j] = ord('w')
                    flipped = True
            elif case['flip'] == 'kwcase':
                # the same keyword name in another letter case is another keyword
                tb, te = layout['segs']['T']
                j = bytes(d2[tb:te + 1]).find(b'Operator')
                if j > 0:
                    d2[tb + j:tb + j + 8] = b'OPERATOR' if case['pos'] % 2 else b'operator'
                    flipped = True
            if flipped:
                with open(path, 'wb') as f:
                    f.write(bytes(d2))
                try:
                    c = FlowCal.io.FCSFile(path)
                    res['diff_eq'] = bool(a == c)
                    res['diff_ne'] = bool(a != c)
                    res['untouched_eq'] = bool(u == c)
                    res['untouched_holds_original'] = bool(np.array_equal(np.asarray(u.data), np.asarray(a.data)))
                except Exception as e:
                    res['diff_loaderr'] = type(e).__name__
            return res
        except Exception as e:
            return {'err': type(e).__name__ + ':' + str(e)[:80]}
        finally:
            os.unlink(path)

    def post(self):
        for fh in getattr(self, '_open_files', []):
            try:
                fh.close()
            except Exception:
                pass
        fcsgen.cleanup()

    def oracle(self, case, impl):
        if impl.get('skip'):
            self.bump('skipped')
            return None
        if 'err' in impl:
            return 'unexpected exception %s' % impl['err']
        if case['k'] == 'fileeq':
            if not (impl['same_eq'] and not impl['same_ne'] and impl['same_hash']):
                return 'two loads of the same file do not compare equal (%s)' % impl
            if 'diff_eq' in impl and (impl['diff_eq'] or not impl['diff_ne']):
                return 'loads of files differing in one %s compare equal' % case['flip']
            if impl.get('untouched_eq') or impl.get('untouched_holds_original') is False:
                return 'a load made before the file at its path was replaced (one %s differs) %s' % (
                    case['flip'], 'compares equal to a load of the new content' if impl.get('untouched_eq') else 'does not hold the events it was loaded from')
            return None
        how = case['how']
        if not impl['is_sample']:
            return '%s of a sample is not a sample' % how
        if impl['orig'] != impl['orig_after_dup']:
            return '%s changed the original' % how
        if impl['dup']['array'] != impl['orig']['array']:
            return '%s after %s: events differ (%s vs %s)' % (how, case['ops'], impl['dup']['array'], impl['orig']['array'])
        for (f, v), (_, w) in zip(impl['orig']['state'], impl['dup']['state']):
            if v != w:
                return '%s after %s: attribute %s differs: %s vs %s' % (how, case['ops'], f, w[:80], v[:80])
        if impl['derived'][0] != impl['derived'][1]:
            return '%s after %s: acquisition time / start / end / time step are %s, the original has %s' % (how, case['ops'], impl['derived'][1], impl['derived'][0])
        if impl['orig'].get('extra') != impl['dup'].get('extra'):
            return '%s after %s: attributes outside the modelled state differ: %s vs %s' % (how, case['ops'], impl['dup'].get('extra'), impl['orig'].get('extra'))
        ind = impl['indep']
        for side in ('dup', 'orig'):
            other = 'original' if side == 'dup' else 'duplicate'
            if not ind[side]['state_same']:
                return '%s after %s: changing the metadata of the %s changed the %s' % (how, case['ops'], 'duplicate' if side == 'dup' else 'original', other)
            if how != 'view' and (ind[side]['shares'] or not ind[side]['array_same']):
                return '%s after %s: event buffers are shared' % (how, case['ops'])
        if impl.get('untouched_dup_independent') is not True and 'untouched_dup_independent' in impl:
            return '%s after %s: keywords edited in the original after the duplicate was made show up in the duplicate (%s)' % (how, case['ops'], impl['untouched_dup_independent'])
        if impl.get('second_dup_equal') is not True and 'second_dup_equal' in impl:
            return '%s after %s: a second duplicate, taken after the keywords of a first duplicate were edited, differs from the original (%s)' % (
                how, case['ops'], impl['second_dup_equal'])
        return None

    def model_request(self, case, impl):
        if case['k'] != 'dup' or impl.get('skip') or 'err' in impl:
            return None
        return {'op': 'pickle', 'state': impl['orig']['state']}

    def compare(self, case, impl, model):
        if 'driver_error' in model:
            return 'driver: %s' % model['driver_error']
        want = model['unpickled'] if case['how'].startswith('pickle') else model['finalized']
        if want is None:
            return 'model: __setstate__ cannot restore the state packed by __reduce__ (a field is missing)'
        if want != impl['dup']['state']:
            diff = [(a, b) for a, b in zip(want, impl['dup']['state']) if a != b]
            return 'model %s vs impl: %s' % ('unpickle' if case['how'].startswith('pickle') else 'finalize', str(diff)[:200])
        return None

    def nontrivial_key(self, case, impl):
        if case['k'] == 'fileeq':
            return ('fileeq', case['flip'], (case.get('spec') or {'datatype': 'big' + case.get('big', {}).get('dt', '')})['datatype'], case.get('pos_frac'), 'diff_eq' in impl)
        if impl.get('skip') or 'err' in impl or not impl.get('changed_from_fresh'):
            return None
        return (tuple(case['ops']), case['how'], tuple(impl['changed_from_fresh']))

    def shrink_candidates(self, case):
        if case['k'] == 'dup':
            for i in range(len(case['ops'])):
                yield dict(case, ops=case['ops'][:i] + case['ops'][i + 1:], vals=case['vals'][:i] + case['vals'][i + 1:])
