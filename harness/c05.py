"""C05 — The density gate keeps the densest whole bins holding the requested share."""
import math
import struct

import numpy as np
import scipy.ndimage

import common
import fcsgen
import samples
import FlowCal


def bits(x):
    return struct.unpack('<Q', struct.pack('<d', float(x)))[0]


class Prop(common.PropertyCheck):
    pid = 'C05'
    rule = ("two-channel event sets (2..1500 events; continuous, heavily tied integers, clustered, uniform; with events outside, exactly on and just "
            "beyond the grid edges) x bin specifications (count, explicit edges, per-axis mixtures, sample-derived linear/log/logicle) x f in [0,1] incl. 0, 1 "
            "and k/n x scalar and per-axis smoothing widths x permutations: bin membership recomputed independently from the returned edges, the "
            "documented Gaussian smoothing recomputed with SciPy; lower bound, minimality, density order, atomicity, outside-never-kept, permutation "
            "invariance, monotonicity in f, replay with returned edges+mask, refusals. Non-trivial = distinct (data kind, bin kind, f class, sigma kind, "
            "has-outliers, tie-at-cut) tuples.")
    batch_size = 40
    assumptions = ["scipy.ndimage.gaussian_filter(H, sigma, order=0, mode='constant', cval=0, truncate=6) is the documented Gaussian smoothing",
                   "ties in smoothed density at the cut make the accepted set non-unique; the checker is tie tolerant"]

    def gen_cases(self):
        rng = self.rng
        for _ in range(self.budget(450, 4000)):
            n = rng.choice([2, 3, 10, 50, 200, 600, 1500])
            yield {'k': 'gate', 'n': n, 'data': rng.choice(['cont', 'ties', 'clusters', 'uniform', 'edgey']),
                   'cont': rng.choice(['array', 'array', 'sample']),
                   'bins': rng.choice(['count', 'edges', 'mixed', 'sample_linear', 'sample_log', 'sample_logicle', 'count2']),
                   'f': rng.choice(['0', '1', 'k/n', 'rand', 'rand', 'default']),
                   'sigma': rng.choice(['scalar', 'scalar', 'pair', 'small', 'pair_wide']), 'nan': rng.random() < 0.3, 'seed': rng.randrange(1 << 30)}
        # single-precision events lying on (the single-precision neighbours of) decimal bin edges
        for i in range(self.budget(12, 120)):
            yield {'k': 'gate', 'n': [60, 600, 200][i % 3], 'data': 'f32grid', 'cont': 'array', 'bins': 'dec_edges', 'f': ['1', 'rand', 'k/n', 'default'][i % 4],
                   'sigma': ['small', 'scalar'][i % 2], 'nan': False, 'seed': rng.randrange(1 << 30)}
        # grids of more than 4096 bins with exactly tied densities (a lattice, mirror symmetric): one fixed ranking serves every fraction
        for i in range(self.budget(6, 40)):
            yield {'k': 'gate', 'n': 6400, 'data': 'lattice', 'cont': 'array', 'bins': 'count80', 'f': ['0.1', '0.2', '0.3'][i % 3],
                   'sigma': ['tiny', 'three'][i % 2], 'nan': False, 'seed': rng.randrange(1 << 30)}
        # per-axis smoothing widths of which exactly one is zero (no smoothing along that axis only); infinite events
        for i in range(self.budget(40, 300)):
            yield {'k': 'gate', 'n': [50, 200, 600][i % 3], 'data': ['clusters', 'ties', 'cont', 'uniform'][i % 4], 'cont': 'array', 'bins': ['edges', 'count', 'mixed'][i % 3],
                   'f': ['rand', 'k/n', 'default'][i % 3], 'sigma': ['zero_x', 'zero_y'][i % 2], 'nan': i % 4 == 0, 'inf': i % 5 == 0, 'seed': rng.randrange(1 << 30)}
        # the same object gated twice with the same bins and smoothing, its events replaced in place in between: each answer follows the events present
        for i in range(self.budget(24, 200)):
            yield {'k': 'gate', 'n': [200, 600, 50][i % 3], 'data': ['clusters', 'cont', 'ties', 'uniform'][i % 4], 'cont': ['array', 'sample'][i % 2],
                   'bins': ['edges', 'sample_linear', 'edges', 'sample_logicle'][i % 4] if i % 2 else 'edges', 'f': ['rand', 'k/n', 'default'][i % 3],
                   'sigma': ['scalar', 'pair', 'small'][i % 3], 'nan': False, 'seed': rng.randrange(1 << 30), 'regate_same_object': True}
        # per-axis mixtures (explicit x edges, a bin count for y) on samples, with different scales for the two axes
        for i in range(self.budget(18, 150)):
            xs, ys = [('linear', 'logicle'), ('linear', 'log'), ('logicle', 'linear'), ('log', 'logicle')][i % 4]
            yield {'k': 'gate', 'n': [200, 50, 600][i % 3], 'data': ['clusters', 'cont', 'uniform'][i % 3], 'cont': 'sample', 'bins': 'mixed_rev', 'f': ['rand', 'k/n', 'default'][i % 3],
                   'sigma': ['scalar', 'small'][i % 2], 'nan': False, 'seed': rng.randrange(1 << 30), 'xscale': xs, 'yscale': ys}
        for what in ('one_event_bin_mask', 'no_event_bin_mask'):
            yield {'k': 'bad', 'what': what}
        for what in ('f<0', 'f>1', 'f<0 tiny', 'f>1 tiny', 'f<0 all outside', 'one_channel', 'three_channels', 'three_channels_two_distinct', 'four_channels_two_distinct', 'one_event'):
            yield {'k': 'bad', 'what': what}

    def make(self, case):
        r = np.random.RandomState(case['seed'] % (1 << 31))
        n = case['n']
        kind = case['data']
        if kind == 'cont':
            xy = r.lognormal(5, 0.6, size=(n, 2))
        elif kind == 'ties':
            xy = r.randint(0, 12, size=(n, 2)).astype(float) * 80
        elif kind == 'clusters':
            c = r.randint(0, 3, size=n)
            xy = np.abs(np.array([[100, 100], [400, 500], [800, 200]])[c] + r.normal(0, 30, size=(n, 2)))
        elif kind == 'uniform':
            xy = r.uniform(0, 1023, size=(n, 2))
        else:
            xy = r.uniform(0, 1023, size=(n, 2))
        cont = case['cont']
        bins_kind = case['bins']
        if bins_kind.startswith('sample'):
            cont = 'sample'
        elif kind == 'edgey':
            cont = 'array'
        data = xy
        if cont == 'sample':
            ev = np.clip(np.round(xy), 0, 1023).astype(int)
            spec = {'version': 'FCS3.0', 'delim': '/', 'datatype': 'I', 'byteord': '1,2,3,4', 'widths': [16, 16, 16],
                    'ranges': [1024, 1024, 1024], 'events': [[int(a), int(b), 7] for a, b in ev], 'names': ['FSC', 'SSC', 'FL1'],
                    'pne': {'1': '0,0', '2': '0,0', '3': '4,1'}}
            data, _ = samples.load(spec, name='c05.fcs')
            xy = ev.astype(float)
        # bins
        if bins_kind == 'count':
            bins = int(r.choice([2, 3, 5, 16, 33]))     # contour tracing (full_output) needs a grid of at least 2x2 bins
        elif bins_kind == 'count2':
            bins = [int(r.choice([2, 7, 16])), int(r.choice([3, 9, 20]))]
        elif bins_kind == 'edges':
            bins = [np.linspace(0, 1000, int(r.choice([3, 8, 21]))), np.sort(r.uniform(0, 1100, size=int(r.choice([4, 9, 15]))))]
        elif bins_kind == 'mixed':
            bins = [int(r.choice([4, 11])), np.linspace(-10, 900, int(r.choice([5, 12])))]
        elif bins_kind == 'mixed_rev':
            bins = [np.linspace(-10, 1100, int(r.choice([5, 12]))), int(r.choice([4, 11, 16]))]
        else:
            bins = int(r.choice([8, 16, 32]))
        if kind == 'edgey' and isinstance(bins, list) and not np.isscalar(bins[0]):
            xe = np.asarray(bins[0], dtype=float)
            k = min(n, 6)
            xy[:k, 0] = [xe[-1], xe[-1] * (1 + 2e-7), np.nextafter(xe[-1], np.inf), xe[0], np.nextafter(xe[0], -np.inf), xe[1]][:k]
            if cont != 'sample':
                data = xy
        if case.get('nan') and bins_kind == 'edges' and cont != 'sample' and n >= 3:
            # events without a value in one of the gated channels: they lie in no bin
            xy = np.array(xy, dtype=float)
            k = max(1, n // 12)
            xy[r.choice(n, size=k, replace=False), r.randint(0, 2)] = np.nan
            xy[r.randint(0, n), :] = np.nan
            data = xy
        if kind == 'lattice':
            g = np.stack(np.meshgrid(np.arange(80), np.arange(80), indexing='ij'), axis=-1).reshape(-1, 2).astype(float)
            xy = g[r.permutation(len(g))]
            data = xy
            bins = 80
        if kind == 'f32grid':
            g = (r.randint(0, 21, size=(n, 2)) * 0.1).astype(np.float32)
            data = g
            xy = g.astype(np.float64)
            bins = [np.linspace(0, 2, 21), np.linspace(0, 2, 11)]
        if case.get('inf') and cont != 'sample' and n >= 4 and bins_kind == 'edges':        # (bin counts need a finite data range to place the edges)
            xy = np.array(xy, dtype=float)
            xy[0, 0] = np.inf; xy[1, 1] = -np.inf; xy[n // 2, 0] = np.inf
            data = xy
        scale = {'sample_linear': 'linear', 'sample_log': 'log', 'sample_logicle': 'logicle'}.get(bins_kind, case.get('xscale', 'logicle'))
        fk = case['f']
        if fk in ('0.1', '0.2', '0.3'):
            f = float(fk)
        elif fk == '0':
            f = 0.0
        elif fk == '1':
            f = 1.0
        elif fk == 'k/n':
            f = float(r.randint(1, max(2, n))) / n
        elif fk == 'default':
            f = None
        else:
            f = float(r.uniform(0, 1))
        sk = case['sigma']
        if sk in ('zero_x', 'zero_y'):
            w = float(r.choice([2.0, 1.5, 3.0]))
            sigma = (0.0, w) if sk == 'zero_x' else (w, 0.0)
        elif sk in ('tiny', 'three'):
            sigma = 1e-4 if sk == 'tiny' else 3.0
        elif sk == 'pair_wide':
            # very unequal per-axis widths, the larger one beyond the grid size / 6
            sigma = (1.0, float(r.choice([8.0, 9.0, 12.0]))) if r.rand() < 0.5 else (float(r.choice([8.0, 9.0, 12.0])), 1.0)
        else:
            sigma = float(r.choice([1.0, 2.5, 10.0])) if sk == 'scalar' else (float(r.choice([0.5, 0.7])) if sk == 'small' else
                                                                               (float(r.choice([4.0, 3.0, 0.5])), float(r.choice([0.5, 0.0001, 2.0]))))
        return data, xy, bins, scale, f, sigma

    def gate(self, data, bins, scale, f, sigma, bin_mask=None, yscale=None):
        kw = dict(channels=[0, 1], bins=bins, xscale=scale, yscale=yscale or scale, sigma=sigma, full_output=True)
        if f is not None:
            kw['gate_fraction'] = f
        if bin_mask is not None:
            kw['bin_mask'] = bin_mask
        return FlowCal.gate.density2d(data, **kw)

    def run_impl(self, case):
        if case['k'] == 'bad':
            a = np.random.RandomState(1).uniform(0, 100, size=(50, 3))
            try:
                w = case['what']
                if w == 'f<0':
                    FlowCal.gate.density2d(a, [0, 1], bins=5, gate_fraction=-0.01)
                elif w == 'f>1':
                    FlowCal.gate.density2d(a, [0, 1], bins=5, gate_fraction=1.0001)
                elif w == 'f<0 tiny':
                    FlowCal.gate.density2d(a, [0, 1], bins=5, gate_fraction=-1e-9)
                elif w == 'f>1 tiny':
                    FlowCal.gate.density2d(a, [0, 1], bins=5, gate_fraction=float(np.nextafter(1.0, 2.0)))
                elif w == 'f<0 all outside':
                    FlowCal.gate.density2d(a, [0, 1], bins=[np.linspace(200, 300, 4), np.linspace(200, 300, 4)], gate_fraction=-0.5)
                elif w in ('one_event_bin_mask', 'no_event_bin_mask'):
                    # re-gating with a stored bin mask is subject to the same minimum number of events
                    full = FlowCal.gate.density2d(a, [0, 1], bins=5, gate_fraction=0.5, full_output=True)
                    FlowCal.gate.density2d(a[:1] if w == 'one_event_bin_mask' else a[:0], [0, 1], bins=[np.asarray(e, dtype=float) for e in full.bin_edges],
                                           bin_mask=np.asarray(full.bin_mask, dtype=bool))
                elif w == 'one_channel':
                    FlowCal.gate.density2d(a, [0], bins=5)
                elif w == 'three_channels':
                    FlowCal.gate.density2d(a, [0, 1, 2], bins=5)
                elif w == 'three_channels_two_distinct':
                    FlowCal.gate.density2d(a, [0, 1, 0], bins=5)
                elif w == 'four_channels_two_distinct':
                    FlowCal.gate.density2d(a, [1, 0, 1, 0], bins=5)
                else:
                    FlowCal.gate.density2d(a[:1], [0, 1], bins=5)
                return {'raised': None}
            except Exception as e:
                return {'raised': type(e).__name__}
        try:
            data, xy, bins, scale, f, sigma = self.make(case)
            import copy
            if case.get('regate_same_object'):
                # an earlier acquisition held in the same object: other events (the rows in reverse order, columns swapped, values mirrored inside
                # their span), gated with the same bins and smoothing; then the events of this case are written back into the object
                v = np.asarray(data)
                keep = v.copy()
                lo, hi = np.nanmin(keep[:, :2], axis=0), np.nanmax(keep[:, :2], axis=0)
                other = keep.copy()
                other[:, :2] = (lo + hi) - keep[::-1, :2]
                v[...] = other.astype(v.dtype)
                try:
                    self.gate(data, copy.deepcopy(bins), scale, f, sigma)
                except Exception:
                    pass
                v[...] = keep
            out = self.gate(data, copy.deepcopy(bins), scale, f, sigma, yscale=case.get('yscale'))
            if case.get('yscale') and isinstance(bins, list) and isinstance(bins[1], int) and hasattr(data, 'hist_bins'):
                # a per-axis mixture (explicit edges, bin count) with different scales: the generated axis uses the sample's bins on ITS scale
                want_ye = np.asarray(data.hist_bins(1, bins[1], case['yscale']), dtype=float)
                if not np.array_equal(np.asarray(out.bin_edges[1], dtype=float), want_ye):
                    return {'err': 'GridError:the y edges generated for bins=[edges, %d] with xscale=%s, yscale=%s are not the %s bins of the sample' % (bins[1], scale, case['yscale'], case['yscale'])}
        except Exception as e:
            return {'err': type(e).__name__ + ':' + str(e)[:100]}
        fe = 0.65 if f is None else f
        xe, ye = [np.asarray(e, dtype=float) for e in out.bin_edges]
        bm = np.asarray(out.bin_mask, dtype=bool)
        mask = np.asarray(out.mask, dtype=bool)
        n = xy.shape[0]
        # independent bin membership: e_i <= x < e_{i+1}, last bin closed on the right
        def member(v, e):
            idx = np.full(v.shape, -1)
            for i in range(len(e) - 1):
                hi = (v <= e[i + 1]) if i == len(e) - 2 else (v < e[i + 1])
                idx[(v >= e[i]) & hi] = i
            return idx
        xi, yi = member(xy[:, 0], xe), member(xy[:, 1], ye)
        inside = (xi >= 0) & (yi >= 0)
        H = np.zeros((len(xe) - 1, len(ye) - 1))
        for a, b in zip(xi[inside], yi[inside]):
            H[a, b] += 1
        n_in = int(inside.sum())
        t = int(math.ceil(fe * float(n_in)))
        sH = scipy.ndimage.gaussian_filter(H, sigma=sigma, order=0, mode='constant', cval=0.0, truncate=6.0)
        tot = np.sum(sH)
        D = sH / tot if tot != 0 else sH
        res = {'n': n, 'n_in': n_in, 't': t, 'f': fe, 'shape': list(H.shape), 'H': [int(v) for v in H.ravel()],
               'D': [bits(v) for v in D.ravel()], 'bin_mask': [bool(v) for v in bm.ravel()], 'bm_shape': list(bm.shape),
               'mask': [bool(v) for v in mask], 'inside': [bool(v) for v in inside],
               'event_bin': [int(a * H.shape[1] + b) if ok else -1 for a, b, ok in zip(xi, yi, inside)],
               'finiteD': bool(np.all(np.isfinite(D)))}
        # gated data == data[mask]
        res['gated_ok'] = bool(np.array_equal(np.asarray(out.gated_data), np.asarray(data)[mask]))
        # replay with the returned edges and mask
        try:
            rep = self.gate(data, [xe, ye], scale, f, sigma, bin_mask=bm)
            res['replay_same'] = bool(np.array_equal(np.asarray(rep.mask), mask))
        except Exception as e:
            res['replay_same'] = 'err:' + type(e).__name__
        # the stored gate applied to another sample (a few of the events only), then to the first sample again: the caller's mask and edges are the
        # caller's (unchanged), and the first sample is gated as before
        try:
            if n >= 4:
                bm_own = bm.copy(); ex_own, ey_own = xe.copy(), ye.copy()
                other = data[:max(2, n // 8)]
                self.gate(other, [ex_own, ey_own], scale, f, sigma, bin_mask=bm_own)
                if not np.array_equal(bm_own, bm) or not np.array_equal(ex_own, xe) or not np.array_equal(ey_own, ye):
                    res['replay_same'] = 'applying the stored gate to another sample changed the caller\'s %s' % ('bin mask' if not np.array_equal(bm_own, bm) else 'edges')
                else:
                    rep2 = self.gate(data, [ex_own, ey_own], scale, f, sigma, bin_mask=bm_own)
                    if not np.array_equal(np.asarray(rep2.mask), mask):
                        res['replay_same'] = 'after the stored gate was applied to another sample, re-gating the first sample keeps other events'
        except Exception as e:
            res['replay_same'] = 'err (stored gate on another sample):' + type(e).__name__
        # permutation
        try:
            r = np.random.RandomState(case['seed'] % 997)
            perm = r.permutation(n)
            outp = self.gate(data[perm], [xe, ye], scale, f, sigma)
            res['perm_same'] = bool(np.array_equal(np.asarray(outp.mask), mask[perm]))
            res['perm_tie'] = None
        except Exception as e:
            res['perm_same'] = 'err:' + type(e).__name__
        # monotone in f
        try:
            f2 = min(1.0, fe + (1 - fe) * 0.5 + 1e-9) if fe < 1 else 1.0
            out2 = self.gate(data, [xe, ye], scale, f2, sigma)
            res['mono'] = bool(np.all(np.asarray(out2.mask)[mask]))
        except Exception as e:
            res['mono'] = 'err:' + type(e).__name__
        return res

    def post(self):
        fcsgen.cleanup()

    def oracle(self, case, impl):
        if case['k'] == 'bad':
            return None if impl['raised'] == 'ValueError' else 'invalid request %s not refused with ValueError: %s' % (case['what'], impl['raised'])
        if 'err' in impl:
            return 'density2d raised %s for %s' % (impl['err'], {k: v for k, v in case.items()})
        H, bm, mask = impl['H'], impl['bin_mask'], impl['mask']
        if impl['bm_shape'] != impl['shape']:
            return 'bin mask shape %s differs from the histogram shape %s' % (impl['bm_shape'], impl['shape'])
        # atomicity and outside-never-kept
        for i, (m, b) in enumerate(zip(mask, impl['event_bin'])):
            if b < 0 and m:
                return 'event %d lies outside the binning grid but was kept' % i
            if b >= 0 and m != bm[b]:
                return 'event %d (bin %d) %s although its bin is %s' % (i, b, 'kept' if m else 'dropped', 'accepted' if bm[b] else 'rejected')
        kept = sum(mask)
        t = impl['t']
        if kept < t:
            return 'kept %d of %d in-grid events, fewer than ceil(f*n)=%d (f=%s)' % (kept, impl['n_in'], t, impl['f'])
        if t == 0 and kept != 0:
            return 'f*n = 0 but %d events kept' % kept
        if impl['f'] == 1.0 and kept != impl['n_in']:
            return 'f = 1 but only %d of %d in-grid events kept' % (kept, impl['n_in'])
        if impl['finiteD'] and t > 0:
            Dv = [struct.unpack('<d', struct.pack('<Q', b))[0] for b in impl['D']]
            keptb = [i for i, m in enumerate(bm) if m]
            dropb = [i for i, m in enumerate(bm) if not m]
            if keptb:
                dmin = min(Dv[i] for i in keptb)
                if dropb and max(Dv[i] for i in dropb) > dmin:
                    j = max(dropb, key=lambda i: Dv[i])
                    return 'a dropped bin (density %.6g) is denser than a kept bin (density %.6g)' % (Dv[j], dmin)
                if not any(Dv[i] == dmin and kept - H[i] < t for i in keptb):
                    return 'kept set is not minimal: dropping the least dense kept bin still leaves >= %d events (kept %d)' % (t, kept)
        if not impl['gated_ok']:
            return 'gated data is not the input restricted to the mask'
        if impl['replay_same'] is not True:
            return 're-gating with the returned bin edges and bin mask does not reproduce the mask (%s)' % impl['replay_same']
        if impl['mono'] is not True:
            return 'kept set does not grow with the gate fraction (%s)' % impl['mono']
        self._perm_pending = impl['perm_same']
        return None

    def model_request(self, case, impl):
        if case['k'] == 'bad' or 'err' in impl or not impl['finiteD']:
            return None
        if len(impl['H']) > 2500:
            return None         # the model's ranking is quadratic in the number of bins; large grids are judged by the oracle alone
        return {'op': 'density', 'H': impl['H'], 'D': impl['D'], 't': impl['t'], 'mask': impl['bin_mask']}

    def compare(self, case, impl, model):
        if 'driver_error' in model:
            return 'driver: ' + model['driver_error']
        if not (model['lower'] and model['minimal'] and model['ordered']):
            return 'model checker rejects the implementation bin mask: lower=%s minimal=%s ordered=%s' % (model['lower'], model['minimal'], model['ordered'])
        if model['strict']:
            if model['accept'] != impl['bin_mask']:
                # strict at the cut but ties may exist *inside* the accepted prefix or the dropped suffix only, which cannot change the set
                return 'strict density order at the cut but accepted set differs: impl %d bins vs model %d' % (sum(impl['bin_mask']), sum(model['accept']))
            if impl['perm_same'] is not True:
                return 'kept events depend on the order of events (permutation changed the mask: %s)' % impl['perm_same']
        else:
            self.exclude('tie in smoothed density at the cut (accepted set not unique)')
        return None

    def nontrivial_key(self, case, impl):
        if case['k'] == 'bad':
            return ('bad', case['what'])
        if 'err' in impl:
            return None
        return (case['data'], case['bins'], case['f'], case['sigma'], impl['n_in'] < impl['n'], min(case['n'], 100))
