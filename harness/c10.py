"""C10 — Excel results equal the documented library steps applied by hand."""
import warnings

import numpy as np
import pandas as pd

import common
import excelgen
import fingerprint as fpm
import FlowCal

UNITS = [None, 'Channel', 'RFI', 'a.u.', 'au', 'MEF', 'mef', ' Mef ', 'rfi', 'A.U.', 'CHANNEL', 'channel']


class Prop(common.PropertyCheck):
    pid = 'C10'
    rule = ("generated experiments (1..2 instruments with different channel names, integer and float files, scatter amplifier gain 1 or not, 1..2 bead rows, "
            "2..3 sample rows; float rows with negative / zero-clipped / positive fluorescence and with scatter events outside the declared range) x per-channel units from {empty, Channel, RFI, a.u., au, MEF and case/whitespace variants} x gate fractions x histogram "
            "sheet: every returned sample vs the documented steps composed by hand with the public library (bit for bit: events, ranges, channels), the "
            "statistics columns vs FlowCal.stats of that gated sample, event count, acquisition time, histogram rows vs np.histogram over the library's "
            "bin edges. Non-trivial = distinct (data type, units assignment, instrument, gate fraction) sample rows.")
    batch_size = 1
    assumptions = ["the numerical content of the library steps themselves is covered by C03/C05/C06/C08/C12; here only the orchestration is at stake",
                   "random label sampling inside clustering_gmm is made reproducible with np.random.seed before each bead row"]

    def gen_cases(self):
        rng = self.rng
        for i in range(self.budget(3, 40)):
            ninst = rng.choice([1, 1, 2])
            rows = []
            for j in range(rng.randrange(2, 4)):
                iid = 'FC001' if (ninst == 1 or rng.random() < 0.6) else 'FC002'
                rows.append({'iid': iid, 'units': [rng.choice(UNITS) for _ in range(3)], 'gf': rng.choice([0.85, 0.3, 1.0, 0.65]),
                             'nonneg': rng.choice([True, False, 'zero']), 'scatter_out': rng.random() < 0.5,
                             'time_order': rng.choice(['sorted', 'wrap', 'random'])})
            dt = rng.choice(['I', 'I', 'F', 'D'])
            rewrite = False
            if i % 3 == 0:
                # integer file whose time channel is a wrapping counter (first/last events are those of the event list, not of the clock)
                dt = 'I'
                rows[0].update({'iid': 'FC001', 'time_order': rng.choice(['wrap', 'random'])})
                rows[0]['units'][0] = rng.choice(['RFI', 'a.u.']); rows[0]['units'][1] = rng.choice(['Channel', 'RFI'])     # channels of resolution 1024 and 256
                rows[0]['units'][0] = ['AU', 'RFI', 'Au', 'a.u.', 'aU'][(i // 3) % 5]              # arbitrary units without the dots, in any letter case
                rewrite = True
                # the list of fluorescence channels is typed with a blank before the first and after the last name (integer data, log amplifiers);
                # row 0 gives units for both of them
                if rows[0]['units'][2] is None or rows[0]['units'][2].strip().lower() == 'channel':
                    rows[0]['units'][2] = 'RFI'
                # a row reporting one calibrated channel in MEF; the other calibrated channel, not reported in MEF, was acquired at another detector voltage
                rows[1].update({'iid': 'FC001', 'volt_other': {'FL3': 700}})
                rows[1]['units'][0] = ['MEF', 'mef'][i % 2]; rows[1]['units'][2] = [None, 'RFI', 'Channel'][(i // 3) % 3]
                # a row whose file does not exist stands first in the table (reported as an error); its units cells are filled in differently from the rows below
                rows.insert(0, {'iid': 'FC001', 'units': [None, 'RFI', None] if rows[0]['units'][0] is not None else ['RFI', None, 'a.u.'], 'gf': 0.5, 'nonneg': True, 'missing': True})
            elif i % 3 == 1:
                # double-precision file with events outside the declared range (no saturation gate for floating-point data)
                dt = 'D'
                rows[0].update({'nonneg': False, 'scatter_out': True})
            if i % 3 == 2:
                # two float rows reporting the same channel in the same units, one with and one without negative events
                dt = rng.choice(['F', 'D'])
                rows[0].update({'iid': 'FC001', 'nonneg': True}); rows[1].update({'iid': 'FC001', 'nonneg': False})
                rows[0]['units'][0] = rows[1]['units'][0] = rng.choice(['a.u.', 'RFI'])
                if len(rows) < 3:
                    rows.append({'iid': 'FC001', 'units': [rng.choice(UNITS) for _ in range(3)], 'gf': 1.0, 'nonneg': 'zero', 'scatter_out': True})
                # and a float row gated at fraction 1 with scatter events outside the declared range, fluorescence clipped at zero
                rows[-1].update({'gf': rng.choice([1.0, 1]), 'scatter_out': True, 'nonneg': 'zero'})
                rows[-1]['units'][1] = rng.choice(['a.u.', 'RFI', 'Channel'])
                # every event of the last row was recorded at the same clock tick: its acquisition time is exactly zero
                rows[-1]['time_order'] = 'const'
                # a large sample with two non-positive events among thousands (the share of positive events rounds to 100.0 %): the note is written all the same
                rows.append({'iid': 'FC001', 'units': ['a.u.', 'RFI', None], 'gf': 1.0, 'nonneg': True, 'scatter_out': False, 'n': 5000, 'few_nonpos': True})
            if i % 2 == 1:
                rows[-1]['n'] = 400        # exactly the documented minimum number of events: analysed like any other file

            yield {'scatter_res': 256 if i % 3 == 1 or (i % 3 == 0 and i % 2 == 1) else None, 'odd_headers': i % 2 == 0, 'seed': rng.randrange(1 << 30), 'datatype': dt, 'ninst': ninst,
                   'scatter_gain': rng.choice([None, None, 2, 0.5]), 'rows': rows, 'rewrite': rewrite, 'mixed_res': dt == 'I' and i % 3 == 0, 'fl_pad': i % 3 == 0}

    def run_impl(self, case):
        ex = excelgen.Experiment(case['seed'], datatype=case['datatype'], instruments=case['ninst'], scatter_gain=case['scatter_gain'],
                                 mixed_res=case.get('mixed_res', False))
        if case.get('scatter_res'):
            ex.scatter_res = case['scatter_res']
        if case.get('fl_pad'):
            ex.fl_pad = (' ', '  ')
        try:
            return self._run(case, ex)
        except Exception as e:
            import traceback
            return {'harness_err': traceback.format_exc()[-500:]}
        finally:
            ex.cleanup()

    def _run(self, case, ex):
        inst = ex.instruments_table()
        ex.write_fcs('beads1.fcs', 'FC001', kind='beads', n=1400, voltage=450, seed=case['seed'] % 1000 + 1)
        brow = [excelgen.beads_row('B1', 'FC001', 'beads1.fcs', channels=('FL1', 'FL3'), clustering=('FL1', 'FL3'))]
        if case['ninst'] == 2:
            ex.write_fcs('beads2.fcs', 'FC002', kind='beads', n=1400, voltage=450, seed=case['seed'] % 1000 + 2)
            brow.append(excelgen.beads_row('B2', 'FC002', 'beads2.fcs', channels=('GFP-A',), mef={'GFP-A': excelgen.MEF_VALUES['FL1']}))
        # a further beads row of the first instrument with other manufacturer values (another calibration), listed last: no sample refers to it
        brow.append(excelgen.beads_row('B9', 'FC001', 'beads1.fcs', channels=('FL1', 'FL3'), clustering=('FL1', 'FL3'),
                                       mef={'FL1': excelgen.MEF_VALUES['FL2'], 'FL3': excelgen.MEF_VALUES['FL1']}))
        beads_table = excelgen.table(brow)
        srow, facts = [], []
        for j, r in enumerate(case['rows']):
            iid = r['iid']
            fl = ex.inst[iid]['fl']
            fn = 's%d.fcs' % j
            if r.get('missing'):
                fn = 'missing_%d.fcs' % j
            else:
              ex.write_fcs(fn, iid, n=r.get('n', 700), voltage=450, seed=case['seed'] % 1000 + 10 + j, nonneg=r['nonneg'], scatter_out=r.get('scatter_out', False), time_order=r.get('time_order', 'sorted'),
                         voltages=r.get('volt_other'), few_nonpos=r.get('few_nonpos', False))
            units = {}
            for c, u in zip(fl, r['units']):
                cal = ('FL1', 'FL3') if iid == 'FC001' else ('GFP-A',)
                if u is not None and u.strip().lower() == 'mef' and c not in cal:
                    u = 'RFI'
                if u is not None and u.strip().lower() == 'mef' and case['datatype'] != 'I':
                    u = 'a.u.'        # float files have linear amplifiers; the bead files here are calibrated on log-amplified channels
                units[c] = u
            srow.append(excelgen.sample_row('S%d' % j, iid, fn, {c: u for c, u in units.items() if u is not None},
                                            'B1' if iid == 'FC001' else 'B2', gate_fraction=r['gf']))
            facts.append({'iid': iid, 'units': units, 'file': fn, 'gf': r['gf'], 'missing': bool(r.get('missing'))})
        allcols = ['Instrument ID', 'Beads ID', 'File Path', 'Gate Fraction'] + ['%s Units' % c for d in ex.inst.values() for c in d['fl']]
        samples_table = excelgen.table(srow, columns=allcols)
        if case.get('odd_headers'):
            # headers as typed in a spreadsheet: blanks around the channel name and before "Units" (all match the documented header pattern)
            odd = {'FL1 Units': 'FL1  Units', 'FL2 Units': ' FL2 Units ', 'FL3 Units': 'FL3 Units  ', 'GFP-A Units': 'GFP-A   Units'}
            samples_table = samples_table.rename(columns=odd)
        with warnings.catch_warnings():
            warnings.simplefilter('ignore')
            np.random.seed(5)
            if case['datatype'] == 'I':
                bs, fx, mo = FlowCal.excel_ui.process_beads_table(beads_table, inst, base_dir=ex.dir, full_output=True)
            else:
                bs, fx, mo = {}, {'B1': None, 'B2': None}, {}
                beads_table = excelgen.table([excelgen.beads_row('B1', 'FC001', 'beads1.fcs', channels=()), excelgen.beads_row('B2', 'FC001', 'beads1.fcs', channels=())])
                bs, fx, mo = FlowCal.excel_ui.process_beads_table(beads_table, inst, base_dir=ex.dir, full_output=True)
            FlowCal.excel_ui.add_beads_stats(beads_table, bs, mo)
        def analyse():
            with warnings.catch_warnings():
                warnings.simplefilter('ignore')
                res = FlowCal.excel_ui.process_samples_table(samples_table, inst, mef_transform_fxns=fx, beads_table=beads_table, base_dir=ex.dir)
                FlowCal.excel_ui.add_samples_stats(samples_table, res)
                hist = FlowCal.excel_ui.generate_histograms_table(samples_table, res)
            out = {'rows': []}
            for j, f in enumerate(facts):
                sid = 'S%d' % j
                d = ex.inst[f['iid']]
                got = res[sid]
                rowout = {'sid': sid, 'missing': f['missing'], 'facts': {'fsc': d['fsc'], 'ssc': d['ssc'], 'fl': d['fl'], 'units': [[c, f['units'][c]] for c in d['fl']],
                                                'integer': case['datatype'] == 'I'}}
                if isinstance(got, Exception):
                    rowout['err'] = str(got)
                    out['rows'].append(rowout)
                    continue
                # ---- the documented steps, by hand
                steps = []
                with warnings.catch_warnings():
                    warnings.simplefilter('ignore')
                    s = FlowCal.io.FCSData(ex.dir + '/' + f['file'])
                    sc = [d['fsc'], d['ssc']]
                    s = FlowCal.transform.to_rfi(s, sc); steps.append(['to_rfi', sc])
                    report = []
                    for c in d['fl']:
                        u = f['units'][c]
                        if u is None:
                            continue
                        ul = u.strip().lower()
                        if ul in ('rfi', 'a.u.', 'au'):
                            s = FlowCal.transform.to_rfi(s, c); steps.append(['to_rfi', [c]])
                        elif ul == 'mef':
                            s = FlowCal.transform.to_rfi(s, c); steps.append(['to_rfi', [c]])
                            # (the calibration of the referenced beads row as the library reports it for that row, not the function handed to the samples table)
                            bid = 'B1' if f['iid'] == 'FC001' else 'B2'
                            hand = mo[bid].transform_fxn if (bid in mo and mo[bid] is not None) else fx[bid]
                            s = hand(s, c); steps.append(['to_mef', c])
                        report.append(c)
                    g = FlowCal.gate.start_end(s, num_start=250, num_end=100); steps.append(['start_end', 250, 100])
                    if case['datatype'] == 'I':
                        g = FlowCal.gate.high_low(g, sc + report); steps.append(['high_low', sc + report])
                    g = FlowCal.gate.density2d(g, channels=sc, gate_fraction=f['gf'], xscale='logicle', yscale='logicle'); steps.append(['density2d', sc])
                rowout['steps'] = steps
                fa, fb = fpm.sample_fp(got), fpm.sample_fp(g)
                rowout['same_sample'] = (fa['array'] == fb['array'] and fa['state'] == fb['state'])
                if not rowout['same_sample']:
                    rowout['diff'] = [x[0] for x, y in zip(fa['state'], fb['state']) if x != y] or ['events %s vs %s' % (fa['array']['shape'], fb['array']['shape'])]
                # ---- statistics columns
                probs = []
                tr = samples_table.loc[sid]
                if int(tr['Number of Events']) != g.shape[0]:
                    probs.append('Number of Events %s vs %d' % (tr['Number of Events'], g.shape[0]))
                at = g.acquisition_time
                if not (abs(float(tr['Acquisition Time (s)']) - at) <= 1e-9 * max(1, abs(at))):
                    probs.append('Acquisition Time %s vs %s' % (tr['Acquisition Time (s)'], at))
                note = str(tr['Analysis Notes'])
                for c in report:
                    col = np.asarray(g[:, c])
                    pos = g[np.asarray(g[:, c]) > 0] if np.any(col <= 0) else g
                    if np.any(col <= 0) and ('Geometric statistics for channel %s calculated on positive events' % c) not in note:
                        probs.append('no note about positive-only geometric statistics for %s' % c)
                    with warnings.catch_warnings():
                        warnings.simplefilter('ignore')
                        want = {' Mean': FlowCal.stats.mean(g, c), ' Median': FlowCal.stats.median(g, c), ' Mode': FlowCal.stats.mode(g, c),
                                ' Std': FlowCal.stats.std(g, c), ' CV': FlowCal.stats.cv(g, c), ' IQR': FlowCal.stats.iqr(g, c), ' RCV': FlowCal.stats.rcv(g, c),
                                ' Geom. Mean': FlowCal.stats.gmean(pos, c), ' Geom. Std': FlowCal.stats.gstd(pos, c), ' Geom. CV': FlowCal.stats.gcv(pos, c)}
                    for k, w in want.items():
                        v = float(tr[c + k]); w = float(w)
                        if not (v == w or (np.isnan(v) and np.isnan(w)) or abs(v - w) <= 1e-12 * abs(w)):
                            probs.append('%s%s = %r, library statistic of the gated sample = %r' % (c, k, v, w))
                    # ---- histogram rows
                    unit = f['units'][c]
                    scale = 'linear' if unit == 'Channel' else 'logicle'
                    nb = min(g.resolution(c), 1024)
                    be = g.hist_bins(c, 2 * nb, scale)
                    edges = be[::2]
                    cnt, _ = np.histogram(col, bins=edges)
                    try:
                        hrow = hist.loc[(sid, c, 'Counts')]
                        hv = np.asarray(hrow.values[:len(cnt)], dtype=float)
                        if not np.array_equal(hv, cnt.astype(float)):
                            probs.append('histogram counts of %s differ from the histogram over the library bin edges' % c)
                        inside = int(np.sum((col >= edges[0]) & (col <= edges[-1])))
                        if int(np.nansum(hv)) != inside:
                            probs.append('histogram counts of %s sum to %d, %d events lie within the edges' % (c, int(np.nansum(hv)), inside))
                        centers = np.asarray(hist.loc[(sid, c, 'Bin Centers (%s)' % unit)].values[:len(cnt)], dtype=float)
                        if not np.array_equal(centers, np.asarray(be[1::2], dtype=float)):
                            probs.append('histogram bin centres of %s differ from the library bin centres' % c)
                    except KeyError:
                        probs.append('no histogram row for %s %s' % (sid, c))
                rowout['problems'] = probs
                out['rows'].append(rowout)
            return out
        out = analyse()
        if case['datatype'] == 'I':
            # the same table processed through the API without the optional beads table (only the transformation functions are given): the same samples
            with warnings.catch_warnings():
                warnings.simplefilter('ignore')
                res_a = FlowCal.excel_ui.process_samples_table(samples_table, inst, mef_transform_fxns=fx, beads_table=beads_table, base_dir=ex.dir)
                res_b = FlowCal.excel_ui.process_samples_table(samples_table, inst, mef_transform_fxns=fx, base_dir=ex.dir)
            for sid in res_a:
                a, b = res_a[sid], res_b[sid]
                if isinstance(a, Exception) or isinstance(b, Exception):
                    same = isinstance(a, Exception) and isinstance(b, Exception)
                else:
                    fa, fb = fpm.sample_fp(a), fpm.sample_fp(b)
                    same = fa['array'] == fb['array'] and fa['state'] == fb['state']
                if not same:
                    for r in out['rows']:
                        if r['sid'] == sid:
                            r.setdefault('problems', []).append('processed without the optional beads table the row gives another sample than with it (%s)' % (
                                'one of them is an error' if isinstance(a, Exception) or isinstance(b, Exception) else 'events or metadata differ'))
        if case.get('rewrite'):
            # the first sample file is replaced by another acquisition of the same size at the same path; the analysis is run again in this process
            j0 = next(j for j, f in enumerate(facts) if not f['missing'])
            f0 = facts[j0]
            ex.write_fcs(f0['file'], f0['iid'], n=700, voltage=450, seed=case['seed'] % 1000 + 777, nonneg=case['rows'][j0]['nonneg'],
                         scatter_out=case['rows'][j0].get('scatter_out', False), time_order=case['rows'][j0].get('time_order', 'sorted'))
            out2 = analyse()
            for r in out2['rows']:
                r['sid'] = r['sid'] + ' (second analysis, after the file at the same path was replaced)'
            out['rows'] += out2['rows']
        return out

    def oracle(self, case, impl):
        if 'harness_err' in impl:
            return 'workflow raised: ' + impl['harness_err']
        for r in impl['rows']:
            if r.get('missing'):
                if 'err' not in r or 'not found' not in r['err']:
                    return 'row %s names a file that does not exist but was not reported as such: %s' % (r['sid'], r.get('err', 'processed'))
                continue
            if 'err' in r:
                return 'healthy row %s reported an error: %s' % (r['sid'], r['err'])
            if not r['same_sample']:
                return 'row %s (units %s): returned sample differs from the hand composition in %s' % (r['sid'], r['facts']['units'], r.get('diff'))
            if r['problems']:
                return 'row %s (units %s): %s' % (r['sid'], r['facts']['units'], r['problems'][:2])
        return None

    def model_request(self, case, impl):
        if 'harness_err' in impl or not impl['rows']:
            return None
        return {'op': 'sample_plan', **next(r for r in impl['rows'] if not r.get('missing'))['facts']}

    def compare(self, case, impl, model):
        if 'driver_error' in model:
            return 'driver: ' + model['driver_error']
        r = next(r for r in impl['rows'] if not r.get('missing'))
        if 'fault' in model:
            return None if 'err' in r else 'model fault %s vs implementation result' % model['fault']
        if 'err' in r:
            return 'implementation error %s vs model plan' % r['err']
        if model['plan'] != r['steps']:
            return 'plan: model %s vs the steps that reproduce the implementation %s' % (model['plan'], r['steps'])
        return None

    def nontrivial_key(self, case, impl):
        return (case['datatype'], case['ninst'], str(case['scatter_gain']), tuple((r['iid'], tuple(map(str, r['units'])), r['gf'], str(r['nonneg']), r.get('scatter_out'), r.get('time_order')) for r in case['rows']))
