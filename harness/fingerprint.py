"""Bit-exact, JSON-able fingerprints of FlowCal objects and plain containers."""
import hashlib

import numpy as np

import FlowCal

FIELDS = ['infile', 'text', 'analysis', 'data_type', 'time_step', 'acquisition_start_time', 'acquisition_end_time',
          'channels', 'amplification_type', 'detector_voltage', 'amplifier_gain', 'channel_labels', 'range', 'resolution']


def fval(v):
    """canonical string of a metadata value (floats bit-exact)"""
    if isinstance(v, float):
        return 'f:' + v.hex()
    if isinstance(v, (np.floating,)):
        return 'f:' + float(v).hex()
    if isinstance(v, (bool, np.bool_)):
        return 'b:%s' % bool(v)
    if isinstance(v, (int, np.integer)):
        return 'i:%d' % int(v)
    if isinstance(v, dict):
        return '{' + ','.join('%s=%s' % (fval(k), fval(x)) for k, x in sorted(v.items(), key=lambda kv: str(kv[0]))) + '}'
    if isinstance(v, (list, tuple)):
        return ('[' if isinstance(v, list) else '(') + ','.join(fval(x) for x in v) + (']' if isinstance(v, list) else ')')
    if isinstance(v, np.ndarray):
        return 'nd:%s:%s:%s' % (v.dtype.str, v.shape, hashlib.md5(np.ascontiguousarray(v).tobytes()).hexdigest())
    return type(v).__name__ + ':' + str(v)


def array_fp(a):
    a = np.asarray(a)
    return {'dtype': a.dtype.str, 'shape': list(a.shape), 'md5': hashlib.md5(np.ascontiguousarray(a).tobytes()).hexdigest()}


def state(d):
    """[[attr, fingerprint]] for the FCSData-specific attributes, in the order of FIELDS"""
    return [[f, fval(getattr(d, '_' + f, '<missing>'))] for f in FIELDS]


def sample_fp(d):
    out = {'type': type(d).__name__, 'array': array_fp(d)}
    if isinstance(d, FlowCal.io.FCSData):
        out['state'] = state(d)
        # attributes the source may have grown since the model was written
        try:
            out['extra'] = sorted([k, fval(v)] for k, v in vars(d).items() if k.lstrip('_') not in FIELDS)
        except TypeError:
            out['extra'] = []
    return out


def any_fp(x):
    if isinstance(x, FlowCal.io.FCSData):
        return sample_fp(x)
    if isinstance(x, np.ndarray):
        return {'type': 'ndarray', 'array': array_fp(x)}
    if isinstance(x, (list, tuple)):
        return {'type': type(x).__name__, 'items': [any_fp(i) for i in x]}
    if isinstance(x, dict):
        return {'type': 'dict', 'items': [[str(k), any_fp(v)] for k, v in sorted(x.items(), key=lambda kv: str(kv[0]))]}
    return {'type': type(x).__name__, 'v': fval(x) if isinstance(x, (int, float, str, bool, type(None), np.generic)) else repr(x)[:80]}
