"""C11 — In a batch, a failing row is reported in place and does not affect other rows."""
import copy
import os
import warnings

import numpy as np
import pandas as pd

import common
import excelgen
import fingerprint as fpm
import FlowCal

SAMPLE_FAULTS = {
    'file_not_found': 'not found', 'too_few_events': 'lower than 400', 'gate_fraction': 'gate fraction', 'units': 'not recognized',
    'beads_without_curve': 'not available', 'channel_without_curve': 'no standard curve', 'other_instrument': 'Instruments for',
    'amplifier': 'Amplification type', 'voltage': 'Detector voltage', 'beads_failed': 'not available',
    'too_few_events_380': 'lower than 400', 'too_few_events_399': 'lower than 400', 'path_is_directory': 'not found', 'path_through_file': 'not found', 'gate_fraction_tiny': 'gate fraction', 'gate_fraction_above': 'gate fraction', 'units_near_miss': 'not recognized'}
BEADS_FAULTS = {'file_not_found': 'not found', 'too_few_events': 'lower than 400', 'gate_fraction': 'gate fraction', 'unequal_mef': 'same number'}


FAULT_OF_MESSAGE = [('not found', 'fileNotFound'), ('lower than 400', 'tooFewEvents'), ('gate fraction', 'gateFraction'), ('not recognized', 'unitsNotRecognized'),
                    ('not available', 'mefNotAvailable'), ('no standard curve', 'noCurveForChannel'), ('Instruments for', 'otherInstrument'),
                    ('Amplification type', 'amplificationType'), ('Detector voltage', 'detectorVoltage')]
FILES = {'sperm.fcs': 600, 'sv500.fcs': 600, 's0.fcs': 600, 's1.fcs': 600, 'nope.fcs': None, 'small.fcs': 120, 'volt.fcs': 600, 'volt0.fcs': 600, 'lin.fcs': 600, 'n380.fcs': 380, 'n399.fcs': 399, 'n400.fcs': 400, 'linf.fcs': 600, 't0.fcs': 600, 't1.fcs': 600, 'decoy.fcs': None}
UNIT_CELLS = [None, None, 'MEF', 'mef', 'Mef', 'a.u.', 'AU', 'RFI', 'rfi', 'Channel', 'furlongs', 'MEFL', '', 'a.u', '.au', 'u', 'rf', 'me', 'hannel', ' ']


def fault_of(msg):
    for frag, name in FAULT_OF_MESSAGE:
        if frag in msg:
            return name
    return 'other:' + msg[:60]


def row_facts(spec, beads_table=True):
    """what the harness knows about a generated row, in the vocabulary of the model's decision table"""
    chans = []
    for c in ('FL1', 'FL2', 'FL3'):
        u = spec['units'].get(c)
        if u is None:
            continue
        chans.append({'units': u, 'fxn': spec['beads'] in ('B1', 'B1b', 'BI2', 'BNOV', 'BV'), 'same_inst': {'BI2': 'FC002'}.get(spec['beads'], 'FC001') == spec.get('iid', 'FC001'),
                      'has_mef': (spec['beads'] in ('B1', 'B1b', 'BNOV') and c in ('FL1', 'FL2')) or (spec['beads'] == 'BV' and c == 'FL3'), 'amp': spec['file'] not in ('lin.fcs', 'linf.fcs'),
                      # the sample records a voltage; the beads record another one, or none at all
                      # (beads row BV: acquired at 500 V in FL1 and 700 V in FL3, calibrated in FL3 only; every sample here is acquired at one voltage in all channels)
                      'volt': spec['file'] not in ('volt.fcs', 'volt0.fcs') and spec['beads'] not in ('BNOV', 'BV')})
    n = FILES[spec['file']]
    return {'file_found': n is not None, 'n_events': n or 0, 'beads_table': beads_table, 'gate_ok': spec['gate'] == 'ok', 'channels': chans}


class Setup:
    """one experiment: files, a processed beads table, instruments table"""

    def __init__(self, seed):
        ex = excelgen.Experiment(seed, datatype='I', instruments=2)
        self.ex = ex
        ex.write_fcs('beads1.fcs', 'FC001', kind='beads', n=1400, voltage=450, seed=seed + 1)
        ex.write_fcs('beads2.fcs', 'FC002', kind='beads', n=1400, voltage=450, seed=seed + 2)
        ex.write_fcs('small_beads.fcs', 'FC001', kind='beads', n=300, seed=seed + 3)
        for i in range(3):
            ex.write_fcs('s%d.fcs' % i, 'FC001', n=600, voltage=450, seed=seed + 10 + i)
        ex.write_fcs('small.fcs', 'FC001', n=120, seed=seed + 20)
        ex.write_fcs('n380.fcs', 'FC001', n=380, seed=seed + 23)        # between the gate's own limit (350) and the documented 400
        ex.write_fcs('n399.fcs', 'FC001', n=399, seed=seed + 24)
        ex.write_fcs('n400.fcs', 'FC001', n=400, seed=seed + 26)        # exactly the documented minimum: a healthy row
        ex.write_fcs('t0.fcs', 'FC002', n=600, voltage=450, seed=seed + 28)        # samples of the second instrument
        ex.write_fcs('t1.fcs', 'FC002', n=600, voltage=450, seed=seed + 29)
        ex.datatype = 'F'
        ex.write_fcs('linf.fcs', 'FC001', n=600, voltage=450, seed=seed + 27)        # a floating-point file (linear amplifiers) against log-amplified beads
        ex.datatype = 'I'
        ex.write_fcs('volt.fcs', 'FC001', n=600, voltage=620, seed=seed + 21)
        ex.write_fcs('volt0.fcs', 'FC001', n=600, voltage=0, seed=seed + 25)        # a recorded voltage of zero is a voltage, and differs from the beads'
        ex.write_fcs('lin.fcs', 'FC001', n=600, voltage=450, log_fl=False, seed=seed + 22)
        ex.write_fcs('sperm.fcs', 'FC001', n=600, voltage=450, seed=seed + 32, col_perm=[0, 1, 4, 3, 2, 5])      # FL3 and FL1 stored in each other's columns
        ex.write_fcs('beads_v.fcs', 'FC001', kind='beads', n=1400, voltage=450, voltages={'FL1': 500, 'FL3': 700}, seed=seed + 1)
        ex.write_fcs('sv500.fcs', 'FC001', n=600, voltage=500, seed=seed + 31)
        ex.write_fcs('beads_nov.fcs', 'FC001', kind='beads', n=1400, voltage=None, seed=seed + 1)      # a beads file that does not record detector voltages
        import os as _os
        _os.makedirs(_os.path.join(ex.dir, 'subdir'), exist_ok=True)
        ex.inst['FC003'] = dict(ex.inst['FC001'])      # a second cytometer of the same model: same channel names, another instrument
        self.instruments = ex.instruments_table()
        rows = [excelgen.beads_row('B1', 'FC001', 'beads1.fcs', channels=('FL1', 'FL2'), clustering=('FL1',)),
                excelgen.beads_row('B1b', 'FC001', 'beads1.fcs', channels=('FL1', 'FL2'), clustering=('FL1',),
                                   mef={'FL1': '400, 1400, 5000, 18000, 64000', 'FL2': 'None, 1800, 6000, 22000, 80000'}),
                excelgen.beads_row('BNOMEF', 'FC001', 'beads1.fcs', channels=()),
                excelgen.beads_row('BI2', 'FC002', 'beads2.fcs', channels=('GFP-A',), mef={'GFP-A': '200, 700, 2500, 9000, 32000'}),
                excelgen.beads_row('BFAIL', 'FC001', 'missing_beads.fcs', channels=('FL1',)),
                excelgen.beads_row('BNOV', 'FC001', 'beads_nov.fcs', channels=('FL1', 'FL2'), clustering=('FL1',)),
                # calibrated in FL3 only (its FL1 and FL2 cells stay empty), detectors at different voltages
                excelgen.beads_row('BV', 'FC001', 'beads_v.fcs', channels=('FL3',), clustering=('FL3',))]
        self.beads_table = excelgen.table(rows)
        np.random.seed(3)
        with warnings.catch_warnings():
            warnings.simplefilter('ignore')
            self.beads_samples, self.fxns, self.mef_outputs = FlowCal.excel_ui.process_beads_table(
                self.beads_table, self.instruments, base_dir=ex.dir, full_output=True)
            FlowCal.excel_ui.add_beads_stats(self.beads_table, self.beads_samples, self.mef_outputs)
        self.single_cache = {}

    def row(self, sid, kind, healthy_idx=0, healthy_units=None):
        R = excelgen.sample_row
        u = healthy_units or {'FL1': 'MEF', 'FL2': 'a.u.'}
        if kind == 'ok':
            return R(sid, 'FC001', 's%d.fcs' % healthy_idx, u, 'B1', extra={'Strain': 'h%d' % healthy_idx})
        if kind == 'file_not_found':
            return R(sid, 'FC001', 'nope.fcs', u, 'B1')
        if kind == 'too_few_events':
            return R(sid, 'FC001', 'small.fcs', u, 'B1')
        if kind == 'too_few_events_380':
            return R(sid, 'FC001', 'n380.fcs', u, 'B1')
        if kind == 'too_few_events_399':
            return R(sid, 'FC001', 'n399.fcs', u, 'B1')
        if kind == 'path_is_directory':
            return R(sid, 'FC001', 'subdir', u, 'B1')                  # names an existing directory
        if kind == 'path_through_file':
            return R(sid, 'FC001', 's0.fcs/inner.fcs', u, 'B1')        # runs through a regular file
        if kind == 'gate_fraction':
            return R(sid, 'FC001', 's0.fcs', u, 'B1', gate_fraction=1.5)
        if kind == 'units':
            return R(sid, 'FC001', 's0.fcs', {'FL1': 'furlongs'}, 'B1')
        if kind == 'gate_fraction_tiny':
            return R(sid, 'FC001', 's0.fcs', u, 'B1', gate_fraction=-1e-6)
        if kind == 'gate_fraction_above':
            return R(sid, 'FC001', 's0.fcs', u, 'B1', gate_fraction=float(np.nextafter(1.0, 2.0)))
        if kind == 'units_near_miss':
            return R(sid, 'FC001', 's0.fcs', {'FL1': ['a.u', '.au', 'u', 'me', 'rf', 'channe', 'MEFL', 'a.u.au'][sum(map(ord, sid)) % 8]}, 'B1')
        if kind == 'beads_without_curve':
            return R(sid, 'FC001', 's0.fcs', {'FL1': 'MEF'}, 'BNOMEF')
        if kind == 'beads_failed':
            return R(sid, 'FC001', 's0.fcs', {'FL1': 'MEF'}, 'BFAIL')
        if kind == 'channel_without_curve':
            return R(sid, 'FC001', 's0.fcs', {'FL3': 'MEF'}, 'B1')
        if kind == 'other_instrument':
            return R(sid, 'FC001', 's0.fcs', {'FL1': 'MEF'}, 'BI2')
        if kind == 'amplifier':
            return R(sid, 'FC001', 'lin.fcs', {'FL1': 'MEF'}, 'B1')
        if kind == 'voltage':
            return R(sid, 'FC001', 'volt.fcs', {'FL1': 'MEF'}, 'B1')
        raise ValueError(kind)

    def process(self, rows, table=None, no_table=False, bare_table=False):
        st = table if table is not None else excelgen.table(rows, columns=['Instrument ID', 'Beads ID', 'File Path', 'Gate Fraction', 'FL1 Units', 'FL2 Units', 'FL3 Units'])
        np.random.seed(11)
        with warnings.catch_warnings():
            warnings.simplefilter('ignore')
            if no_table:
                # the optional beads table left out: the transformation functions alone decide what can be converted
                res = FlowCal.excel_ui.process_samples_table(st, self.instruments, mef_transform_fxns=self.fxns, base_dir=self.ex.dir)
            else:
                bt = self.beads_table
                if bare_table:
                    # a beads table holding the documented fields only (no 'Analysis Notes' column)
                    bt = bt.drop(columns=[c for c in bt.columns if c == 'Analysis Notes'])
                res = FlowCal.excel_ui.process_samples_table(st, self.instruments, mef_transform_fxns=self.fxns, beads_table=bt,
                                                             base_dir=self.ex.dir)
        return st, res


class Prop(common.PropertyCheck):
    pid = 'C11'
    rule = ("sample tables of 0..5 rows over generated FCS files x assignments of {healthy, each documented fault kind} to rows (all single-fault tables, "
            "random multi-fault tables, permuted orders) and bead tables with each bead fault kind: no abort, result keys = row identifiers in table order, "
            "faulty rows carry the documented error, healthy rows are bit-identical to their single-row runs, output tables show 'ERROR:' notes with empty "
            "statistics. Non-trivial = distinct (fault assignment vector) tables containing at least one fault.")
    batch_size = 4
    assumptions = ["the numerical content of healthy rows is compared against single-row runs of the same code (isolation), not re-derived here (C10 does that)"]

    def __init__(self, *a):
        super().__init__(*a)
        self._setup = None

    def setup(self):
        if self._setup is None:
            self._setup = Setup(1234)
        return self._setup

    def gen_cases(self):
        rng = self.rng
        kinds = list(SAMPLE_FAULTS)
        yield {'k': 'empty'}
        yield {'k': 'beads'}
        # the same table analysed twice: rows that were healthy the first time fail the second time
        for f in (['file_not_found', 'gate_fraction'], ['units']):
            yield {'k': 'twice', 'second': f}
        # floating-point samples with non-positive events (notes about geometric statistics) after / between failing rows
        for order in (['fail', 'neg', 'pos', 'neg'], ['neg', 'fail', 'fail', 'neg', 'pos']):
            yield {'k': 'notes', 'order': order}
        order = list(kinds)
        rng.shuffle(order)
        nsingle = len(order) if self.tier == 'thorough' else len(order)
        for i, f in enumerate(order[:nsingle]):
            pos = rng.randrange(3)
            rows = ['ok', 'ok']
            rows.insert(pos, f)
            if self.tier == 'quick':
                yield {'k': 'table', 'rows': [f, 'ok']}
                yield {'k': 'table', 'rows': ['ok', f]}
                continue
            yield {'k': 'table', 'rows': rows}
            yield {'k': 'table', 'rows': list(reversed(rows))}
        for _ in range(self.budget(3, 60)):
            n = rng.randrange(2, 6)
            rows = [rng.choice(kinds + ['ok', 'ok']) for _ in range(n)]
            yield {'k': 'table', 'rows': rows}
        # the same file and units with different bead rows (healthy ones with other calibrations, faulty ones), after a healthy row
        first = {'file': 's0.fcs', 'beads': 'B1', 'units': {'FL1': 'MEF', 'FL2': None, 'FL3': None}, 'gate': 'ok'}
        for others in (['B1b', 'BNOMEF'], ['BFAIL', 'B1b', 'BI2'], ['B1b', 'B1']):
            yield {'k': 'combo', 'rows': [first] + [dict(first, beads=b) for b in others]}
        yield {'k': 'combo', 'rows': [first, dict(first, file='volt0.fcs'), dict(first, file='volt.fcs'), dict(first, file='volt0.fcs', units={'FL1': 'RFI', 'FL2': None, 'FL3': None})]}
        yield {'k': 'combo', 'rows': [first, dict(first, file='linf.fcs'), dict(first, file='linf.fcs', units={'FL1': 'a.u.', 'FL2': 'RFI', 'FL3': None}), dict(first, file='lin.fcs')]}
        yield {'k': 'combo', 'bare_table': True, 'rows': [first, dict(first, beads='BFAIL'), dict(first, beads='BNOMEF'), dict(first, file='volt.fcs'), first]}
        # rows of two instruments in alternation (results keep the order of the table), and unit cells holding blanks only
        other = {'file': 't0.fcs', 'iid': 'FC002', 'beads': 'B1', 'units': {'FL1': None, 'FL2': None, 'FL3': None}, 'gate': 'ok'}
        yield {'k': 'combo', 'rows': [first, other, dict(first, file='s1.fcs'), dict(other, file='t1.fcs'), dict(first, file='nope.fcs'), other]}
        yield {'k': 'combo', 'rows': [other, first, dict(first, units={'FL1': '   ', 'FL2': None, 'FL3': None}), dict(other, file='t1.fcs'),
                                      dict(first, units={'FL1': 'RFI', 'FL2': ' \t ', 'FL3': None}), first]}
        yield {'k': 'combo', 'cwd_decoy': True, 'rows': [first, dict(first, file='decoy.fcs'), dict(first, file='s1.fcs'), dict(first, file='decoy.fcs', units={'FL1': 'RFI', 'FL2': None, 'FL3': None})]}
        # without the optional beads table
        yield {'k': 'combo', 'no_table': True, 'rows': [first, dict(first, units={'FL1': None, 'FL2': None, 'FL3': 'MEF'}), dict(first, beads='BFAIL'), first,
                                                        dict(first, units={'FL1': 'MEF', 'FL2': 'MEF', 'FL3': 'mef'}), dict(first, file='nope.fcs')]}
        yield {'k': 'combo', 'no_table': True, 'rows': [dict(first, beads='BI2'), first, dict(first, units={'FL1': 'RFI', 'FL2': None, 'FL3': 'MEF'}, beads='B1b')]}
        plain = {'file': 's1.fcs', 'units': {'FL1': 'RFI', 'FL2': 'a.u.', 'FL3': 'Channel'}, 'gate': 'ok'}
        yield {'k': 'combo', 'rows': [dict(plain, beads=b) for b in ('BFAIL', 'BNOMEF', 'BI2', 'B1')] + [dict(plain, file='n380.fcs', beads='B1'), dict(plain, file='n399.fcs', beads='B1'), dict(plain, file='n400.fcs', beads='B1')]}
        # samples of one instrument stored with different column orders, calibrated with the same beads one after the other
        yield {'k': 'combo', 'rows': [first, dict(first, file='sperm.fcs'), dict(first, file='s1.fcs', units={'FL1': 'MEF', 'FL2': 'MEF', 'FL3': None}),
                                      dict(first, file='sperm.fcs', units={'FL1': 'MEF', 'FL2': 'mef', 'FL3': 'RFI'}), first]}
        # beads calibrated in a later channel only, acquired at other voltages per detector: the voltage of THAT channel is compared
        yield {'k': 'combo', 'rows': [first, dict(first, file='sv500.fcs', beads='BV', units={'FL1': None, 'FL2': None, 'FL3': 'MEF'}), first,
                                      dict(first, file='sv500.fcs', beads='BV', units={'FL1': 'RFI', 'FL2': None, 'FL3': 'mef'})]}
        # units cells padded with blanks ('MEF ', ' mef') on rows whose beads were acquired with other settings / on another instrument: the documented faults
        yield {'k': 'combo', 'rows': [first, dict(first, file='volt.fcs', units={'FL1': 'MEF ', 'FL2': None, 'FL3': None}), dict(first, beads='BI2', units={'FL1': ' mef', 'FL2': None, 'FL3': None}),
                                      dict(first, file='lin.fcs', units={'FL1': ' MEF ', 'FL2': 'a.u. ', 'FL3': None}), dict(first, beads='BFAIL', units={'FL1': 'Mef  ', 'FL2': None, 'FL3': None}),
                                      dict(first, units={'FL1': ' MEF', 'FL2': None, 'FL3': None})]}
        # tables in which every row fails (there is nothing to report, the batch still completes)
        for rows in (['file_not_found'], ['units', 'gate_fraction'], ['too_few_events', 'file_not_found', 'beads_failed']):
            yield {'k': 'table', 'rows': rows}
        # beads whose file does not record detector voltages, samples that do: the documented voltage fault, reported in place
        yield {'k': 'combo', 'rows': [first, dict(first, beads='BNOV'), dict(first, file='s1.fcs'), dict(first, beads='BNOV', units={'FL1': 'RFI', 'FL2': 'MEF', 'FL3': None}),
                                      dict(first, beads='BNOV', units={'FL1': 'RFI', 'FL2': None, 'FL3': None})]}
        # samples acquired on a second cytometer of the same model (identical channel names, another instrument ID), calibrated with the first one's beads
        yield {'k': 'combo', 'rows': [first, dict(first, iid='FC003'), dict(first, iid='FC003', file='s1.fcs', units={'FL1': 'RFI', 'FL2': 'a.u.', 'FL3': None}),
                                      dict(first, iid='FC003', beads='B1b', units={'FL1': None, 'FL2': 'MEF', 'FL3': None}), first]}
        # rows with several simultaneous faults: which one is reported is decided by the model's decision table
        for _ in range(self.budget(6, 80)):
            rows = []
            for _ in range(rng.randrange(2, 6)):
                units = {c: rng.choice(UNIT_CELLS) for c in ('FL1', 'FL2', 'FL3')}
                rows.append({'file': rng.choice(['s0.fcs', 's0.fcs', 's1.fcs', 'nope.fcs', 'small.fcs', 'volt.fcs', 'lin.fcs', 'volt0.fcs', 'linf.fcs']),
                             'beads': rng.choice(['B1', 'B1', 'B1b', 'BNOMEF', 'BFAIL', 'BI2']), 'units': units, 'gate': rng.choice(['ok', 'ok', 'bad'])})
            yield {'k': 'combo', 'rows': rows}

    def single(self, s, idx):
        if idx not in s.single_cache:
            st, res = s.process([s.row('solo', 'ok', healthy_idx=idx)])
            s.single_cache[idx] = fpm.sample_fp(res['solo'])
        return s.single_cache[idx]

    def run_impl(self, case):
        try:
            s = self.setup()
        except Exception as e:
            # the beads table of the fixture (healthy rows of two instruments with different clustering channels, a row without MEF values, a row whose
            # file is missing) is itself a batch: a failing row is reported in its place, the batch completes
            import traceback
            return {'aborted': 'processing the beads table of the fixture: ' + type(e).__name__ + ':' + str(e)[:100], 'tb': traceback.format_exc()[-300:]}
        try:
            if case['k'] == 'empty':
                st = excelgen.table([], columns=['Instrument ID', 'Beads ID', 'File Path', 'Gate Fraction', 'FL1 Units'])
                res = FlowCal.excel_ui.process_samples_table(st, s.instruments, mef_transform_fxns=s.fxns, beads_table=s.beads_table, base_dir=s.ex.dir)
                bres = FlowCal.excel_ui.process_beads_table(excelgen.table([], columns=['Instrument ID', 'File Path', 'Gate Fraction', 'Clustering Channels']),
                                                            s.instruments, base_dir=s.ex.dir)
                ok = len(res) == 0 and len(bres[0]) == 0 and len(bres[1]) == 0
                # the same with progress messages switched on (what run() and the command line do)
                import contextlib, io as _io
                for fo in (False, True):
                    with contextlib.redirect_stdout(_io.StringIO()):
                        r2 = FlowCal.excel_ui.process_samples_table(st, s.instruments, mef_transform_fxns=s.fxns, beads_table=s.beads_table, base_dir=s.ex.dir, verbose=True)
                        b2 = FlowCal.excel_ui.process_beads_table(excelgen.table([], columns=['Instrument ID', 'File Path', 'Gate Fraction', 'Clustering Channels']),
                                                                  s.instruments, base_dir=s.ex.dir, verbose=True, full_output=fo)
                    ok = ok and len(r2) == 0 and all(len(x) == 0 for x in b2)
                # statistics and histograms of an empty batch: empty tables
                FlowCal.excel_ui.add_samples_stats(st, res)
                ok = ok and len(FlowCal.excel_ui.generate_histograms_table(st, res)) == 0
                return {'empty': ok}
            if case['k'] == 'beads':
                rows = [excelgen.beads_row('G1', 'FC001', 'beads1.fcs', channels=('FL1',)),
                        excelgen.beads_row('F1', 'FC001', 'nope.fcs', channels=('FL1',)),
                        excelgen.beads_row('F2', 'FC001', 'small_beads.fcs', channels=('FL1',)),
                        excelgen.beads_row('F3', 'FC001', 'beads1.fcs', channels=('FL1',), gate_fraction=-0.2),
                        excelgen.beads_row('F4', 'FC001', 'beads1.fcs', channels=('FL1', 'FL2'), mef={'FL1': '200, 700, 2500, 9000, 32000', 'FL2': '900, 5000, 26000'}),
                        excelgen.beads_row('F5', 'FC001', 'beads1.fcs', channels=('FL1', 'FL2', 'FL3'),
                                           mef={'FL1': '200, 700, 2500, 9000, 32000', 'FL2': '900, 5000, 26000, 70000', 'FL3': '100, 300, 900, 2700, 8100, 24300'}),
                        excelgen.beads_row('F6', 'FC001', 'beads1.fcs', channels=('FL1', 'FL2', 'FL3'),
                                           mef={'FL1': '200, 700, 2500, 9000, 32000', 'FL2': '900, 5000, 26000, 70000, 80000, 90000', 'FL3': '100, 300, 900, 2700'}),
                        # the channel with another number of entries holds 'None' (unknown) entries only: still another number of entries
                        excelgen.beads_row('F7', 'FC001', 'beads1.fcs', channels=('FL1', 'FL3'), mef={'FL1': '200, 700, 2500, 9000, 32000', 'FL3': 'None, None, None'}),
                        excelgen.beads_row('F8', 'FC001', 'beads1.fcs', channels=('FL1', 'FL2'), clustering=('FL1',),
                                           mef={'FL1': 'None, 700, 2500, 9000, 32000', 'FL2': 'None, None, None, None, None, None'}),
                        excelgen.beads_row('G2', 'FC001', 'beads1.fcs', channels=('FL1',))]
                bt = excelgen.table(rows)
                np.random.seed(3)
                with warnings.catch_warnings():
                    warnings.simplefilter('ignore')
                    bs, fx, mo = FlowCal.excel_ui.process_beads_table(bt, s.instruments, base_dir=s.ex.dir, full_output=True)
                    FlowCal.excel_ui.add_beads_stats(bt, bs, mo)
                out = {'ids': list(bs.keys()), 'kinds': [], 'fx_none': [fx[k] is None for k in bs], 'notes': [str(x) for x in bt['Analysis Notes']],
                       'nev': [None if pd.isnull(x) else int(x) for x in bt['Number of Events']]}
                for k, v in bs.items():
                    out['kinds'].append('fault:' + str(v) if isinstance(v, FlowCal.excel_ui.ExcelUIException) else 'ok')
                out['g_same'] = fpm.sample_fp(bs['G1'])['array'] == fpm.sample_fp(bs['G2'])['array']
                return out
            if case['k'] == 'notes':
                ex2 = excelgen.Experiment(4321, datatype='F', instruments=1)
                try:
                    ex2.write_fcs('neg.fcs', 'FC001', n=650, seed=31, nonneg=False)
                    ex2.write_fcs('pos.fcs', 'FC001', n=650, seed=32, nonneg=True)
                    rows = []
                    for i, kind in enumerate(case['order']):
                        fn = {'fail': 'nope.fcs', 'neg': 'neg.fcs', 'pos': 'pos.fcs'}[kind]
                        rows.append(excelgen.sample_row('R%d' % i, 'FC001', fn, {'FL1': 'a.u.', 'FL2': 'RFI'}, None))
                    st = excelgen.table(rows, columns=['Instrument ID', 'Beads ID', 'File Path', 'Gate Fraction', 'FL1 Units', 'FL2 Units'])
                    with warnings.catch_warnings():
                        warnings.simplefilter('ignore')
                        res = FlowCal.excel_ui.process_samples_table(st, ex2.instruments_table(), base_dir=ex2.dir)
                        FlowCal.excel_ui.add_samples_stats(st, res)
                    out = {'rows': []}
                    for rid, kind in zip(st.index, case['order']):
                        v = res[rid]
                        nonpos = [] if isinstance(v, Exception) else [c for c in ('FL1', 'FL2') if bool(np.any(np.asarray(v[:, c]) <= 0))]
                        out['rows'].append({'id': rid, 'kind': kind, 'note': str(st.loc[rid, 'Analysis Notes']), 'fault': isinstance(v, Exception), 'nonpos': nonpos})
                    return out
                finally:
                    ex2.cleanup()
            if case['k'] == 'twice':
                rows = [s.row('R%d' % i, 'ok', healthy_idx=i % 3) for i in range(3)]
                st, res = s.process(rows)
                with warnings.catch_warnings():
                    warnings.simplefilter('ignore')
                    FlowCal.excel_ui.add_samples_stats(st, res)
                first_ok = not any(str(x).startswith('ERROR') for x in st['Analysis Notes'])
                for i, f in enumerate(case['second']):
                    rid = 'R%d' % (i + 1)
                    if f == 'file_not_found':
                        st.loc[rid, 'File Path'] = 'nope.fcs'
                    elif f == 'gate_fraction':
                        st.loc[rid, 'Gate Fraction'] = 1.5
                    else:
                        st.loc[rid, 'FL1 Units'] = 'furlongs'
                st, res2 = s.process(None, table=st)
                with warnings.catch_warnings():
                    warnings.simplefilter('ignore')
                    FlowCal.excel_ui.add_samples_stats(st, res2)
                percol = [c for c in st.columns if any(c.endswith(x) for x in (' Mean', ' Median', ' Detector Volt.', ' Amp. Type', ' Geom. Mean', ' IQR', ' Mode', ' Std', ' CV', ' RCV'))]
                out = {'first_ok': first_ok, 'rows': []}
                for rid in st.index:
                    v = res2[rid]
                    out['rows'].append({'id': rid, 'fault': isinstance(v, FlowCal.excel_ui.ExcelUIException), 'note': str(st.loc[rid, 'Analysis Notes']),
                                        'nev': None if pd.isnull(st.loc[rid, 'Number of Events']) else int(st.loc[rid, 'Number of Events']),
                                        'filled': [c for c in percol if not (pd.isnull(st.loc[rid, c]) or st.loc[rid, c] == '')]})
                return out
            if case['k'] == 'combo':
                rows = [excelgen.sample_row('R%d' % i, r.get('iid', 'FC001'), r['file'], {c: u for c, u in r['units'].items() if u is not None}, r['beads'],
                                            gate_fraction=0.85 if r['gate'] == 'ok' else 1.5) for i, r in enumerate(case['rows'])]
                if case.get('cwd_decoy'):
                    # 'decoy.fcs' does not exist in the folder of the table; a file of that name lies in the current working directory
                    import shutil, tempfile
                    wd = tempfile.mkdtemp(prefix='verif_c11_wd_')
                    shutil.copy(os.path.join(s.ex.dir, 's0.fcs'), os.path.join(wd, 'decoy.fcs'))
                    old_cwd = os.getcwd()
                    os.chdir(wd)
                    try:
                        st, res = s.process(rows)
                    finally:
                        os.chdir(old_cwd)
                        shutil.rmtree(wd, ignore_errors=True)
                else:
                    st, res = s.process(rows, no_table=bool(case.get('no_table')), bare_table=bool(case.get('bare_table')))
                out = {'ids': list(res.keys()),
                       'faults': [fault_of(str(v)) if isinstance(v, FlowCal.excel_ui.ExcelUIException) else 'none' for v in res.values()], 'same_as_single': []}
                # every healthy row equals its own single-row run
                import json as _json
                for row, r, v in zip(rows, case['rows'], res.values()):
                    if isinstance(v, FlowCal.excel_ui.ExcelUIException):
                        continue
                    key = 'combo:' + ('nt:' if case.get('no_table') else '') + _json.dumps(r, sort_keys=True)
                    if key not in s.single_cache:
                        _, one = s.process([dict(row, ID='solo')], no_table=bool(case.get('no_table')), bare_table=bool(case.get('bare_table')))
                        s.single_cache[key] = fpm.sample_fp(one['solo']) if not isinstance(one['solo'], Exception) else None
                    ref = s.single_cache[key]
                    fp = fpm.sample_fp(v)
                    out['same_as_single'].append(ref is not None and fp['array'] == ref['array'] and
                                                 [x for x in fp['state'] if x[0] != 'infile'] == [x for x in ref['state'] if x[0] != 'infile'])
                return out
            rows = []
            hidx = 0
            for i, kind in enumerate(case['rows']):
                if kind == 'ok':
                    rows.append(s.row('R%d' % i, 'ok', healthy_idx=hidx % 3)); hidx += 1
                else:
                    rows.append(s.row('R%d' % i, kind))
            st, res = s.process(rows)
            out = {'ids': list(res.keys()), 'kinds': [], 'same_as_single': []}
            hidx = 0
            for (rid, v), kind in zip(res.items(), case['rows']):
                if isinstance(v, FlowCal.excel_ui.ExcelUIException):
                    out['kinds'].append('fault:' + str(v))
                else:
                    out['kinds'].append('ok')
                if kind == 'ok':
                    if not isinstance(v, FlowCal.excel_ui.ExcelUIException):
                        fp = fpm.sample_fp(v)
                        ref = self.single(s, hidx % 3)
                        out['same_as_single'].append(fp['array'] == ref['array'] and [x for x in fp['state'] if x[0] != 'infile'] == [x for x in ref['state'] if x[0] != 'infile'])
                    hidx += 1
            with warnings.catch_warnings():
                warnings.simplefilter('ignore')
                FlowCal.excel_ui.add_samples_stats(st, res)
                # the optional histogram table of the same batch: rows for the healthy samples only, none at all if every row failed
                hist = FlowCal.excel_ui.generate_histograms_table(st, res)
            healthy = set(rid for rid, v in res.items() if not isinstance(v, Exception))
            out['hist_ids_ok'] = set(str(i[0]) if isinstance(i, tuple) else str(i) for i in hist.index) <= set(str(x) for x in healthy)
            out['notes'] = [str(x) for x in st['Analysis Notes']]
            out['nev'] = [None if pd.isnull(x) else int(x) for x in st['Number of Events']]
            statcols = [c for c in st.columns if c.endswith(' Mean') or c.endswith(' Median')]
            out['stats_empty'] = [bool(all(pd.isnull(st.loc[rid, c]) for c in statcols)) for rid in st.index]
            return out
        except Exception as e:
            import traceback
            return {'aborted': type(e).__name__ + ':' + str(e)[:100], 'tb': traceback.format_exc()[-300:]}

    def post(self):
        if self._setup:
            self._setup.ex.cleanup()

    def oracle(self, case, impl):
        if 'aborted' in impl:
            return 'the batch aborted with %s for rows %s' % (impl['aborted'], case.get('rows', case['k']))
        if case['k'] == 'empty':
            return None if impl['empty'] else 'an empty table did not yield an empty result'
        if case['k'] == 'notes':
            for r in impl['rows']:
                if (r['kind'] == 'fail') != r['fault']:
                    return 'row %s (%s): %s' % (r['id'], r['kind'], 'not reported as failing' if r['kind'] == 'fail' else 'reported an error: ' + r['note'][:60])
                mentioned = [c for c in ('FL1', 'FL2') if ('channel %s calculated on positive events' % c) in r['note']]
                if r['fault']:
                    if not r['note'].startswith('ERROR:') or mentioned:
                        return 'failing row %s carries the note %r (text that belongs to another row)' % (r['id'], r['note'][:120])
                elif mentioned != r['nonpos'] or r['note'].startswith('ERROR'):
                    return 'row %s has non-positive events in %s but its note mentions %s: %r' % (r['id'], r['nonpos'], mentioned, r['note'][:120])
            return None
        if case['k'] == 'twice':
            if not impl['first_ok']:
                return 'first analysis of a healthy table reported errors'
            for i, r in enumerate(impl['rows']):
                faulty = 1 <= i <= len(case['second'])
                if faulty != r['fault']:
                    return 'second analysis: row %s %s' % (r['id'], 'did not report its fault' if faulty else 'reported an error')
                if faulty and (not r['note'].startswith('ERROR:') or r['nev'] is not None or r['filled']):
                    return 'second analysis of the same table: failing row %s has note %r, events %s and non-empty statistics %s' % (r['id'], r['note'][:40], r['nev'], r['filled'][:4])
                if not faulty and (r['note'].startswith('ERROR') or not r['filled']):
                    return 'second analysis: healthy row %s lost its statistics' % r['id']
            return None
        if case['k'] == 'beads':
            want = ['ok', 'file_not_found', 'too_few_events', 'gate_fraction', 'unequal_mef', 'unequal_mef', 'unequal_mef', 'unequal_mef', 'unequal_mef', 'ok']
            if impl['ids'] != ['G1', 'F1', 'F2', 'F3', 'F4', 'F5', 'F6', 'F7', 'F8', 'G2']:
                return 'bead results are not keyed by row identifier in table order: %s' % impl['ids']
            for rid, k, w, note, nev, fn in zip(impl['ids'], impl['kinds'], want, impl['notes'], impl['nev'], impl['fx_none']):
                if w == 'ok':
                    if k != 'ok' or note.startswith('ERROR') or fn:
                        return 'healthy bead row %s: %s / %r' % (rid, k, note)
                else:
                    if not k.startswith('fault:') or BEADS_FAULTS[w] not in k or not note.startswith('ERROR:') or nev is not None or not fn:
                        return 'bead row %s with fault %s: outcome %s, note %r, events %s, transform is None: %s' % (rid, w, k, note, nev, fn)
            if not impl['g_same']:
                return 'identical healthy bead rows at different table positions give different results'
            return None
        rows = case['rows']
        if impl['ids'] != ['R%d' % i for i in range(len(rows))]:
            return 'results are not keyed by row identifier in table order: %s' % impl['ids']
        if impl.get('hist_ids_ok') is False:
            return 'the histogram table of the batch holds rows of samples that failed (rows %s)' % (rows,)
        if case['k'] == 'combo':
            for i, (r, f) in enumerate(zip(rows, impl['faults'])):
                facts = row_facts(r)
                nt = bool(case.get('no_table'))       # without the beads table only the availability of a function and of a curve can be checked
                healthy = facts['file_found'] and facts['n_events'] >= 400 and facts['gate_ok'] and all(
                    c['units'].strip().lower() in ('channel', 'rfi', 'a.u.', 'au') or (c['units'].strip().lower() == 'mef' and c['fxn'] and c['has_mef'] and
                                                                                (nt or (c['same_inst'] and c['amp'] and c['volt']))) for c in facts['channels'])
                if healthy and f != 'none':
                    return 'healthy row %d (%s) reported %s' % (i, r, f)
                if not healthy and (f == 'none' or f.startswith('other:')):
                    return 'row %d (%s) has a documented fault but reported %s' % (i, r, f)
            if not all(impl.get('same_as_single', [])):
                return 'a healthy row differs from its single-row run in table %s' % rows
            return None
        for i, (kind, k) in enumerate(zip(rows, impl['kinds'])):
            note = impl['notes'][i]
            if kind == 'ok':
                if k != 'ok':
                    return 'healthy row %d reported %s (rows %s)' % (i, k, rows)
                if note.startswith('ERROR'):
                    return 'healthy row %d has note %r' % (i, note)
            else:
                if not k.startswith('fault:'):
                    return 'row %d with fault %s yielded a result instead of an error (rows %s)' % (i, kind, rows)
                if SAMPLE_FAULTS[kind] not in k:
                    return 'row %d with fault %s reports %r (rows %s)' % (i, kind, k, rows)
                if not note.startswith('ERROR:') or impl['nev'][i] is not None or not impl['stats_empty'][i]:
                    return 'row %d with fault %s: note %r, events %s, statistics empty %s' % (i, kind, note, impl['nev'][i], impl['stats_empty'][i])
        if not all(impl['same_as_single']):
            return 'a healthy row differs from its single-row run in table %s' % rows
        return None

    def model_request(self, case, impl):
        if case['k'] == 'combo':
            return {'op': 'row_faults', 'rows': [row_facts(r, beads_table=not case.get('no_table')) for r in case['rows']]}
        if case['k'] != 'table':
            return None
        return {'op': 'process_table', 'rows': [['R%d' % i, 'ok' if k == 'ok' else 'fault:' + k] for i, k in enumerate(case['rows'])]}

    def compare(self, case, impl, model):
        if 'driver_error' in model:
            return 'driver: ' + model['driver_error']
        if 'aborted' in impl or model.get('aborted'):
            return None if (('aborted' in impl) == bool(model.get('aborted'))) else 'abort: impl %s vs model %s' % (impl.get('aborted'), model.get('aborted'))
        if case['k'] == 'combo':
            return None if model.get('faults') == impl['faults'] else 'fault decision table: model %s vs impl %s for rows %s' % (model.get('faults'), impl['faults'], case['rows'])
        if model['ids'] != impl['ids'] or model['kinds'] != [('ok' if k == 'ok' else 'fault') for k in impl['kinds']]:
            return 'model %s %s vs impl %s %s' % (model['ids'], model['kinds'], impl['ids'], impl['kinds'])
        return None

    def shrink_candidates(self, case):
        if case['k'] in ('table', 'combo'):
            r = case['rows']
            for i in range(len(r)):
                if len(r) > 1:
                    yield dict(case, rows=r[:i] + r[i + 1:])

    def nontrivial_key(self, case, impl):
        if case['k'] == 'combo':
            return ('combo', tuple(impl.get('faults', ())))
        if case['k'] != 'table':
            return (case['k'],)
        if all(k == 'ok' for k in case['rows']):
            return None
        return tuple(case['rows'])
