"""C08 — Every gate returns exactly its documented predicate, applied as a mask."""
import math
import struct
from fractions import Fraction

import numpy as np

import common
import fcsgen
import fingerprint as fpm
import samples
import FlowCal


def bits(x):
    return struct.unpack('<Q', struct.pack('<d', float(x)))[0]


class Prop(common.PropertyCheck):
    pid = 'C08'
    rule = ("start_end / high_low / ellipse on plain arrays and loaded samples (0..60 events, integer and float incl. NaN, values on and next to "
            "thresholds) x every channel selection form x counts incl. 0, negative, N, N+1 x thresholds explicit / partial / defaulted x ellipse centre, "
            "axes (a<b and a>b), rotation angle, log flag; mask compared with an independently written predicate (exact rational arithmetic for the "
            "ellipse, events within 1e-9 of the boundary excluded and counted), gated output with input[mask], short form with full form. "
            "Non-trivial = distinct (gate, container, parameter class, outcome).")
    batch_size = 300
    assumptions = ["np.cos/np.sin of the rotation angle are taken as given doubles (math.cos/math.sin; last-ulp differences fall in the excluded band)"]

    def gen_cases(self):
        rng = self.rng
        for _ in range(self.budget(500, 6000)):
            N = rng.choice([0, 1, 2, 5, 10, 37, 60])
            yield {'g': 'start_end', 'cont': rng.choice(['array', 'sample']), 'N': N,
                   's': rng.choice([0, 1, 2, N, N + 1, -1, -3, N // 2, 250]), 'e': rng.choice([0, 1, 2, N, N + 1, -1, N // 2, 100]),
                   'seed': rng.randrange(1 << 30)}
        for _ in range(self.budget(900, 9000)):
            cont = rng.choice(['array', 'sample', 'sample_rfi'])
            yield {'g': 'high_low', 'cont': cont, 'dtype': rng.choice(['int', 'float', 'float_nan']) if cont == 'array' else rng.choice(['int', 'float']),
                   'N': rng.choice([0, 1, 3, 12, 40]), 'chform': rng.choice(['none', 'name', 'pos', 'list', 'list1']),
                   'high': rng.choice(['default', 'scalar', 'list', 'atvalue', 'near', 'below_low']), 'low': rng.choice(['default', 'scalar', 'list', 'atvalue', 'near']),
                   'big': rng.random() < 0.3,
                   'seed': rng.randrange(1 << 30)}
        for _ in range(self.budget(400, 5000)):
            a, b = rng.choice([(2., 6.), (6., 2.), (1.5, 1.5), (rng.uniform(0.5, 400), rng.uniform(0.5, 400))])
            yield {'g': 'ellipse', 'cont': rng.choice(['array', 'sample']), 'N': rng.choice([0, 1, 20, 60]),
                   'a': a, 'b': b, 'theta': rng.choice([0.0, 0.6, math.pi / 6, math.pi / 2, -1.1, 2.5, rng.uniform(-4, 4)]),
                   'center': [rng.choice([0.0, 3.0, 500.0, rng.uniform(-10, 600)]), rng.choice([0.0, -2.0, 400.0, rng.uniform(-10, 600)])],
                   'log': rng.random() < 0.3, 'chform': rng.choice(['names', 'pos', 'mixed']), 'seed': rng.randrange(1 << 30)}
        # log-space ellipses around log coordinate 0 on data with zero / negative values (no image in log space: must be dropped)
        for _ in range(self.budget(120, 1500)):
            yield {'g': 'ellipse', 'cont': rng.choice(['array', 'sample']), 'N': rng.choice([1, 20, 60]), 'a': rng.uniform(0.3, 2.5), 'b': rng.uniform(0.3, 2.5),
                   'theta': rng.choice([0.0, 0.4, -1.1, rng.uniform(-4, 4)]), 'center': [rng.uniform(-0.5, 1.5), rng.uniform(-0.5, 1.5)],
                   'log': True, 'lograw': True, 'chform': rng.choice(['names', 'pos', 'mixed']), 'seed': rng.randrange(1 << 30)}
        # long thin ellipses tilted by a very small angle (or by a multiple of pi plus a very small angle), events along the major axis
        for _ in range(self.budget(60, 600)):
            th = rng.choice([0.004, -0.003, 0.0007, 0.002, -0.0044, 0.01]) + rng.choice([0, 0, math.pi, 2 * math.pi, -math.pi])
            yield {'g': 'ellipse', 'cont': 'array', 'N': 40, 'a': rng.choice([300., 450., 900.]), 'b': rng.choice([0.5, 1.0, 0.2]), 'theta': th,
                   'center': [rng.uniform(400, 600), rng.uniform(400, 600)], 'log': False, 'thin': True, 'chform': 'pos', 'dtype': 'float', 'seed': rng.randrange(1 << 30)}
        # unsigned integer containers with the centre given as plain Python integers (and thresholds in the reverse order for high_low)
        for _ in range(self.budget(80, 800)):
            yield {'g': 'ellipse', 'cont': rng.choice(['array', 'sample']), 'N': rng.choice([20, 60]), 'a': float(rng.choice([150, 300, 420])), 'b': float(rng.choice([100, 250])),
                   'theta': rng.choice([0.0, 0.6, -1.1]), 'center': [rng.choice([300, 500, 700]), rng.choice([200, 400, 600])], 'log': False,
                   'chform': rng.choice(['names', 'pos']), 'dtype': 'uint', 'int_center': True, 'seed': rng.randrange(1 << 30)}
        # plain arrays of narrow integer types holding the extremes of their type, thresholds left to their default ("no limit")
        for i in range(self.budget(24, 200)):
            yield {'g': 'high_low', 'cont': 'array', 'dtype': 'narrow', 'narrow': ['uint8', 'uint16', 'int8', 'int16', 'uint32', 'int32'][i % 6], 'N': 12,
                   'chform': ['none', 'pos', 'list', 'list1'][i % 4], 'high': ['default', 'default', 'scalar'][i % 3], 'low': ['default', 'scalar', 'default'][(i // 2) % 3],
                   'big': False, 'seed': rng.randrange(1 << 30)}
        # degenerate semi-axes: zero, infinite, tiny, huge (the documented quotient form decides, evaluated in floating point)
        for i, (a, b) in enumerate([(0.0, 1.0), (1.0, 0.0), (0.0, 0.0), (float('inf'), 2.0), (3.0, float('inf')), (1e-170, 1e-170), (1e170, 1e170), (1e-200, 5.0),
                                    (1e200, 1e-3)]):
            for cont in ('array', 'sample'):
                yield {'g': 'ellipse', 'cont': cont, 'N': 40, 'a': a, 'b': b, 'theta': 0.0, 'center': [500.0, 400.0], 'log': False, 'chform': 'pos',
                       'dtype': 'float', 'degenerate': True, 'seed': 500 + i}
        # negative semi-axes: the documented form depends on a**2 and b**2 only, so the sign of a semi-axis does not matter
        for i, (a, b) in enumerate([(-300.0, 150.0), (300.0, -500.0), (-200.0, -200.0), (-120.0, 400.0)]):
            for cont in ('array', 'sample'):
                yield {'g': 'ellipse', 'cont': cont, 'N': 40, 'a': a, 'b': b, 'theta': [0.0, 0.7][i % 2], 'center': [500.0, 400.0], 'log': False, 'chform': 'pos',
                       'dtype': 'float', 'seed': 900 + i}
        # two-column samples gated on (column 1, column 0); samples of more than 2**16 events whose events all lie inside the ellipse
        for i in range(self.budget(8, 60)):
            yield {'g': 'ellipse', 'cont': 'array', 'N': [40, 60][i % 2], 'a': 300.0, 'b': 120.0, 'theta': [0.4, 0.0, -1.1][i % 3], 'center': [520.0, 480.0], 'log': False,
                   'chform': 'pos', 'dtype': 'float', 'two_cols': ['rev', 'same', 'rev_tuple'][i % 3], 'seed': rng.randrange(1 << 30)}
        for i, n in enumerate([65536, 70001, 131072][:self.budget(2, 3)]):
            yield {'g': 'ellipse', 'cont': 'array', 'N': n, 'a': 900.0, 'b': 800.0, 'theta': 0.3, 'center': [512.0, 512.0], 'log': False, 'chform': 'pos', 'dtype': 'float',
                   'big_inside': True, 'seed': 900 + i}
        # unrotated ellipses with events exactly on, one unit in the last place inside and one outside the boundary
        for i, (a, b) in enumerate([(2.0, 3.0), (5.0, 5.0), (0.75, 1e3), (300.0, 200.0)]):
            yield {'g': 'ellipse', 'cont': 'array', 'N': 24, 'a': a, 'b': b, 'theta': 0.0, 'center': [0.0, 0.0] if i % 2 == 0 else [512.0, 256.0], 'log': False,
                   'chform': 'pos', 'dtype': 'float', 'onboundary': True, 'seed': 700 + i}
        # plain arrays, the channel(s) given as NumPy integers (as produced by `for ch in np.arange(D)`)
        for i in range(self.budget(24, 200)):
            yield {'g': 'high_low', 'cont': 'array', 'dtype': ['float', 'uint'][i % 2], 'N': [12, 1, 40, 3][i % 4], 'chform': ['nppos', 'nplist', 'nppos0'][i % 3],
                   'high': ['scalar', 'default', 'atvalue'][i % 3], 'low': ['default', 'scalar', 'scalar'][(i // 3) % 3], 'big': False, 'seed': rng.randrange(1 << 30)}
        for bad in ('ellipse1', 'ellipse3', 'startend_too_many'):
            yield {'g': 'bad', 'what': bad}

    # ---- data -----------------------------------------------------------------------
    def data(self, case):
        r = np.random.RandomState(case['seed'] % (1 << 31))
        N = case['N']
        if case['cont'] == 'array':
            D = 3
            if case.get('dtype') == 'narrow':
                ii = np.iinfo(case['narrow'])
                a = r.randint(max(ii.min, -(1 << 31)), min(ii.max, (1 << 31) - 1), size=(N, D)).astype(case['narrow'])
                if N >= 4:
                    a[0, :] = ii.min; a[1, :] = ii.max; a[2, 0] = ii.min; a[3, D - 1] = ii.max
            elif case.get('dtype') == 'uint':
                a = r.randint(0, 1024, size=(N, D)).astype(np.uint16)
            elif case.get('dtype', 'int') == 'int':
                a = r.randint(0, 1024, size=(N, D)).astype(np.int64)
                if case.get('big'):
                    a = r.randint(262000, 262144, size=(N, D)).astype(np.int64)
            else:
                a = r.uniform(-5, 1030, size=(N, D))
                mk = r.rand(N, D) < 0.15
                a[mk] = np.round(a[mk])
                if case.get('dtype') == 'float_nan' and N:
                    a[r.rand(N, D) < 0.1] = np.nan
                if case.get('two_cols'):
                    a = a[:, :2]
                if case.get('big_inside') and N:
                    a[:, 0] = r.uniform(300, 700, size=N); a[:, 1] = r.uniform(300, 700, size=N)
                if case.get('onboundary') and N:
                    cx, cy = case['center']; A, B = case['a'], case['b']
                    pts = [(cx + A, cy), (cx + np.nextafter(A, np.inf), cy), (cx + np.nextafter(A, 0), cy), (cx - A, cy), (cx, cy + B), (cx, cy + np.nextafter(B, np.inf)),
                           (cx, cy - np.nextafter(B, 0)), (cx + 0.6 * A, cy + 0.8 * B), (cx - 0.6 * A, cy - 0.8 * B), (cx + 0.8 * A, cy - 0.6 * B),
                           (cx + A * (1 + 3e-10), cy), (cx, cy + B * (1 + 2e-10)), (cx + A * (1 - 3e-10), cy)]
                    for k, (px, py) in enumerate(pts[:N]):
                        a[k, 0], a[k, 1] = px, py
                if case.get('degenerate') and N:
                    a[:, 0] = r.uniform(490, 510, size=N); a[:, 1] = r.uniform(390, 410, size=N)
                    a[::5, 0] = case['center'][0]              # on the vertical line through the centre
                    a[::7, 1] = case['center'][1]              # on the horizontal line through the centre
                if case.get('thin') and N:
                    # events on the major axis of the ellipse of this case (well inside it), a few off the axis
                    t = np.linspace(-0.97, 0.97, N) * case['a']
                    a[:, 0] = case['center'][0] + t * math.cos(case['theta'])
                    a[:, 1] = case['center'][1] + t * math.sin(case['theta'])
                    a[::7, 1] += 3 * case['b']
            return a, None
        import random
        spec = samples.spec_rich(random.Random(case['seed']), N=N, D=4, datatype='I' if case.get('dtype', 'int') == 'int' else 'F',
                                 log_channels=[2], res=[1024, 1024, 1024, 256])
        s, _ = samples.load(spec, name='c08.fcs')
        if case['cont'] == 'sample_rfi':
            s = FlowCal.transform.to_rfi(s)
        return s, list(s.channels)

    def run_impl(self, case):
        g = case['g']
        try:
            if g == 'bad':
                a = np.arange(20.).reshape(10, 2)
                try:
                    if case['what'] == 'ellipse1':
                        FlowCal.gate.ellipse(a, [0], [0, 0], 1, 1)
                    elif case['what'] == 'ellipse3':
                        FlowCal.gate.ellipse(np.arange(30.).reshape(10, 3), [0, 1, 2], [0, 0], 1, 1)
                    else:
                        FlowCal.gate.start_end(a, 6, 5)
                    return {'raised': None}
                except Exception as e:
                    return {'raised': type(e).__name__}
            d, names = self.data(case)
            import copy as _copy
            d0 = _copy.deepcopy(d)          # the input as it was before the gate was called
            arr = np.asarray(d, dtype=np.float64) if d.size else np.zeros(d.shape)
            out = {}
            if g == 'start_end':
                try:
                    full = FlowCal.gate.start_end(d, case['s'], case['e'], full_output=True)
                    short = FlowCal.gate.start_end(d, case['s'], case['e'])
                except Exception as e:
                    return {'err': type(e).__name__}
                params = {}
            elif g == 'high_low':
                D = d.shape[1]
                chf = case['chform']
                if chf == 'none':
                    ch, cols = None, list(range(D))
                elif chf == 'name' and names:
                    ch, cols = names[1], [1]
                elif chf in ('pos', 'name'):
                    ch, cols = 2, [2]
                elif chf == 'nppos':
                    ch, cols = np.int64(2), [2]
                elif chf == 'nppos0':
                    ch, cols = np.arange(D)[0], [0]
                elif chf == 'nplist':
                    ch, cols = [np.int64(2), np.int32(0)], [2, 0]
                elif chf == 'list':
                    ch, cols = ([names[2], 0] if names else [2, 0]), [2, 0]
                else:
                    ch, cols = [1], [1]
                r = np.random.RandomState(case['seed'] % 1000 + 5)
                sub = arr[:, cols]

                def thr(kind, which):
                    if kind == 'default':
                        return None
                    if kind == 'below_low':
                        return float(r.choice([3, -1, 0.5]))        # usually below the low threshold: nothing lies in between
                    if kind == 'scalar':
                        return float(r.choice([0, 1, 500, 1022, 1023, 3.5]))
                    if kind == 'atvalue' and sub.size and np.isfinite(sub.flat[0]):
                        return float(sub.flat[0])
                    if kind == 'near' and sub.size and np.isfinite(sub.flat[0]):
                        # a threshold next to (not at) an event value: the comparison must stay strict and exact
                        v = float(sub.flat[0])
                        step = 1.0 if float(v).is_integer() and abs(v) > 1000 else abs(v) * 3e-6 + 1e-12
                        return v + step if which == 'h' else v - step
                    return [float(x) for x in r.choice([0, 1, 100, 800, 1023, 1e9, -1e9], size=len(cols))]
                high, low = thr(case['high'], 'h'), thr(case['low'], 'l')
                try:
                    full = FlowCal.gate.high_low(d, ch, high, low, full_output=True)
                    short = FlowCal.gate.high_low(d, ch, high, low)
                except Exception as e:
                    return {'err': type(e).__name__ + ':' + str(e)[:60]}
                # effective thresholds per selected column (independent of the implementation)
                rng_list = None
                if names is not None:
                    sel = d[:, ch] if ch is not None else d
                    rng_list = [list(x) if x is not None else None for x in (sel.range() if sel.ndim == 2 else [sel.range(0)] if False else sel.range())] if sel.ndim == 2 else [list(d.range(ch))]

                def eff(t, idx, default_side):
                    if t is None:
                        if rng_list is not None and rng_list[idx] is not None:
                            return rng_list[idx][default_side]
                        return None
                    if isinstance(t, list):
                        return t[idx]
                    return t
                params = {'cols': cols, 'high': [eff(high, i, 1) for i in range(len(cols))], 'low': [eff(low, i, 0) for i in range(len(cols))]}
            else:
                chf = case['chform']
                if names:
                    ch = [names[0], names[1]] if chf == 'names' else [0, 1] if chf == 'pos' else [names[0], 1]
                else:
                    ch = [0, 1]
                if case.get('two_cols'):
                    ch = {'rev': [1, 0], 'same': [1, 1], 'rev_tuple': (1, 0)}[case['two_cols']]
                dd = d
                if case.get('lograw'):
                    # small values incl. zeros and (for float data) negatives, unchanged
                    dd = d % 40 if names is None else FlowCal.transform.transform(d, None, lambda x: np.asarray(x, dtype=float) % 40 - (3 if case['seed'] % 2 else 0))
                    arr = np.asarray(dd, dtype=np.float64)
                elif case['log']:
                    dd = (np.abs(d) + 1) if names is None else FlowCal.transform.transform(d, None, lambda x: np.abs(np.asarray(x, dtype=float)) + 1)
                    arr = np.asarray(dd, dtype=np.float64)
                center = case['center'] if (not case['log'] or case.get('lograw')) else [math.log10(abs(c) + 2) for c in case['center']]
                if case.get('int_center'):
                    center = [int(c) for c in center]
                a, b = (case['a'], case['b']) if (not case['log'] or case.get('lograw')) else (case['a'] / 100 + 0.1, case['b'] / 100 + 0.1)
                try:
                    # an unrelated earlier call in the same process (results must not depend on the call history)
                    FlowCal.gate.ellipse(np.array([[1., 2.], [30., 40.]]), [0, 1], [3., 4.], 7., 5., 0.3, full_output=True)
                    full = FlowCal.gate.ellipse(dd, ch, center, a, b, case['theta'], log=case['log'], full_output=True)
                    short = FlowCal.gate.ellipse(dd, ch, center, a, b, case['theta'], log=case['log'])
                except Exception as e:
                    return {'err': type(e).__name__ + ':' + str(e)[:60]}
                pts = arr[:, [0, 1]] if not case.get('two_cols') else arr[:, list(ch)]
                if case['log']:
                    with np.errstate(all='ignore'):
                        pts = np.log10(pts)
                params = {'center': center, 'a': a, 'b': b, 'theta': case['theta'], 'pts': [[bits(x), bits(y)] for x, y in pts],
                          'contour': [[bits(x), bits(y)] for x, y in (np.log10(full.contour[0]) if case['log'] else full.contour[0])],
                          'ncontour': len(full.contour)}
                d = dd
            mask = np.asarray(full.mask)
            if g == 'ellipse':
                d0 = d            # (the ellipse cases derive `dd` from the generated data before gating)
            out['input_unchanged'] = fpm.any_fp(d) == fpm.any_fp(d0)
            ref = d0[mask]
            out.update({'mask': [bool(x) for x in mask], 'mask_dtype': str(mask.dtype), 'mask_shape': list(mask.shape),
                        'gated_eq_masked': fpm.any_fp(full.gated_data) == fpm.any_fp(ref),
                        'short_eq_full': fpm.any_fp(short) == fpm.any_fp(full.gated_data),
                        'type_same': type(full.gated_data) is type(d), 'params': params,
                        'rows': [[bits(x) for x in row] for row in arr] if g == 'high_low' else None, 'N': int(arr.shape[0])})
            return out
        except Exception as e:
            import traceback
            return {'harness_err': traceback.format_exc()[-300:]}

    def post(self):
        fcsgen.cleanup()

    # ---- oracle ------------------------------------------------------------------------
    def oracle(self, case, impl):
        g = case['g']
        if 'harness_err' in impl:
            return 'harness: ' + impl['harness_err']
        if g == 'bad':
            return None if impl['raised'] == 'ValueError' else 'unsatisfiable request %s: %s' % (case['what'], impl['raised'])
        if g == 'start_end':
            s0, e0 = max(case['s'], 0), max(case['e'], 0)
            if case['N'] < s0 + e0:
                return None if impl.get('err') == 'ValueError' else 'dropping %d+%d of %d events was not refused: %s' % (s0, e0, case['N'], impl)
            if 'err' in impl:
                return 'start_end(%d,%d) on %d events raised %s' % (case['s'], case['e'], case['N'], impl['err'])
            want = [s0 <= i < case['N'] - e0 for i in range(case['N'])]
        elif 'err' in impl:
            return '%s raised %s' % (g, impl['err'])
        elif g == 'high_low':
            p = impl['params']
            want = []
            for row in impl['rows']:
                vals = [struct.unpack('<d', struct.pack('<Q', row[c]))[0] for c in p['cols']]
                ok = True
                for v, h, l in zip(vals, p['high'], p['low']):
                    if not ((h is None and not math.isnan(v)) or (h is not None and v < h)):
                        ok = False
                    if not ((l is None and not math.isnan(v)) or (l is not None and v > l)):
                        ok = False
                want.append(ok)
        elif case.get('big_inside'):
            # every event lies well inside the ellipse (by construction): all are kept, whatever the number of events
            want = [True] * impl['N']
        elif case.get('degenerate'):
            p = impl['params']
            pts = np.array([[struct.unpack('<d', struct.pack('<Q', v))[0] for v in xy] for xy in p['pts']], dtype=float).reshape(-1, 2)
            with np.errstate(all='ignore'):
                f = ((pts[:, 0] - p['center'][0]) / p['a']) ** 2 + ((pts[:, 1] - p['center'][1]) / p['b']) ** 2
                want = [bool(v <= 1) for v in f]
        else:
            p = impl['params']
            c, s = Fraction(math.cos(p['theta'])), Fraction(math.sin(p['theta']))
            cx, cy, a, b = Fraction(p['center'][0]), Fraction(p['center'][1]), Fraction(p['a']), Fraction(p['b'])

            def form(xb, yb):
                x = Fraction(struct.unpack('<d', struct.pack('<Q', xb))[0]); y = Fraction(struct.unpack('<d', struct.pack('<Q', yb))[0])
                dx, dy = x - cx, y - cy
                xr, yr = dx * c + dy * s, dy * c - dx * s        # coordinates along the (rotated) axes
                return (xr / a) ** 2 + (yr / b) ** 2
            want = []
            band = Fraction(1, 10 ** 9)
            for (xb, yb), m in zip(p['pts'], impl['mask']):
                if not all(math.isfinite(struct.unpack('<d', struct.pack('<Q', v))[0]) for v in (xb, yb)):
                    self.bump('ellipse: event without image in log space')
                    want.append(False)
                    continue
                f = form(xb, yb)
                if abs(f - 1) <= band:
                    if p['theta'] == 0.0:
                        # no rotation: the documented quotient form in floating point decides (the centred coordinates are exact)
                        xv = struct.unpack('<d', struct.pack('<Q', xb))[0]; yv = struct.unpack('<d', struct.pack('<Q', yb))[0]
                        qf = np.float64(((np.float64(xv) - np.float64(p['center'][0])) / np.float64(p['a'])) ** 2) + \
                            np.float64(((np.float64(yv) - np.float64(p['center'][1])) / np.float64(p['b'])) ** 2)
                        want.append(bool(qf <= 1))
                        continue
                    self.exclude('ellipse: event within 1e-9 of the boundary')
                    want.append(m)
                else:
                    want.append(f < 1)
            if p['ncontour'] != 1 or len(p['contour']) != 100:
                return 'ellipse contour has %d pieces / %d points' % (p['ncontour'], len(p['contour']))
            for xb, yb in p['contour']:
                if not all(math.isfinite(struct.unpack('<d', struct.pack('<Q', v))[0]) for v in (xb, yb)):
                    return 'contour has a non-finite point (a=%s b=%s theta=%s log=%s)' % (p['a'], p['b'], p['theta'], case['log'])
                f = form(xb, yb)
                if abs(f - 1) > Fraction(1, 10 ** 6):
                    return 'contour point is not on the ellipse a=%s b=%s theta=%s (form=%.9f)' % (p['a'], p['b'], p['theta'], float(f))
        if impl['mask'] != want:
            bad = [i for i, (x, y) in enumerate(zip(impl['mask'], want)) if x != y]
            return '%s: mask differs from the documented predicate at events %s (%s)' % (g, bad[:5], {k: v for k, v in case.items() if k != 'seed'})
        if impl['mask_shape'] != [impl['N']] or impl['mask_dtype'] != 'bool':
            return '%s: mask is not a boolean vector with one entry per event' % g
        if impl.get('input_unchanged') is False:
            return '%s changed the sample it was given (events or metadata differ from a copy made before the call)' % g
        if not impl['gated_eq_masked']:
            return '%s: gated data is not the input restricted to the mask (events, order or metadata differ)' % g
        if not impl['short_eq_full']:
            return '%s: short return form differs from the gated data of the full form' % g
        if not impl['type_same']:
            return '%s: gated data changed container type' % g
        return None

    # ---- model -----------------------------------------------------------------------------
    def model_request(self, case, impl):
        g = case['g']
        if g == 'bad' or 'harness_err' in impl:
            return None
        if g == 'start_end':
            return {'op': 'start_end', 'n': case['N'], 's': case['s'], 'e': case['e']}
        if 'err' in impl or case.get('degenerate') or case.get('big_inside'):
            return None
        p = impl['params']
        if g == 'high_low':
            return {'op': 'high_low', 'rows': [[r[c] for c in p['cols']] for r in impl['rows']],
                    'high': [None if h is None else bits(h) for h in p['high']], 'low': [None if l is None else bits(l) for l in p['low']]}
        return {'op': 'ellipse', 'pts': p['pts'], 'cx': bits(p['center'][0]), 'cy': bits(p['center'][1]), 'a': bits(p['a']), 'b': bits(p['b']),
                'c': bits(math.cos(p['theta'])), 's': bits(math.sin(p['theta']))}

    def compare(self, case, impl, model):
        if 'driver_error' in model:
            return 'driver: ' + model['driver_error']
        if case['g'] == 'start_end':
            if 'err' in model or 'err' in impl:
                return None if ('err' in model) == ('err' in impl) else 'impl %s vs model %s' % (impl.get('err', 'ok'), model.get('err', 'ok'))
            return None if model['mask'] == impl['mask'] else 'start_end mask: impl %s vs model %s' % (impl['mask'], model['mask'])
        if case['g'] == 'high_low':
            return None if model['mask'] == impl['mask'] else 'high_low mask: impl %s vs model %s' % (impl['mask'][:20], model['mask'][:20])
        for c, m, pt in zip(model['cls'], impl['mask'], impl['params']['pts']):
            if not all(math.isfinite(struct.unpack('<d', struct.pack('<Q', v))[0]) for v in pt):
                continue
            if c != 2 and bool(c) != m:
                return 'ellipse: impl %s vs model class %s' % (m, c)
        return None

    def nontrivial_key(self, case, impl):
        if case['g'] == 'bad':
            return ('bad', case['what'])
        kept = sum(impl.get('mask', [])) if 'mask' in impl else -1
        cls = 'err' if 'err' in impl else 'none' if kept == 0 else 'all' if kept == case['N'] else 'some'
        if case['g'] == 'start_end':
            return ('se', case['cont'], case['N'], case['s'], case['e'], cls)
        if case['g'] == 'high_low':
            return ('hl', case['cont'], case.get('dtype'), case['chform'], case['high'], case['low'], cls)
        return ('el', case['cont'], case['log'], case['a'] > case['b'], round(case['theta'], 2), cls)
