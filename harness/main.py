import importlib, json, os, sys, traceback
sys.path.insert(0, os.path.dirname(os.path.abspath(__file__)))
# FLOWCAL_REPO lets the whole machinery run against another checkout (used by tools/mutant_matrix.py);
# by default FlowCal is the editable install of /repo.
if os.environ.get('FLOWCAL_REPO'):
    sys.path.insert(0, os.environ['FLOWCAL_REPO'])
import common

def main():
    if len(sys.argv) < 2:
        print('usage: ./check <Cxx> [--tier quick|thorough] [--replay file]'); return 2
    pid = sys.argv[1]
    try:
        mod = importlib.import_module(pid.lower())
    except ModuleNotFoundError as e:
        if e.name == pid.lower():
            print('no check for', pid); return 2
        raise
    try:
        return common.run_property(mod.Prop, sys.argv[2:])
    except Exception:
        tb = traceback.format_exc()
        print(tb)
        d = os.path.join(common.ROOT, 'replays'); os.makedirs(d, exist_ok=True)
        path = os.path.join(d, '%s-harness-exception.json' % pid)
        json.dump({'property': pid, 'kind': 'no-failing-input-found',
                   'no_longer_checks': ['correspondence harness for %s raised an unexpected exception' % pid],
                   'traceback': tb}, open(path, 'w'), indent=1)
        print('VIOLATION property=%s replay=%s no-failing-input-found' % (pid, os.path.relpath(path, common.ROOT)))
        return 1

if __name__ == '__main__':
    sys.exit(main())
