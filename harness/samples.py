"""Loaded samples with rich, pairwise distinct per-channel metadata (used by C03, C06, C07, C08, C12, C13, C19, C20)."""
import fcsgen
import fcswriter
import FlowCal


def spec_rich(rng, N=None, D=None, datatype='I', log_channels=None, time_channel=False, res=None):
    D = D or rng.randrange(2, 6)
    N = rng.randrange(0, 30) if N is None else N
    names = (['FSC-H', 'SSC-H', 'FL1-H', 'FL2-H', 'FL3-H', 'FL4-H'] + ['FL%d-H' % k for k in range(5, 20)])[:D]
    if time_channel and D >= 2:
        names[-1] = rng.choice(['Time', 'TIME', 'time'])
    widths = [16] * D if datatype == 'I' else [32] * D
    res = res or [rng.choice([256, 1024, 1000, 4096, 65536]) for _ in range(D)]
    ranges = list(res)
    pne = {}
    for c in range(D):
        if log_channels is not None:
            is_log = c in log_channels
        else:
            is_log = rng.random() < 0.5
        if is_log and names[c].lower() != 'time':
            pne[str(c + 1)] = '%s,%s' % (rng.choice(['4', '4.0', '3', '4.5', '7.3', '2', '0.5', '0.75']), rng.choice(['1', '0', '1.0', '0.5', '0.0']))
        else:
            pne[str(c + 1)] = '0,0'
    extra = []
    for c in range(D):
        if rng.random() < 0.6:
            extra.append(['$P%dG' % (c + 1), rng.choice(['1', '2', '0.5', '8', '1.0', '2.5E+00', '+2.0', '1e1', '5.0e-01'])])
        if rng.random() < 0.6:
            extra.append(['$P%dV' % (c + 1), str(rng.choice([450, 500.5, 650, 700]))])
        if rng.random() < 0.5:
            extra.append(['$P%dS' % (c + 1), 'stain %d' % c])
    if D >= 3 and N % 2 == 0:
        # the first channel's label ($P1S) is the NAME of the last channel: names, not labels, identify channels
        extra = [kv for kv in extra if kv[0] != '$P1S'] + [['$P1S', names[D - 1]]]
    if rng.random() < 0.7:
        # whole seconds, FCS3.1 fractions (hh:mm:ss.cc) and FCS3.0 ticks (hh:mm:ss:tt)
        frac = ['', '.50', ':30'][(D + N) % 3]
        extra += [['$BTIM', '12:00:01' + frac], ['$ETIM', '12:03:0%d%s' % (rng.randrange(10), frac)], ['$DATE', '02-OCT-2015']]
    if time_channel or rng.random() < 0.3:
        extra.append(['$TIMESTEP', ['0.01', '0.01', '0', '0.0'][(D + N) % 4]])
    if datatype == 'I':
        events = [[rng.choice([0, r - 1, 1, r - 2]) if rng.random() < 0.2 else rng.randrange(0, r) for r in res] for _ in range(N)]
    else:
        import struct
        events = [[struct.unpack('<I', struct.pack('<f', rng.choice([0.0, float(r - 1)]) if rng.random() < 0.1 else rng.uniform(-50, r)))[0]
                   for r in res] for _ in range(N)]
    return {'version': rng.choice(['FCS2.0', 'FCS3.0', 'FCS3.1']), 'delim': '/', 'datatype': datatype, 'byteord': '1,2,3,4',
            'widths': widths, 'ranges': ranges, 'events': events, 'names': names, 'pne': pne, 'extra': extra}


def load(spec, name=None):
    data, _ = fcswriter.build(spec)
    path = fcsgen.write_tmp(data, name=name)
    return FlowCal.io.FCSData(path), path
