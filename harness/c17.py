"""C17 — Acquisition metadata reflects the file's keywords and never blocks loading."""
import datetime
import itertools
import re
import warnings

import numpy as np

import common
import fcsgen
import fcswriter
import FlowCal

OPT = ['$TIMESTEP', 'TIMETICKS', '$BTIM', '$ETIM', '$DATE', '$PnV', '$PnG', '$PnS', 'CREATOR', 'BD$WORDn', 'CytekPnnG']
MONTHS = ['jan', 'feb', 'mar', 'apr', 'may', 'jun', 'jul', 'aug', 'sep', 'oct', 'nov', 'dec']

GOOD = {
    '$TIMESTEP': ['0.01', '1', '2.5e-2', ' 0.5 ', '0', '0.0', '-0.0', '0e0'],
    'TIMETICKS': ['200', '10.0', '1e3', '0'],
    '$BTIM': ['12:00:01', '9:5:7', '17:45:23.5', '12:03:09:20', '00:00:00:0', '23:59:59:59', '08:15:30.25', '10:11:12:3', '01:02:03:1', '10:11:12:0.5', '05:06:07.05'],
    '$ETIM': ['12:03:07', '10:6:9', '18:00:00.75', '12:04:10:30', '00:10:00:15', '23:59:59', '07:00:00', '10:11:13:05', '10:11:13:2.25', '11:00:00.007'],
    # two-digit years follow the fixed pivot of strptime (69-99 -> 19xx, 00-68 -> 20xx), also when that lies in the future
    '$DATE': ['02-OCT-2015', '2-oct-15', '15-Oct-02', '2015-OCT-31', '99-jan-05', '29-FEB-2016', '01-JAN-70', '07-Mar-68', '29-Feb-48', '55-Oct-31', '31-dec-68', '01-jan-69'],
    'V': ['450', '500.5', ' 650', '7e2'], 'G': ['1', '2.0', '0.5', '8'], 'S': ['CD4 label', 'x', ' CD8 PE', 'GFP     ', ' ', '  padded  '],
}
# other spellings of well-formed numbers: upper-case exponent marker (C's %E, Java), no digit before or after the decimal point, explicit plus sign
GOOD_SCI = {'$TIMESTEP': ['1.0E-02', '.05', '2.5E-2', '+0.01', '1E0', '5.E-3'], 'TIMETICKS': ['2E2', '12.5', '.5E3', '+200'],
            'V': ['4.5E2', '.5E3', '+450', '450.', '6.5E+02'], 'G': ['2E0', '.5', '1.E0', '+8', '2.5E-1']}
BAD = {
    '$TIMESTEP': ['abc', '1,5', '0.01s', '--1', '1_', 'e5'],
    'TIMETICKS': ['tick', '2 00', '0x10'],
    '$BTIM': ['12:00', '25:00:00', '12:61:00', '12:00:61', '12:00:00:xx', '12:00:00:60', '12:00:00:-1', 'noon', '1:2:3:4:5', '12:00:00.', '12.00.00',
              '12:00:00:1e9', '12:00:00:nan', '12:00:00:inf', ':::', '12:00:0a', '16.51:46:10', '12.5:30:10', '16:51.5:46', '1.5:00:00', '23.59:59:59'],
    '$ETIM': ['late', '24:00:00', '12:00:00:99', '12:00', '12.5:30:10', '16:51.5:46'],
    '$DATE': ['2015/10/02', '31-FEB-2015', '02-OKT-2015', '02-10-2015', 'OCT-02-2015', '00-JAN-2015', '32-JAN-2015', '2-oct-015', 'x'],
    'V': ['high', '4 50', '1,5'], 'G': ['g', '2x'],
}


def ref_time(s):
    """documented time formats hh:mm:ss, hh:mm:ss.cc, hh:mm:ss:tt (tt in 1/60 s) -> (h, m, s, microseconds) or None"""
    if s is None:
        return None
    m = re.fullmatch(r'(\d{1,2}):(\d{1,2}):(\d{1,2})', s)
    us = 0
    if m is None:
        m = re.fullmatch(r'(\d{1,2}):(\d{1,2}):(\d{1,2})\.(\d{1,6})', s)
        if m:
            us = int(m.group(4).ljust(6, '0'))
        else:
            m = re.fullmatch(r'(\d{1,2}):(\d{1,2}):(\d{1,2}):([0-9.eE+-]+|nan|inf)', s)
            if not m:
                return None
            try:
                tt = float(m.group(4))
                us = int(tt * 1e6 / 60)
            except (ValueError, OverflowError):
                return None
            if not (0 <= us < 1000000) or (tt < 0 and us != 0):
                return None
    h, mi, se = int(m.group(1)), int(m.group(2)), int(m.group(3))
    if h > 23 or mi > 59 or se > 59:
        return None
    return (h, mi, se, us)


def ref_date(s):
    if s is None:
        return None
    parts = s.split('-')
    if len(parts) != 3:
        return None
    a, b, c = parts
    if b.lower() not in MONTHS:
        return None
    mo = MONTHS.index(b.lower()) + 1

    def day(x):
        return int(x) if re.fullmatch(r'0[1-9]|[12]\d|3[01]|[1-9]| [1-9]', x) else None

    def y2(x):
        return (2000 + int(x) if int(x) < 69 else 1900 + int(x)) if re.fullmatch(r'\d\d', x) else None

    def y4(x):
        return int(x) if re.fullmatch(r'\d{4}', x) and int(x) >= 1 else None
    for yy, dd in ((y2(c), day(a)), (y4(c), day(a)), (y2(a), day(c)), (y4(a), day(c))):
        if yy is not None and dd is not None:
            try:
                datetime.date(yy, mo, dd)
                return (yy, mo, dd)
            except ValueError:
                continue
    return None


def fl(x):
    try:
        return float(x)
    except (ValueError, TypeError):
        return None


class Prop(common.PropertyCheck):
    pid = 'C17'
    rule = ("files from the independent writer over the optional-keyword lattice: all 2^11 subsets of {$TIMESTEP, TIMETICKS, $BTIM, $ETIM, $DATE, $PnV, "
            "$PnG, $PnS, CREATOR, BD$WORDn, CytekPnnG} with one well-formed value form each, plus random subsets x well-formed values in every accepted "
            "format x ill-formed values (non-numeric, wrong field count, out-of-range fields) x time channel absent / present in upper, lower, mixed case / "
            "two time channels x FCS version. Non-trivial = distinct (subset, ill-formed keyword set, time-channel kind, acquisition source).")
    batch_size = 300
    assumptions = ["datetime.strptime / float() / int() of CPython are modelled in FlowCal.Meta / FlowCal.Py (validated by this run and the reference parser)",
                   "$PnE is outside the 'optional, may be ill-formed' list of the property: it is always written well-formed"]

    def make_case(self, rng, subset, illformed=(), timech=None, form=None):
        form = form or {}
        return {'subset': sorted(subset), 'ill': sorted(illformed), 'timech': timech, 'seed': rng.randrange(1 << 30),
                'version': rng.choice(['FCS2.0', 'FCS3.0', 'FCS3.1']), 'creator': rng.choice(['CellQuest Pro 5.2', 'FlowJoCollectorsEdition 7.5', 'Other']),
                'form': form, 'dt': rng.choice(['I', 'I', 'F']), 'D': rng.choice([3, 3, 3, 11, 12]), 'nev': rng.choice([3, 3, 1, 2])}

    def gen_cases(self):
        rng = self.rng
        for k in range(2 ** len(OPT)):
            subset = [OPT[i] for i in range(len(OPT)) if (k >> i) & 1]
            yield self.make_case(rng, subset, timech=rng.choice([None, 'Time', 'TIME', 'time', None]))
        for _ in range(self.budget(900, 12000)):
            subset = [o for o in OPT if rng.random() < 0.6]
            ill = [o for o in subset if o in ('$TIMESTEP', 'TIMETICKS', '$BTIM', '$ETIM', '$DATE', '$PnV', '$PnG', 'BD$WORDn', 'CytekPnnG') and rng.random() < 0.3]
            yield self.make_case(rng, subset, ill, timech=rng.choice([None, None, 'Time', 'TIME', 'tImE', 'two']), form={'r': rng.randrange(1000)})
        for i in range(self.budget(30, 300)):
            c = self.make_case(rng, [o for o in OPT if rng.random() < 0.5], timech=[None, 'Time'][i % 2])
            c.update({'dt': 'F', 'frac_range': True, 'D': [3, 3, 11][i % 3]})
            yield c

        # CREATOR values that mention the acquisition program somewhere else than at the start (vendor prefix, leading blank): the documented
        # fallbacks for detector voltage (BD$WORDn) and gain (CytekPnnG) apply whenever the program name occurs in CREATOR
        creators = ['BD CellQuest Pro 5.2.1', 'Tree Star FlowJoCollectorsEdition 7.5.110.7', ' CellQuest Pro', 'BD FACSCalibur / CellQuest Pro 6.0', 'x FlowJoCollectorsEdition',
                    'CellQuest ProFlowJoCollectorsEdition', 'FlowJoCollectorsEdition+CellQuest Pro', 'cellquest pro 5.2', 'CellQuestPro']
        for i in range(self.budget(36, 300)):
            sub = ['CREATOR', 'BD$WORDn', 'CytekPnnG'] + [o for o in ('$PnV', '$PnG', '$PnS', '$DATE') if (i >> (1 + ('$PnV', '$PnG', '$PnS', '$DATE').index(o))) & 1 and i % 4 == 3]
            c = self.make_case(rng, sub, timech=[None, 'Time'][i % 2])
            c.update({'creator': creators[i % len(creators)], 'D': [3, 11, 12][i % 3]})
            yield c

        # numbers written with an upper-case exponent marker, without a digit before / after the decimal point, with a plus sign
        for i in range(self.budget(40, 300)):
            sub = [o for o in ('$TIMESTEP', 'TIMETICKS', '$PnV', '$PnG', 'BD$WORDn', 'CytekPnnG', 'CREATOR') if (i >> ('$TIMESTEP', 'TIMETICKS', '$PnV', '$PnG', 'BD$WORDn', 'CytekPnnG', 'CREATOR').index(o)) & 1 or i % 5 == 0]
            c = self.make_case(rng, sub or ['$TIMESTEP'], timech=[None, 'Time'][i % 2])
            c['sci'] = True
            yield c
        # time channels that are not monotone along the event list: the acquisition time is that between the first and the last event
        for i in range(self.budget(24, 200)):
            c = self.make_case(rng, ['$TIMESTEP'] + [o for o in ('TIMETICKS', '$BTIM', '$ETIM', '$DATE') if rng.random() < 0.5], timech=['Time', 'TIME', 'time'][i % 3])
            c.update({'tperm': True, 'nev': 3, 'dt': ['I', 'F'][i % 2]})
            yield c

        # channels whose names begin with or contain "time" without being the time channel (Timer, Time-MSW, TIMESTAMP-LO, Lifetime)
        for i in range(self.budget(24, 200)):
            c = self.make_case(rng, ['$TIMESTEP', '$BTIM', '$ETIM'] + [o for o in ('$DATE', 'TIMETICKS') if rng.random() < 0.5], timech=[None, 'Time', None, 'TIME'][i % 4])
            c.update({'time_like': ['Timer', 'Time-MSW', 'TIMESTAMP-LO', 'Lifetime', 'time2', 'Time '][i % 6], 'nev': 3})
            yield c

    def spec_of(self, case):
        import random
        r = random.Random(case['seed'])
        D = case.get('D', 3)
        names = ['FSC-H', 'FL1-H', 'FL2-H'] + ['X%d-A' % k for k in range(4, D + 1)]
        if case.get('time_like'):
            names[1] = case['time_like']          # a channel whose name merely begins with / contains "time": not the time channel
        if case['timech'] == 'two':
            names = ['Time', 'FL1-H', 'TIME'] + names[3:]
        elif case['timech']:
            names[2] = case['timech']
        extra = []
        sub, ill = set(case['subset']), set(case['ill'])

        def val(key, kind):
            pool = (BAD if key in ill else GOOD)[kind]
            if case.get('sci') and key not in ill and kind in GOOD_SCI:
                pool = GOOD_SCI[kind]
            return r.choice(pool)
        for key in ('$TIMESTEP', 'TIMETICKS', '$BTIM', '$ETIM', '$DATE'):
            if key in sub:
                extra.append([key, val(key, key)])
        creator = case['creator']
        if 'CREATOR' in sub:
            extra.append(['CREATOR', creator])
        for i in range(1, D + 1):
            if '$PnV' in sub and (i != 2):
                extra.append(['$P%dV' % i, val('$PnV', 'V')])
            if '$PnG' in sub and (i != 3):
                extra.append(['$P%dG' % i, val('$PnG', 'G')])
            if '$PnS' in sub and i != 1:
                extra.append(['$P%dS' % i, r.choice(GOOD['S'])])
            if 'BD$WORDn' in sub:
                extra.append(['BD$WORD%d' % (12 + i), val('BD$WORDn', 'V')])
            if 'CytekPnnG' in sub:
                extra.append(['CytekP%02dG' % i, val('CytekPnnG', 'G')])
        ev = [[5, 10, 100] + [3] * (D - 3), [7, 20, 250] + [4] * (D - 3), [9, 30, 400] + [5] * (D - 3)]
        ev = ev[:case.get('nev', 3)]
        if case.get('tperm') and len(ev) == 3:
            # the clock channel is not monotone along the event list (a counter that wrapped, events written out of order): 250, 100, 400
            ev[0][2], ev[1][2] = 250, 100
        dt = case.get('dt', 'I')
        if dt == 'F':
            import struct
            ev = [[struct.unpack('<I', struct.pack('<f', float(v)))[0] for v in row] for row in ev]
        pne = {'1': '0,0', '2': '4,0', '3': '0,0' if case['timech'] else '3.5,1'}
        for k in range(4, D + 1):
            pne[str(k)] = ['0,0', '4.0,0.0', '5,1', '3,0'][k % 4]
        ranges = [1024, 4096, 1000] + [1024] * (D - 3)
        if case.get('frac_range') and dt == 'F':
            # floating-point files may declare a range that is not a whole number
            ranges = (['262143.5', '1000.25', '4194303.75', '1.5', '0.5', '99.9'] * D)[case['seed'] % 3:][:D]
        return {'version': case['version'], 'delim': '|', 'datatype': dt, 'byteord': '1,2,3,4', 'widths': [16 if dt == 'I' else 32] * D,
                'ranges': ranges, 'events': ev, 'names': names, 'pne': pne, 'extra': extra}

    def run_impl(self, case):
        spec = self.spec_of(case)
        data, layout = fcswriter.build(spec)
        path = fcsgen.write_tmp(data, name='c17.fcs')
        text = {}
        for k, v in layout['text_pairs']:
            text[k] = v
        out = {'text': [[list(k.encode('latin1')), list(v.encode('latin1'))] for k, v in text.items()], 'tdict': text}
        try:
            with warnings.catch_warnings():
                warnings.simplefilter('ignore')
                d = FlowCal.io.FCSData(path)
        except Exception as e:
            out['load_err'] = type(e).__name__ + ':' + str(e)[:80]
            return out

        def tm(x):
            if x is None:
                return None
            if isinstance(x, datetime.datetime):
                return {'date': [x.year, x.month, x.day], 'time': [x.hour, x.minute, x.second, x.microsecond]}
            return {'date': None, 'time': [x.hour, x.minute, x.second, x.microsecond]}
        out.update({'time_step': d.time_step, 'start': tm(d.acquisition_start_time), 'stop': tm(d.acquisition_end_time),
                    'voltages': list(d.detector_voltage()), 'gains': list(d.amplifier_gain()), 'labels': list(d.channel_labels()),
                    'names': list(d.channels), 'range': [list(x) for x in d.range()], 'resolution': list(d.resolution()),
                    'amp': [list(a) if a is not None else None for a in d.amplification_type()]})
        try:
            out['acq'] = d.acquisition_time
            out['acq'] = None if out['acq'] is None else float(out['acq'])
        except Exception as e:
            out['acq_err'] = type(e).__name__
        return out

    def post(self):
        fcsgen.cleanup()

    def oracle(self, case, impl):
        if 'load_err' in impl:
            return 'optional keywords %s (ill-formed: %s) made loading fail: %s' % (case['subset'], case['ill'], impl['load_err'])
        t = impl['tdict']
        # time step
        want_ts = fl(t['$TIMESTEP']) if '$TIMESTEP' in t else (fl(t['TIMETICKS']) / 1000. if ('TIMETICKS' in t and fl(t['TIMETICKS']) is not None) else None)
        if impl['time_step'] != want_ts:
            return 'time_step is %r, keywords say %r' % (impl['time_step'], want_ts)
        date = ref_date(t.get('$DATE'))
        for key, attr in (('$BTIM', 'start'), ('$ETIM', 'stop')):
            rt = ref_time(t.get(key))
            want = None if rt is None else {'date': list(date) if date else None, 'time': list(rt)}
            if impl[attr] != want:
                return '%s=%r $DATE=%r: %s time is %s, expected %s' % (key, t.get(key), t.get('$DATE'), attr, impl[attr], want)
        D = case.get('D', 3)
        cq = 'CellQuest Pro' in t.get('CREATOR', '')
        fj = 'FlowJoCollectorsEdition' in t.get('CREATOR', '')
        for i in range(1, D + 1):
            v = t.get('$P%dV' % i)
            if v is None and cq:
                v = t.get('BD$WORD%d' % (12 + i))
            if impl['voltages'][i - 1] != (fl(v) if v is not None else None):
                return 'detector voltage of channel %d is %r, keywords say %r' % (i, impl['voltages'][i - 1], v)
            g = t.get('$P%dG' % i)
            if g is None and fj:
                g = t.get('CytekP%02dG' % i)
            if impl['gains'][i - 1] != (fl(g) if g is not None else None):
                return 'amplifier gain of channel %d is %r, keywords say %r' % (i, impl['gains'][i - 1], g)
            if impl['labels'][i - 1] != t.get('$P%dS' % i):
                return 'label of channel %d' % i
            if impl['names'][i - 1] != t.get('$P%dN' % i):
                return 'name of channel %d' % i
            R = float(t['$P%dR' % i])
            if impl['range'][i - 1] != [0.0, R - 1] or impl['resolution'][i - 1] != int(R):
                return 'range/resolution of channel %d: %s %s for $PnR=%s' % (i, impl['range'][i - 1], impl['resolution'][i - 1], R)
            a0, a1 = [float(x) for x in t['$P%dE' % i].split(',')]
            if a0 != 0 and a1 == 0:
                a1 = 1.0
            if impl['amp'][i - 1] != [a0, a1]:
                return 'amplification type of channel %d is %s, expected %s' % (i, impl['amp'][i - 1], [a0, a1])
        # acquisition time
        tch = [n for n in impl['names'] if n.lower() == 'time']
        if len(tch) > 1:
            if impl.get('acq_err') != 'KeyError':
                return 'two time channels: acquisition_time gave %s' % (impl.get('acq_err') or impl.get('acq'))
            return None
        if 'acq_err' in impl:
            return 'acquisition_time raised %s (keywords %s, ill-formed %s, time channel %s)' % (impl['acq_err'], case['subset'], case['ill'], case['timech'])
        if len(tch) == 1 and want_ts is not None:
            last = {1: 100, 2: 250, 3: 400}[case.get('nev', 3)]        # value of the time channel in the last event (first: 100)
            first = 250 if (case.get('tperm') and case.get('nev', 3) == 3) else 100
            want = (last - first) * want_ts
            src = 'time channel'
        elif impl['start'] is not None and impl['stop'] is not None:
            s, e = impl['start']['time'], impl['stop']['time']
            want = (e[0] - s[0]) * 3600 + (e[1] - s[1]) * 60 + (e[2] - s[2]) + (e[3] - s[3]) / 1e6
            src = 'start/end'
        else:
            want, src = None, 'absent'
        self.bump('acq:' + src)
        got = impl.get('acq')
        if (got is None) != (want is None) or (want is not None and common.far(got, want, 1e-9 * max(1, abs(want)))):
            return 'acquisition_time is %r, expected %r from %s' % (got, want, src)
        return None

    def model_request(self, case, impl):
        return {'op': 'meta', 'text': impl['text'], 'npar': case.get('D', 3)}

    def compare(self, case, impl, model):
        if 'driver_error' in model:
            return 'driver: ' + model['driver_error']
        if 'err' in model or 'load_err' in impl:
            if ('err' in model) != ('load_err' in impl):
                return 'impl %s vs model %s' % (impl.get('load_err', 'loads'), model.get('err', 'ok'))
            return None

        def s(x):
            return None if x is None else bytes(x).decode('latin1')
        mts = model['time_step']
        want = None if mts is None else (float(s(mts['lit'])) / 1000. if mts['div1000'] else float(s(mts['lit'])))
        if want != impl['time_step']:
            return 'time_step impl %r vs model %r' % (impl['time_step'], want)
        for a in ('start', 'stop'):
            if model[a] != impl[a]:
                return '%s impl %s vs model %s' % (a, impl[a], model[a])
        for a in ('voltages', 'gains'):
            mv = [None if x is None else float(s(x)) for x in model[a]]
            if mv != impl[a]:
                return '%s impl %s vs model %s' % (a, impl[a], mv)
        if [s(x) for x in model['labels']] != impl['labels'] or [s(x) for x in model['names']] != impl['names']:
            return 'labels/names differ'
        ma = model['acq']
        if 'err' in ma or 'acq_err' in impl:
            if ('err' in ma) != ('acq_err' in impl):
                return 'acquisition_time impl %s vs model %s' % (impl.get('acq_err', impl.get('acq')), ma)
            return None
        if (ma['src'] == 'absent') != (impl['acq'] is None):
            return 'acquisition source: model %s vs impl %r' % (ma['src'], impl['acq'])
        return None

    def nontrivial_key(self, case, impl):
        if not case['subset']:
            return None
        src = 'err' if ('acq_err' in impl or 'load_err' in impl) else ('none' if impl.get('acq') is None else 'val')
        return (tuple(case['subset']), tuple(case['ill']), case['timech'], src)
