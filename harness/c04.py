"""C04 — Channel metadata stays aligned with columns under every indexing expression."""
import itertools

import numpy as np

import common
import fcsgen
import fcswriter
import FlowCal

ATTRS = ['channels', 'range', 'resolution', 'amplification_type', 'amplifier_gain', 'detector_voltage', 'channel_labels']


def make_sample(N, D):
    """A loaded sample whose cell (r, c) holds r*D + c and whose channels have pairwise distinct metadata."""
    spec = {'version': 'FCS3.0', 'delim': '/', 'datatype': 'I', 'byteord': '1,2,3,4',
            'widths': [16] * D, 'ranges': [1024 * (c + 1) for c in range(D)],
            'events': [[r * D + c for c in range(D)] for r in range(N)],
            'names': ['ch%d' % c for c in range(D)],
            'pne': {str(c + 1): '%d,%s' % (c, '1' if c else '0') for c in range(D)},
            'extra': sum([[['$P%dG' % (c + 1), str(2 + c)], ['$P%dV' % (c + 1), str(100 + c)], ['$P%dS' % (c + 1), 'label%d' % c]]
                          for c in range(D)], [])}
    data, _ = fcswriter.build(spec)
    path = fcsgen.write_tmp(data)
    return FlowCal.io.FCSData(path)


def to_py_row(k):
    t = k['t']
    if t == 'int':
        return k['v']
    if t == 'slice':
        return slice(*k['v'])
    if t == 'ints':
        return np.array(k['v'], dtype=np.int64) if k.get('np') else list(k['v'])
    if t == 'mask':
        return np.array(k['v'], dtype=bool) if k.get('np', True) else list(k['v'])
    return Ellipsis


def atom_py(a):
    if a['t'] == 'pos':
        return a['v']
    if a['t'] == 'name':
        return a['v']
    if a['t'] == 'bool':
        return bool(a['v'])
    return np.int64(a['v'])


def to_py_col(k):
    t = k['t']
    if t == 'slice':
        return slice(*k['v'])
    if t == 'list':
        l = [atom_py(a) for a in k['v']]
        if k.get('oneshot') == 'gen':
            return (x for x in l)                    # iterables that can be walked only once
        if k.get('oneshot') == 'iter':
            return iter(l)
        if k.get('oneshot') == 'reversed':
            return reversed(l[::-1])
        if k.get('oneshot') == 'map':
            return map(lambda x: x, l)
        return tuple(l) if k.get('tuple') else l
    if t == 'ellipsis':
        return Ellipsis
    return atom_py(k)


ROWONLY = 'ROWONLY'


def idx(obj, rk, ck):
    """obj[rows, channels], or obj[rows] when the key has no channel part"""
    if ck['t'] == 'rowonly':
        return obj[to_py_row(rk)]
    return obj[to_py_row(rk), to_py_col(ck)]


def pidx(arr, rk, pc):
    if pc == ROWONLY:
        return arr[to_py_row(rk)]
    return arr[to_py_row(rk), pc]


def plain_col(k, names):
    """Independent translation of a channel key to what plain array indexing needs (None = must be refused)."""
    def at(a):
        if a['t'] == 'name':
            return names.index(a['v']) if a['v'] in names else None
        if a['t'] == 'pos':
            return a['v'] if -len(names) <= a['v'] < len(names) else None
        return 'other'
    t = k['t']
    if t == 'rowonly':
        return ROWONLY
    if t == 'slice':
        return slice(*k['v'])
    if t == 'ellipsis':
        return Ellipsis
    if t == 'list':
        l = [at(a) for a in k['v']]
        if 'other' in l:
            return 'other'
        return None if None in l else l
    return at(k)


class Prop(common.PropertyCheck):
    pid = 'C04'
    rule = ("index keys (rows: int, -int, slice, int list, bool mask, Ellipsis) x (channels: position, -position, name, slice, list/tuple mixing names "
            "and positions, Ellipsis, plus boolean lists and NumPy integers) applied to loaded samples whose cells encode their own provenance and "
            "whose channels have pairwise distinct metadata: exhaustive key pools on shapes <= 2x2 (quick) / <= 3x3 (thorough), random keys on shapes up to 6x5, "
            "chains of up to three successive keys, and assignment through the same keys. Non-trivial = distinct (shape, row-key kind, col-key kind, "
            "result kind) with a non-identity selection.")
    batch_size = 5000
    assumptions = ["NumPy basic/advanced indexing of a 2-D array is modelled by FlowCal.Index.npSelect (validated by this run against plain ndarray indexing)"]

    def __init__(self, *a):
        super().__init__(*a)
        self._samples = {}

    def sample(self, N, D):
        if (N, D) not in self._samples:
            self._samples[(N, D)] = make_sample(N, D)
        return self._samples[(N, D)]

    # ---- key pools ------------------------------------------------------------
    def row_pool(self, N, small):
        ks = [{'t': 'ellipsis'}]
        ks += [{'t': 'int', 'v': i} for i in range(-N - 1, N + 1)]
        ends = [None] + list(range(-N - 1, N + 2))
        steps = [None, 1, 2, -1, -2] if not small else [None, 2, -1]
        ks += [{'t': 'slice', 'v': [a, b, c]} for a in ends for b in ends for c in steps]
        ks += [{'t': 'ints', 'v': list(l)} for n in (0, 1, 2) for l in itertools.product(range(-N, N + 1), repeat=n)]
        ks += [{'t': 'mask', 'v': list(m)} for m in itertools.product([False, True], repeat=N)]
        ks += [{'t': 'mask', 'v': [True] * (N + 1)}]
        return ks

    def col_pool(self, D, small):
        names = ['ch%d' % c for c in range(D)]
        atoms = [{'t': 'pos', 'v': i} for i in range(-D - 1, D + 1)] + [{'t': 'name', 'v': n} for n in names] + \
                [{'t': 'name', 'v': 'nope'}, {'t': 'name', 'v': 'CH0'}, {'t': 'name', 'v': 'Ch%d' % (D - 1)}, {'t': 'name', 'v': 'ch0 '}, {'t': 'bool', 'v': True}, {'t': 'npint', 'v': 0}]
        ks = [{'t': 'ellipsis'}] + atoms
        ends = [None] + list(range(-D - 1, D + 2))
        steps = [None, 1, 2, -1, -2] if not small else [None, 2, -1]
        ks += [{'t': 'slice', 'v': [a, b, c]} for a in ends for b in ends for c in steps]
        good = [a for a in atoms if a['t'] in ('pos', 'name')]
        ks += [{'t': 'list', 'v': []}]
        ks += [{'t': 'list', 'v': [a]} for a in atoms]
        ks += [{'t': 'list', 'v': [a, b], 'tuple': (i + j) % 2 == 1} for i, a in enumerate(good) for j, b in enumerate(good)]
        ks += [{'t': 'list', 'v': [{'t': 'bool', 'v': b} for b in m]} for m in itertools.product([False, True], repeat=D)]
        return ks

    def rand_row(self, N):
        rng = self.rng
        t = rng.choice(['int', 'slice', 'slice', 'ints', 'mask', 'ellipsis'])
        if t == 'int':
            return {'t': 'int', 'v': rng.randrange(-N - 1, N + 1)}
        if t == 'slice':
            return {'t': 'slice', 'v': [rng.choice([None] + list(range(-N - 2, N + 3))), rng.choice([None] + list(range(-N - 2, N + 3))),
                                        rng.choice([None, 1, 2, 3, -1, -2, -3])]}
        if t == 'ints':
            return {'t': 'ints', 'v': [rng.randrange(-N, N) for _ in range(rng.randrange(0, 5))]}
        if t == 'mask':
            return {'t': 'mask', 'v': [rng.random() < 0.5 for _ in range(N)], 'np': rng.random() < 0.7}
        return {'t': 'ellipsis'}

    def rand_col(self, D):
        rng = self.rng
        names = ['ch%d' % c for c in range(D)]

        def atom():
            r = rng.random()
            if r < 0.45:
                return {'t': 'name', 'v': rng.choice(names)}
            if r < 0.9:
                return {'t': 'pos', 'v': rng.randrange(-D, D)}
            return rng.choice([{'t': 'pos', 'v': D}, {'t': 'pos', 'v': -D - 1 - rng.randrange(0, 2 * D)}, {'t': 'name', 'v': 'zz'}, {'t': 'name', 'v': 'CH%d' % rng.randrange(D)},
                               {'t': 'name', 'v': ' ch0'}, {'t': 'bool', 'v': True}, {'t': 'npint', 'v': 1}])
        t = rng.choice(['atom', 'slice', 'list', 'list', 'ellipsis'])
        if t == 'atom':
            return atom()
        if t == 'slice':
            return {'t': 'slice', 'v': [rng.choice([None] + list(range(-D - 2, D + 3))), rng.choice([None] + list(range(-D - 2, D + 3))),
                                        rng.choice([None, 1, 2, -1, -2])]}
        if t == 'list':
            return {'t': 'list', 'v': [atom() for _ in range(rng.randrange(0, 5))], 'tuple': rng.random() < 0.4}
        return {'t': 'ellipsis'}

    def gen_cases(self):
        small = self.tier == 'quick'
        shapes = [(n, d) for n in (1, 2) for d in (1, 2)] if small else [(n, d) for n in (1, 2, 3) for d in (1, 2, 3)]
        for N, D in shapes:
            rp, cp = self.row_pool(N, small), self.col_pool(D, small)
            for rk in rp:
                for ck in cp:
                    yield {'N': N, 'D': D, 'keys': [[rk, ck]]}
        # event keys alone (no channel part): masks as arrays and as Python lists, position lists, slices, single positions
        for N, D in shapes:
            for rk in self.row_pool(N, small):
                yield {'N': N, 'D': D, 'keys': [[rk, {'t': 'rowonly'}]]}
                if rk['t'] == 'mask':
                    yield {'N': N, 'D': D, 'keys': [[dict(rk, np=False), {'t': 'rowonly'}]]}
        rng = self.rng
        for _ in range(self.budget(600, 8000)):
            N, D = rng.randrange(1, 9), rng.randrange(1, 6)
            keys = [[self.rand_row(N), {'t': 'rowonly'}]]
            if rng.random() < 0.4:
                keys.append([{'t': 'slice', 'v': [None, None, None]}, self.rand_col(D)])
            yield {'N': N, 'D': D, 'keys': keys, 'set': rng.random() < 0.3}
        for _ in range(self.budget(4000, 60000)):
            N, D = rng.randrange(1, 7), rng.randrange(1, 6)
            yield {'N': N, 'D': D, 'keys': [[self.rand_row(N), self.rand_col(D)]], 'set': rng.random() < 0.3}
        # assignments whose addressed block is square (as many events as channels): items run along the channels
        for k in (2, 3, 4):
            for N, D in ((k, k), (k + 3, k + 1), (k, 5)):
                for a in range(0, N - k + 1):
                    cols = list(range(D)); rng.shuffle(cols)
                    ck = {'t': 'list', 'v': [({'t': 'name', 'v': 'ch%d' % c} if (c + a) % 2 else {'t': 'pos', 'v': c}) for c in cols[:k]]}
                    yield {'N': N, 'D': D, 'keys': [[{'t': 'slice', 'v': [a, a + k, None]}, ck]], 'set': True}
                    yield {'N': N, 'D': D, 'keys': [[{'t': 'ints', 'v': list(range(a, a + k))}, ck]], 'set': True}
                    yield {'N': N, 'D': D, 'keys': [[{'t': 'slice', 'v': [a, a + k, None]}, {'t': 'slice', 'v': [0, k, None]}]], 'set': True}
        # channel keys given as iterables that can be walked only once (generator, iterator, reversed, map)
        for i in range(self.budget(40, 300)):
            N, D = rng.randrange(1, 6), rng.randrange(2, 6)
            atoms = [({'t': 'name', 'v': 'ch%d' % c} if rng.random() < 0.5 else {'t': 'pos', 'v': c - (D if rng.random() < 0.3 else 0)}) for c in rng.sample(range(D), rng.randrange(1, D + 1))]
            yield {'N': N, 'D': D, 'keys': [[self.rand_row(N), {'t': 'list', 'v': atoms, 'oneshot': ['gen', 'iter', 'reversed', 'map'][i % 4]}]], 'oneshot': True}
        # event positions given as NumPy integer arrays of exactly N entries, all 0 or 1 (positions, not a mask)
        for N in (1, 2, 3, 4):
            for D in (1, 3):
                for v in ([0] * N, [1 % N] * N, [(i % 2) % N for i in range(N)], [((i + 1) % 2) % N for i in range(N)]):
                    yield {'N': N, 'D': D, 'keys': [[{'t': 'ints', 'v': v, 'np': True}, {'t': 'rowonly'}]], 'set': N % 2 == 0}
                    yield {'N': N, 'D': D, 'keys': [[{'t': 'ints', 'v': v, 'np': True}, {'t': 'slice', 'v': [None, None, None]}]], 'set': N % 2 == 1}
        # names that are the text of a number ('1', '-1', ' 0 ', '00'): not channel names, hence refused (never taken as positions)
        for i, txt in enumerate(['0', '1', '-1', ' 0 ', '00', '2', '1.0', '+1']):
            for N, D in ((2, 3), (3, 2)):
                yield {'N': N, 'D': D, 'keys': [[{'t': 'slice', 'v': [None, None, None]}, {'t': 'name', 'v': txt}]], 'set': i % 2 == 1}
                yield {'N': N, 'D': D, 'keys': [[{'t': 'ints', 'v': [0]}, {'t': 'list', 'v': [{'t': 'name', 'v': 'ch0'}, {'t': 'name', 'v': txt}]}]], 'set': i % 2 == 0}
        # a one-channel column (1-D) taken first, then events selected from it: the channel metadata stays that of the one channel
        for N in (1, 2, 4):
            for D in (1, 3):
                for first in ([{'t': 'slice', 'v': [0, 1, None]}, {'t': 'name', 'v': 'ch%d' % (D - 1)}], [{'t': 'ints', 'v': [N - 1]}, {'t': 'pos', 'v': 0}],
                              [{'t': 'slice', 'v': [None, None, None]}, {'t': 'pos', 'v': -1}], [{'t': 'mask', 'v': [True] + [False] * (N - 1)}, {'t': 'name', 'v': 'ch0'}]):
                    for second in ({'t': 'ints', 'v': [0, 0]}, {'t': 'ints', 'v': []}, {'t': 'slice', 'v': [0, 0, None]}, {'t': 'slice', 'v': [None, None, -1]},
                                   {'t': 'mask1', 'v': False}, {'t': 'mask1', 'v': True}, {'t': 'ints', 'v': [0, 0, 0]}):
                        yield {'N': N, 'D': D, 'keys': [first, [second, {'t': 'rowonly'}]], 'column_chain': True}
        # histories: an indexing that NumPy refuses (caught by the caller), then expressions on the same sample
        fails = [[{'t': 'int', 'v': 99}, {'t': 'name', 'v': 'ch0'}], [{'t': 'ints', 'v': [0, 99]}, {'t': 'pos', 'v': 0}],
                 [{'t': 'mask', 'v': [True] * 9}, {'t': 'list', 'v': [{'t': 'name', 'v': 'ch1'}]}], [{'t': 'int', 'v': 0}, {'t': 'name', 'v': 'zz'}],
                 [{'t': 'slice', 'v': [None, None, None]}, {'t': 'pos', 'v': 17}]]
        for i in range(self.budget(30, 300)):
            N, D = rng.randrange(2, 7), rng.randrange(2, 6)
            after = [[self.rand_row(N), {'t': 'rowonly'}]] if i % 2 == 0 else [[self.rand_row(N), self.rand_col(D)]]
            if i % 3 == 0:
                after.append([{'t': 'slice', 'v': [None, None, None]}, self.rand_col(D)])
            yield {'N': N, 'D': D, 'keys': after, 'pre_fail': fails[i % len(fails)], 'fresh': True}
        for _ in range(self.budget(3000, 40000)):
            N, D = rng.randrange(2, 7), rng.randrange(2, 6)
            keys = []
            for _k in range(rng.randrange(2, 4)):
                keys.append([self.rand_row(N), self.rand_col(D)])
            if rng.random() < 0.5:
                # a channel permutation (same channel count, other order) somewhere in the chain, then names
                perm = list(range(D)); rng.shuffle(perm)
                pk = {'t': 'list', 'v': [({'t': 'name', 'v': 'ch%d' % c} if rng.random() < 0.5 else {'t': 'pos', 'v': c - (D if rng.random() < 0.3 else 0)}) for c in perm]}
                if rng.random() < 0.3:
                    pk = {'t': 'slice', 'v': [None, None, -1]}
                keys[0] = [{'t': 'slice', 'v': [None, None, None]}, {'t': 'name', 'v': 'ch%d' % rng.randrange(D)}] if rng.random() < 0.3 else keys[0]
                keys = [[{'t': 'ellipsis'} if rng.random() < 0.2 else {'t': 'slice', 'v': [None, None, rng.choice([None, 1, -1])]}, pk]] + \
                       [[self.rand_row(N), {'t': 'name', 'v': 'ch%d' % rng.randrange(D)} if rng.random() < 0.6 else
                         {'t': 'list', 'v': [{'t': 'name', 'v': 'ch%d' % rng.randrange(D)}, {'t': 'pos', 'v': rng.randrange(-D, D)}]}]]
                if rng.random() < 0.5:
                    keys = [[{'t': 'slice', 'v': [None, None, None]}, {'t': 'name', 'v': 'ch0'}]] and keys
            yield {'N': N, 'D': D, 'keys': keys, 'touch': rng.random() < 0.7}
        # assignments of a block of the sample itself that overlaps the addressed cells without coinciding with them (channels shifted by one)
        for N, D in ((3, 3), (4, 4), (5, 5)):
            for ck in ({'t': 'slice', 'v': [1, 3, None]}, {'t': 'slice', 'v': [1, D, None]}, {'t': 'name', 'v': 'ch1'}, {'t': 'pos', 'v': 1}):
                for rk in ({'t': 'slice', 'v': [None, None, None]}, {'t': 'slice', 'v': [1, N, None]}, {'t': 'slice', 'v': [0, N - 1, None]}):
                    yield {'N': N, 'D': D, 'keys': [[rk, ck]], 'set': True}

    # ---- implementation ---------------------------------------------------------
    def fingerprint(self, res, parent, D):
        if not isinstance(res, np.ndarray):
            return {'kind': 'scalar', 'type': type(res).__name__, 'cells': [[int(res) // D, int(res) % D]]}
        arr = np.asarray(res)
        out = {'kind': 'arr', 'type': type(res).__name__, 'shape': list(arr.shape),
               'cells': [[int(v) // D, int(v) % D] for v in arr.ravel()]}
        if isinstance(res, FlowCal.io.FCSData):
            attrs = {}
            pm = {'channels': list(parent.channels), 'range': [tuple(x) for x in parent.range()],
                  'resolution': list(parent.resolution()), 'amplification_type': list(parent.amplification_type()),
                  'amplifier_gain': list(parent.amplifier_gain()), 'detector_voltage': list(parent.detector_voltage()),
                  'channel_labels': list(parent.channel_labels())}
            cur = {'channels': list(res._channels), 'range': [tuple(x) for x in res._range],
                   'resolution': list(res._resolution), 'amplification_type': list(res._amplification_type),
                   'amplifier_gain': list(res._amplifier_gain), 'detector_voltage': list(res._detector_voltage),
                   'channel_labels': list(res._channel_labels)}
            for a in ATTRS:
                attrs[a] = [pm[a].index(x) if x in pm[a] else -1 for x in cur[a]]
            out['attrs'] = attrs
        return out

    def run_impl(self, case):
        N, D = case['N'], case['D']
        parent = make_sample(N, D) if case.get('fresh') else self.sample(N, D)
        cur = parent
        if case.get('pre_fail'):
            try:
                idx(parent, *case['pre_fail'])
                return {'skip': 'the preliminary key was accepted'}
            except Exception:
                pass
        if case.get('touch'):
            # an unrelated name-based query on the parent before the chain
            try:
                parent[:, parent.channels[-1]]; parent.range(parent.channels[0])
            except Exception:
                pass
        # independent expectation for chains: plain provenance array + names tracked by hand
        exp = None
        last = (False, None)
        if len(case['keys']) > 1 and not case.get('column_chain'):
            exp = self.plain_chain(case, parent)
        try:
            for rk, ck in case['keys']:
                if case.get('column_chain') and isinstance(cur, FlowCal.io.FCSData) and cur.ndim == 1 and ck['t'] == 'rowonly':
                    # events selected from a one-channel column
                    before = [list(cur._channels), list(map(tuple, cur._range)), list(cur._resolution), list(cur._amplification_type)]
                    key = to_py_row(rk) if rk['t'] != 'mask1' else np.full(cur.shape[0], bool(rk['v']))
                    vals = np.asarray(cur)[key]
                    res = cur[key]
                    if not isinstance(res, FlowCal.io.FCSData):
                        if np.ndim(res) >= 1:
                            return {'meta_err': 'events %s selected from the one-channel column %s: the result is a plain %s without channel metadata' % (rk, case['keys'][0], type(res).__name__)}
                        return {'skip': 'plain result'}
                    after = [list(res._channels), list(map(tuple, res._range)), list(res._resolution), list(res._amplification_type)]
                    if len(before[0]) == 1 and after != before:
                        return {'meta_err': 'events %s selected from the one-channel column %s: the channel metadata became %s (was %s)' % (rk, case['keys'][0], after[0], before[0])}
                    if not np.array_equal(np.asarray(res), vals):
                        return {'meta_err': 'events %s selected from the one-channel column %s: values differ from plain indexing' % (rk, case['keys'][0])}
                    return {'skip': 'column chain ok'}
                if not isinstance(cur, FlowCal.io.FCSData) or cur.ndim != 2:
                    return {'skip': 'intermediate result is not a 2-D sample'}
                last = (cur is parent, [rk, ck])
                cur = idx(cur, rk, ck)
        except Exception as e:
            if last[0] and not case.get('fresh'):
                self._refused = getattr(self, '_refused', {})
                self._refused[(N, D)] = last[1]          # the cached sample has seen a refused key
            return {'err': type(e).__name__, 'msg': str(e)[:80]}
        try:
            out = self.fingerprint(cur, parent, D)
        except AttributeError as e:
            if not case.get('fresh') and getattr(self, '_refused', {}).get((N, D)):
                # the sample object is shared between cases: record the refused key it saw earlier, so that the case replays on its own
                case['pre_fail'] = self._refused[(N, D)]
                case['fresh'] = True
            return {'meta_err': 'the result of %s carries no channel metadata (%s)' % (case['keys'], str(e)[:80])}
        if exp is not None:
            out['chain_plain'] = exp
        if len(case['keys']) == 1:
            rk, ck = case['keys'][0]
            names = list(parent.channels)
            pc = plain_col(ck, names)
            out['plain'] = None
            if pc is not None and pc != 'other':
                try:
                    pv = pidx(np.asarray(parent), rk, pc)
                    out['plain'] = {'shape': list(np.shape(pv)), 'cells': [[int(v) // D, int(v) % D] for v in np.ravel(pv)]}
                except Exception as e:
                    out['plain'] = {'err': type(e).__name__}
            if case.get('set') and pc is not None and pc != 'other':
                w = parent.copy()
                before = np.asarray(w).copy()
                try:
                    if ck['t'] == 'rowonly':
                        w[to_py_row(rk)] = 65535
                    else:
                        w[to_py_row(rk), to_py_col(ck)] = 65535
                    changed = sorted([int(r), int(c)] for r, c in zip(*np.nonzero(np.asarray(w) != before)))
                    out['set_changed'] = changed
                    out['set_meta_same'] = (w.channels == parent.channels and w.range() == parent.range())
                except Exception as e:
                    out['set_err'] = type(e).__name__
                # array items: a full block, and one value per addressed channel; plain array assignment with the column positions is the reference
                if out.get('plain') and 'shape' in out['plain'] and len(out['plain']['shape']) >= 1 and 0 not in out['plain']['shape']:
                    shp = out['plain']['shape']
                    items = {'block': (40000 + np.arange(int(np.prod(shp)))).reshape(shp),
                             # scalars that are not Python integers (the events are 16-bit integers: the value is converted like plain NumPy assignment does)
                             'scalar_float': 2.75, 'scalar_np_float': np.float64(7.9), 'scalar_np_int': np.int64(123), 'scalar_0d': np.array(5.5)}
                    if len(shp) == 2:
                        items['per_channel'] = 50000 + np.arange(shp[1])
                        items['per_event'] = (52000 + np.arange(shp[0])).reshape(shp[0], 1)
                    if len(shp) == 2 and shp[1] <= D and isinstance(rk, dict) and rk['t'] == 'slice':
                        items['own_view'] = 'own_view'      # a block of the sample itself (overlapping the addressed cells), given as a view
                        items['own_view_rev'] = 'own_view_rev'
                    res = {}
                    for nm, item in sorted(items.items()):
                        pw = before.copy()
                        if isinstance(item, str):
                            # source and destination overlap: NumPy buffers the source; the sample behaves like the plain array
                            sl = slice(0, shp[1]) if item == 'own_view' else slice(shp[1] - 1, None, -1) if shp[1] >= 1 else slice(0, 0)
                            try:
                                src_plain = pw[to_py_row(rk), sl]
                                if list(np.shape(src_plain)) != shp:
                                    continue
                                w2 = parent.copy()
                                if pc == ROWONLY:
                                    continue
                                pw[to_py_row(rk), pc] = src_plain
                                w2[to_py_row(rk), to_py_col(ck)] = w2[to_py_row(rk), sl]
                                diff = np.argwhere(np.asarray(w2) != pw)
                                res[nm] = None if len(diff) == 0 else 'cell (%d, %d) holds %d, plain array assignment puts %d there' % (
                                    diff[0][0], diff[0][1], int(np.asarray(w2)[tuple(diff[0])]), int(pw[tuple(diff[0])]))
                            except Exception as e:
                                res[nm] = 'raised %s: %s' % (type(e).__name__, str(e)[:60])
                            continue
                        try:
                            if pc == ROWONLY:
                                pw[to_py_row(rk)] = item
                            else:
                                pw[to_py_row(rk), pc] = item
                        except Exception:
                            continue            # plain assignment refuses this item shape: nothing to compare
                        w2 = parent.copy()
                        try:
                            if ck['t'] == 'rowonly':
                                w2[to_py_row(rk)] = item
                            else:
                                w2[to_py_row(rk), to_py_col(ck)] = item
                            diff = np.argwhere(np.asarray(w2) != pw)
                            res[nm] = None if len(diff) == 0 else 'cell (%d, %d) holds %d, plain array assignment puts %d there' % (
                                diff[0][0], diff[0][1], int(np.asarray(w2)[tuple(diff[0])]), int(pw[tuple(diff[0])]))
                        except Exception as e:
                            res[nm] = 'raised %s: %s' % (type(e).__name__, str(e)[:60])
                    out['set_items'] = res
        return out

    def post(self):
        fcsgen.cleanup()

    def plain_chain(self, case, parent):
        arr = np.asarray(parent)
        names = list(parent.channels)
        D = case['D']
        try:
            for rk, ck in case['keys']:
                if arr.ndim != 2:
                    return None
                pc = plain_col(ck, names)
                if pc is None:
                    return {'refuse': True}
                if pc == 'other':
                    return None
                arr = pidx(arr, rk, pc)
                if pc == ROWONLY:
                    pass
                elif isinstance(pc, (list, slice)):
                    names = list(np.array(names, dtype=object)[pc]) if not isinstance(pc, list) or pc else []
                elif pc is Ellipsis:
                    pass
                else:
                    names = [names[pc]]
        except Exception as e:
            return {'err': type(e).__name__}
        return {'shape': list(np.shape(arr)), 'cells': [[int(v) // D, int(v) % D] for v in np.ravel(arr)]}

    # ---- oracle -------------------------------------------------------------------
    def check_aligned(self, impl):
        if impl['kind'] == 'scalar':
            if impl['type'] == 'FCSData':
                return 'a single selected value came back as an FCSData, not a plain scalar'
            return None
        if impl['type'] != 'FCSData':
            return None            # plain ndarray carries no metadata
        shape, cells = impl['shape'], impl['cells']
        for a in ATTRS:
            m = impl['attrs'][a]
            if len(shape) == 2:
                n, d = shape
                if len(m) != d:
                    return '%s has %d entries for %d columns' % (a, len(m), d)
                for j in range(d):
                    src = {cells[i * d + j][1] for i in range(n)}
                    if len(src) > 1:
                        return 'column %d mixes source channels %s' % (j, sorted(src))
                    if src and m[j] != next(iter(src)):
                        return '%s[%d] is that of channel %d but the column holds channel %d' % (a, j, m[j], next(iter(src)))
            elif len(shape) == 1:
                src = [c[1] for c in cells]
                ok1 = len(m) == len(src) and m == src
                ok2 = len(m) == 1 and all(s == m[0] for s in src)
                if not (ok1 or ok2):
                    return '%s = channels %s but the values come from channels %s' % (a, m, src)
            elif len(shape) == 0:
                pass
        return None

    def oracle(self, case, impl):
        if impl.get('skip'):
            return None
        single = len(case['keys']) == 1
        if impl.get('meta_err'):
            return impl['meta_err'] + (' after the refused indexing %s on the same sample' % (case['pre_fail'],) if case.get('pre_fail') else '')
        if 'err' in impl:
            if single:
                rk, ck = case['keys'][0]
                pc = plain_col(ck, ['ch%d' % c for c in range(case['D'])])
                self.bump('err')
                # a key of the grammar that plain indexing accepts must not be refused
                if pc is not None and pc != 'other':
                    try:
                        pidx(np.zeros((case['N'], case['D'])), rk, pc)
                    except Exception:
                        return None
                    return 'valid key %s refused with %s (%s)' % (case['keys'][0], impl['err'], impl.get('msg'))
            return None
        msg = self.check_aligned(impl)
        if msg:
            return 'key(s) %s: %s' % (case['keys'], msg)
        cp = impl.get('chain_plain')
        if cp is not None:
            if cp.get('refuse'):
                return 'chain %s contains an unknown name / out-of-range position but was accepted' % (case['keys'],)
            if 'err' not in cp and (cp['cells'] != impl['cells'] or cp['shape'] != impl.get('shape', [])):
                return 'chain %s: values come from cells %s, plain indexing with hand-tracked names gives %s' % (case['keys'], impl['cells'][:6], cp['cells'][:6])
        if single:
            rk, ck = case['keys'][0]
            pc = plain_col(ck, ['ch%d' % c for c in range(case['D'])])
            if pc is None:
                return 'unknown name / out-of-range position in %s was accepted' % (ck,)
            if pc == 'other':
                self.bump('other-form-accepted-aligned')
                return None
            pl = impl.get('plain')
            if pl is not None:
                if 'err' in pl:
                    return 'plain array indexing refuses %s but the sample returned %s' % (case['keys'][0], impl.get('shape'))
                if pl['cells'] != impl['cells'] or pl['shape'] != impl.get('shape', []):
                    return 'values differ from plain array indexing for %s: %s vs %s' % (case['keys'][0], impl['cells'][:6], pl['cells'][:6])
            if 'set_changed' in impl:
                want = sorted(map(list, {tuple(c) for c in impl['cells']}))
                if impl['set_changed'] != want:
                    return 'assignment through %s wrote cells %s, addressed cells are %s' % (case['keys'][0], impl['set_changed'], want)
                if not impl['set_meta_same']:
                    return 'assignment changed metadata'
            for nm, m in sorted((impl.get('set_items') or {}).items()):
                if m:
                    return 'assignment of a %s item through %s: %s' % (nm, case['keys'][0], m)
            if 'set_err' in impl:
                return 'assignment through readable key %s raised %s' % (case['keys'][0], impl['set_err'])
        return None

    # ---- model ----------------------------------------------------------------------
    def model_request(self, case, impl):
        if len(case['keys']) != 1 or impl.get('skip') or impl.get('meta_err'):
            return None
        rk, ck = case['keys'][0]
        if ck['t'] == 'rowonly':
            ck = {'t': 'slice', 'v': [None, None, None]}      # an event key alone selects every channel
        return {'op': 'getitem', 'names': ['ch%d' % c for c in range(case['D'])], 'n': case['N'], 'row': rk, 'col': ck}

    def compare(self, case, impl, model):
        if 'driver_error' in model:
            return 'driver error %s' % model['driver_error']
        if 'err' in model or 'err' in impl:
            if ('err' in model) != ('err' in impl):
                return 'impl %s vs model %s' % (impl.get('err', 'ok'), model.get('err', 'ok'))
            return None
        sh = model['shape']
        if sh['k'] == 'scalar':
            if impl['kind'] != 'scalar' or impl['cells'] != sh['cells']:
                return 'impl %s vs model scalar %s' % (impl, sh)
            return None
        if impl['kind'] != 'arr':
            return 'impl scalar vs model %s' % sh['k']
        if sh['k'] == 'vec':
            mc, ms = sh['cells'], [len(sh['cells'])]
        else:
            mc = [[r, c] for r in sh['rows'] for c in sh['cols']]
            ms = [len(sh['rows']), len(sh['cols'])]
        if impl['shape'] != ms or impl['cells'] != mc:
            return 'provenance differs: impl %s %s vs model %s %s' % (impl['shape'], impl['cells'][:8], ms, mc[:8])
        if impl['type'] == 'FCSData':
            for a in ATTRS:
                if impl['attrs'][a] != model['meta']:
                    return '%s: impl %s vs model %s' % (a, impl['attrs'][a], model['meta'])
        if not model['aligned']:
            return 'model result is not aligned'
        if 'set_changed' in impl:
            want = sorted(map(list, {tuple(c) for c in mc}))
            if impl['set_changed'] != want:
                return 'assignment: model addresses cells %s, implementation wrote %s' % (want[:8], impl['set_changed'][:8])
        return None

    def nontrivial_key(self, case, impl):
        if impl.get('skip') or impl.get('meta_err'):
            return None
        kinds = tuple((rk['t'], ck['t'] if ck['t'] != 'list' else 'list%d' % min(len(ck['v']), 3)) for rk, ck in case['keys'])
        res = 'err' if 'err' in impl else impl['kind'] + str(len(impl.get('shape', [])))
        return (case['N'], case['D'], kinds, res)

    def shrink_candidates(self, case):
        if len(case['keys']) > 1:
            for i in range(len(case['keys'])):
                yield dict(case, keys=case['keys'][:i] + case['keys'][i + 1:])
        if case['N'] > 1:
            yield dict(case, N=case['N'] - 1)
