"""Shared machinery for all property checks (see DESIGN.md section 4).

A property module (harness/cNN.py) defines a class `Prop(PropertyCheck)`.  The
skeleton run is:

  1. regenerate source facts from /repo, `lake build` the model, the property's
     theorem module and the compiled driver; audit axioms           (lean_stage)
  2. replay corpus cases first, then generated cases:
       impl result  = real FlowCal code in-process
       oracle       = direct property oracle on the impl result (model-free)
       model result = compiled Lean model through the JSON line protocol
       compare      = correspondence model <-> implementation
  3. oracle failure                          -> VIOLATION with that case
     correspondence/theorem broken, no oracle failure
                                             -> failing-input search; if still
                                                none: VIOLATION ... no-failing-input-found
  4. evidence/<id>.json
"""
import fcntl
import hashlib
import json
import os
import random
import re
import signal
import subprocess
import sys
import time
import traceback
import warnings

ROOT = os.path.dirname(os.path.dirname(os.path.abspath(__file__)))
LEAN = os.path.join(ROOT, 'lean')
DRIVER = os.path.join(LEAN, '.lake', 'build', 'bin', 'fcmodel')
REPO = os.environ.get('FLOWCAL_REPO', '/repo')
ALLOWED_AXIOMS = {'propext', 'Classical.choice', 'Quot.sound'}
FORBIDDEN = re.compile(r'\bsorry\b|\badmit\b|^\s*axiom\s|native_decide|bv_decide|implemented_by|\bunsafe\s|maxHeartbeats\s+0\b', re.M)

TRUSTED_BASE = [
    "Lean 4.33.0 kernel and elaborator (Mathlib v4.33.0 modules imported one by one in proof files only)",
    "axioms: at most propext, Classical.choice, Quot.sound (checked per theorem on every run with Lean.collectAxioms); no sorry/admit/own axioms/native_decide/bv_decide (grep + axiom audit)",
    "hand-written executable Lean model of the anchored functions (modelled, not verified): tied to /repo on every run by the correspondence harness below",
    "correspondence harness (Python, calls the real FlowCal code in-process, pipes the same cases to the compiled Lean driver, compares canonicalised outputs) and the model-free property oracle",
    "extract/facts.py (ast-based source-facts extractor regenerating lean/FlowCalModel/Generated.lean from /repo on every run)",
    "extract/exprs.py (ast-to-Lean formula translator regenerating lean/FlowCalModel/GeneratedExpr.lean from /repo on every run: amplifier laws, bead model, logicle function, ellipse form)",
    "NumPy/SciPy/scikit-learn/pandas/matplotlib/CPython numeric and I/O kernels are assumed, not proved (IEEE-754 arithmetic, libm pow/exp/log, memmap, pickle)",
]


def sh(cmd, cwd=None, timeout=None, env=None):
    p = subprocess.run(cmd, cwd=cwd, shell=isinstance(cmd, str), stdout=subprocess.PIPE,
                       stderr=subprocess.STDOUT, text=True, timeout=timeout, env=env)
    return p.returncode, p.stdout


def strip_lean_comments(src):
    # remove /- ... -/ (nested) and -- ... comments, and string literals
    out = []
    i, n, depth = 0, len(src), 0
    while i < n:
        if src.startswith('/-', i):
            depth += 1
            i += 2
        elif depth and src.startswith('-/', i):
            depth -= 1
            i += 2
        elif depth:
            if src[i] == '\n':
                out.append('\n')
            i += 1
        elif src.startswith('--', i):
            while i < n and src[i] != '\n':
                i += 1
        elif src[i] == '"':
            i += 1
            while i < n and src[i] != '"':
                i += 2 if src[i] == '\\' else 1
            i += 1
        else:
            out.append(src[i])
            i += 1
    return ''.join(out)


def lean_sources():
    res = []
    for d, _, fs in os.walk(LEAN):
        if '.lake' in d:
            continue
        for f in fs:
            if f.endswith('.lean'):
                res.append(os.path.join(d, f))
    return sorted(res)


def abbreviate(obj, maxlist=24, maxstr=400):
    """evidence samples: long lists / strings are cut (with a note of how much was left out) so that the evidence file stays small"""
    if isinstance(obj, dict):
        return {k: abbreviate(v, maxlist, maxstr) for k, v in obj.items()}
    if isinstance(obj, (list, tuple)):
        if len(obj) > maxlist:
            return [abbreviate(v, maxlist, maxstr) for v in obj[:maxlist]] + ['... %d more entries' % (len(obj) - maxlist)]
        return [abbreviate(v, maxlist, maxstr) for v in obj]
    if isinstance(obj, str) and len(obj) > maxstr:
        return obj[:maxstr] + '... (%d characters)' % len(obj)
    return obj


class LeanStage:
    """Regenerate facts, build, grep, audit.  Result is cached by a hash of all
    Lean sources so that repeated checks on an unchanged tree cost ~1 s."""

    def __init__(self, pid, tier='quick'):
        self.pid = pid
        self.tier = tier
        self.leanchecker = None
        self.ok = False
        self.broken = []        # names / messages of proof obligations that no longer check
        self.theorems = {}      # name -> axioms
        self.log = ''
        self.facts = {}
        self.wall = 0.0

    def run(self):
        t0 = time.time()
        os.makedirs(os.path.join(LEAN, '.lake'), exist_ok=True)
        lock = open(os.path.join(LEAN, '.lake', 'verif.lock'), 'w')
        fcntl.flock(lock, fcntl.LOCK_EX)
        try:
            self._run_locked()
        finally:
            fcntl.flock(lock, fcntl.LOCK_UN)
            lock.close()
        self.wall = time.time() - t0
        return self

    def _heal_build_dir(self):
        """a run killed in the middle of a build can leave a module's trace / hash files without its .olean; lake then takes the module for
        built.  Remove the leftovers so that the module is rebuilt."""
        lib = os.path.join(LEAN, '.lake', 'build', 'lib', 'lean')
        for root, _dirs, files in os.walk(lib):
            for f in files:
                if f.endswith('.trace'):
                    base = os.path.join(root, f[:-6])
                    if not os.path.exists(base + '.olean'):
                        for ext in ('.trace', '.olean.hash', '.ilean.hash', '.ilean', '.c.hash', '.c'):
                            try:
                                os.unlink(base + ext)
                            except OSError:
                                pass
                        self.log += 'removed stale build records of %s\n' % os.path.relpath(base, lib)

    def _run_locked(self):
        self._heal_build_dir()
        rc, out = sh([sys.executable, os.path.join(ROOT, 'extract', 'facts.py')])
        self.log += out
        if rc != 0:
            self.broken.append('extract/facts.py failed: ' + out[-400:])
            return
        try:
            self.facts = json.load(open(os.path.join(ROOT, 'extract', 'facts.json')))
        except Exception:
            self.facts = {}
        # formula translator: source expressions -> lean/FlowCalModel/GeneratedExpr.lean
        rc, out = sh([sys.executable, os.path.join(ROOT, 'extract', 'exprs.py')])
        self.log += out
        if rc != 0:
            self.broken.append('extract/exprs.py failed: ' + out[-400:])
            return
        try:
            self.exprs = json.load(open(os.path.join(ROOT, 'extract', 'exprs.json')))
        except Exception:
            self.exprs = {}
        # forbidden constructs
        for f in lean_sources():
            src = strip_lean_comments(open(f).read())
            m = FORBIDDEN.search(src)
            if m:
                self.broken.append('forbidden construct %r in %s' % (m.group(0), os.path.relpath(f, LEAN)))
        if self.broken:
            return
        h = hashlib.sha256()
        for f in lean_sources():
            h.update(f.encode())
            h.update(open(f, 'rb').read())
        digest = h.hexdigest()
        cache_file = os.path.join(LEAN, '.lake', 'audit_%s.json' % self.pid)
        if os.path.exists(cache_file) and os.path.exists(DRIVER):
            try:
                c = json.load(open(cache_file))
                have = all(os.path.exists(os.path.join(LEAN, '.lake', 'build', 'lib', 'lean', 'Properties', f[:-5] + '.olean'))
                           for f in os.listdir(os.path.join(LEAN, 'Properties')) if re.match(r'^%s[a-z]?\.lean$' % self.pid, f))
                if c.get('digest') == digest and c.get('ok') and have:
                    self.theorems = c['theorems']
                    self.ok = True
                    self.log += 'lean stage: cached (sources unchanged)\n'
                    self._leanchecker(sorted('Properties.' + f[:-5] for f in os.listdir(os.path.join(LEAN, 'Properties'))
                                             if re.match(r'^%s[a-z]?\.lean$' % self.pid, f)))
                    return
            except Exception:
                pass
        mod = 'Properties.%s' % self.pid
        mods = sorted('Properties.' + f[:-5] for f in os.listdir(os.path.join(LEAN, 'Properties'))
                      if re.match(r'^%s[a-z]?\.lean$' % self.pid, f))
        rc, out = sh(['lake', 'build', 'FlowCalModel'] + ['+' + m for m in mods] + ['fcmodel'], cwd=LEAN, timeout=3000)
        self.log += out
        if rc != 0:
            errs = re.findall(r'error: ([^\n]*)', out)
            names = re.findall(r"(?:theorem|lemma|example)\s+([A-Za-z0-9_.']+)", out)
            miss = (getattr(self, 'exprs', {}) or {}).get('missing')
            self.broken.append('lake build failed for %s: %s%s' % (mod, '; '.join(errs[:6]) or out[-600:],
                                                                    ' [formulas the translator could not find in the source: %s]' % miss if miss else ''))
            return
        # axiom audit
        audit = os.path.join(LEAN, '.lake', 'Audit_%s.lean' % self.pid)
        with open(audit, 'w') as f:
            f.write('import Lean\n' + ''.join('import %s\n' % m for m in mods) + AUDIT_BODY % {'mods': ', '.join('`' + m for m in mods)})
        rc, out = sh(['lake', 'env', 'lean', audit], cwd=LEAN, timeout=1800)
        self.log += out
        if rc != 0:
            self.broken.append('axiom audit failed to run: ' + out[-600:])
            return
        for line in out.splitlines():
            m = re.match(r'.*AXIOMS (\S+) \[(.*)\]', line)
            if m:
                axs = [a.strip() for a in m.group(2).split(',') if a.strip()]
                self.theorems[m.group(1)] = axs
        if not self.theorems:
            self.broken.append('no theorems found in ' + ', '.join(mods))
            return
        for name, axs in self.theorems.items():
            bad = [a for a in axs if a not in ALLOWED_AXIOMS]
            if bad:
                self.broken.append('theorem %s depends on non-standard axioms %s' % (name, bad))
        if self.broken:
            return
        self.ok = True
        json.dump({'digest': digest, 'ok': True, 'theorems': self.theorems}, open(cache_file, 'w'))
        self._leanchecker(mods)

    def _leanchecker(self, mods):
        """thorough tier: the toolchain's independent re-checker replays the compiled property modules"""
        if self.tier != 'thorough':
            return
        rc, out = sh(['lake', 'env', 'leanchecker'] + mods, cwd=LEAN, timeout=3000)
        self.leanchecker = 'ok' if rc == 0 else 'FAILED: ' + out[-300:]
        if rc != 0:
            self.ok = False
            self.broken.append('leanchecker rejected %s: %s' % (mods, out[-300:]))


AUDIT_BODY = '''open Lean Elab Command in
run_cmd do
  let env ← getEnv
  for modName in [%(mods)s] do
    let some idx := env.getModuleIdx? modName | throwError "module not found"
    for (n, ci) in env.constants.toList do
      if env.getModuleIdxFor? n == some idx then
        match ci with
        | .thmInfo _ =>
          let last := match n with | .str _ s => s | _ => ""
          if !n.isInternal && !(last.startsWith "eq_") && last != "congr_simp" && !(last.startsWith "match_") then
            let axs ← collectAxioms n
            logInfo m!"AXIOMS {n} {axs.toList}"
        | _ => pure ()
'''


class Driver:
    """Batch interface to the compiled Lean model driver (JSON lines)."""

    def __init__(self):
        self.calls = 0

    def batch(self, reqs, timeout=3000):
        if not reqs:
            return []
        data = '\n'.join(json.dumps(r, separators=(',', ':')) for r in reqs) + '\n'
        for attempt in range(40):
            # another check running in parallel may be relinking the driver at this very moment (lake replaces the file): wait for it
            try:
                p = subprocess.run([DRIVER], input=data, stdout=subprocess.PIPE, stderr=subprocess.PIPE,
                                   text=True, timeout=timeout)
                break
            except (FileNotFoundError, PermissionError, OSError) as e:
                if attempt == 39 or isinstance(e, subprocess.TimeoutExpired):
                    raise
                time.sleep(3)
        lines = p.stdout.splitlines()
        if len(lines) != len(reqs):
            raise RuntimeError('driver returned %d lines for %d requests (rc=%s, stderr=%s)' %
                               (len(lines), len(reqs), p.returncode, p.stderr[-500:]))
        self.calls += len(reqs)
        out = []
        for l in lines:
            try:
                out.append(json.loads(l))
            except Exception:
                out.append({'driver_error': l})
        return out

    def one(self, req):
        return self.batch([req])[0]


class CaseTimeout(BaseException):
    """raised by the per-case watchdog (BaseException: not swallowed by the `except Exception` of the harnesses)"""


class Timeout(Exception):
    pass


def far(a, b, tol):
    """True unless a and b agree within tol; a NaN on one side only is a disagreement (written so that NaN never passes silently)"""
    if a == b:
        return False
    if a != a and b != b:
        return False
    return not (abs(a - b) <= tol)


class PropertyCheck:
    pid = None
    design_ref = None
    rule = ''
    assumptions = []
    exploration_only = []       # clauses checked by sweep only (not theorems)
    batch_size = 400

    def __init__(self, tier, seed):
        self.tier = tier
        self.seed = seed
        self.rng = random.Random((hash(self.pid) & 0xffff) * 1000003 + seed if False else int(hashlib.md5((self.pid + ':' + str(seed)).encode()).hexdigest()[:12], 16))
        self.driver = Driver()
        self.t0 = time.time()
        self.evaluations = 0
        self.nontrivial = set()
        self.samples = []
        self.hist = {}
        self.violations = []       # (case, message, kind)
        self.disagreements = []    # (case, message)
        self.known_hits = []
        self.known_found = []
        self.extra = {}
        self.excluded = {}

    # ---- to be provided by property modules --------------------------------
    def gen_cases(self):
        """Yield JSON-serialisable cases (all randomness from self.rng)."""
        raise NotImplementedError

    def run_impl(self, case):
        """Run the real code; return a JSON-serialisable canonical result."""
        raise NotImplementedError

    def oracle(self, case, impl):
        """Direct, model-free property oracle. Return None or a message."""
        return None

    def model_request(self, case, impl):
        """JSON request for the Lean driver, or None when no model call."""
        return None

    def compare(self, case, impl, model):
        """Return None if model and implementation agree, else a message."""
        return None

    def nontrivial_key(self, case, impl):
        return None

    def shrink_candidates(self, case):
        return []

    def search_cases(self, around):
        """Cases for the failing-input search (default: more generated cases)."""
        return self.gen_cases()

    def bump(self, key, n=1):
        self.hist[key] = self.hist.get(key, 0) + n

    def exclude(self, key, n=1):
        self.excluded[key] = self.excluded.get(key, 0) + n

    # ---- skeleton ----------------------------------------------------------
    def budget(self, quick, thorough):
        mult = float(os.environ.get('VERIF_BUDGET_MULT', '1'))
        return int((quick if self.tier == 'quick' else thorough) * mult)

    def corpus_cases(self):
        d = os.path.join(ROOT, 'corpus', self.pid)
        res = []
        if os.path.isdir(d):
            for f in sorted(os.listdir(d)):
                if f.endswith('.json'):
                    obj = json.load(open(os.path.join(d, f)))
                    res.extend(obj if isinstance(obj, list) else [obj])
        return res

    def process(self, cases, oracle_only=False):
        """Runs cases in batches. Returns False if stopped early by a violation."""
        batch = []
        for case in cases:
            batch.append(case)
            if len(batch) >= self.batch_size:
                self._process_batch(batch, oracle_only)
                batch = []
                if len(self.violations) >= 3:
                    return False
                if getattr(self, '_search_deadline', None) and time.time() > self._search_deadline:
                    print('NOTE failing-input search stopped at its time limit')
                    return True
        if batch:
            self._process_batch(batch, oracle_only)
        return len(self.violations) < 3

    def _process_batch(self, batch, oracle_only):
        results = []
        for case in batch:
            # watchdog: a call under test that does not come back (an endless loop) is a failing input, not a hung check
            limit = 900.0 if self.tier == 'quick' else 2400.0

            def _alarm(signum, frame):
                raise CaseTimeout()
            old_handler = signal.signal(signal.SIGALRM, _alarm)
            signal.setitimer(signal.ITIMER_REAL, limit)
            try:
                with warnings.catch_warnings():
                    warnings.simplefilter('ignore')
                    impl = self.run_impl(case)
            except CaseTimeout:
                self.evaluations += 1
                self.violations.append((case, 'the call under test did not return within %d s on this input' % int(limit), 'oracle'))
                results.append({'case_timeout': True})
                continue
            finally:
                signal.setitimer(signal.ITIMER_REAL, 0)
                signal.signal(signal.SIGALRM, old_handler)
            self.evaluations += 1
            k = self.nontrivial_key(case, impl)
            if k is not None:
                self.nontrivial.add(k if isinstance(k, (str, int, tuple)) else json.dumps(k, sort_keys=True))
            if len(self.samples) < 3 or (len(self.samples) < 6 and self.rng.random() < 0.01):
                self.samples.append({'case': case, 'impl': impl})
            with warnings.catch_warnings():
                warnings.simplefilter('ignore')
                msg = self.oracle(case, impl)
            if msg:
                known = self.match_known(case, msg)
                if known is not None:
                    self.known_found.append((known, case, msg))
                else:
                    self.violations.append((case, msg, 'oracle'))
            results.append(impl)
        if oracle_only:
            return
        reqs, idx = [], []
        for i, (case, impl) in enumerate(zip(batch, results)):
            if impl.get('case_timeout') if isinstance(impl, dict) else False:
                continue
            r = self.model_request(case, impl)
            if r is not None:
                if isinstance(r, list):          # several model calls for one case
                    idx.append((i, len(reqs), len(r)))
                    reqs.extend(r)
                else:
                    idx.append((i, len(reqs), None))
                    reqs.append(r)
        if reqs:
            replies = self.driver.batch(reqs)
            for i, start, n in idx:
                rep = replies[start] if n is None else replies[start:start + n]
                msg = self.compare(batch[i], results[i], rep)
                if msg:
                    self.disagreements.append((batch[i], msg, {'impl': results[i], 'model': rep}))

    def shrink(self, case, still_fails):
        """Greedy delta-debugging using shrink_candidates."""
        cur = case
        steps = 0
        improved = True
        while improved and steps < 200:
            improved = False
            for cand in self.shrink_candidates(cur):
                steps += 1
                try:
                    if still_fails(cand):
                        cur = cand
                        improved = True
                        break
                except Exception:
                    continue
                if steps >= 200:
                    break
        return cur

    def oracle_fails(self, case):
        limit = 900.0 if self.tier == 'quick' else 2400.0

        def _alarm(signum, frame):
            raise CaseTimeout()
        old_handler = signal.signal(signal.SIGALRM, _alarm)
        signal.setitimer(signal.ITIMER_REAL, limit)
        try:
            with warnings.catch_warnings():
                warnings.simplefilter('ignore')
                impl = self.run_impl(case)
                return self.oracle(case, impl)
        except CaseTimeout:
            return 'the call under test did not return within %d s on this input' % int(limit)
        finally:
            signal.setitimer(signal.ITIMER_REAL, 0)
            signal.signal(signal.SIGALRM, old_handler)

    def known_findings(self):
        try:
            return json.load(open(os.path.join(ROOT, 'known_findings.json')))
        except Exception:
            return {'open': [], 'fixed': []}

    def match_known(self, case, msg):
        for e in self.known_findings().get('open', []):
            if e.get('property') != self.pid:
                continue
            sig = e.get('signature', {})
            if self.signature_matches(sig, case, msg):
                return e
        return None

    def signature_matches(self, sig, case, msg):
        if 'message_regex' in sig and not re.search(sig['message_regex'], msg or ''):
            return False
        for k, v in sig.get('case_fields', {}).items():
            if case.get(k) != v:
                return False
        return bool(sig)

    def write_replay(self, obj, tag):
        d = os.path.join(ROOT, 'replays')
        os.makedirs(d, exist_ok=True)
        path = os.path.join(d, '%s-%s-seed%d-%s.json' % (self.pid, self.tier, self.seed, tag))
        json.dump(obj, open(path, 'w'), indent=1, default=str)
        return os.path.relpath(path, ROOT)

    def main(self):
        exit_code = 0
        lean = LeanStage(self.pid, self.tier).run()
        self.lean = lean
        reported = []
        try:
            ok = self.process(self.corpus_cases())
            ncorpus = self.evaluations
            if ok:
                self.process(self.gen_cases())
            self.extra['corpus_cases'] = ncorpus
        except Timeout:
            print('TIMEOUT', self.pid)
            self.post()
            self.finish(lean, reported)
            return 2

        # 0. genuine defects recorded (not repaired) in known_findings.json: reported, not alarmed
        seen_known = set()
        for known, case, msg in self.known_found:
            key = known.get('id') or known.get('what')
            if key not in seen_known:
                seen_known.add(key)
                print('KNOWN-FINDING: property=%s %s' % (self.pid, known.get('what')))
                self.known_hits.append(known.get('what'))
        # 1. oracle failures are violations with a concrete failing input
        seen = set()
        for case, msg, kind in self.violations:
            if len(reported) >= 4:
                break
            try:
                # (a smaller case must still fail in a way that is not a listed finding: shrinking must not turn a new violation into a known one)
                def still_new(c):
                    m = self.oracle_fails(c)
                    return bool(m) and self.match_known(c, m) is None
                if 'did not return within' in msg:
                    small, smsg = case, msg          # (not shrunk: every step could take the full time limit again)
                else:
                    small = self.shrink(case, still_new)
                    smsg = self.oracle_fails(small) or msg
            except Exception:
                small, smsg = case, msg
            known = self.match_known(small, smsg)
            if known:
                key = known.get('id') or known.get('what')
                if key not in seen:
                    seen.add(key)
                    print('KNOWN-FINDING: property=%s %s' % (self.pid, known.get('what')))
                    self.known_hits.append(known.get('what'))
                continue
            sig = re.sub(r'[0-9]+', '#', smsg)[:80]
            if sig in seen:
                continue
            seen.add(sig)
            path = self.write_replay({'property': self.pid, 'kind': 'failing-input', 'message': smsg,
                                      'case': small, 'original_case': case,
                                      'replay': './check %s --replay <this file>' % self.pid}, 'v%d' % len(reported))
            print('VIOLATION property=%s replay=%s' % (self.pid, path))
            print('  ' + smsg[:300])
            reported.append(path)
            exit_code = 1

        # 2. broken proof obligations / correspondence without a failing input yet
        broken = list(lean.broken)
        if self.disagreements and not reported:
            broken.append('correspondence model<->implementation: %d disagreement(s), first: %s' %
                          (len(self.disagreements), self.disagreements[0][1][:300]))
        if broken and not reported:
            print('NOTE property=%s: %s' % (self.pid, broken[0][:400]))
            print('NOTE searching the implementation for a concrete failing input ...')
            found = self.search(self.disagreements[0][0] if self.disagreements else None)
            if found:
                case, msg = found
                known = self.match_known(case, msg)
                if known:
                    print('KNOWN-FINDING: property=%s %s' % (self.pid, known.get('what')))
                    self.known_hits.append(known.get('what'))
                else:
                    path = self.write_replay({'property': self.pid, 'kind': 'failing-input', 'message': msg,
                                              'case': case, 'broken': broken}, 'v0')
                    print('VIOLATION property=%s replay=%s' % (self.pid, path))
                    print('  ' + msg[:300])
                    reported.append(path)
                    exit_code = 1
            else:
                d = self.disagreements[0] if self.disagreements else None
                path = self.write_replay({'property': self.pid, 'kind': 'no-failing-input-found',
                                          'no_longer_checks': broken,
                                          'disagreeing_case': d[0] if d else None,
                                          'disagreement': d[1] if d else None,
                                          'both_sides': d[2] if d else None}, 'nf')
                print('VIOLATION property=%s replay=%s no-failing-input-found' % (self.pid, path))
                reported.append(path)
                exit_code = 1
        try:
            self.post()
        except Exception as e:
            print('NOTE post-processing failed: %r' % (e,))
        self.finish(lean, reported)
        return exit_code

    def post(self):
        """Hook for extra (non case-based) checks; may append to self.violations."""
        pass

    def search(self, around):
        n0 = len(self.violations)
        saved = (self.evaluations,)
        mult = os.environ.get('VERIF_BUDGET_MULT', '1')
        os.environ['VERIF_BUDGET_MULT'] = str(float(mult) * 5)
        self._search_deadline = time.time() + (150 if self.tier == 'quick' else 900)
        try:
            self.process(self.search_cases(around), oracle_only=True)
        except Exception as e:
            print('NOTE search aborted: %r' % (e,))
        finally:
            os.environ['VERIF_BUDGET_MULT'] = mult
            self._search_deadline = None
        if len(self.violations) > n0:
            case, msg, _ = self.violations[n0]
            try:
                small = self.shrink(case, lambda c: bool(self.oracle_fails(c)))
                return small, (self.oracle_fails(small) or msg)
            except Exception:
                return case, msg
        return None

    def finish(self, lean, reported):
        obligations = []
        for name in sorted(lean.theorems):
            obligations.append(name)
        n_thm = len(obligations)
        corr_ok = not self.disagreements
        cov = {
            'obligations': n_thm + 1,
            'discharged': (n_thm if lean.ok else 0) + (1 if corr_ok and self.evaluations > 0 else 0),
            'checker_cmd': 'cd lean && lake build FlowCalModel +Properties.%s[a-z] fcmodel && lake env lean .lake/Audit_%s.lean  (then ./check %s: correspondence)' % (self.pid, self.pid, self.pid),
            'trusted_base': TRUSTED_BASE + list(self.assumptions),
            'theorems': {k: lean.theorems[k] for k in obligations},
            'correspondence_obligation': 'model and implementation agree on all %d cases of this run: %s' % (self.evaluations, 'yes' if corr_ok else 'NO'),
            'proof_obligations_broken': lean.broken,
            'evaluations': self.evaluations,
            'distinct_nontrivial': len(self.nontrivial),
            'rule': self.rule,
            'samples': abbreviate(self.samples[:6]),
            'distribution': self.hist,
            'excluded_ambiguous': self.excluded,
            'model_driver_calls': self.driver.calls,
            'disagreements': len(self.disagreements),
            'exploration_only': self.exploration_only,
            'known_findings_hit': self.known_hits,
            'lean_stage_s': round(lean.wall, 2),
            'leanchecker': lean.leanchecker,
            'source_facts': lean.facts.get('summary', {}),
        }
        cov.update(self.extra)
        ev = {
            'property_id': self.pid,
            'tier': self.tier,
            'seed': self.seed,
            'level': 'proof',
            'coverage': cov,
            'assumptions': TRUSTED_BASE + list(self.assumptions),
            'wall_s': round(time.time() - self.t0, 2),
            'violations': len(reported),
        }
        os.makedirs(os.path.join(ROOT, 'evidence'), exist_ok=True)
        json.dump(ev, open(os.path.join(ROOT, 'evidence', self.pid + '.json'), 'w'), indent=1, default=str)

    # ---- replay ------------------------------------------------------------
    def replay(self, path):
        obj = json.load(open(path))
        case = obj.get('case') or obj.get('disagreeing_case')
        if case is None:
            print('replay file names broken obligations only:', obj.get('no_longer_checks'))
            return 1
        LeanStage(self.pid).run()
        with warnings.catch_warnings():
            warnings.simplefilter('ignore')
            impl = self.run_impl(case)
            msg = self.oracle(case, impl)
        print('case :', json.dumps(case)[:2000])
        print('impl :', json.dumps(impl, default=str)[:2000])
        req = self.model_request(case, impl)
        if req is not None and os.path.exists(DRIVER):
            rep = self.driver.one(req)
            print('model:', json.dumps(rep)[:2000])
            print('correspondence:', self.compare(case, impl, rep) or 'agree')
        print('oracle:', msg or 'property holds on this case')
        return 1 if msg else 0


def run_property(cls, argv):
    import argparse
    ap = argparse.ArgumentParser()
    ap.add_argument('--tier', default=os.environ.get('VERIF_TIER', 'quick'))
    ap.add_argument('--replay', default=None)
    ap.add_argument('--seed', type=int, default=int(os.environ.get('VERIF_SEED', '0')))
    a = ap.parse_args(argv)
    chk = cls(a.tier if a.tier in ('quick', 'thorough') else 'quick', a.seed)
    if a.replay:
        return chk.replay(a.replay)
    try:
        return chk.main()
    except subprocess.TimeoutExpired:
        print('TIMEOUT')
        return 2
