"""C09 — Fitting the bead model recovers the law that generated the beads."""
import math

import numpy as np

import common
import FlowCal
from c03 import bits, unbits

np.seterr(all='ignore')
LADDERS = [[0, 646, 1704, 4827, 15991, 47609, 135896, 273006], [0, 792, 2079, 6588, 16471, 47497, 137049, 271647],
           [0, 1614, 4035, 12025, 31896, 95682, 353225, 1077421], [0, 692, 2192, 6028, 17493, 35674, 126907, 290983],
           [0, 505, 1777, 4974, 20418, 59183, 110033, 220190, 450000, 900000]]


class Prop(common.PropertyCheck):
    pid = 'C09'
    rule = ("(recovery) slope m in [0.85,1.25] x intercept b in [0,7] x autofluorescence in {0} U [1,5000] x bead sets of 5..10 populations from realistic "
            "MEF ladders incl. a blank, with >= 5 populations above 3x the autofluorescence: fitted curve within 5% of exp(b) rfi^m over the bead span; "
            "(structure) arbitrary positive pairs of >= 3 populations incl. mildly convex / noisy sets: oddness, zero at zero, monotone for positive slope, "
            "fitted autofluorescence >= 0, bead model = standard curve - autofluorescence, callables = Lean Float instance at the returned parameters; "
            "refusals. Non-trivial = distinct rounded (m, b, autofluorescence class, ladder, #populations) draws.")
    batch_size = 100
    exploration_only = ["that L-BFGS-B reaches the minimiser to within 5% (recovery sweep) — the theorems say what it converges to (exact_law_is_minimiser) and that nothing else is a zero of the fitted function (exact_law_unique_minimiser, three distinct bead brightnesses)"]

    def gen_cases(self):
        rng = self.rng
        for _ in range(self.budget(700, 20000)):
            lad = rng.randrange(len(LADDERS))
            af = 0.0 if rng.random() < 0.2 else 10 ** rng.uniform(0, math.log10(5000))
            yield {'k': 'recover', 'm': rng.uniform(0.85, 1.25), 'b': rng.uniform(0, 7), 'af': af, 'ladder': lad,
                   'drop': rng.randrange(0, 4), 'blank': rng.random() < 0.7, 'mef_form': rng.choice(['float', 'int_array', 'int_list'])}
        # corners of the stated domain: a blank bead with a tiny autofluorescence and the dimmest stained peaks missing; a blank bead, a large
        # intercept and an autofluorescence close to the admissible maximum (the fifth-brightest bead only just above 3x the autofluorescence)
        for _ in range(self.budget(400, 6000)):
            lad = rng.randrange(len(LADDERS))
            if rng.random() < 0.5:
                yield {'k': 'recover', 'm': rng.uniform(0.85, 1.25), 'b': rng.uniform(0, 7), 'af': rng.uniform(1, 5), 'ladder': lad, 'drop': rng.randrange(0, 2),
                       'drop_dim': rng.randrange(1, 3), 'blank': True, 'mef_form': 'float'}
            else:
                yield {'k': 'recover', 'm': rng.uniform(0.85, 1.25), 'b': rng.uniform(5.5, 7), 'af': 'max', 'af_frac': rng.uniform(0.8, 0.999), 'ladder': lad,
                       'drop': rng.randrange(0, 3), 'blank': True, 'mef_form': 'float'}
        # only the five brightest peaks, no blank, and an autofluorescence of 10-33% of the dimmest of them
        for i in range(self.budget(120, 1500)):
            lad = i % len(LADDERS)
            yield {'k': 'recover', 'm': rng.uniform(0.85, 1.25), 'b': rng.uniform(0, 7), 'af': 'max', 'af_frac': rng.uniform(0.3, 0.999), 'ladder': lad, 'drop': 0,
                   'drop_dim': len(LADDERS[lad]) - 1 - 5, 'blank': False, 'mef_form': 'float'}
        # a wide ladder with dim stained peaks, a blank, a dim autofluorescence and a sub-linear slope: the blank lies more than five decades below the brightest peak
        wide = [0, 130, 400, 1300, 4200, 13000, 42000, 130000, 400000, 800000]
        for i in range(self.budget(36, 300)):
            yield {'k': 'recover', 'm': [0.85, 0.88, 0.9, 0.93, 0.86, 0.95][i % 6], 'b': [0.5, 2.0, 4.0][(i // 6) % 3], 'af': [1.0, 2.0, 5.0, 12.0][(i // 2) % 4], 'ladder': 4, 'ladder_custom': wide,
                   'drop': [0, 0, 1][i % 3], 'blank': True, 'mef_form': 'float'}
        for _ in range(self.budget(2500, 40000)):
            yield {'k': 'struct', 'n': rng.randrange(3, 9), 'kind': rng.choice(['convex', 'convex', 'noisy', 'random', 'concave']), 'seed': rng.randrange(1 << 30)}
        for bad in ('two', 'one', 'len', 'len1_mef', 'len1_rfi', 'scalar_mef', 'scalar_rfi', 'len_rfi_longer', 'len_rfi_longer_nan'):
            yield {'k': 'bad', 'what': bad}

    def run_impl(self, case):
        k = case['k']
        try:
            if k == 'bad':
                try:
                    if case['what'] == 'two':
                        FlowCal.mef.fit_beads_autofluorescence(np.array([10., 100.]), np.array([500., 5000.]))
                    elif case['what'] == 'len_rfi_longer':
                        FlowCal.mef.fit_beads_autofluorescence(np.array([10., 30., 100., 300., 1000., 3000., 10000., 30000.]), np.array([500., 1500., 5000., 15000., 50000., 150000., 500000.]))
                    elif case['what'] == 'len_rfi_longer_nan':
                        FlowCal.mef.fit_beads_autofluorescence([10., 30., 100., 300., 1000.], [500., 1500., 5000., 15000.])
                    elif case['what'] == 'one':
                        FlowCal.mef.fit_beads_autofluorescence(np.array([10.]), np.array([500.]))
                    elif case['what'] == 'len1_mef':
                        FlowCal.mef.fit_beads_autofluorescence(np.array([10., 100., 1000., 5000.]), np.array([500.]))
                    elif case['what'] == 'len1_rfi':
                        FlowCal.mef.fit_beads_autofluorescence(np.array([10.]), np.array([500., 5000., 6000., 7000.]))
                    elif case['what'] == 'scalar_mef':
                        FlowCal.mef.fit_beads_autofluorescence([10., 100., 1000.], [500.])
                    elif case['what'] == 'scalar_rfi':
                        FlowCal.mef.fit_beads_autofluorescence([10.], [500., 5000., 6000.])
                    else:
                        FlowCal.mef.fit_beads_autofluorescence(np.array([10., 100., 1000.]), np.array([500., 5000., 6000., 7000.]))
                    return {'raised': None}
                except Exception as e:
                    return {'raised': type(e).__name__}
            if k == 'recover':
                mef = np.array(case.get('ladder_custom') or LADDERS[case['ladder']], dtype=float)
                if not case['blank']:
                    mef = mef[1:]
                if case['drop']:
                    mef = mef[:len(mef) - case['drop']]
                if case.get('drop_dim'):
                    # the dimmest stained peaks are missing (the blank stays)
                    mef = np.concatenate([mef[:1], mef[1 + case['drop_dim']:]]) if case['blank'] else mef[case['drop_dim']:]
                m, b, af = case['m'], case['b'], case['af']
                if af == 'max':
                    # as large as the envelope allows: the fifth-brightest bead is just above 3x the autofluorescence
                    af = min(5000.0, float(np.sort(mef)[-5]) / 3.0 * case['af_frac']) if len(mef) >= 5 else 1.0
                rfi = np.exp((np.log(mef + af) - b) / m) if af > 0 else np.exp((np.log(np.maximum(mef, 1e-300)) - b) / m)
                ok = (mef + af > 0) & np.isfinite(rfi) & (rfi > 0)
                if af == 0:
                    ok &= mef > 0
                mef, rfi = mef[ok], rfi[ok]
                nbright = int(np.sum(mef > 3 * af))
                if len(mef) < 5 or nbright < 5:
                    return {'skip': True}
            else:
                r = np.random.RandomState(case['seed'] % (1 << 31))
                n = case['n']
                rfi = np.sort(10 ** r.uniform(0.5, 4.5, size=n))
                m, b = r.uniform(0.8, 1.3), r.uniform(0, 7)
                base = np.exp(b) * rfi ** m
                kind = case['kind']
                if kind == 'convex':
                    mef = base - r.uniform(0.05, 0.9) * base[0]
                elif kind == 'concave':
                    mef = base + r.uniform(0, 5000)
                elif kind == 'noisy':
                    mef = base * np.exp(r.normal(0, 0.1, size=n))
                else:
                    mef = np.sort(10 ** r.uniform(1, 6, size=n))
                mef = np.maximum(mef, 1e-3)
            mef_arg = mef
            if case.get('mef_form', 'float') != 'float' and np.all(mef == np.round(mef)):
                # ladders as the documentation writes them: integers (array or plain list)
                mef_arg = np.array(mef, dtype=np.int64) if case['mef_form'] == 'int_array' else [int(v) for v in mef]
                rfi = rfi if case['mef_form'] == 'int_array' else [float(v) for v in rfi]
            rfi_saved = np.array(rfi, dtype=float)
            mef_saved = np.array(mef_arg, dtype=float)
            sc, bm, params, model_str, names = FlowCal.mef.fit_beads_autofluorescence(rfi, mef_arg)
            inputs_unchanged = bool(np.array_equal(np.asarray(rfi, dtype=float), rfi_saved) and np.array_equal(np.asarray(mef_arg, dtype=float), mef_saved))
            rfi = rfi_saved
            p = [float(v) for v in params]
            grid = np.concatenate([np.linspace(rfi.min(), rfi.max(), 25), rfi])
            xs = np.concatenate([grid, -grid, [0.0]])
            out = {'p': [bits(v) for v in p], 'x': [bits(v) for v in xs], 'sc': [bits(v) for v in np.asarray(sc(xs), dtype=float)],
                   'bm': [bits(v) for v in np.asarray(bm(grid), dtype=float)], 'ngrid': len(grid), 'names': list(names), 'str': model_str,
                   'inputs_unchanged': inputs_unchanged}
            # another, unrelated fit in between: the callables of this fit keep giving this fit's values
            try:
                FlowCal.mef.fit_beads_autofluorescence(np.array([12., 150., 900., 5200., 21000.]), np.array([800., 6000., 30000., 140000., 520000.]))
                out['stable'] = bool(out['sc'] == [bits(v) for v in np.asarray(sc(xs), dtype=float)] and
                                     out['bm'] == [bits(v) for v in np.asarray(bm(grid), dtype=float)] and
                                     out['p'] == [bits(float(v)) for v in params])
            except Exception as e:
                out['stable'] = 'the unrelated fit raised %s' % type(e).__name__
            if k == 'recover':
                span = np.exp(np.linspace(np.log(rfi.min()), np.log(rfi.max()), 60))
                true = np.exp(case['b']) * span ** case['m']
                out['maxdev'] = float(np.max(np.abs(np.asarray(sc(span)) / true - 1)))
            # the curve is a function of the fluorescence value, whatever numeric type carries it
            try:
                iv = np.unique(np.clip(np.round(grid[:12]), 1, 2 ** 40).astype(np.int64))
                fi = np.asarray(sc(iv), dtype=float); ff = np.asarray(sc(iv.astype(np.float64)), dtype=float)
                one = float(sc(int(iv[0]))); onef = float(sc(float(iv[0])))
                out['int_input_ok'] = bool(np.array_equal(fi, ff, equal_nan=True) and (one == onef or (math.isnan(one) and math.isnan(onef))))
                if not out['int_input_ok']:
                    out['int_input_detail'] = 'sc(%s as integers) = %s, as floats %s' % (iv[:3].tolist(), fi[:3].tolist(), ff[:3].tolist())
            except Exception as e:
                out['int_input_ok'] = 'raised %s' % type(e).__name__
            # what the caller does with the returned parameter array afterwards does not reach later fits of the same beads
            try:
                keep = [float(v) for v in params]
                params[:] = [9.0, 9.0, 9.0]
                sc2, bm2, params2, _s, _n = FlowCal.mef.fit_beads_autofluorescence(np.array(rfi_saved), np.array(mef_saved))
                out['refit_same'] = bool([bits(float(v)) for v in params2] == [bits(v) for v in keep])
            except Exception as e:
                out['refit_same'] = 'raised %s' % type(e).__name__
            return out
        except Exception as e:
            import traceback
            return {'harness_err': traceback.format_exc()[-300:]}

    def oracle(self, case, impl):
        if impl.get('skip'):
            self.bump('outside-envelope')
            return None
        if 'harness_err' in impl:
            return 'fit raised: ' + impl['harness_err']
        if case['k'] == 'bad':
            return None if impl['raised'] == 'ValueError' else '%s not refused with ValueError: %s' % (case['what'], impl['raised'])
        if impl.get('inputs_unchanged') is False:
            return "the fit rewrote the caller's fl_rfi / fl_mef arrays (a later fit with the same arrays, or a slice of them, gets other data)"
        if impl.get('int_input_ok') is not True and 'int_input_ok' in impl:
            return 'the standard curve gives other values for integer-typed fluorescence than for the same values as floats (%s)' % (impl.get('int_input_detail') or impl['int_input_ok'])
        if impl.get('refit_same') is not True and 'refit_same' in impl:
            return 'fitting the same beads again after the caller changed the parameter array returned by the first fit gives other parameters (%s)' % impl['refit_same']
        if impl.get('stable') is not True and 'stable' in impl:
            return 'after a later, unrelated fit the functions and parameters returned by this fit no longer give the same values (%s)' % impl['stable']
        p = [unbits(b) for b in impl['p']]
        if not all(math.isfinite(v) for v in p):
            if case['k'] == 'recover' or math.isnan(p[2]) or case.get('kind') in ('convex', 'concave'):
                # (bead pairs that follow the model exactly, shifted by a constant, have a finite best fit: nothing for an optimiser to run off to)
                return 'non-finite parameters %s (%s)' % (p, {k: v for k, v in case.items()})
            # arbitrary pairs: the property makes no convergence claim.  With parameters beyond the double range the callables evaluate to
            # inf*0 = NaN, so the structural identities (proved over the reals for all parameters: sc_odd, sc_zero, model_eq_curve_sub_auto) cannot
            # be evaluated in floating point; counted, not judged
            self.exclude('struct: optimiser ran off to parameters beyond the double range (identities not evaluable)')
            return None
        if p[2] < 0:
            return 'fitted autofluorescence is negative: %r (%s)' % (p[2], {k: v for k, v in case.items()})
        x = [unbits(b) for b in impl['x']]; sc = [unbits(b) for b in impl['sc']]
        ng = impl['ngrid']
        if p[0] > 0 and sc[-1] != 0.0:
            return 'standard curve at 0 is %r (slope %r)' % (sc[-1], p[0])
        for i in range(ng):
            if sc[ng + i] != -sc[i]:
                return 'standard curve is not odd: f(%r)=%r, f(-x)=%r' % (x[i], sc[i], sc[ng + i])
            try:
                want = math.exp(p[1]) * x[i] ** p[0]
            except OverflowError:
                want = float('inf')
            if not math.isfinite(want):
                self.exclude('struct: exp(b) x^m beyond the double range (identities not evaluable)')
                continue
            # comparisons written so that a NaN on either side fails them
            if not (abs(sc[i] - want) <= 1e-9 * abs(want)):
                return 'standard curve(%r) = %r but exp(b) x^m = %r with the returned parameters' % (x[i], sc[i], want)
            bm = unbits(impl['bm'][i])
            if not (abs(bm - (sc[i] - p[2])) <= 1e-9 * max(abs(sc[i]), abs(p[2]), 1e-300)):
                return 'bead model(%r) = %r != standard curve %r - autofluorescence %r' % (x[i], bm, sc[i], p[2])
        if p[0] > 0:
            gs = sorted(range(25), key=lambda i: x[i])
            if any(sc[b] <= sc[a] for a, b in zip(gs, gs[1:]) if x[b] > x[a]):
                return 'standard curve not increasing for positive slope %r' % p[0]
        if impl['names'] != ['m', 'b', 'fl_mef_auto']:
            return 'parameter names %s' % impl['names']
        if case['k'] == 'recover':
            self.bump('recovery-fits')
            if not (impl['maxdev'] <= 0.05):
                return 'fitted standard curve deviates %.1f%% from exp(b) rfi^m (m=%.3f b=%.3f autofluorescence=%s ladder %d)' % (
                    100 * impl['maxdev'], case['m'], case['b'], case['af'], case['ladder'])
        return None

    def model_request(self, case, impl):
        if case['k'] == 'bad' or impl.get('skip') or 'harness_err' in impl:
            return None
        return {'op': 'beads_model', 'p': impl['p'], 'x': impl['x'][:impl['ngrid']]}

    def compare(self, case, impl, model):
        if 'driver_error' in model:
            return 'driver: ' + model['driver_error']
        for a, b in zip(model['sc'], impl['sc']):
            a, b = unbits(a), unbits(b)
            if common.far(a, b, 1e-10 * abs(b)):
                return 'standard curve: Lean Float %r vs implementation %r' % (a, b)
        for a, b in zip(model['bm'], impl['bm']):
            a, b = unbits(a), unbits(b)
            if common.far(a, b, 1e-10 * (abs(b) + abs(unbits(impl['p'][2])))):
                return 'bead model: Lean Float %r vs implementation %r' % (a, b)
        return None

    def nontrivial_key(self, case, impl):
        if impl.get('skip'):
            return None
        if case['k'] == 'recover':
            return ('r', round(case['m'], 2), round(case['b'], 1), 'max' if case['af'] == 'max' else 0 if case['af'] == 0 else int(math.log10(case['af'])), case['ladder'], case['drop'], case.get('drop_dim', 0), case['blank'])
        if case['k'] == 'struct':
            return ('s', case['kind'], case['n'], case['seed'] % 1000)
        return ('bad', case['what'])
