"""C16 — Truncated or inconsistent FCS files fail loudly instead of yielding other data."""
import copy
import json

import common
import fcsgen
import fcswriter
from c01 import compare_load


class Prop(common.PropertyCheck):
    pid = 'C16'
    rule = ("for generated files of every C01 layout (plus trailing ANALYSIS / supplemental TEXT and DATA-before-TEXT orders): truncation at EVERY byte "
            "offset 0..len-1, single-field corruption of $TOT, $PAR, each $PnB, HEADER and TEXT offsets (smaller, larger, +-1), and the empty file. "
            "Non-trivial = distinct (layout signature, damage kind, outcome class) with the cut/corruption inside a segment that is actually read.")
    batch_size = 2000
    assumptions = ["ANALYSIS parse failures are documented to degrade to a warning and an empty dictionary (C14); a truncated ANALYSIS segment giving {} + warning is accepted, a silently different dictionary is not",
                   "corruptions whose implied size equals the extent or extent-1 describe a self-consistent file (the tolerated one-past-the-end convention); they are excluded and counted"]

    def __init__(self, *a):
        super().__init__(*a)
        self._cache = {}

    def gen_specs(self):
        rng = self.rng
        nfiles = self.budget(24, 400)
        for i in range(nfiles):
            spec = fcsgen.gen_spec(rng, max_events=12, max_par=4, family=fcsgen.FAMILIES[i % len(fcsgen.FAMILIES)])
            r = rng.random()
            if r < 0.25 and spec['version'] != 'FCS2.0':
                spec['analysis'] = [['GATE%d' % j, 'v%d' % j] for j in range(rng.randrange(1, 4))]
                spec['analysis_placement'] = rng.choice(['header', 'text'])
            elif r < 0.4 and spec['version'] != 'FCS2.0':
                spec['stext'] = [['SK%d' % j, 'sv%d' % j] for j in range(rng.randrange(1, 4))]
                spec['order'] = rng.choice(['TDSA', 'TSDA'])
            elif r < 0.5:
                spec['order'] = 'DTA'
                spec['pad_data'] = 0
            yield spec

    def gen_cases(self):
        rng = self.rng
        yield {'k': 'empty'}
        for spec in self.gen_specs():
            data, layout = fcswriter.build(spec)
            for cut in range(len(data)):
                yield {'k': 'trunc', 'spec': spec, 'cut': cut}
            D = len(spec['widths'])
            fields = ['$TOT', '$PAR'] + ['$P%dB' % (i + 1) for i in range(D)] + \
                     ['hdr:text_begin', 'hdr:text_end', 'hdr:data_begin', 'hdr:data_end']
            if spec['version'] != 'FCS2.0':
                fields += ['$BEGINDATA', '$ENDDATA']
            for f in fields:
                for delta in (-1, 1, -8, 8, 'half', 'double', 'zero'):
                    yield {'k': 'corrupt', 'spec': spec, 'field': f, 'delta': delta}

    # ---- helpers ----------------------------------------------------------------
    def intact(self, spec):
        key = json.dumps(spec, sort_keys=True)
        if key not in self._cache:
            if len(self._cache) > 4:
                self._cache.clear()
            data, layout = fcswriter.build(spec)
            self._cache[key] = (data, layout, fcsgen.load_bytes(data, want_fcsdata=False))
        return self._cache[key]

    def corrupt(self, spec, field, delta):
        data, layout, _ = self.intact(spec)
        s = copy.deepcopy(spec)

        def newval(old):
            if delta == 'half':
                return old // 2
            if delta == 'double':
                return old * 2
            if delta == 'zero':
                return 0
            return old + delta
        pairs = dict((k, v) for k, v in layout['text_pairs'])
        if field.startswith('hdr:'):
            name = field[4:]
            old = layout['header'][name]
            s.setdefault('header_overrides', {})[name] = max(0, newval(old))
            new = s['header_overrides'][name]
        else:
            old = int(pairs[field])
            new = max(0, newval(old))
            if field in ('$BEGINDATA', '$ENDDATA'):
                s.setdefault('overrides', {})[field] = fcswriter.off(new)
            else:
                s.setdefault('overrides', {})[field] = str(new)
        if new == old:
            return None, None
        # the new file must keep the same byte layout: build with the intact layout, only the field text differs
        try:
            d2, l2 = fcswriter.build(s)
        except AssertionError:
            return None, None
        return d2, (old, new)

    def implied(self, spec, field, new, layout):
        """(implied array size, extent) after the corruption, for the tolerated-ambiguity rule."""
        pairs = dict((k, v) for k, v in layout['text_pairs'])
        tot = int(pairs['$TOT']); par = int(pairs['$PAR'])
        ws = [int(pairs['$P%dB' % (i + 1)]) for i in range(par)]
        hb, he = layout['header']['data_begin'], layout['header']['data_end']
        tb = int(pairs.get('$BEGINDATA', 0)); te = int(pairs.get('$ENDDATA', 0))
        if field == '$TOT':
            tot = new
        elif field == '$PAR':
            par = new
            ws = ws[:par] if par <= len(ws) else None
        elif field.startswith('$P') and field.endswith('B'):
            ws[int(field[2:-1]) - 1] = new
        elif field == 'hdr:data_begin':
            hb = new
        elif field == 'hdr:data_end':
            he = new
        elif field == '$BEGINDATA':
            tb = new
        elif field == '$ENDDATA':
            te = new
        if ws is None:
            return None
        b, e = (hb, he) if (hb and he) else (tb, te)
        total = tot * sum(w // 8 for w in ws)
        return total, e + 1 - b

    def run_impl(self, case):
        if case['k'] == 'empty':
            r = fcsgen.load_bytes(b'', want_fcsdata=False)
            r['file'] = []
            return r
        spec = case['spec']
        data, layout, intact = self.intact(spec)
        if case['k'] == 'trunc':
            d2 = data[:case['cut']]
            r = fcsgen.load_bytes(d2, want_fcsdata=False)
            r['file'] = list(d2)
            return r
        d2, change = self.corrupt(spec, case['field'], case['delta'])
        if d2 is None:
            return {'skip': True}
        r = fcsgen.load_bytes(d2, want_fcsdata=False)
        r['file'] = list(d2)
        r['change'] = list(change)
        return r

    def post(self):
        fcsgen.cleanup()

    def oracle(self, case, impl):
        if impl.get('skip'):
            return None
        if case['k'] == 'empty':
            return None if 'err' in impl else 'an empty file was loaded: %s' % impl
        data, layout, intact = self.intact(case['spec'])
        if 'err' in intact:
            return 'harness: intact file does not load (%s %s)' % (intact['err'], intact.get('msg'))
        self.bump(case['k'] + (':err' if 'err' in impl else ':ok'))
        if 'err' in impl:
            return None
        if case['k'] == 'trunc':
            where = 'cut at byte %d of %d' % (case['cut'], len(data))
            if impl['data'] != intact['data'] or impl['shape'] != intact['shape']:
                return '%s: loaded a different matrix %s %s (intact %s)' % (where, impl['shape'], str(impl['data'])[:80], intact['shape'])
            if impl['text'] != intact['text']:
                missing = [bytes(k).decode('latin1') for k, v in intact['text'] if [k, v] not in impl['text']]
                return '%s: loaded with different keywords (missing/changed: %s)' % (where, missing[:6])
            if impl['analysis'] != intact['analysis']:
                if impl['analysis'] == [] and 'analysis' in impl['warnings']:
                    self.exclude('truncated ANALYSIS degraded to {} with the documented warning')
                    return None
                return '%s: ANALYSIS keywords silently differ: %s vs intact %s' % (where, impl['analysis'][:3], intact['analysis'][:3])
            return None
        # corruption
        old, new = impl['change']
        if impl['data'] == intact['data'] and impl['shape'] == intact['shape']:
            return None
        imp = self.implied(case['spec'], case['field'], new, layout)
        if imp is not None and imp[0] in (imp[1], imp[1] - 1):
            self.exclude('tolerated-ambiguous corruption (implied size == extent or extent-1)')
            return None
        return '%s corrupted %s -> %s: loaded a different matrix %s instead of failing (intact %s)' % (
            case['field'], old, new, impl['shape'], intact['shape'])

    def model_request(self, case, impl):
        if impl.get('skip'):
            return None
        return {'op': 'load', 'file': impl['file']}

    def compare(self, case, impl, model):
        return compare_load(self, impl, model, class_exact=())

    def nontrivial_key(self, case, impl):
        if impl.get('skip') or case['k'] == 'empty':
            return None
        s = case['spec']
        data, layout, intact = self.intact(s)
        sig = (s['datatype'], tuple(s['widths']), s['placement'], s['end_conv'], s.get('order'), bool(s.get('analysis')), bool(s.get('stext')))
        if case['k'] == 'trunc':
            seg = 'hdr' if case['cut'] < 58 else next((k for k, (b, e) in layout['segs'].items() if b <= case['cut'] <= e + 1), 'pad')
            return (sig, 'trunc', seg, 'err' if 'err' in impl else 'ok')
        return (sig, case['field'], str(case['delta']), 'err' if 'err' in impl else 'ok')

    def shrink_candidates(self, case):
        if case['k'] == 'empty':
            return
        s = case['spec']
        ev = s['events']
        if case['k'] == 'corrupt':
            for i in range(len(ev)):
                yield dict(case, spec=dict(s, events=ev[:i] + ev[i + 1:]))
