"""C16 — Truncated or inconsistent FCS files fail loudly instead of yielding other data."""
import copy
import json

import common
import fcsgen
import fcswriter
from c01 import compare_load
from c14 import ref_tokenize, pairs_to_items


class Prop(common.PropertyCheck):
    pid = 'C16'
    rule = ("for generated files of every C01 layout (plus trailing ANALYSIS / supplemental TEXT and DATA-before-TEXT orders): truncation at EVERY byte "
            "offset 0..len-1, single-field corruption of $TOT, $PAR, each $PnB, HEADER and TEXT offsets of DATA, TEXT, supplemental TEXT and ANALYSIS (smaller, larger, +-1, and positions inside the keyword segments), and the empty file; events AND keywords are compared with the intact file. "
            "Non-trivial = distinct (layout signature, damage kind, outcome class) with the cut/corruption inside a segment that is actually read.")
    batch_size = 2000
    assumptions = ["ANALYSIS parse failures are documented to degrade to a warning and an empty dictionary (C14); a truncated ANALYSIS segment giving {} + warning is accepted, a silently different dictionary is not",
                   "corruptions whose implied size equals the extent or extent-1 describe a self-consistent file (the tolerated one-past-the-end convention); they are excluded and counted"]

    def __init__(self, *a):
        super().__init__(*a)
        self._cache = {}

    def gen_specs(self):
        rng = self.rng
        nfiles = self.budget(24, 400)
        for i in range(nfiles):
            spec = fcsgen.gen_spec(rng, max_events=12, max_par=4, family=fcsgen.FAMILIES[i % len(fcsgen.FAMILIES)])
            r = rng.random()
            if spec['version'] == 'FCS2.0' and i % 4 in (1, 2):
                spec['version'] = rng.choice(['FCS3.0', 'FCS3.1'])      # the layouts below need FCS3.x keywords
                if spec['placement'] == 'header':
                    spec['text_offsets_too'] = True
            if i % 4 == 1:
                spec['analysis'] = [['GATE%d' % j, 'v%d' % j] for j in range(rng.randrange(1, 4))]
                spec['analysis_placement'] = rng.choice(['header', 'text'])
            elif i % 4 == 2:
                # supplemental TEXT, after DATA (trailing) or before it
                spec['stext'] = [['SK%d' % j, 'sv%d' % j] for j in range(rng.randrange(1, 4))]
                spec['order'] = ['TDSA', 'TSDA', 'TDS'][(i // 4) % 3]
            elif i % 4 == 3 and r < 0.5:
                spec['order'] = 'DTA'
                spec['pad_data'] = 0
            yield spec
        # a keyword segment is the last thing in the file and its last value ends with an (escaped) delimiter: every cut, also by one byte, is refused
        base = {'version': 'FCS3.0', 'delim': '/', 'datatype': 'I', 'byteord': '1,2,3,4', 'widths': [8, 16], 'ranges': [256, 1024],
                'events': [[1, 2], [3, 4], [250, 1000]], 'placement': 'header', 'text_offsets_too': True, 'end_conv': 'last', 'pad_text': 0, 'pad_data': 0, 'pad_after': 0}
        yield dict(base, order='DT', extra=[['RUNDIR', 'runs/b7/']])
        yield dict(base, order='TDS', stext=[['SK0', 'sv0'], ['SDIR', 'out/x/']], extra=[['K', 'v']])
        yield dict(base, version='FCS3.1', delim='|', order='DT', extra=[['NOTE', 'a|b|']])
        # big-endian FCS2.0 files: $BYTEORD is the first keyword of TEXT (a TEXT extent that begins one pair later still splits into pairs)
        be = {'version': 'FCS2.0', 'delim': '/', 'datatype': 'I', 'byteord': '4,3,2,1', 'widths': [16, 16], 'ranges': [65536, 65536],
              'events': [[258, 772], [4660, 22136], [1, 256]], 'placement': 'header', 'end_conv': 'last', 'pad_text': 0, 'pad_data': 0, 'pad_after': 0, 'order': 'TD'}
        yield be
        yield dict(be, datatype='F', widths=[32, 32], ranges=[1024, 1024], events=[[0x3fc00000, 0x40490fdb], [0x42f6e979, 0x3dcccccd]], delim='|', byteord='4,3,2,1')

    def gen_cases(self):
        rng = self.rng
        yield {'k': 'empty'}
        for spec in self.gen_specs():
            data, layout = fcswriter.build(spec)
            for cut in range(len(data)):
                yield {'k': 'trunc', 'spec': spec, 'cut': cut}
            # the same cuts inside DATA with the file handed over as an open file object instead of a name
            db, de = layout['segs']['D']
            for cut in range(db, min(de + 2, len(data))):
                yield {'k': 'trunc', 'spec': spec, 'cut': cut, 'via': 'fileobj'}
            D = len(spec['widths'])
            fields = ['$TOT', '$PAR'] + ['$P%dB' % (i + 1) for i in range(D)] + \
                     ['hdr:text_begin', 'hdr:text_end', 'hdr:data_begin', 'hdr:data_end']
            if spec['version'] != 'FCS2.0':
                fields += ['$BEGINDATA', '$ENDDATA']
            if 'A' in layout['segs']:
                fields += ['hdr:analysis_begin', 'hdr:analysis_end'] + (['$BEGINANALYSIS', '$ENDANALYSIS'] if spec['version'] != 'FCS2.0' else [])
            if 'S' in layout['segs']:
                fields += ['$BEGINSTEXT', '$ENDSTEXT']
            for f in fields:
                for delta in (-1, 1, -8, 8, 'half', 'double', 'zero'):
                    yield {'k': 'corrupt', 'spec': spec, 'field': f, 'delta': delta}
            # offsets of the keyword segments moved to positions inside the segment (pair boundaries, inside keys, inside values)
            for segk, fs in (('T', ['hdr:text_end', 'hdr:text_begin']), ('S', ['$ENDSTEXT', '$BEGINSTEXT']),
                             ('A', ['hdr:analysis_end', '$ENDANALYSIS', 'hdr:analysis_begin', '$BEGINANALYSIS'])):
                if segk not in layout['segs']:
                    continue
                b, e = layout['segs'][segk]
                lo = max(b + 1, e - 45)
                positions = list(range(lo, e)) if self.tier == 'thorough' else sorted(rng.sample(range(lo, e), min(8, e - lo)))
                for f in fs:
                    if f in fields:
                        for pos in positions:
                            yield {'k': 'corrupt', 'spec': spec, 'field': f, 'delta': ['to', pos]}
                # the begin offset of the supplemental segment moved into the primary TEXT segment (its first byte, a keyword, its last byte)
                if segk == 'S' and '$BEGINSTEXT' in fields and 'T' in layout['segs']:
                    tb, te = layout['segs']['T']
                    for pos in sorted({tb, tb + 1, tb + 13, (tb + te) // 2, te - 1, te}):
                        if 0 < pos:
                            yield {'k': 'corrupt', 'spec': spec, 'field': '$BEGINSTEXT', 'delta': ['to', pos]}
                # the first byte moved onto every later delimiter of the segment (a well-formed remainder starts there) and into the first pairs
                dl = ord(spec['delim'])
                delims = [q for q in range(b + 1, e) if data[q] == dl]
                early = list(range(b + 1, min(e, b + 60))) if self.tier == 'thorough' else sorted(rng.sample(range(b + 1, min(e, b + 60)), min(6, max(0, min(e, b + 60) - b - 1))))
                for f in fs:
                    if f in fields and 'begin' in f.lower():
                        for pos in sorted(set(delims + early)):
                            yield {'k': 'corrupt', 'spec': spec, 'field': f, 'delta': ['to', pos]}

        # files of more than 2**16 events (block-wise readers), cut at event boundaries and inside events of the DATA segment; oracle only
        for i in range(self.budget(6, 40)):
            ws = [[8, 16], [24, 24, 24], [16, 8, 24], [16, 16], [32, 32]][i % 5]
            yield {'k': 'bigtrunc', 'widths': ws, 'datatype': 'F' if ws == [32, 32] else 'I', 'n': [70000, 131073, 65537][i % 3], 'big_endian': i % 2 == 1,
                   'keep': [69000, 65536, 1, 65535, 131072, 69999][i % 6], 'inside': i % 4 == 3, 'seed': rng.randrange(1 << 30)}

    def run_bigtrunc(self, case):
        import numpy as np
        ws = case['widths']
        esz = sum(ws) // 8
        N = case['n']
        keep = min(case['keep'], N - 1)
        raw = np.random.RandomState(case['seed'] % (1 << 31)).randint(1, 256, size=(N, esz)).astype(np.uint8)      # no zero byte: every event is non-zero
        spec = {'version': 'FCS3.0', 'delim': '/', 'datatype': case['datatype'], 'byteord': '4,3,2,1' if case['big_endian'] else '1,2,3,4', 'widths': ws,
                'ranges': [1 << w for w in ws], 'events': [], 'tot': N, 'raw_data': raw.tobytes().decode(fcswriter.ENC), 'placement': 'header', 'text_offsets_too': True,
                'end_conv': 'last', 'pad_text': 0, 'pad_data': 0, 'pad_after': 0, 'order': 'TDA'}
        data, layout = fcswriter.build(spec)
        db = layout['segs']['D'][0]
        full = fcsgen.load_bytes(data, want_fcsdata=False)
        if 'err' in full or full['shape'] != [N, len(ws)]:
            return {'bigtrunc': 'the intact file (%d events, widths %s) does not load: %s' % (N, ws, full.get('err') or full['shape'])}
        cut = db + keep * esz + (esz // 2 + 1 if case['inside'] else 0)
        r = fcsgen.load_bytes(data[:cut], want_fcsdata=False)
        if 'err' in r:
            return {'bigtrunc': None}
        return {'bigtrunc': 'a file of %d events (widths %s) cut after %d complete events%s was loaded without error: shape %s' % (
            N, ws, keep, ' and part of the next one' if case['inside'] else '', r.get('shape'))}

    # ---- helpers ----------------------------------------------------------------
    def intact(self, spec):
        key = json.dumps(spec, sort_keys=True)
        if key not in self._cache:
            if len(self._cache) > 4:
                self._cache.clear()
            data, layout = fcswriter.build(spec)
            self._cache[key] = (data, layout, fcsgen.load_bytes(data, want_fcsdata=False))
        return self._cache[key]

    def corrupt(self, spec, field, delta):
        data, layout, _ = self.intact(spec)
        s = copy.deepcopy(spec)

        def newval(old):
            if delta == 'half':
                return old // 2
            if delta == 'double':
                return old * 2
            if delta == 'zero':
                return 0
            if isinstance(delta, (list, tuple)):
                return delta[1]
            return old + delta
        pairs = dict((k, v) for k, v in layout['text_pairs'])
        if field.startswith('hdr:'):
            name = field[4:]
            old = layout['header'][name]
            s.setdefault('header_overrides', {})[name] = max(0, newval(old))
            new = s['header_overrides'][name]
        else:
            old = int(pairs[field])
            new = max(0, newval(old))
            if field in ('$BEGINDATA', '$ENDDATA', '$BEGINANALYSIS', '$ENDANALYSIS', '$BEGINSTEXT', '$ENDSTEXT'):
                s.setdefault('overrides', {})[field] = fcswriter.off(new)
            else:
                s.setdefault('overrides', {})[field] = str(new)
        if new == old:
            return None, None
        # the new file must keep the same byte layout: build with the intact layout, only the field text differs
        try:
            d2, l2 = fcswriter.build(s)
        except AssertionError:
            return None, None
        self._l2 = l2
        return d2, (old, new)

    def implied(self, spec, field, new, layout):
        """(implied array size, extent) after the corruption, for the tolerated-ambiguity rule."""
        pairs = dict((k, v) for k, v in layout['text_pairs'])
        tot = int(pairs['$TOT']); par = int(pairs['$PAR'])
        ws = [int(pairs['$P%dB' % (i + 1)]) for i in range(par)]
        hb, he = layout['header']['data_begin'], layout['header']['data_end']
        tb = int(pairs.get('$BEGINDATA', 0)); te = int(pairs.get('$ENDDATA', 0))
        if field == '$TOT':
            tot = new
        elif field == '$PAR':
            par = new
            ws = ws[:par] if par <= len(ws) else None
        elif field.startswith('$P') and field.endswith('B'):
            ws[int(field[2:-1]) - 1] = new
        elif field == 'hdr:data_begin':
            hb = new
        elif field == 'hdr:data_end':
            he = new
        elif field == '$BEGINDATA':
            tb = new
        elif field == '$ENDDATA':
            te = new
        if ws is None:
            return None
        b, e = (hb, he) if (hb and he) else (tb, te)
        total = tot * sum(w // 8 for w in ws)
        return total, e + 1 - b

    def run_impl(self, case):
        if case['k'] == 'empty':
            r = fcsgen.load_bytes(b'', want_fcsdata=False)
            r['file'] = []
            return r
        if case['k'] == 'bigtrunc':
            return self.run_bigtrunc(case)
        spec = case['spec']
        data, layout, intact = self.intact(spec)
        if case['k'] == 'trunc':
            d2 = data[:case['cut']]
            r = fcsgen.load_bytes(d2, want_fcsdata=False, via=case.get('via', 'name'))
            r['file'] = list(d2)
            return r
        d2, change = self.corrupt(spec, case['field'], case['delta'])
        if d2 is None:
            return {'skip': True}
        # (the intact file of the same length sat at the same path, with the same time stamps, and was loaded just before)
        r = fcsgen.load_bytes(d2, want_fcsdata=False, prelude=data if len(d2) == len(data) else None)
        r['file'] = list(d2)
        r['change'] = list(change)
        r['written'] = {'text_pairs': self._l2['text_pairs'], 'segs': self._l2['segs']}
        return r

    def post(self):
        fcsgen.cleanup()

    def oracle(self, case, impl):
        if impl.get('skip'):
            return None
        if case['k'] == 'empty':
            return None if 'err' in impl else 'an empty file was loaded: %s' % impl
        if case['k'] == 'bigtrunc':
            self.bump('big-file-cut')
            return impl['bigtrunc']
        data, layout, intact = self.intact(case['spec'])
        if 'err' in intact:
            return 'harness: intact file does not load (%s %s)' % (intact['err'], intact.get('msg'))
        self.bump(case['k'] + (':err' if 'err' in impl else ':ok'))
        if 'err' in impl:
            return None
        if case['k'] == 'trunc':
            where = 'cut at byte %d of %d%s' % (case['cut'], len(data), ' (passed as an open file object)' if case.get('via') == 'fileobj' else '')
            if impl['data'] != intact['data'] or impl['shape'] != intact['shape']:
                return '%s: loaded a different matrix %s %s (intact %s)' % (where, impl['shape'], str(impl['data'])[:80], intact['shape'])
            if impl['text'] != intact['text']:
                missing = [bytes(k).decode('latin1') for k, v in intact['text'] if [k, v] not in impl['text']]
                return '%s: loaded with different keywords (missing/changed: %s)' % (where, missing[:6])
            if impl['analysis'] != intact['analysis']:
                if impl['analysis'] == [] and 'analysis' in impl['warnings']:
                    self.exclude('truncated ANALYSIS degraded to {} with the documented warning')
                    return None
                return '%s: ANALYSIS keywords silently differ: %s vs intact %s' % (where, impl['analysis'][:3], intact['analysis'][:3])
            return None
        # corruption
        old, new = impl['change']
        if impl['data'] == intact['data'] and impl['shape'] == intact['shape']:
            return self.keywords_oracle(case, impl, intact, layout, data, old, new)
        imp = self.implied(case['spec'], case['field'], new, layout)
        # a TEXT offset that the loader must not even look at (the HEADER holds valid DATA offsets): the intact events are the only right answer
        if case['field'] in ('$BEGINDATA', '$ENDDATA') and layout['header']['data_begin'] and layout['header']['data_end']:
            return '%s corrupted %s -> %s while the HEADER holds the valid DATA offsets: loaded a different matrix %s %s (intact %s)' % (
                case['field'], old, new, impl['shape'], str(impl['data'])[:60], intact['shape'])
        size_field = case['field'] in ('$TOT', '$PAR', 'hdr:data_begin', 'hdr:data_end', '$BEGINDATA', '$ENDDATA') or (case['field'].startswith('$P') and case['field'].endswith('B'))
        if size_field and imp is not None and imp[0] in (imp[1], imp[1] - 1):
            # (only corruptions of the fields that declare the size or the place of DATA can be ambiguous in this way)
            self.exclude('tolerated-ambiguous corruption (implied size == extent or extent-1)')
            return None
        return '%s corrupted %s -> %s: loaded a different matrix %s instead of failing (intact %s)' % (
            case['field'], old, new, impl['shape'], intact['shape'])

    def keywords_oracle(self, case, impl, intact, layout, data, old, new):
        """events are intact: the keywords must be the intact ones too (the corrupted keyword itself apart)"""
        field = case['field']
        data = bytes(impl['file'])                      # the damaged file
        layout = dict(layout, segs=impl['written']['segs'])
        enc = lambda its: sorted([list(k.encode('latin1')), list(v.encode('latin1'))] for k, v in its)
        # the keywords the damaged file was written with (the damaged field has its damaged value there)
        spec = case['spec']
        wtext = dict((k, v) for k, v in impl['written']['text_pairs'])
        wtext.update(dict((k, v) for k, v in (spec.get('stext') or [])))
        want_text = enc(wtext.items())
        want_an = enc(dict((k, v) for k, v in (spec.get('analysis') or [])).items()) if spec.get('raw_analysis') is None else intact['analysis']

        def drop(items):
            return items
        same_text = impl['text'] == want_text
        same_an = impl['analysis'] == want_an
        if same_text and same_an:
            return None
        if same_text and impl['analysis'] == [] and 'analysis' in impl['warnings']:
            self.exclude('corrupted ANALYSIS offsets degraded to {} with the documented warning')
            return None
        # what a reader that trusts the (wrong) extent and finds it well formed would return -- computed with the independent tokenizer
        seg_of = {'hdr:text_begin': 'T', 'hdr:text_end': 'T', '$BEGINSTEXT': 'S', '$ENDSTEXT': 'S', 'hdr:analysis_begin': 'A', 'hdr:analysis_end': 'A',
                  '$BEGINANALYSIS': 'A', '$ENDANALYSIS': 'A'}
        trusted = None
        segk = seg_of.get(field)
        if segk:
            b, e = layout['segs'][segk]
            if field.endswith('begin') or field.startswith('$BEGIN'):
                b = new
            else:
                e = new
            raw = bytes(data)[b:e + 1].decode('latin1') if 0 <= b <= e < len(data) else None
            if new == 0 and segk in ('S', 'A'):
                raw = ''            # an offset of zero declares the segment absent
            d = chr(data[layout['segs']['T'][0]])
            if raw is not None:
                if segk == 'T':
                    d = raw[0] if raw else d
                r = ref_tokenize(raw, d, segk != 'T')
                if r[0] in ('ok', 'warn'):
                    items = pairs_to_items(r[1])
                    if segk == 'A':
                        trusted = same_text and impl['analysis'] == enc(items)
                    else:
                        if segk == 'T':
                            merged = dict((k, v) for k, v in items)
                            if 'S' in layout['segs']:
                                sb, se = layout['segs']['S']
                                rs = ref_tokenize(bytes(data)[sb:se + 1].decode('latin1'), d, True)
                                if rs[0] in ('ok', 'warn'):
                                    merged.update(dict((k, v) for k, v in pairs_to_items(rs[1])))
                        else:
                            tb, te = layout['segs']['T']
                            rp = ref_tokenize(bytes(data)[tb:te + 1].decode('latin1'), d, False)
                            merged = dict((k, v) for k, v in pairs_to_items(rp[1])) if rp[0] in ('ok', 'warn') else {}
                            merged.update(dict((k, v) for k, v in items))
                        trusted = same_an and drop(enc(merged.items())) == drop(impl['text'])
        what = []
        if not same_text:
            it = dict((bytes(k).decode('latin1'), bytes(v).decode('latin1')) for k, v in want_text)
            im = dict((bytes(k).decode('latin1'), bytes(v).decode('latin1')) for k, v in drop(impl['text']))
            what.append('missing %s, changed %s, added %s' % (sorted(set(it) - set(im))[:4], sorted(k for k in it if k in im and it[k] != im[k])[:4], sorted(set(im) - set(it))[:4]))
        if not same_an:
            what.append('ANALYSIS %d keywords instead of %d' % (len(impl['analysis']), len(want_an)))
        msg = '%s corrupted %s -> %s: loaded without error, events intact, but with different keywords (%s)' % (field, old, new, '; '.join(what))
        if trusted:
            msg += ' [the loaded keywords are exactly those of the corrupted %s extent read as a well-formed segment]' % {'T': 'TEXT', 'S': 'supplemental TEXT', 'A': 'ANALYSIS'}[segk]
        return msg

    def model_request(self, case, impl):
        if impl.get('skip') or case['k'] == 'bigtrunc':
            return None
        return {'op': 'load', 'file': impl['file']}

    def compare(self, case, impl, model):
        return compare_load(self, impl, model, class_exact=())

    def nontrivial_key(self, case, impl):
        if impl.get('skip') or case['k'] == 'empty':
            return None
        if case['k'] == 'bigtrunc':
            return ('bigtrunc', tuple(case['widths']), case['n'], case['keep'], case['inside'])
        s = case['spec']
        data, layout, intact = self.intact(s)
        sig = (s['datatype'], tuple(s['widths']), s['placement'], s['end_conv'], s.get('order'), bool(s.get('analysis')), bool(s.get('stext')))
        if case['k'] == 'trunc':
            seg = 'hdr' if case['cut'] < 58 else next((k for k, (b, e) in layout['segs'].items() if b <= case['cut'] <= e + 1), 'pad')
            return (sig, 'trunc', seg, 'err' if 'err' in impl else 'ok')
        return (sig, case['field'], str(case['delta']), 'err' if 'err' in impl else 'ok')

    def shrink_candidates(self, case):
        if case['k'] in ('empty', 'bigtrunc'):
            return
        s = case['spec']
        ev = s['events']
        if case['k'] == 'corrupt':
            for i in range(len(ev)):
                yield dict(case, spec=dict(s, events=ev[:i] + ev[i + 1:]))
