"""C06 — MEF conversion applies each channel's own standard curve, or refuses."""
import itertools

import numpy as np

import common
import fcsgen
import fingerprint as fpm
import samples
import FlowCal
from c03 import meta_of, arr_bits, range_bits


def curve(k):
    """exactly representable affine maps: which curve hit which column can be read off the result"""
    return lambda x, k=k: np.asarray(x) * float(2 ** (k + 1)) + float(k + 1)


class Prop(common.PropertyCheck):
    pid = 'C06'
    rule = ("samples and arrays x 1..5 distinct exactly-representable affine curves x every permutation of the (curve, channel) pairing (<= 4 curves "
            "exhaustive, 5 sampled) x requested subsets / orders / name-or-position spellings incl. one uncovered channel and length mismatches; plus the "
            "callable returned by mef.get_transform_fxn applied to samples whose column layout differs from the bead file. Non-trivial = distinct "
            "(container, #curves, pairing permutation class, request form, outcome).")
    batch_size = 200

    def gen_cases(self):
        rng = self.rng
        for _ in range(self.budget(700, 8000)):
            D = rng.randrange(2, 6)
            nc = rng.randrange(1, D + 1)
            yield {'k': 'mef', 'cont': rng.choice(['sample', 'sample', 'array']), 'D': D, 'nc': nc, 'seed': rng.randrange(1 << 30),
                   'req': rng.choice(['none', 'scalar', 'subset', 'subset', 'all_reordered', 'uncovered', 'empty', 'repeated']), 'negdata': rng.random() < 0.4,
                   'dupnames': rng.random() < 0.2,
                   'scform': rng.choice(['names', 'pos', 'mixed', 'default']), 'bad': rng.choice([None] * 9 + ['len']),
                   'neg': rng.random() < 0.25}
        # samples of more than 2**20 events, not a multiple of it (block-wise implementations)
        for _ in range(self.budget(1, 6)):
            yield {'k': 'big', 'n': (1 << 20) * rng.choice([1, 1, 2]) + rng.randrange(1, 5000), 'cont': rng.choice(['array', 'sample']), 'seed': rng.randrange(1 << 30)}
        orders = [['FL1', 'FL3'], ['FL3', 'FL1'], ['FL2'], ['FL1', 'FL2', 'FL3'], ['FL2', 'FL3', 'FL1'], ['FL3', 'FL1', 'FL2'], ['FL3', 'FL2', 'FL1'],
                  ['FL1', 'FL3', 'FL2'], ['FL2', 'FL1', 'FL3'], ['FL2', 'FL1']]
        for i in range(4):
            yield {'k': 'partial', 'seed': i, 'layout': 'unknown_rows'}
        # events without a finite value (floating-point samples): the channel's curve is applied to them like to any other event
        for i in range(self.budget(12, 80)):
            yield {'k': 'nonfinite', 'seed': rng.randrange(1 << 30), 'cont': ['array', 'sample'][i % 2], 'req': ['all', 'one', 'both'][i % 3]}
        for i, order in enumerate([['FL1', 'FL2', 'FL3'], ['FL3', 'FL1'], ['FL2', 'FL3', 'FL1'], ['FL2']]):
            yield {'k': 'partial', 'seed': 50 + i, 'layout': ['same', 'swapped', 'reversed', 'dropped'][i], 'order': order, 'custom_fit': True}
        layouts = ['same', 'swapped', 'dropped', 'reversed', 'lacking']
        for i in range(self.budget(20, 150)):
            yield {'k': 'partial', 'seed': rng.randrange(1 << 30), 'layout': layouts[(i // len(orders) + i) % len(layouts)], 'order': orders[i % len(orders)]}
        # integer arrays with many more events than levels, negative levels included (table-driven implementations)
        for i in range(self.budget(24, 240)):
            D = rng.randrange(2, 5)
            yield {'k': 'mef', 'cont': 'array_int', 'D': D, 'nc': rng.randrange(1, D + 1), 'seed': rng.randrange(1 << 30), 'N': [70, 150, 400][i % 3],
                   'levels': [(-6, 60), (-3, 12), (-40, 3), (0, 20)][i % 4], 'idt': ['int32', 'int64', 'int16', 'int8'][(i // 2) % 4],
                   'req': ['none', 'subset', 'all_reordered', 'scalar'][(i // 3) % 4], 'negdata': True, 'dupnames': False, 'scform': ['pos', 'default'][i % 2], 'bad': None, 'neg': False}

        # requests given as other containers (tuple, set, frozenset, the keys of a dictionary), mostly on plain arrays
        for i in range(self.budget(48, 300)):
            D = rng.randrange(3, 6)
            yield {'k': 'mef', 'cont': ['array', 'array', 'sample'][i % 3], 'D': D, 'nc': rng.randrange(1, D + 1), 'seed': rng.randrange(1 << 30), 'req': ['subset', 'all_reordered', 'uncovered'][i % 3],
                   'negdata': False, 'dupnames': False, 'scform': ['pos', 'names', 'mixed'][i % 3], 'bad': None, 'neg': False, 'req_container': ['set', 'frozenset', 'keys', 'tuple'][i % 4]}
        # every channel of the curves requested, followed by one channel without a curve (the uncovered one comes last)
        for i in range(self.budget(24, 200)):
            D = rng.randrange(3, 6)
            yield {'k': 'mef', 'cont': ['sample', 'array'][i % 2], 'D': D, 'nc': rng.randrange(1, D), 'seed': rng.randrange(1 << 30), 'req': 'uncovered_last',
                   'negdata': False, 'dupnames': False, 'scform': ['names', 'pos', 'mixed'][i % 3], 'bad': None, 'neg': False}
        # requests given as NumPy arrays of names or of positions, with and without an uncovered channel
        for i in range(self.budget(60, 400)):
            D = rng.randrange(3, 6)
            yield {'k': 'mef', 'cont': ['sample', 'array', 'sample'][i % 3], 'D': D, 'nc': rng.randrange(1, D), 'seed': rng.randrange(1 << 30), 'req': ['uncovered', 'subset', 'uncovered', 'all_reordered'][i % 4],
                   'negdata': False, 'dupnames': False, 'scform': ['names', 'pos'][i % 2], 'bad': None, 'neg': False, 'req_ndarray': True}
        # the channels of the curves left to their default (one curve per channel of the sample) while fewer curves are supplied: refused, however many channels are requested
        for i in range(self.budget(18, 120)):
            yield {'k': 'default_short', 'cont': ['array', 'sample'][i % 2], 'D': 3 + i % 3, 'ncur': 1 + i % 2, 'req': ['same_len', 'scalar', 'none', 'same_len_names'][i % 4], 'seed': rng.randrange(1 << 30)}

    def run_default_short(self, case):
        import random
        r = random.Random(case['seed'])
        D, ncur = case['D'], case['ncur']
        if case['cont'] == 'sample':
            d, _ = samples.load(samples.spec_rich(r, N=5, D=D, datatype='I'), name='c06s.fcs')
        else:
            d = np.array([[r.randrange(0, 1024) for _ in range(D)] for _ in range(5)], dtype=np.float64)
        cols = r.sample(range(D), ncur)
        req = {'same_len': list(cols), 'scalar': cols[0], 'none': None,
               'same_len_names': [d.channels[c] for c in cols] if case['cont'] == 'sample' else list(cols)}[case['req']]
        if case['req'] == 'scalar' and ncur != 1:
            req = list(cols)
        try:
            t = FlowCal.transform.to_mef(d, req, [curve(k) for k in range(ncur)])
        except ValueError:
            return {'default_short': None}
        except Exception as e:
            return {'default_short': 'raised %s instead of ValueError' % type(e).__name__}
        return {'default_short': '%d curve(s) for a %d-channel %s and no channels for the curves (request %r): not refused; result %s the input' % (
            ncur, D, case['cont'], req, 'equals' if np.array_equal(np.asarray(t, dtype=float), np.asarray(d, dtype=float)) else 'differs from')}

    def build(self, case):
        import random
        r = random.Random(case['seed'])
        D, nc = case['D'], case['nc']
        if case['cont'] == 'sample':
            spec = samples.spec_rich(r, N=r.choice([0, 1, 9]), D=D, datatype='F' if case.get('negdata') else 'I')
            if case.get('dupnames') and D >= 3:
                spec['names'][2] = spec['names'][1]      # two columns share a $PnN: they can only be told apart by position
            d, _ = samples.load(spec, name='c06.fcs')
            names = list(d.channels)
            spell_names = names
            if case.get('dupnames') and D >= 3:
                spell_names = None                       # address every column by position in this case
        elif case['cont'] == 'array_int':
            # many events on few integer levels, some of them negative (signed containers)
            lo, hi = case['levels']
            d = np.array([[r.randrange(lo, hi) for _ in range(D)] for _ in range(case['N'])], dtype=case['idt']).reshape(-1, D)
            names = None
            spell_names = None
        else:
            d = np.array([[r.randrange(-300 if case.get('negdata') else 0, 1024) for _ in range(D)] for _ in range(r.choice([0, 1, 9]))], dtype=np.float64).reshape(-1, D)
            names = None
            spell_names = None
        cols = r.sample(range(D), nc)              # column of curve k is cols[k]
        form = case['scform']
        if form == 'default' and case.get('dupnames') and case['cont'] == 'sample':
            form = 'pos'        # the default (the sample's channel names) cannot address the second of two same-named columns
        if form == 'default':
            cols = list(range(D)); nc = D
            sc_channels = None
        else:
            def spell(c):
                if spell_names and (form == 'names' or (form == 'mixed' and r.random() < 0.5)):
                    return spell_names[c]
                if case.get('neg') and r.random() < 0.5:
                    return c - D
                return c
            sc_channels = [spell(c) for c in cols]
        req = case['req']

        def spell2(c):
            if case.get('neg') and r.random() < 0.5:
                return c - D
            return spell_names[c] if (spell_names and r.random() < 0.5) else c
        if req == 'none':
            channels, want = None, list(cols)
        elif req == 'repeated':
            # the same channel requested twice (by other spellings where possible): converted once
            c = r.choice(cols); channels, want = [spell2(c), spell2(c)] + ([spell2(c)] if r.random() < 0.3 else []), [c]
        elif req == 'empty':
            # an explicitly empty request converts nothing
            channels, want = r.choice([[], (), []]), []
            channels = list(channels)
        elif req == 'scalar':
            c = r.choice(cols); channels, want = spell2(c), [c]
        elif req == 'subset':
            k = r.randrange(1, nc + 1); sub = r.sample(cols, k); channels, want = [spell2(c) for c in sub], sub
        elif req == 'uncovered_last':
            unc = [c for c in range(D) if c not in cols]
            sub = list(cols); r.shuffle(sub)
            channels, want = [spell2(c) for c in sub] + [spell2(r.choice(unc))], None
        elif req == 'all_reordered':
            sub = list(cols); r.shuffle(sub); channels, want = [spell2(c) for c in sub], sub
        else:
            unc = [c for c in range(D) if c not in cols]
            if not unc:
                channels, want = [spell2(cols[0])], [cols[0]]
            else:
                sub = r.sample(cols, r.randrange(0, nc)) + [r.choice(unc)]
                r.shuffle(sub)
                channels, want = [spell2(c) for c in sub], None
        ncur = nc + (1 if case['bad'] == 'len' else 0)
        return d, names, cols, sc_channels, channels, want, ncur

    def run_big(self, case):
        r = np.random.RandomState(case['seed'] % (1 << 31))
        n = case['n']
        a = r.randint(0, 1024, size=(n, 3)).astype(np.float64)
        d = a
        if case['cont'] == 'sample':
            import random
            spec = samples.spec_rich(random.Random(case['seed']), N=2, D=3, datatype='I')
            s, _ = samples.load(spec, name='c06big.fcs')
            d = s[[0] * n]                       # a sample of n events with the loaded sample's metadata
            d[:] = a
        try:
            t = FlowCal.transform.to_mef(d, [2, 0], [curve(0), curve(1)], [2, 0])
        except Exception as e:
            return {'big': 'raised %s %s' % (type(e).__name__, str(e)[:80])}
        t = np.asarray(t, dtype=float)
        want = a.copy()
        want[:, 2] = curve(0)(a[:, 2]); want[:, 0] = curve(1)(a[:, 0])
        bad = np.argwhere(t != want)
        if len(bad):
            return {'big': '%d of %d events of a requested channel were not converted with their own curve (first: event %d column %d is %r, expected %r)' % (
                len(set(bad[:, 0].tolist())), n, bad[0][0], bad[0][1], float(t[bad[0][0], bad[0][1]]), float(want[bad[0][0], bad[0][1]]))}
        return {'big': None}

    def run_impl(self, case):
        if case['k'] == 'big':
            return self.run_big(case)
        if case['k'] == 'partial':
            return self.run_partial(case)
        if case['k'] == 'nonfinite':
            return self.run_nonfinite(case)
        if case['k'] == 'default_short':
            return self.run_default_short(case)
        d, names, cols, sc_channels, channels, want, ncur = self.build(case)
        sc_list = [curve(k) for k in range(ncur)]
        out = {'meta': meta_of(d), 'in': arr_bits(d), 'cols': cols, 'want': want, 'ncur': ncur,
               'args': {'channels': None if channels is None else ({'list': channels} if isinstance(channels, list) else {'scalar': channels}),
                        'sc_channels': sc_channels}}
        st0 = fpm.state(d) if names else None
        ch_arg = channels
        if case.get('req_container') and isinstance(channels, list) and channels and len(set(map(str, channels))) == len(channels):
            kind = case['req_container']
            ch_arg = set(channels) if kind == 'set' else frozenset(channels) if kind == 'frozenset' else dict.fromkeys(channels).keys() if kind == 'keys' else tuple(channels)
        # (samples: arrays of names; plain arrays: arrays of positions -- NumPy integers are not accepted as positions of a sample)
        if case.get('req_ndarray') and isinstance(channels, list) and channels and (all(isinstance(c, str) for c in channels) if names else all(isinstance(c, int) for c in channels)):
            ch_arg = np.array(channels)          # the request as a NumPy array of names or of positions (e.g. np.array(d.channels)[mask])
            out['args']['ndarray'] = True
        try:
            t = FlowCal.transform.to_mef(d, ch_arg, sc_list, sc_channels)
        except Exception as e:
            out['err'] = type(e).__name__
            return out
        if np.asarray(t).shape != np.asarray(d).shape:
            out['shape_changed'] = 'a sample of shape %s came back with shape %s' % (list(np.asarray(d).shape), list(np.asarray(t).shape))
            return out
        out['out'] = np.asarray(t, dtype=float).tolist()
        out['inv'] = np.asarray(d, dtype=float).tolist()
        out['type_same'] = type(t) is type(d)
        if names:
            st1 = fpm.state(t)
            out['meta_same'] = [a for a, b in zip(st0, st1) if a != b and a[0] != 'range'] == []
            # by position (a by-name query cannot reach the second of two same-named columns)
            out['range'] = [list(t.range(i)) if t.range(i) is not None else None for i in range(t.shape[1])]
            out['in_range'] = [list(d.range(i)) if d.range(i) is not None else None for i in range(d.shape[1])]
        # joint permutations of the (curve, channel) pairing must not matter
        if sc_channels is not None and len(sc_channels) == ncur:
            perms = list(itertools.permutations(range(ncur))) if ncur <= 4 else [tuple(np.random.RandomState(case['seed'] % 1000 + i).permutation(ncur)) for i in range(12)]
            same = True
            for p in perms:
                try:
                    t2 = FlowCal.transform.to_mef(d, channels, [sc_list[i] for i in p], [sc_channels[i] for i in p])
                    if not np.array_equal(np.asarray(t2), np.asarray(t)) or (names and [t2.range(i) for i in range(t2.shape[1])] != [t.range(i) for i in range(t.shape[1])]):
                        same = 'permutation %s of the pairing changes the result' % (p,)
                        break
                except Exception as e:
                    same = 'permutation %s raised %s' % (p, type(e).__name__)
                    break
            out['perm_same'] = same
            out['nperm'] = len(perms)
        return out

    def run_nonfinite(self, case):
        import random
        r = np.random.RandomState(case['seed'] % (1 << 31))
        a = r.uniform(-50, 900, size=(12, 3))
        a[1, 0] = np.inf; a[2, 0] = -np.inf; a[3, 0] = np.nan; a[4, 2] = np.inf; a[5, 2] = np.nan; a[7, 1] = np.inf
        d = a
        if case['cont'] == 'sample':
            spec = samples.spec_rich(random.Random(case['seed']), N=2, D=3, datatype='F')
            s0, _ = samples.load(spec, name='c06nf.fcs')
            d = s0[[0] * 12].astype(np.float64)
            d[:] = a
        curves = [lambda x: np.clip(3.0 * np.asarray(x, dtype=float), 0.0, 1000.0), lambda x: 2.0 * np.asarray(x, dtype=float) ** 2 + 1.0,
                  lambda x: 5.0 / (1.0 + np.abs(np.asarray(x, dtype=float)))]
        chs = {'all': [0, 1, 2], 'one': [0], 'both': [2, 0]}[case['req']]
        try:
            with np.errstate(all='ignore'):
                t = np.asarray(FlowCal.transform.to_mef(d, chs, [curves[c] for c in chs], chs), dtype=float)
                want = a.copy()
                for c in chs:
                    want[:, c] = curves[c](a[:, c])
        except Exception as e:
            return {'nonfinite': 'raised %s %s' % (type(e).__name__, str(e)[:80])}
        bad = [(int(i), int(j)) for i, j in np.argwhere(~((t == want) | (np.isnan(t) & np.isnan(want))))]
        if bad:
            i, j = bad[0]
            return {'nonfinite': 'event %d of channel %d (value %r) came back as %r, its curve gives %r' % (i, j, float(a[i, j]), float(t[i, j]), float(want[i, j]))}
        return {'nonfinite': None}

    def run_partial(self, case):
        import random
        r = random.Random(case['seed'])
        rs = np.random.RandomState(case['seed'] % (1 << 31))
        names = ['FSC', 'SSC', 'FL1', 'FL2', 'FL3']
        pops = [20., 80., 300., 900.]
        ev = []
        for p in pops:
            for _ in range(40):
                ev.append([int(min(1023, max(0, rs.normal(p * s, p * s * 0.03)))) for s in (1.0, 0.9, 1.0, 0.8, 0.6)])
        rs.shuffle(ev)
        spec = {'version': 'FCS3.0', 'delim': '/', 'datatype': 'I', 'byteord': '1,2,3,4', 'widths': [16] * 5, 'ranges': [1024] * 5,
                'events': ev, 'names': names, 'pne': {str(i + 1): '0,0' for i in range(5)}}
        beads, _ = samples.load(spec, name='c06_beads.fcs')
        mef_channels = list(case.get('order') or r.choice([['FL1', 'FL3'], ['FL3', 'FL1'], ['FL2'], ['FL1', 'FL2', 'FL3']]))
        row_of = {'FL1': 1., 'FL2': 2., 'FL3': 3.}
        mef_values = [[100. * row_of[c], 700. * row_of[c], 4000. * row_of[c], 20000. * row_of[c]] for c in mef_channels]
        labels_of = lambda data, n, **kw: np.searchsorted([50., 190., 600.], np.asarray(data)[:, 0] / (1.0 if True else 1))
        if case.get('layout') == 'unknown_rows':
            # channels whose manufacturer values are all unknown: the calibration is refused, or those channels have no curve and the others their own
            allc = ['FL1', 'FL2', 'FL3']
            unknown = {0: ['FL1', 'FL2'], 1: ['FL2', 'FL3'], 2: ['FL1', 'FL3'], 3: ['FL2']}[case['seed'] % 4]
            mv = [[(None if j % 2 else float('nan')) for j in range(4)] if c in unknown else [100. * row_of[c], 700. * row_of[c], 4000. * row_of[c], 20000. * row_of[c]]
                  for c in allc]
            out = {'layout': 'unknown_rows', 'mef_channels': allc, 'problems': []}
            try:
                np.random.seed(1)
                tf = FlowCal.mef.get_transform_fxn(beads, mv, list(allc), clustering_fxn=labels_of, clustering_channels=['FL1'], selection_fxn=None)
            except Exception:
                return out          # refused as a whole
            sample = beads[:30]
            for c in allc:
                x = np.asarray(sample[:, c], dtype=float)
                try:
                    got = np.asarray(tf(sample, [c])[:, c], dtype=float)
                except Exception:
                    continue        # refused
                if c in unknown:
                    out['problems'].append('channel %s has no known manufacturer value but was converted (values of %s unknown)' % (c, unknown))
                else:
                    np.random.seed(1)
                    ref = FlowCal.mef.get_transform_fxn(beads, [mv[allc.index(c)]], [c], clustering_fxn=labels_of, clustering_channels=['FL1'],
                                                        selection_fxn=None, full_output=True).fitting['std_crv'][0]
                    if not np.array_equal(got, np.asarray(ref(x))):
                        out['problems'].append('channel %s not converted with the curve of its own calibration (values of %s unknown)' % (c, unknown))
            return out
        fitkw = {}
        if case.get('custom_fit'):
            # a fitting function supplied by the caller (documented signature): a straight line through the origin in linear space
            def line_fit(fl_rfi, fl_mef):
                k = float(np.sum(np.asarray(fl_rfi, dtype=float) * np.asarray(fl_mef, dtype=float)) / np.sum(np.asarray(fl_rfi, dtype=float) ** 2))
                crv = lambda x: k * np.asarray(x, dtype=float)
                return crv, crv, np.array([k]), 'mef = k*rfi', ['k']
            fitkw = {'fitting_fxn': line_fit}
        try:
            np.random.seed(1)
            res = FlowCal.mef.get_transform_fxn(beads, mef_values, mef_channels, clustering_fxn=labels_of, clustering_channels=['FL1'],
                                                selection_fxn=None, full_output=True, **fitkw)
        except Exception as e:
            return {'err': 'get_transform_fxn:' + type(e).__name__ + ':' + str(e)[:80]}
        tf, curves = res.transform_fxn, res.fitting['std_crv']
        # reference: every channel calibrated on its own (a one-channel calibration cannot confuse channels)
        own = {}
        try:
            for c, row in zip(mef_channels, mef_values):
                np.random.seed(1)
                own[c] = FlowCal.mef.get_transform_fxn(beads, [list(row)], [c], clustering_fxn=labels_of, clustering_channels=['FL1'],
                                                       selection_fxn=None, full_output=True, **fitkw).fitting['std_crv'][0]
        except Exception as e:
            return {'err': 'get_transform_fxn (one channel):' + type(e).__name__ + ':' + str(e)[:80]}
        # the caller goes on using (and changing) its own list of channels and table of values: the calibration must not follow
        own_channels = list(mef_channels)
        if case['seed'] % 2:
            mef_channels.reverse()
            mef_channels.append('FSC')
            mef_values[0][0] = -1.0
        mef_channels = own_channels
        sample = beads[:30]
        lay = case['layout']
        if lay == 'swapped':
            sample = sample[:, ['FSC', 'SSC', 'FL3', 'FL2', 'FL1']]
        elif lay == 'dropped':
            sample = sample[:, ['FL1', 'FL2', 'FL3']]
        elif lay == 'reversed':
            sample = sample[:, ::-1]
        out = {'layout': lay, 'mef_channels': mef_channels, 'problems': []}
        if lay == 'lacking' and len(mef_channels) >= 2:
            # the sample lacks one of the calibrated channels: a request for the others is converted with their own curves, or refused
            gone = mef_channels[case['seed'] % (len(mef_channels) - 1)]
            keep = [c for c in names if c != gone]
            sample = sample[:, keep]
            rest = [c for c in mef_channels if c != gone]
            for req in [None] + [[c] for c in rest] + [list(reversed(rest))]:
                try:
                    got = tf(sample, req)
                except ValueError:
                    continue
                except Exception as e:
                    out['problems'].append('sample without %s, request %s raised %s' % (gone, req, type(e).__name__))
                    continue
                for c in keep:
                    x = np.asarray(sample[:, c], dtype=float)
                    if c in rest and (req is None or c in req):
                        if not np.array_equal(np.asarray(got[:, c]), np.asarray(own[c](x))):
                            out['problems'].append('sample without %s, request %s: channel %s not converted with its own curve' % (gone, req, c))
                    elif not np.array_equal(np.asarray(got[:, c], dtype=float), x):
                        out['problems'].append('sample without %s, request %s: channel %s changed' % (gone, req, c))
            return out
        for req in [None] + [[c] for c in mef_channels] + [list(reversed(mef_channels))]:
            try:
                got = tf(sample, req)
                want = FlowCal.transform.to_mef(sample, req, curves, mef_channels)
                if not np.array_equal(np.asarray(got), np.asarray(want)) or got.range() != want.range() or got.channels != want.channels:
                    out['problems'].append('request %s: differs from to_mef with the same curves by name' % (req,))
                # and each converted channel carries its own curve
                for c, crv in zip(mef_channels, curves):
                    if req is None or c in req:
                        if not np.array_equal(np.asarray(got[:, c]), np.asarray(crv(np.asarray(sample[:, c], dtype=float)))):
                            out['problems'].append('request %s: channel %s not converted with its own curve' % (req, c))
                        if not np.array_equal(np.asarray(got[:, c]), np.asarray(own[c](np.asarray(sample[:, c], dtype=float)))):
                            out['problems'].append('request %s: channel %s not converted with the curve of a calibration of %s alone' % (req, c, c))
            except Exception as e:
                out['problems'].append('request %s raised %s' % (req, type(e).__name__))
        # scalar requests, by position and by name, and the explicitly empty request
        for idx, c in enumerate(sample.channels):
            for req in (idx, c):
                try:
                    got = tf(sample, req)
                except ValueError:
                    if c in mef_channels:
                        out['problems'].append('scalar request %r (calibrated channel %s) refused' % (req, c))
                    continue
                except Exception as e:
                    out['problems'].append('scalar request %r raised %s' % (req, type(e).__name__))
                    continue
                if c not in mef_channels:
                    out['problems'].append('scalar request %r: channel %s has no standard curve but the request was not refused' % (req, c))
                    continue
                for c2 in sample.channels:
                    x = np.asarray(sample[:, c2], dtype=float)
                    exp = np.asarray(own[c](x)) if c2 == c else x
                    if not np.array_equal(np.asarray(got[:, c2], dtype=float), exp):
                        out['problems'].append('scalar request %r: channel %s %s' % (req, c2, 'not converted with its own curve' if c2 == c else 'changed'))
        try:
            got = tf(sample, [])
            if not np.array_equal(np.asarray(got), np.asarray(sample)):
                out['problems'].append('empty request converted something')
        except Exception as e:
            out['problems'].append('empty request raised %s' % type(e).__name__)
        unc = [c for c in sample.channels if c not in mef_channels and c.startswith('FL')]
        for c in unc:
            try:
                tf(sample, [c])
                out['problems'].append('uncovered channel %s was not refused' % c)
            except ValueError:
                pass
            except Exception as e:
                out['problems'].append('uncovered channel %s raised %s' % (c, type(e).__name__))
        return out

    def post(self):
        fcsgen.cleanup()

    def oracle(self, case, impl):
        if case['k'] == 'big':
            return None if impl['big'] is None else '%s sample of %d events: %s' % (case['cont'], case['n'], impl['big'])
        if case['k'] == 'default_short':
            return impl['default_short']
        if case['k'] == 'nonfinite':
            return None if impl['nonfinite'] is None else 'non-finite events (%s, channels %s): %s' % (case['cont'], case['req'], impl['nonfinite'])
        if case['k'] == 'partial':
            if 'err' in impl:
                return impl['err']
            return None if not impl['problems'] else 'transform function from get_transform_fxn (layout %s, calibrated %s): %s' % (
                impl['layout'], impl['mef_channels'], impl['problems'][:3])
        if case['bad'] == 'len' and impl['args']['sc_channels'] is not None:
            return None if impl.get('err') == 'ValueError' else 'different numbers of curves and channels not refused: %s' % impl.get('err', 'accepted')
        if case['bad'] == 'len':
            return None if 'err' in impl else 'more curves than channels accepted'
        if impl.get('shape_changed'):
            return 'to_mef: ' + impl['shape_changed']
        if impl['want'] is None:
            return None if impl.get('err') == 'ValueError' else 'request with an uncovered channel not refused with ValueError: %s' % impl.get('err', 'accepted')
        if 'err' in impl:
            if case.get('neg') and impl['err'] == 'ValueError':
                # negative positions are compared literally with the curve channels: refusing is tolerated, passing data through is not
                self.exclude('negative position spelling refused')
                return None
            return 'valid request refused: %s (%s)' % (impl['err'], impl['args'])
        cols = impl['cols']
        for r, (rin, rout) in enumerate(zip(impl['inv'], impl['out'])):
            for c in range(impl['meta']['ncols']):
                if c in impl['want']:
                    k = cols.index(c)
                    exp = rin[c] * float(2 ** (k + 1)) + float(k + 1)
                    if rout[c] != exp:
                        hit = [kk for kk in range(impl['ncur']) if rout[c] == rin[c] * float(2 ** (kk + 1)) + float(kk + 1)]
                        return 'channel %d converted with curve %s instead of its own curve %d' % (c, hit or 'none/unknown', k)
                elif rout[c] != rin[c]:
                    return 'unrequested channel %d changed' % c
        if not impl['type_same']:
            return 'container type changed'
        if impl['meta']['isSample']:
            if not impl['meta_same']:
                return 'non-range metadata changed'
            for c, (r0, r1) in enumerate(zip(impl['in_range'], impl['range'])):
                if c in impl['want']:
                    k = cols.index(c)
                    if r1 != [r0[0] * 2 ** (k + 1) + k + 1, r0[1] * 2 ** (k + 1) + k + 1]:
                        return 'range of converted channel %d is %s, expected the images of %s under its curve' % (c, r1, r0)
                elif r0 != r1:
                    return 'range of unconverted channel %d changed' % c
        if impl.get('perm_same') not in (None, True):
            return impl['perm_same']
        return None

    def model_request(self, case, impl):
        if case['k'] != 'mef' or impl.get('shape_changed'):
            return None
        return {'op': 'to_mef', 'meta': impl['meta'], 'channels': impl['args']['channels'], 'ncurves': impl['ncur'],
                'sc_channels': impl['args']['sc_channels']}

    def compare(self, case, impl, model):
        if 'driver_error' in model:
            return 'driver: ' + model['driver_error']
        if model.get('err') == 'Other':
            self.exclude('outside model')
            return None
        if 'err' in model or 'err' in impl:
            if ('err' in model) != ('err' in impl):
                return 'impl %s vs model %s' % (impl.get('err', 'ok'), model.get('err', 'ok'))
            return None
        data = np.array(impl['inv'], dtype=float).reshape(len(impl['inv']), impl['meta']['ncols'])
        for col, k in model['acts']:
            data[:, col] = curve(k)(data[:, col])
        if data.tolist() != impl['out']:
            return 'replaying the model pairing %s does not reproduce the implementation' % (model['acts'],)
        return None

    def nontrivial_key(self, case, impl):
        if case['k'] == 'big':
            return ('big', case['cont'], case['n'] >> 20)
        if case['k'] == 'partial':
            return ('partial', case['layout'], tuple(impl.get('mef_channels', [])))
        if case['k'] == 'nonfinite':
            return ('nonfinite', case['cont'], case['req'])
        if case['k'] == 'default_short':
            return ('default_short', case['cont'], case['D'], case['ncur'], case['req'])
        return (case['cont'], case['nc'], case['req'], case['scform'], case['bad'], 'err' if 'err' in impl else 'ok',
                tuple(impl['cols']) == tuple(sorted(impl['cols'])))
