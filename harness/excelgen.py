"""Generated experiments for the Excel workflow (C10, C11, C15): FCS files from the independent writer plus
Instruments / Beads / Samples tables as pandas DataFrames."""
import os
import shutil
import struct
import tempfile

import numpy as np
import pandas as pd

import fcswriter

MEF_VALUES = {'FL1': '200, 700, 2500, 9000, 32000', 'FL2': 'None, 900, 3000, 11000, 40000', 'FL3': '100, 800, 2600, 9500, 35000'}


def f32(x):
    return struct.unpack('<I', struct.pack('<f', float(x)))[0]


def f64(x):
    return struct.unpack('<Q', struct.pack('<d', float(x)))[0]


class Experiment:
    def __init__(self, seed, datatype='I', instruments=1, scatter_gain=None, wide=0, mixed_res=False):
        self.mixed_res = mixed_res
        self.dir = tempfile.mkdtemp(prefix='verif_xl_')
        self.r = np.random.RandomState(seed % (1 << 31))
        self.datatype = datatype
        self.inst = {}
        for i in range(instruments):
            fl = ['FL1', 'FL2', 'FL3'] if i == 0 else ['GFP-A', 'PE-Texas Red (B610)-A']      # channel names may contain blanks, parentheses and other punctuation
            self.inst['FC%03d' % (i + 1)] = {'fsc': 'FSC' if i == 0 else 'FSC-A', 'ssc': 'SSC' if i == 0 else 'SSC-A', 'fl': fl,
                                            'time': 'TIME' if i == 0 else 'Time'}
        if wide:
            # an instrument with many fluorescence channels (more histogram panels than default colours)
            self.inst['FCW'] = {'fsc': 'FSC-W', 'ssc': 'SSC-W', 'fl': ['W%02d' % k for k in range(1, wide + 1)], 'time': 'Time'}
        self.scatter_gain = scatter_gain
        self.files = {}

    def cleanup(self):
        shutil.rmtree(self.dir, ignore_errors=True)

    def instruments_table(self):
        rows = []
        for iid, d in self.inst.items():
            rows.append({'ID': iid, 'Description': 'cytometer ' + iid, 'Forward Scatter Channel': d['fsc'], 'Side Scatter Channel': d['ssc'],
                         'Fluorescence Channels': getattr(self, 'fl_pad', ('', ''))[0] + ', '.join(d['fl']) + getattr(self, 'fl_pad', ('', ''))[1], 'Time Channel': d['time']})
        return pd.DataFrame(rows).set_index('ID')

    def write_fcs(self, name, iid, kind='cells', n=600, voltage=450, log_fl=True, seed=0, linear_scatter=False, nonneg=False, scatter_out=False, time_order='sorted', voltages=None, few_nonpos=False, col_perm=None):
        d = self.inst[iid]
        r = np.random.RandomState(seed)
        names = [d['fsc'], d['ssc']] + d['fl'] + [d['time']]
        D = len(names)
        res = 1024
        cols = []
        fsc = np.clip(r.lognormal(5.5, 0.25, n), 0, res - 1)
        ssc = np.clip(fsc * r.lognormal(-0.3, 0.2, n), 0, res - 1)
        # 8-bit scatter detectors (resolution 256) when the experiment says so: cell samples only
        sres = 256 if (getattr(self, 'scatter_res', None) == 256 and kind != 'beads') else res
        if sres != res:
            fsc = np.clip(fsc * (sres / float(res)), 0, sres - 1); ssc = np.clip(ssc * (sres / float(res)), 0, sres - 1)
        cols += [fsc, ssc]
        pop = np.repeat(np.arange(5), n // 5 + 1)[:n]
        r.shuffle(pop)
        chres = []
        for k, c in enumerate(d['fl']):
            if kind == 'beads':
                centers = np.array([300., 440., 580., 720., 860.]) - 15 * k    # channel numbers on a 4-decade log amplifier
                v = centers[pop] + r.normal(0, 6, n)
            else:
                v = r.normal(400 + 80 * (k % 4) + 15 * (k // 4), 60, n)
            # the second fluorescence channel of cell samples is an 8-bit detector (resolution 256): result tables mix resolutions
            rc = 256 if (kind != 'beads' and k == 1 and self.mixed_res) else res
            chres.append(rc)
            v = np.clip(v * (rc / float(res)), 0, rc - 1)
            if kind != 'beads':
                v[:3] = [0, rc - 1, rc - 1]            # saturated events (inside the part the start/end trim drops)
                if n > 420:
                    # ... and saturated events that survive the trim, at other places for every channel
                    j = 300 + 6 * k
                    v[j:j + 4] = [0, rc - 1, rc - 1, 0]
            cols.append(v)
        tcol = np.sort(r.uniform(0, 900, n))
        if time_order == 'wrap':
            tcol = np.round(tcol * 7) % 700          # a wrapping tick counter: not monotone along the event list
        elif time_order == 'random':
            tcol = r.permutation(tcol)
        elif time_order == 'const':
            tcol = np.full(n, 417.0)
        cols.append(tcol)
        data = np.stack(cols, axis=1)
        if self.datatype == 'I':
            ev = [[int(round(v)) for v in row] for row in data]
            widths = [16] * D
        else:
            if nonneg == 'zero':
                # background subtracted and clipped at zero: exact zeros, no negative value
                data[:, 2:2 + len(d['fl'])] = np.maximum(data[:, 2:2 + len(d['fl'])] - 350 * (kind != 'beads'), 0.)
            elif not nonneg:
                data[:, 2:2 + len(d['fl'])] -= 350 * (kind != 'beads')     # floats may be negative (background subtracted)
            if few_nonpos and kind != 'beads':
                # a large acquisition in which only two events of the first fluorescence channel are not positive (one zero, one negative)
                data[n // 2, 2] = 0.0
                data[n // 2 + 7, 2] = -3.0
            if scatter_out and kind != 'beads':
                # float scatter values outside the declared range (above $PnR-1, negative), spread over the acquisition
                idx = r.choice(np.arange(260, n - 110), size=max(4, n // 25), replace=False)
                data[idx[::2], 0] = res + r.uniform(0, 400, len(idx[::2]))
                data[idx[1::2], 1] = -r.uniform(50, 300, len(idx[1::2]))
                data[7, 1] = -900.0        # the most negative scatter value sits among the events the start/end trim drops
            if self.datatype == 'D':
                ev = [[f64(v) for v in row] for row in data]
                widths = [64] * D
            else:
                ev = [[f32(v) for v in row] for row in data]
                widths = [32] * D
        ranges = [sres, sres] + chres + [res]
        if col_perm:
            # the same parameters stored in another column order (another acquisition template of the same instrument)
            ev = [[row[i] for i in col_perm] for row in ev]
            names = [names[i] for i in col_perm]
            ranges = [ranges[i] for i in col_perm]
        pne = {}
        for i, nm in enumerate(names):
            if nm in d['fl'] and log_fl and self.datatype == 'I':
                pne[str(i + 1)] = '4,1'
            else:
                pne[str(i + 1)] = '0,0'
        extra = [['$TIMESTEP', '0.01'], ['$BTIM', '10:00:00'], ['$ETIM', '10:00:09'], ['$DATE', '02-OCT-2015']]
        for i, nm in enumerate(names):
            if nm in d['fl'] and (voltages or {}).get(nm, voltage) is not None:      # voltage None: the file does not record $PnV
                extra.append(['$P%dV' % (i + 1), str((voltages or {}).get(nm, voltage))])
        if self.scatter_gain:
            extra += [['$P1G', str(self.scatter_gain)], ['$P2G', str(self.scatter_gain)]]
        spec = {'version': 'FCS3.0', 'delim': '/', 'datatype': self.datatype, 'byteord': '1,2,3,4', 'widths': widths,
                'ranges': ranges, 'events': ev, 'names': names, 'pne': pne, 'extra': extra}
        b, _ = fcswriter.build(spec)
        path = os.path.join(self.dir, name)
        with open(path, 'wb') as f:
            f.write(b)
        self.files[name] = {'iid': iid, 'kind': kind, 'n': n, 'voltage': voltage}
        return name


def beads_row(bid, iid, path, channels=('FL1',), gate_fraction=0.85, clustering=None, mef=None):
    row = {'ID': bid, 'Instrument ID': iid, 'File Path': path, 'Beads Lot': 'L1', 'Gate Fraction': gate_fraction,
           'Clustering Channels': ', '.join(clustering or channels)}
    for c in channels:
        row['%s MEF Values' % c] = (mef or MEF_VALUES)[c]
    return row


def sample_row(sid, iid, path, units, beads_id=None, gate_fraction=0.85, extra=None):
    row = {'ID': sid, 'Instrument ID': iid, 'Beads ID': beads_id, 'File Path': path, 'Gate Fraction': gate_fraction}
    for c, u in units.items():
        row['%s Units' % c] = u
    row.update(extra or {'Strain': 's1'})
    return row


def table(rows, columns=None):
    df = pd.DataFrame(rows)
    if columns:
        for c in columns:
            if c not in df.columns:
                df[c] = np.nan
    return df.set_index('ID') if len(df) else pd.DataFrame(columns=['ID'] + (columns or [])).set_index('ID')
