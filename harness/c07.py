"""C07 — Ranges follow the data through unit changes, so saturation gating commutes."""
import struct

import numpy as np

import common
import fcsgen
import samples
import FlowCal
from c03 import bits

np.seterr(all='ignore')


class Prop(common.PropertyCheck):
    pid = 'C07'
    rule = ("integer samples with events at both range limits and next to them (resolutions 256..262144) x amplifier settings (a0 in {1,2,3,4,4.5,7.3}, a1, "
            "gain, from file or overridden) x standard-curve parameters (m in [0.85,1.25], b in [0,7]) x channel subsets: BITWISE equality of each "
            "converted limit with the converted value of an event that sat at that limit, unconverted limits unchanged, and identical default high/low "
            "masks before vs after to_rfi, to_mef and their composition (each order of operations on the same objects). Non-trivial = distinct "
            "(resolution, a0, gain/curve parameter draw, channel subset) tuples.")
    batch_size = 100
    assumptions = ["NumPy's element-wise loops give position/length independent results (measured in DESIGN section 6, C07)"]

    def gen_cases(self):
        rng = self.rng
        for _ in range(self.budget(700, 20000)):
            D = rng.randrange(2, 5)
            yield {'D': D, 'res': [rng.choice([256, 1000, 1024, 4096, 65536, 262144]) for _ in range(D)],
                   'pne': [rng.choice(['0,0', '4,1', '3,1', '4.5,1', '7.3,0.5', '2,0', '1,1', '4,0']) for _ in range(D)],
                   'gain': [rng.choice([None, '1', '2', '0.5', '8', '0.01', '1.1', '2.2', '0.55', '9.3', '0.07', '1.08']) for _ in range(D)],
                   'm': [rng.uniform(0.85, 1.25) for _ in range(D)], 'b': [rng.uniform(0, 7) for _ in range(D)],
                   'rfi_ch': rng.choice(['all', 'subset', 'one']), 'mef_ch': rng.choice(['subset', 'one', 'all']),
                   'override': rng.random() < 0.3, 'sc_all': rng.random() < 0.5, 'seed': rng.randrange(1 << 30),
                   'sc_kind': rng.choice(['lambda', 'lambda', 'fitted']), 'nozero': rng.random() < 0.3,
                   # channels that hold no event at either limit (the others saturate at both ends)
                   'nolimit': [c for c in range(D) if rng.random() < 0.35]}
        # channels designated by negative positions (counted from the last channel)
        for i in range(self.budget(16, 200)):
            D = rng.randrange(2, 5)
            yield {'D': D, 'res': [rng.choice([256, 1024, 4096, 65536]) for _ in range(D)], 'pne': [rng.choice(['0,0', '4,1', '3,1']) for _ in range(D)],
                   'gain': [rng.choice([None, '2', '0.5']) for _ in range(D)], 'm': [rng.uniform(0.85, 1.25) for _ in range(D)], 'b': [rng.uniform(0, 7) for _ in range(D)],
                   'rfi_ch': ['one', 'subset', 'subset'][i % 3], 'mef_ch': 'subset', 'override': False, 'sc_all': False, 'seed': rng.randrange(1 << 30),
                   'sc_kind': 'lambda', 'nozero': False, 'nolimit': [], 'negpos': True}
        # a single channel given as a scalar: position 0 (a falsy value), another position, a name
        for i in range(self.budget(18, 150)):
            D = rng.randrange(2, 5)
            yield {'D': D, 'res': [rng.choice([256, 1024, 4096]) for _ in range(D)], 'pne': [rng.choice(['4,1', '3,1', '0,0', '2,0.5']) for _ in range(D)],
                   'gain': [rng.choice([None, '2', '0.5']) for _ in range(D)], 'm': [rng.uniform(0.85, 1.25) for _ in range(D)], 'b': [rng.uniform(0, 7) for _ in range(D)],
                   'rfi_ch': 'one', 'mef_ch': 'one', 'override': False, 'sc_all': False, 'seed': rng.randrange(1 << 30),
                   'sc_kind': 'lambda', 'nozero': False, 'nolimit': [], 'scalar_ch': ['zero', 'pos', 'name'][i % 3]}
        # a channel listed twice in one conversion request (converted twice: events and limits alike)
        for i in range(self.budget(16, 150)):
            D = rng.randrange(2, 5)
            yield {'D': D, 'res': [rng.choice([256, 1024, 4096]) for _ in range(D)], 'pne': [rng.choice(['4,1', '3,1', '4,0.1', '0,0', '2,0.5']) for _ in range(D)],
                   'gain': [rng.choice([None, '2', '0.5']) for _ in range(D)], 'm': [rng.uniform(0.85, 1.25) for _ in range(D)], 'b': [rng.uniform(0, 7) for _ in range(D)],
                   'rfi_ch': 'subset', 'mef_ch': 'subset', 'override': False, 'sc_all': False, 'seed': rng.randrange(1 << 30),
                   'sc_kind': 'lambda', 'nozero': False, 'nolimit': [], 'listed_twice': True}
        # event counts one above a multiple of 2**16, the last event saturated (block-wise conversions)
        for i, n in enumerate([65537, 131073][:self.budget(1, 2)]):
            yield {'D': 2, 'res': [1024, 4096], 'pne': ['4,1', '0,0'], 'gain': [None, '2'], 'm': [1.05, 0.95], 'b': [2.0, 3.0], 'rfi_ch': 'all', 'mef_ch': 'all',
                   'override': False, 'sc_all': True, 'seed': 77 + i, 'sc_kind': 'lambda', 'nozero': False, 'nolimit': [], 'pad_to': n}
        # more events than channel values, resolutions that are not powers of two (table-driven implementations)
        for _ in range(self.budget(12, 150)):
            yield {'D': 2, 'res': [rng.choice([1000, 777, 3000, 8000, 1023, 5000]), rng.choice([1000, 1023, 3000])],
                   'pne': [rng.choice(['4,1', '5,1', '4.5,1', '3,1']), rng.choice(['0,0', '4,1'])], 'gain': [None, rng.choice([None, '2'])],
                   'm': [rng.uniform(0.85, 1.25) for _ in range(2)], 'b': [rng.uniform(0, 7) for _ in range(2)], 'rfi_ch': 'all', 'mef_ch': 'all',
                   'override': False, 'sc_all': False, 'seed': rng.randrange(1 << 30), 'sc_kind': rng.choice(['lambda', 'fitted']), 'nozero': rng.random() < 0.3,
                   'many': True}

        # the Excel pipeline, which converts first and removes saturated events afterwards: its cell samples hold exactly the events that
        # survive when the saturated events of the scatter and reported channels are removed from the raw sample before any conversion
        for i in range(self.budget(2, 12)):
            yield {'k': 'pipeline', 'seed': rng.randrange(1 << 30), 'rows': [
                {'units': [['RFI', None, 'a.u.'], ['MEF', None, None], [None, 'Channel', None], ['a.u.', 'RFI', None], [None, None, None], ['mef', None, 'RFI']][(i * 3 + j) % 6],
                 'gf': [0.8, 1.0, 0.5][j % 3]} for j in range(3)]}

    def run_pipeline(self, case):
        import warnings
        import excelgen
        ex = excelgen.Experiment(case['seed'], datatype='I', instruments=1)
        try:
            inst = ex.instruments_table()
            d = ex.inst['FC001']
            ex.write_fcs('beads1.fcs', 'FC001', kind='beads', n=1400, voltage=450, seed=case['seed'] % 1000 + 1)
            beads_table = excelgen.table([excelgen.beads_row('B1', 'FC001', 'beads1.fcs', channels=('FL1',), clustering=('FL1',))])
            srow = []
            for j, r in enumerate(case['rows']):
                ex.write_fcs('s%d.fcs' % j, 'FC001', n=700, voltage=450, seed=case['seed'] % 1000 + 10 + j)
                srow.append(excelgen.sample_row('S%d' % j, 'FC001', 's%d.fcs' % j, {c: u for c, u in zip(d['fl'], r['units']) if u is not None}, 'B1', gate_fraction=r['gf']))
            samples_table = excelgen.table(srow, columns=['Instrument ID', 'Beads ID', 'File Path', 'Gate Fraction'] + ['%s Units' % c for c in d['fl']])
            problems = []
            with warnings.catch_warnings():
                warnings.simplefilter('ignore')
                np.random.seed(5)
                bs, fx, mo = FlowCal.excel_ui.process_beads_table(beads_table, inst, base_dir=ex.dir, full_output=True)
                FlowCal.excel_ui.add_beads_stats(beads_table, bs, mo)
                res = FlowCal.excel_ui.process_samples_table(samples_table, inst, mef_transform_fxns=fx, beads_table=beads_table, base_dir=ex.dir)
                for j, r in enumerate(case['rows']):
                    got = res['S%d' % j]
                    if isinstance(got, Exception):
                        problems.append('row S%d (units %s) of a well-formed table failed: %s' % (j, r['units'], str(got)[:80]))
                        continue
                    raw = FlowCal.io.FCSData(ex.dir + '/s%d.fcs' % j)
                    sc = [d['fsc'], d['ssc']]
                    report = [c for c, u in zip(d['fl'], r['units']) if u is not None]
                    g = FlowCal.gate.start_end(raw, num_start=250, num_end=100)
                    g = FlowCal.gate.high_low(g, sc + report)               # saturated events removed from the raw sample
                    g = FlowCal.transform.to_rfi(g, sc)
                    for c, u in zip(d['fl'], r['units']):
                        if u is None or u.strip().lower() == 'channel':
                            continue
                        g = FlowCal.transform.to_rfi(g, c)
                        if u.strip().lower() == 'mef':
                            g = fx['B1'](g, c)
                    g = FlowCal.gate.density2d(g, channels=sc, gate_fraction=r['gf'], xscale='logicle', yscale='logicle')
                    if got.shape != g.shape or not np.array_equal(np.asarray(got), np.asarray(g)):
                        problems.append('Excel pipeline, row S%d (units %s, gate fraction %s): %d events; removing the saturated events of %s from the raw sample before the '
                                        'conversions gives %d events%s' % (j, r['units'], r['gf'], got.shape[0], sc + report, g.shape[0],
                                                                           '' if got.shape != g.shape else ' with other values'))
                    elif [got.range(c) for c in got.channels] != [g.range(c) for c in g.channels]:
                        problems.append('Excel pipeline, row S%d: range limits differ from those of the sample gated before the conversions' % j)
            return {'problems': problems}
        except Exception as e:
            import traceback
            return {'problems': ['harness: ' + traceback.format_exc()[-300:]], 'err': 'pipeline harness: ' + type(e).__name__ + ': ' + str(e)[:100]}
        finally:
            ex.cleanup()

    def build(self, case):
        import random
        r = random.Random(case['seed'])
        D = case['D']
        ev = []
        for c in range(D):
            rr = case['res'][c]
            col = [0, 1, rr - 2, rr - 1, rr - 1, 0] + [r.randrange(0, rr) for _ in range((max(case['res']) + 300) if case.get('many') else 14)]
            if case.get('nozero'):
                col = [v if v != 0 else 1 + r.randrange(0, 3) for v in col]
            top = 1 << (rr - 1).bit_length()
            if top > rr and case['seed'] % 3 == 0:
                # a range that is not a power of two: the file may hold events above $PnR-1 (the reader keeps ceil(log2($PnR)) bits)
                col += [rr, top - 1, (rr + top) // 2]
            if c in (case.get('nolimit') or []) and rr > 8:
                col = [min(max(v, 2), rr - 3) for v in col]
            ev.append(col)
        events = [list(row) for row in zip(*ev)]
        r.shuffle(events)
        if case.get('pad_to'):
            k = case['pad_to'] - 1
            events = (events * (k // len(events) + 1))[:k] + [[rr - 1 for rr in case['res']]]
        extra = [['$P%dG' % (c + 1), g] for c, g in enumerate(case['gain']) if g is not None]
        # the narrowest container that holds the declared range (8 / 16 / 32 bit): integer arithmetic on raw events may wrap
        widths = [8 if rr <= 256 else 16 if rr <= 65536 else 32 for rr in case['res']] if case['seed'] % 2 else [32] * D
        spec = {'version': 'FCS3.0', 'delim': '/', 'datatype': 'I', 'byteord': '1,2,3,4', 'widths': widths, 'ranges': case['res'],
                'events': events, 'names': ['CH%d' % c for c in range(D)], 'pne': {str(c + 1): case['pne'][c] for c in range(D)}, 'extra': extra}
        d, _ = samples.load(spec, name='c07.fcs')
        return d, r

    def run_impl(self, case):
        if case.get('k') == 'pipeline':
            return self.run_pipeline(case)
        d, r = self.build(case)
        D = case['D']
        names = list(d.channels)

        def pick(kind, neg=False):
            if kind == 'all':
                return None
            k = 1 if kind == 'one' else r.randrange(1, D + 1)
            cols = r.sample(range(D), k)
            if neg:
                return [c - D if (i == 0 or r.random() < 0.5) else (names[c] if r.random() < 0.5 else c) for i, c in enumerate(cols)]
            return [names[c] if r.random() < 0.5 else c for c in cols]
        out = {'problems': []}

        def fp(x):
            return (np.asarray(x, dtype=float).tobytes(), [tuple(v) if v is not None else None for v in x.range()])

        def limits_check(before, after, cols, what):
            raw = np.asarray(before, dtype=float)
            new = np.asarray(after, dtype=float)
            for c in range(D):
                lo0, hi0 = before.range(c)
                lo1, hi1 = after.range(c)
                if c not in cols:
                    if [bits(lo0), bits(hi0)] != [bits(lo1), bits(hi1)]:
                        out['problems'].append('%s: limits of unconverted channel %d changed' % (what, c))
                    continue
                for lim0, lim1, nm in ((lo0, lo1, 'low'), (hi0, hi1, 'high')):
                    idx = np.nonzero(raw[:, c] == lim0)[0]
                    if len(idx) == 0:
                        if not (case.get('nozero') and nm == 'low') and c not in (case.get('nolimit') or []):
                            out['problems'].append('harness: no event at the %s limit of channel %d' % (nm, c))
                        continue
                    v = new[idx[0], c]
                    if bits(v) != bits(lim1):
                        out['problems'].append('%s: %s limit of channel %d is %r but an event that sat at the old limit now has %r' % (what, nm, c, lim1, float(v)))

        def cols_of(ch):
            if ch is None:
                return list(range(D))
            if not isinstance(ch, (list, tuple)):
                ch = [ch]
            return [names.index(c) if isinstance(c, str) else c % D for c in ch]

        try:
            # --- to_rfi
            ch1 = pick(case['rfi_ch'], neg=bool(case.get('negpos')))
            if case.get('scalar_ch'):
                ch1 = 0 if case['scalar_ch'] == 'zero' else (D - 1 if case['scalar_ch'] == 'pos' else names[r.randrange(D)])
            if case.get('listed_twice') and ch1:
                ch1 = ch1 + [ch1[0] if isinstance(ch1[0], int) else names.index(ch1[0])]       # the first channel once more, by position
            kw = {}
            if case['override'] and ch1 is not None:
                kw = {'amplification_type': [r.choice([(4, 1), (0, 0), (3, 1), None]) for _ in ch1],
                      'amplifier_gain': [r.choice([None, 2.0, 0.5]) for _ in ch1], 'resolution': [None for _ in ch1]}
            m0 = FlowCal.gate.high_low(d, full_output=True).mask
            gl = list(names)
            r.shuffle(gl)
            gl = [g if r.random() < 0.6 else names.index(g) for g in gl[:r.randrange(1, D + 1)]]      # channel list of the explicit gates, any order / spelling
            g0 = FlowCal.gate.high_low(d, gl, full_output=True).mask
            rfi = FlowCal.transform.to_rfi(d, ch1, **kw)
            limits_check(d, rfi, cols_of(ch1), 'to_rfi')
            m1 = FlowCal.gate.high_low(rfi, full_output=True).mask
            g1 = FlowCal.gate.high_low(rfi, gl, full_output=True).mask
            if not np.array_equal(g0, g1):
                out['problems'].append('to_rfi(channels=%s): the saturation gate on channels %s keeps %d events before and %d after' % (ch1, gl, int(g0.sum()), int(g1.sum())))
            if not np.array_equal(m0, m1):
                out['problems'].append('to_rfi(channels=%s): saturation gate keeps %d events before and %d after (differing events %s)' % (
                    ch1, int(m0.sum()), int(m1.sum()), np.nonzero(m0 != m1)[0][:5].tolist()))
            # --- to_mef on the RFI sample (both orders on the same objects)
            ch2 = pick(case['mef_ch'])
            ccols = cols_of(ch2)
            # the calibration holds curves for exactly the converted channels, or for every channel (in another order) while only some are converted
            sc_cols = list(ccols)
            if case.get('sc_all'):
                sc_cols = list(range(D))
                r.shuffle(sc_cols)
            if case.get('sc_kind') == 'fitted':
                # FlowCal's own fitted standard curves (exact bead-model data with slope m, intercept b)
                scs = []
                for c in sc_cols:
                    m_, b_ = case['m'][c], min(case['b'][c], 5.0)
                    lad = np.array([0., 646., 1704., 4827., 15991., 47609., 135896., 273006.])
                    af = 300.0
                    rfi_b = np.exp((np.log(lad + af) - b_) / m_)
                    scs.append(FlowCal.mef.fit_beads_autofluorescence(rfi_b, lad)[0])
            else:
                scs = [(lambda m, b: (lambda x: np.sign(x) * np.exp(b) * (np.abs(x) ** m)))(case['m'][c], case['b'][c]) for c in sc_cols]
            sc_ch = [names[c] for c in sc_cols]
            # the RFI sample is converted first and used again afterwards (gated, then converted): it still holds RFI values and RFI limits
            rfi_fp = fp(rfi)
            rfi_keep = rfi.copy()
            mef = FlowCal.transform.to_mef(rfi, ch2, scs, sc_ch)
            if fp(rfi) != rfi_fp or mef is rfi:
                out['problems'].append('to_mef(channels=%s) changed the RFI sample it was given (events or range limits): gating that sample afterwards is no longer gating before the conversion' % (ch2,))
            gated_first = FlowCal.transform.to_mef(FlowCal.gate.high_low(rfi), ch2, scs, sc_ch)
            limits_check(rfi_keep, mef, ccols, 'to_mef')
            # the converted samples sent through pickle (as multiprocessing does) and copied: limits and gate are those of the sample that was sent
            import pickle, copy as _copy
            for nm, obj in (('RFI', rfi_keep), ('MEF', mef)):
                for how, dup in (('pickle', lambda o: pickle.loads(pickle.dumps(o, protocol=2 + (case['seed'] % 4)))), ('deepcopy', _copy.deepcopy), ('copy', lambda o: o.copy())):
                    try:
                        o2 = dup(obj)
                        if [tuple(v) if v is not None else None for v in o2.range()] != [tuple(v) if v is not None else None for v in obj.range()]:
                            out['problems'].append('the %s sample after %s has the range limits %s instead of %s' % (nm, how, [tuple(v) for v in o2.range()][:3], [tuple(v) for v in obj.range()][:3]))
                        elif not np.array_equal(FlowCal.gate.high_low(o2, full_output=True).mask, FlowCal.gate.high_low(obj, full_output=True).mask):
                            out['problems'].append('the saturation gate keeps other events of the %s sample after %s' % (nm, how))
                    except Exception as e:
                        out['problems'].append('%s of the %s sample raised %s' % (how, nm, type(e).__name__))
            # histogram bins asked of the converted samples on every scale (as the plotting functions do) before they are gated: the limits stay what they are
            for nm, obj in (('RFI', rfi_keep), ('MEF', mef)):
                lim0 = [tuple(v) if v is not None else None for v in obj.range()]
                for sc in ('log', 'linear', 'logicle'):
                    try:
                        obj.hist_bins(scale=sc)
                        obj.hist_bins(0, 8, sc)
                    except Exception:
                        pass
                if [tuple(v) if v is not None else None for v in obj.range()] != lim0:
                    out['problems'].append('asking the %s sample for its histogram bins changed its range limits from %s to %s' % (nm, lim0[:3], [tuple(v) for v in obj.range()][:3]))
            # a sample from which a gate removed every event: its limits are converted like those of any other sample
            try:
                e_rfi = FlowCal.transform.to_rfi(d[:0], ch1, **kw)
                e_mef = FlowCal.transform.to_mef(rfi_keep[:0], ch2, scs, sc_ch)
                for nm, a, b in (('to_rfi', e_rfi, rfi_keep), ('to_mef', e_mef, mef)):
                    if [tuple(v) if v is not None else None for v in a.range()] != [tuple(v) if v is not None else None for v in b.range()]:
                        out['problems'].append('%s on the sample without events: range limits %s differ from those of the same conversion of the sample with events %s' % (
                            nm, [tuple(v) for v in a.range()][:3], [tuple(v) for v in b.range()][:3]))
            except Exception as e:
                out['problems'].append('conversion of the sample without events raised %s: %s' % (type(e).__name__, str(e)[:60]))
            m2 = FlowCal.gate.high_low(mef, full_output=True).mask
            g2 = FlowCal.gate.high_low(mef, gl, full_output=True).mask
            if not np.array_equal(g1, g2):
                out['problems'].append('to_mef(channels=%s): the saturation gate on channels %s keeps %d events before and %d after' % (ch2, gl, int(g1.sum()), int(g2.sum())))
            if not np.array_equal(m1, m2):
                out['problems'].append('to_mef(channels=%s): saturation gate keeps %d events before and %d after' % (ch2, int(m1.sum()), int(m2.sum())))
            converted_first = FlowCal.gate.high_low(mef)
            if fp(gated_first) != fp(converted_first):
                out['problems'].append('gate-then-convert differs from convert-then-gate (events or limits)')
            # a second conversion of the same RFI object gives the same answer (no state carried over)
            mef_b = FlowCal.transform.to_mef(rfi, ch2, scs, sc_ch)
            if fp(mef_b) != fp(mef):
                out['problems'].append('converting the same sample twice gives different limits')
            out['after_rows'] = [[bits(v) for v in row] for row in np.asarray(mef, dtype=float)]
            out['after_limits'] = [[bits(lo), bits(hi)] for lo, hi in mef.range()]
            out['after_mask'] = [bool(x) for x in m2]
            out['before_mask'] = [bool(x) for x in m0]
        except Exception as e:
            out['err'] = type(e).__name__ + ':' + str(e)[:100]
        return out

    def post(self):
        fcsgen.cleanup()

    def oracle(self, case, impl):
        if 'err' in impl:
            return 'conversion raised ' + impl['err']
        real = [p for p in impl['problems'] if not p.startswith('harness')]
        if real and case.get('k') == 'pipeline':
            return real[0]
        if real:
            return real[0] + ' (res=%s pne=%s gain=%s)' % (case['res'], case['pne'], case['gain'])
        return None

    def model_request(self, case, impl):
        if 'err' in impl or 'after_rows' not in impl:
            return None
        return {'op': 'high_low', 'rows': impl['after_rows'], 'high': [l[1] for l in impl['after_limits']], 'low': [l[0] for l in impl['after_limits']]}

    def compare(self, case, impl, model):
        if 'driver_error' in model:
            return 'driver: ' + model['driver_error']
        if model['mask'] != impl['after_mask']:
            return 'model gate on converted data differs from the implementation mask'
        if model['mask'] != impl['before_mask']:
            return 'gate after conversion (model) differs from gate before conversion (implementation)'
        return None

    def nontrivial_key(self, case, impl):
        if case.get('k') == 'pipeline':
            return ('pipeline', str(case['rows']))
        return (tuple(case['res']), tuple(case['pne']), tuple(case['gain']), case['rfi_ch'], case['mef_ch'], round(case['m'][0], 3), round(case['b'][0], 3))
