"""Generation of FCS file specs (for fcswriter.build) and loading through the real reader."""
import os
import struct
import tempfile
import warnings

import numpy as np

import fcswriter
import FlowCal

WIDTHS = [8, 16, 24, 32, 40, 48, 56, 64]


def gen_values(rng, w, n):
    top = (1 << w) - 1
    pool = [0, top, 1 << (w - 1), (1 << (w - 1)) - 1, int('aa' * (w // 8), 16), int('55' * (w // 8), 16), 1, top - 1]
    return [rng.choice(pool) if rng.random() < 0.5 else rng.randrange(0, top + 1) for _ in range(n)]


def gen_range(rng, w):
    kind = rng.choice(['full', 'smallpow', 'nonpow'])
    if kind == 'full':
        return 1 << w, kind
    if kind == 'smallpow':
        return 1 << rng.randrange(1, w), kind
    # non power of two, kept below 2**52 so that float log2 is exact enough (see DESIGN section 7 item 12)
    hi = min(w, 51)
    b = rng.randrange(2, hi + 1)
    r = rng.randrange((1 << (b - 1)) + 1, 1 << b)
    return r, kind


FAMILIES = ['uniform-std', 'uniform-odd', 'mixed-std', 'mixed-any', 'F', 'D', 'many-par']


def gen_spec(rng, max_events=40, max_par=5, datatype=None, allow_malformed=False, family=None):
    version = rng.choice(['FCS2.0', 'FCS3.0', 'FCS3.1'])
    many = family == 'many-par'
    if many:
        # ten or more parameters (two-digit keyword numbers), otherwise like the other families
        family = rng.choice(['uniform-std', 'mixed-std', 'mixed-any', 'F'])
        max_events = min(max_events, 6)
    if family in ('F', 'D'):
        datatype = family
    elif family:
        datatype = 'I'
    datatype = datatype or rng.choice(['I', 'I', 'I', 'I', 'F', 'D'])
    big = rng.random() < 0.5
    byteord = rng.choice(['4,3,2,1', '2,1']) if big else rng.choice(['1,2,3,4', '1,2'])
    D = rng.randrange(10, 15) if many else rng.randrange(1, max_par + 1)
    N = rng.choice([0, 1, 2, 3]) if rng.random() < 0.3 else rng.randrange(0, max_events + 1)
    if datatype == 'I' and family:
        if family == 'uniform-std':
            widths = [rng.choice([8, 16, 32, 64])] * D
        elif family == 'uniform-odd':
            widths = [rng.choice([24, 40, 48, 56])] * D
        elif family == 'mixed-std':
            D = max(D, 2)
            widths = [rng.choice([8, 16, 32, 64]) for _ in range(D)]
            if len(set(widths)) == 1:
                widths[0] = 8 if widths[0] != 8 else 16
        else:
            D = max(D, 2)
            widths = [rng.choice(WIDTHS) for _ in range(D)]
            if len(set(widths)) == 1:
                widths[0] = 24 if widths[0] != 24 else 40
        rk = [gen_range(rng, w) for w in widths]
        ranges = [r for r, _ in rk]
        events = [list(r) for r in zip(*[gen_values(rng, w, N) for w in widths])] if N else []
    elif datatype == 'I':
        if rng.random() < 0.5:
            widths = [rng.choice([8, 16, 32, 64])] * D if rng.random() < 0.7 else [rng.choice([24, 40, 48, 56])] * D
        else:
            widths = [rng.choice(WIDTHS) for _ in range(D)]
        rk = [gen_range(rng, w) for w in widths]
        ranges = [r for r, _ in rk]
        events = [list(col) for col in zip(*[gen_values(rng, w, N) for w in widths])] if N else []
        events = [list(r) for r in events]
    else:
        w = 32 if datatype == 'F' else 64
        widths = [w] * D
        ranges = [rng.choice([1024, 262144, 1 << w if w == 32 else 1 << 32]) for _ in range(D)]
        events = []
        for _ in range(N):
            row = []
            for _c in range(D):
                x = rng.choice([0.0, 1.0, -1.5, 1e-30, 3.4e38 if w == 32 else 1.7e308, rng.uniform(-1e5, 1e5), rng.random()])
                if w == 32:
                    row.append(struct.unpack('<I', struct.pack('<f', np.float32(x)))[0])
                else:
                    row.append(struct.unpack('<Q', struct.pack('<d', x))[0])
            events.append(row)
    placement = 'header' if version == 'FCS2.0' else rng.choice(['header', 'text'])
    spec = {
        'version': version, 'delim': rng.choice(['/', '|', '\\', '!', '\x0c']), 'datatype': datatype,
        'byteord': byteord, 'widths': widths, 'ranges': ranges, 'events': events,
        'names': ['P%d' % (i + 1) for i in range(D)],
        'placement': placement, 'text_offsets_too': True if placement == 'text' else rng.random() < 0.5,
        'end_conv': rng.choice(['last', 'past']),
        'pad_text': rng.choice([0, 0, 1, 7, 198]), 'pad_data': rng.choice([0, 0, 1, 5, 64]),
        'pad_after': rng.choice([0, 0, 1, 8]),
        'order': 'TDA',
    }
    if allow_malformed:
        kind = rng.choice(['mode', 'ascii', 'unaligned', 'unaligned_sum8', 'byteord', 'datatype', 'wide'])
        spec['malformed'] = kind
        if kind == 'mode':
            spec['mode'] = rng.choice(['H', 'C', 'U'])
        elif kind == 'ascii':
            spec['overrides'] = {'$DATATYPE': 'A'}
        elif kind == 'datatype':
            spec['overrides'] = {'$DATATYPE': rng.choice(['X', 'i', ''])} if False else {'$DATATYPE': rng.choice(['X', 'i', 'B'])}
        elif kind == 'unaligned':
            i = rng.randrange(D)
            spec['overrides'] = {'$P%dB' % (i + 1): str(rng.choice([12, 10, 4, 20, 63]))}
            spec['datatype'] = 'I'
            spec['overrides']['$DATATYPE'] = 'I'
        elif kind == 'unaligned_sum8':
            # widths that are not multiples of 8 but add up to whole bytes per event (12+12, 4+12, 20+20+24, ...)
            ws = rng.choice([[12, 12], [4, 12], [10, 6, 16], [20, 20, 24], [12, 20]])
            N = rng.randrange(1, 5)
            spec.update({'datatype': 'I', 'widths': [8 * ((w + 7) // 8) for w in ws], 'ranges': [1 << w for w in ws], 'names': ['P%d' % (i + 1) for i in range(len(ws))],
                         'events': [[rng.randrange(0, 1 << w) for w in ws] for _ in range(N)]})
            spec['overrides'] = {'$P%dB' % (i + 1): str(w) for i, w in enumerate(ws)}
            spec['overrides']['$DATATYPE'] = 'I'
            # the DATA segment holds sum(ws)/8 bytes per event
            import fcswriter as _fw
            nb = sum(ws) // 8
            spec['raw_data'] = ''.join(chr(rng.randrange(256)) for _ in range(nb * N))
        elif kind == 'byteord':
            spec['byteord'] = rng.choice(['3,4,1,2', '2,1,4,3', '1,2,3', '4,3,2,1 ', '1,2,4,3'])
        elif kind == 'wide':
            spec['overrides'] = {'$P1B': str(rng.choice([72, 128])), '$DATATYPE': 'I'}
    return spec


_tmp = None


def tmpdir():
    global _tmp
    if _tmp is None:
        _tmp = tempfile.mkdtemp(prefix='verif_fcs_')
    return _tmp


def cleanup():
    global _tmp
    if _tmp:
        import shutil
        shutil.rmtree(_tmp, ignore_errors=True)
        _tmp = None


def write_tmp(data, name=None):
    if name:
        path = os.path.join(tmpdir(), name)
        with open(path, 'wb') as f:
            f.write(data)
        return path
    fd, path = tempfile.mkstemp(suffix='.fcs', dir=tmpdir())
    os.write(fd, data)
    os.close(fd)
    return path


def canon_array(a):
    a = np.asarray(a)
    a = a.astype(a.dtype.newbyteorder('='))     # value-preserving; only the in-memory byte order changes
    if a.dtype.kind == 'f':
        bits = a.view('u%d' % a.dtype.itemsize)
        return {'shape': list(a.shape), 'kind': 'f', 'bits': a.dtype.itemsize * 8,
                'data': [[int(v) for v in row] for row in bits]}
    return {'shape': list(a.shape), 'kind': a.dtype.kind, 'bits': a.dtype.itemsize * 8,
            'data': [[int(v) for v in row] for row in a]}


def load_bytes(data, want_fcsdata=True, via='name', prelude=None):
    """Load through FlowCal.io.FCSFile (and FCSData); canonical JSON-able result.  via='fileobj': an open file object is passed instead of the name.
    prelude: bytes of another file of the same length that sat at the same path (same time stamps) and was loaded just before."""
    if prelude is not None and len(prelude) == len(data):
        path = write_tmp(prelude)
        try:
            with warnings.catch_warnings():
                warnings.simplefilter('ignore')
                FlowCal.io.FCSFile(path)
        except Exception:
            pass
        st = os.stat(path)
        with open(path, 'wb') as fh:
            fh.write(data)
        os.utime(path, ns=(st.st_atime_ns, st.st_mtime_ns))
    else:
        path = write_tmp(data)
    fobj = None
    try:
        with warnings.catch_warnings(record=True) as w:
            warnings.simplefilter('always')
            try:
                if via == 'fileobj':
                    fobj = open(path, 'rb')
                    f = FlowCal.io.FCSFile(fobj)
                else:
                    f = FlowCal.io.FCSFile(path)
            except Exception as e:
                return {'err': type(e).__name__, 'msg': str(e)[:120]}
            res = canon_array(f.data)
            res['text'] = sorted([list(k.encode(fcswriter.ENC)), list(v.encode(fcswriter.ENC))] for k, v in f.text.items())
            res['analysis'] = sorted([list(k.encode(fcswriter.ENC)), list(v.encode(fcswriter.ENC))] for k, v in f.analysis.items())
            res['warnings'] = sorted({('analysis' if 'ANALYSIS segment could not' in str(x.message) else
                                       'nextdata' if 'NEXTDATA' in str(x.message) else
                                       'text' if 'ill-formed TEXT' in str(x.message) else 'other:' + str(x.message)[:40])
                                      for x in w if issubclass(x.category, UserWarning)})
            if want_fcsdata:
                try:
                    d = FlowCal.io.FCSData(path)
                    v = canon_array(d.view(np.ndarray))
                    res['fcsdata_same'] = (v['data'] == res['data'] and v['bits'] == res['bits'] and v['shape'] == res['shape'])
                except Exception as e:
                    res['fcsdata_err'] = type(e).__name__ + ':' + str(e)[:80]
            return res
    finally:
        if fobj is not None:
            fobj.close()
        os.unlink(path)


def expected_matrix(spec):
    """What the file says, independently of the reader: low bits implied by the declared range."""
    if spec['datatype'] != 'I':
        return [list(r) for r in spec['events']]
    out = []
    bits = [(int(r) - 1).bit_length() for r in spec['ranges']]
    for row in spec['events']:
        out.append([v & ((1 << b) - 1) for v, b in zip(row, bits)])
    return out


def model_dict(d):
    return sorted([[list(k), list(v)] for k, v in d]) if False else sorted(d)
