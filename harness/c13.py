"""C13 — No call changes its inputs, and results share no state with them."""
import copy
import os
import sys
import fcswriter
import inspect
import itertools

import numpy as np

import common
import fcsgen
import fingerprint as fpm
import samples
import FlowCal


def deep_ids(x, acc=None):
    """identity of every mutable container reachable from x"""
    acc = acc if acc is not None else set()
    if isinstance(x, FlowCal.io.FCSData):
        for a in ('_text', '_analysis', '_range'):
            v = getattr(x, a, None)
            if v is not None:
                acc.add(id(v))
                if isinstance(v, list):
                    for e in v:
                        if isinstance(e, list):
                            acc.add(id(e))
    elif isinstance(x, (list, dict)):
        acc.add(id(x))
        for e in (x.values() if isinstance(x, dict) else x):
            deep_ids(e, acc)
    elif isinstance(x, tuple):
        for e in x:
            deep_ids(e, acc)
    return acc


def mk_args(kind, s, rng):
    """argument tuples (args, kwargs) per function; `s` is a loaded sample (>= 3 channels, >= 12 events)"""
    names = list(s.channels)
    return None


CALLS = {}


def call(name, readonly=True, shares_buffer=False):
    def deco(f):
        CALLS[name] = (f, readonly, shares_buffer)
        return f
    return deco


# ---- accessors -------------------------------------------------------------------
for _acc in ('range', 'resolution', 'amplification_type', 'detector_voltage', 'amplifier_gain', 'channel_labels'):
    for _form in ('all', 'name', 'pos', 'list'):
        def _mk(acc=_acc, form=_form):
            def f(s, a):
                m = getattr(s, acc)
                if form == 'all':
                    return m()
                if form == 'name':
                    return m(s.channels[1])
                if form == 'pos':
                    return m(0)
                return m([s.channels[2], 0])
            return f
        CALLS['io.FCSData.%s(%s)' % (_acc, _form)] = (_mk(), True, False)
for _p in ('channels', 'text', 'analysis', 'time_step', 'acquisition_start_time', 'acquisition_end_time', 'acquisition_time',
           'data_type', 'infile'):
    CALLS['io.FCSData.' + _p] = ((lambda p: (lambda s, a: getattr(s, p)))(_p), True, False)
for _scale in ('linear', 'log', 'logicle'):
    CALLS['io.FCSData.hist_bins(%s,one)' % _scale] = ((lambda sc: (lambda s, a: s.hist_bins(s.channels[2], 16, sc)))(_scale), True, False)
    CALLS['io.FCSData.hist_bins(%s,list)' % _scale] = ((lambda sc: (lambda s, a: s.hist_bins([0, s.channels[1]], a['nbins'], a['scales'] if sc == 'linear' else sc)))(_scale), True, False)
CALLS['io.FCSData.hist_bins(default)'] = (lambda s, a: s.hist_bins(), True, False)
CALLS['io.FCSData.__str__'] = (lambda s, a: str(s), True, False)

# ---- producers ---------------------------------------------------------------------
CALLS['io.FCSData.view'] = (lambda s, a: s.view(), False, True)
CALLS['io.FCSData.copy'] = (lambda s, a: s.copy(), False, False)
CALLS['io.FCSData.astype'] = (lambda s, a: s.astype(np.float64), False, False)
CALLS['io.FCSData[rows slice]'] = (lambda s, a: s[2:9], False, True)
CALLS['io.FCSData[mask]'] = (lambda s, a: s[np.arange(s.shape[0]) % 2 == 0], False, False)
CALLS['io.FCSData[:, name]'] = (lambda s, a: s[:, s.channels[1]], False, True)
CALLS['io.FCSData[:, list]'] = (lambda s, a: s[:, [s.channels[2], 0]], False, False)
CALLS['io.FCSData[:, slice]'] = (lambda s, a: s[:, 1:3], False, True)
CALLS['io.FCSData[:, :]'] = (lambda s, a: s[:, :], False, True)
CALLS['io.FCSData[rows, list]'] = (lambda s, a: s[1:7, [1, 2]], False, False)
CALLS['io.read_fcs_data_segment(list ranges)'] = (lambda s, a: FlowCal.io.read_fcs_data_segment(a['seg_path'], 5, 13, 'I', 3, a['seg_widths'], False, a['seg_ranges']), True, False)
CALLS['io.read_fcs_data_segment(array ranges)'] = (lambda s, a: FlowCal.io.read_fcs_data_segment(a['seg_path'], 5, 13, 'I', 3, a['seg_widths'], True, a['seg_ranges_arr']), True, False)
CALLS['io.read_fcs_data_segment(no ranges)'] = (lambda s, a: FlowCal.io.read_fcs_data_segment(a['seg_path'], 5, 13, 'I', 3, a['seg_widths'], False), True, False)
CALLS['io.read_fcs_text_segment'] = (lambda s, a: FlowCal.io.read_fcs_text_segment(open(a['seg_path'], 'rb'), 14, 26)[0], True, False)
CALLS['transform.to_rfi(all)'] = (lambda s, a: FlowCal.transform.to_rfi(s), False, False)
CALLS['transform.to_rfi(some,overrides)'] = (lambda s, a: FlowCal.transform.to_rfi(s, a['chs'], a['at'], a['ag'], a['res']), False, False)
CALLS['transform.to_mef'] = (lambda s, a: FlowCal.transform.to_mef(s, a['chs'], a['sc_list'], a['chs']), False, False)
CALLS['transform.transform'] = (lambda s, a: FlowCal.transform.transform(s, a['chs'], lambda x: np.asarray(x) * 2.0), False, False)
CALLS['gate.start_end'] = (lambda s, a: FlowCal.gate.start_end(s, 2, 3, full_output=True), False, False)
# gates that happen to keep every event still return samples of their own
CALLS['gate.start_end(0,0)'] = (lambda s, a: FlowCal.gate.start_end(s, 0, 0, full_output=True), False, False)
CALLS['gate.start_end(negative counts)'] = (lambda s, a: FlowCal.gate.start_end(s, -1, -2), False, False)
CALLS['gate.high_low(keeps all)'] = (lambda s, a: FlowCal.gate.high_low(s, a['chs'], 1e12, -1e12, full_output=True), False, False)
CALLS['gate.ellipse(keeps all)'] = (lambda s, a: FlowCal.gate.ellipse(s, a['chs2'], a['center'], 1e9, 1e9, 0.0, full_output=True), False, False)
CALLS['gate.density2d(fraction 1)'] = (lambda s, a: FlowCal.gate.density2d(s, a['chs2'], bins=8, gate_fraction=1.0, xscale='linear', yscale='linear', sigma=1.0, full_output=True), False, False)
CALLS['gate.high_low(default)'] = (lambda s, a: FlowCal.gate.high_low(s, full_output=True), False, False)
CALLS['gate.high_low(args)'] = (lambda s, a: FlowCal.gate.high_low(s, a['chs'], a['high'], a['low']), False, False)
CALLS['gate.ellipse'] = (lambda s, a: FlowCal.gate.ellipse(s, a['chs2'], a['center'], 300., 200., 0.3, full_output=True), False, False)
CALLS['gate.ellipse(log)'] = (lambda s, a: FlowCal.gate.ellipse(s + 1, a['chs2'], a['center'], 2., 1., 0.3, log=True), False, False)
for _sc in ('linear', 'log', 'logicle'):
    CALLS['gate.density2d(bins int,%s)' % _sc] = ((lambda sc: (lambda s, a: FlowCal.gate.density2d(s, a['chs2'], bins=8, gate_fraction=0.5, xscale=sc, yscale=sc, sigma=1.0, full_output=True)))(_sc), False, False)
    CALLS['gate.density2d(bins list,%s)' % _sc] = ((lambda sc: (lambda s, a: FlowCal.gate.density2d(s, a['chs2'], bins=a['bins2'], gate_fraction=0.5, xscale=sc, yscale=sc, sigma=1.0)))(_sc), False, False)
CALLS['gate.density2d(edge arrays,full)'] = (lambda s, a: FlowCal.gate.density2d(s, a['chs2'], bins=a['edges2'], gate_fraction=0.7, sigma=1.0, full_output=True), False, False)
CALLS['gate.density2d(one edge array,full)'] = (lambda s, a: FlowCal.gate.density2d(s, a['chs2'], bins=a['edges'], gate_fraction=0.7, sigma=1.0, full_output=True), False, False)
CALLS['gate.density2d(edges)'] = (lambda s, a: FlowCal.gate.density2d(s, a['chs2'], bins=a['edges2'], gate_fraction=0.7, sigma=1.0), False, False)
for _st in ('mean', 'gmean', 'median', 'mode', 'std', 'cv', 'gstd', 'gcv', 'iqr', 'rcv'):
    CALLS['stats.%s' % _st] = ((lambda st: (lambda s, a: getattr(FlowCal.stats, st)(s + 1 if st in ('gmean', 'gstd', 'gcv') else s, a['chs'])))(_st), True, False)
    CALLS['stats.%s(name)' % _st] = ((lambda st: (lambda s, a: getattr(FlowCal.stats, st)(s + 1 if st in ('gmean', 'gstd', 'gcv') else s, s.channels[1])))(_st), True, False)
    CALLS['stats.%s(pos)' % _st] = ((lambda st: (lambda s, a: getattr(FlowCal.stats, st)(s + 1 if st in ('gmean', 'gstd', 'gcv') else s, 2)))(_st), True, False)
    CALLS['stats.%s(ndarray,pos)' % _st] = ((lambda st: (lambda s, a: getattr(FlowCal.stats, st)(a['plain'] + 1 if st in ('gmean', 'gstd', 'gcv') else a['plain'], 1)))(_st), True, False)
    CALLS['stats.%s(all)' % _st] = ((lambda st: (lambda s, a: getattr(FlowCal.stats, st)(s + 1 if st in ('gmean', 'gstd', 'gcv') else s)))(_st), True, False)
for _sc in ('linear', 'log', 'logicle'):
    CALLS['mef.selection_std(%s)' % _sc] = ((lambda sc: (lambda s, a: FlowCal.mef.selection_std(a['pops'], scale=sc)))(_sc), True, False)
    CALLS['mef.selection_std(%s,low/high)' % _sc] = ((lambda sc: (lambda s, a: FlowCal.mef.selection_std(a['pops_arr'], low=1., high=900., scale=sc)))(_sc), True, False)
    CALLS['mef.clustering_gmm(%s)' % _sc] = ((lambda sc: (lambda s, a: FlowCal.mef.clustering_gmm(a['beads2'], 3, scale=sc)))(_sc), True, False)
CALLS['mef.fit_beads_autofluorescence'] = (lambda s, a: FlowCal.mef.fit_beads_autofluorescence(a['fl_rfi'], a['fl_mef'])[2], True, False)
CALLS['mef.get_transform_fxn'] = (lambda s, a: FlowCal.mef.get_transform_fxn(
    a['beads'], a['mef_values'], a['mef_channels'], clustering_fxn=a['clustering_fxn'], clustering_params=a['cparams'],
    statistic_params=a['sparams'], selection_fxn=None, selection_params=a['selparams'], fitting_params=a['fparams'], full_output=True).mef_channels, True, False)
CALLS['mef.get_transform_fxn(full)'] = (lambda s, a: FlowCal.mef.get_transform_fxn(
    a['beads'], a['mef_values'], a['mef_channels'], clustering_fxn=a['clustering_fxn'], clustering_params=a['cparams'],
    statistic_params=a['sparams'], selection_fxn=None, selection_params=a['selparams'], fitting_params=a['fparams'], full_output=True), True, False)
CALLS['mef.get_transform_fxn(function)'] = (lambda s, a: FlowCal.mef.get_transform_fxn(
    a['beads'], a['mef_values'], a['mef_channels'], clustering_fxn=a['clustering_fxn'], selection_fxn=None), True, False)
def _outcome(fn):
    try:
        return fn()
    except ValueError as e:
        return 'ValueError: ' + str(e)[:60]


# default population selection with its own parameters left out / given as the caller's empty dictionary, while the clustering step gets a scale
CALLS['mef.get_transform_fxn(clustering scale, default selection)'] = (lambda s, a: _outcome(lambda: [list(map(float, x)) for x in FlowCal.mef.get_transform_fxn(
    a['beads_pos'], a['mef_values'], a['mef_channels'], clustering_fxn=a['clustering_fxn'], clustering_params=a['cparams_scale'], full_output=True).selection['rfi']]), True, False)
CALLS['mef.get_transform_fxn(clustering scale, own selection dict)'] = (lambda s, a: [list(map(float, x)) for x in FlowCal.mef.get_transform_fxn(
    a['beads_pos'], a['mef_values'], a['mef_channels'], clustering_fxn=a['clustering_fxn'], clustering_params=a['cparams_scale'], selection_params=a['selparams_empty'],
    full_output=True).selection['rfi']], True, False)
CALLS['mef.get_transform_fxn(all defaults but clustering_fxn)'] = (lambda s, a: _outcome(lambda: [list(map(float, x)) for x in FlowCal.mef.get_transform_fxn(
    a['beads_pos'], a['mef_values'], a['mef_channels'], clustering_fxn=a['clustering_fxn'], full_output=True).selection['rfi']]), True, False)
CALLS['plot._LogicleTransform'] = (lambda s, a: (lambda t: (t.T, t.M, t.W))(FlowCal.plot._LogicleTransform(data=s, channel=s.channels[2])), True, False)
CALLS['plot._LogicleTransform(list)'] = (lambda s, a: (lambda t: (t.T, t.M, t.W))(FlowCal.plot._LogicleTransform(data=a['pops'], channel=0)), True, False)


def _plot(fn):
    def f(s, a):
        import matplotlib.pyplot as plt
        plt.figure()
        try:
            return fn(s, a)
        finally:
            plt.close('all')
    return f


for _sc in ('linear', 'log', 'logicle'):
    CALLS['plot.hist1d(%s)' % _sc] = (_plot((lambda sc: (lambda s, a: FlowCal.plot.hist1d(s + 1, channel=s.channels[2], xscale=sc, bins=16)))(_sc)), True, False)
    CALLS['plot.density2d(%s,bins list)' % _sc] = (_plot((lambda sc: (lambda s, a: FlowCal.plot.density2d(s + 1, channels=a['chs2'], bins=a['bins2'], xscale=sc, yscale=sc, mode='scatter')))(_sc)), True, False)


def _may_refuse(f):
    # an option combination the library may refuse: a refusal is an answer too, and the caller's objects are compared either way
    def g(s, a):
        try:
            return f(s, a)
        except (ValueError, TypeError):
            return None
    return g


CALLS['plot.hist1d(normed_height,weights)'] = (_plot(_may_refuse(lambda s, a: FlowCal.plot.hist1d(s + 1, channel=s.channels[2], xscale='linear', bins=16, normed_height=True,
                                                                                                 weights=a['weights']))), True, False)
CALLS['plot.hist1d(list,bins arr)'] = (_plot(lambda s, a: FlowCal.plot.hist1d(a['pops_full'], channel=1, bins=a['edges'], xscale='linear')), True, False)
# logarithmic axes with the caller's own edge arrays starting at zero (one array per axis, and one array for both)
CALLS['plot.density2d(log,edge arrays from 0)'] = (_plot(lambda s, a: FlowCal.plot.density2d(s + 1, channels=a['chs2'], bins=a['edges2_zero'], xscale='log', yscale='log', mode='scatter')), True, False)
CALLS['plot.density2d(log,one edge array from 0)'] = (_plot(lambda s, a: FlowCal.plot.density2d(s + 1, channels=a['chs2'], bins=a['edges_zero'], xscale='log', yscale='log', mode='mesh')), True, False)
# plain arrays, channels and curve channels given as lists with negative positions
CALLS['transform.to_mef(ndarray,negative positions)'] = (lambda s, a: FlowCal.transform.to_mef(a['plain'], a['neg_chs'], a['sc_list'], a['neg_sc']), True, False)
# colour lists with entries left to the default (None)
CALLS['plot.hist1d(list,colors with None)'] = (_plot(lambda s, a: FlowCal.plot.hist1d(a['pops_full'], channel=1, bins=a['edges'], xscale='linear', histtype='stepfilled',
                                                                                        facecolor=a['fc_none'], edgecolor=a['ec_none'])), True, False)
CALLS['plot.hist1d(list,step,colors with None)'] = (_plot(lambda s, a: FlowCal.plot.hist1d(a['pops_full'], channel=1, bins=a['edges'], xscale='linear', histtype='step',
                                                                                             edgecolor=a['ec_none'])), True, False)
CALLS['plot.scatter2d'] = (_plot(lambda s, a: FlowCal.plot.scatter2d(a['pops_full'], channels=a['chs2'])), True, False)
# violin plots: populations given as float samples / arrays, linear and log position axes (position 0 on a log axis is drawn apart)
for _xs in ('linear', 'log'):
    CALLS['plot.violin(%s,samples)' % _xs] = (_plot((lambda xs: (lambda s, a: FlowCal.plot.violin(a['vpops'], channel=a['vpops'][0].channels[2], positions=[0, 1, 10], xscale=xs, yscale='linear')))(_xs)), True, False)
    CALLS['plot.violin(%s,arrays)' % _xs] = (_plot((lambda xs: (lambda s, a: FlowCal.plot.violin(a['vpops_1d'], positions=[0, 1, 10], xscale=xs, yscale='linear')))(_xs)), True, False)
    CALLS['plot.violin_dose_response(%s)' % _xs] = (_plot((lambda xs: (lambda s, a: FlowCal.plot.violin_dose_response(
        a['vpops'], channel=a['vpops'][0].channels[2], positions=[0, 1, 10], min_data=a['vpops'][0], max_data=a['vpops'][2], xscale=xs, yscale='linear')))(_xs)), True, False)
# bin generators on samples produced by transform.transform (their range is stored as an array, not as a list)
for _sc in ('linear', 'log', 'logicle'):
    CALLS['io.FCSData.hist_bins(%s,transformed)' % _sc] = ((lambda sc: (lambda s, a: a['tsample'].hist_bins(a['tsample'].channels[2], 16, sc)))(_sc), True, False)
CALLS['io.FCSData.range(transformed)'] = (lambda s, a: a['tsample'].range(), True, False)
# the standard-curve plot with axis limits handed over as lists: the sample's own range list, and a list owned by the caller
for _xs in ('linear', 'log'):
    CALLS['mef.plot_standard_curve(%s,xlim=range)' % _xs] = (_plot((lambda xs: (lambda s, a: FlowCal.mef.plot_standard_curve(
        a['fl_rfi'], a['fl_mef'], lambda x: 3.0 * np.asarray(x, dtype=float) ** 1.1 - 20.0, lambda x: 3.0 * np.asarray(x, dtype=float) ** 1.1,
        xscale=xs, yscale='log', xlim=s.range(2))))(_xs)), True, False)
    CALLS['mef.plot_standard_curve(%s,xlim=list)' % _xs] = (_plot((lambda xs: (lambda s, a: FlowCal.mef.plot_standard_curve(
        a['fl_rfi'], a['fl_mef'], lambda x: 3.0 * np.asarray(x, dtype=float) ** 1.1 - 20.0, lambda x: 3.0 * np.asarray(x, dtype=float) ** 1.1,
        xscale=xs, yscale='log', xlim=a['xlim'], ylim=a['ylim'])))(_xs)), True, False)
CALLS['plot.density_and_hist'] = (_plot(lambda s, a: FlowCal.plot.density_and_hist(s + 1, gated_data=(s + 1)[2:], density_channels=a['chs2'], hist_channels=a['chs'], density_params=a['dparams'], hist_params=a['hparams'])), True, False)


def _segment_file():
    # a DATA segment of three events x (8-bit, 16-bit) parameters behind a 5-byte prefix, for direct calls of the segment readers
    import fcsgen
    return fcsgen.write_tmp(b'HELLO' + bytes([7, 1, 2, 9, 3, 4, 255, 255, 255]) + b'/k1/v1/k2/v2/', name='c13_segment_%d.bin' % os.getpid())


def build_args(s, rng, floaty):
    names = list(s.channels)
    N = s.shape[0]
    pops_src = s[:, [names[2]]]
    if floaty:
        pops_src = pops_src.astype(np.float64)
        pops_src[0:3] = [[0.0], [-2.5], [5.0]]     # non-positive events (log scaling saturates them on a copy)
    third = max(1, N // 3)
    pops = [pops_src[i * third:(i + 1) * third] for i in range(3)]
    b = np.concatenate([np.abs(np.random.RandomState(3).normal(m, m * 0.03, size=(60, 2))) for m in (50., 300., 900.)])
    return {
        'vpops': [FlowCal.transform.to_rfi(s[i * third:(i + 1) * third]) for i in range(3)],
        'vpops_1d': [np.asarray(s[i * third:(i + 1) * third, 2], dtype=np.float64) + 1.0 for i in range(3)],
        'tsample': FlowCal.transform.transform(s, [names[2], names[0]], np.sqrt if not floaty else (lambda x: np.sqrt(np.abs(np.asarray(x, dtype=float))))),
        'xlim': [0.0, 1023.0], 'ylim': [1.0, 1e8], 'nbins': [8, None], 'scales': ['linear', 'log'], 'plain': np.array(np.asarray(s), dtype=np.float64 if floaty else np.asarray(s).dtype),
        'chs': [names[2], 0], 'chs2': [names[0], names[1]], 'at': [(0, 0), None], 'ag': [None, 2.0], 'res': [None, 1024],
        'sc_list': [lambda x: 2.0 * x + 1, lambda x: 3.0 * x], 'high': [900., 800.], 'low': [1., 2.],
        'center': [400., 300.], 'bins2': [8, 6], 'edges2': [np.linspace(-1, 1100, 9), np.linspace(-1, 1100, 7)],
        'edges': np.linspace(0, 1024, 17), 'pops': pops, 'pops_arr': [np.asarray(p, dtype=float) + 1 for p in pops],
        'pops_full': [s[:third], s[third:]],
        'beads2': b, 'fl_rfi': np.array([50., 300., 900., 2500.]), 'fl_mef': np.array([700., 4000., 13000., 36000.]),
        'beads': s, 'mef_values': [[0., 700., 4000., 13000.], [None, 800., 5000., 21000.]], 'mef_channels': [names[2], names[1]],
        'clustering_fxn': (lambda data, n, **kw: (np.arange(data.shape[0]) * n) // data.shape[0]), 'cparams': {}, 'sparams': {}, 'selparams': {'scale': 'linear'},
        # caller-owned containers handed to the segment readers: the declared ranges need more bits than the 8-bit parameter is wide
        'neg_chs': [-1, 0], 'neg_sc': [0, -1],
        'edges2_zero': [np.array([0., 1., 10., 100., 1100.]), np.array([0., 2., 20., 200., 1100.])], 'edges_zero': np.array([0., 1., 10., 100., 1100.]),
        'beads_pos': s + 1, 'cparams_scale': {'scale': 'log'}, 'selparams_empty': {'n_std_low': 0., 'n_std_high': 0.}, 'fc_none': [None, 'tab:red'], 'ec_none': [None, None],
        'seg_path': _segment_file(), 'seg_widths': [8, 16], 'seg_ranges': [1024., 65536.], 'seg_ranges_arr': np.array([1024., 65536.]),
        'fparams': {}, 'dparams': {'mode': 'scatter', 'bins': [8, 8]}, 'hparams': [{'bins': 8}, {'bins': 8}],
        'weights': np.linspace(1.0, 3.0, N),
    }


def public_callables():
    out = []
    for mod in ('io', 'transform', 'gate', 'stats', 'mef', 'plot'):
        m = getattr(FlowCal, mod)
        for n, f in inspect.getmembers(m, inspect.isfunction):
            if f.__module__ == m.__name__ and not n.startswith('_'):
                out.append('%s.%s' % (mod, n))
    for n, f in inspect.getmembers(FlowCal.io.FCSData):
        if not n.startswith('_') and n in FlowCal.io.FCSData.__dict__:
            out.append('io.FCSData.%s' % n)
    return sorted(out)


class Prop(common.PropertyCheck):
    pid = 'C13'
    rule = ("every entry of the call table (accessors, transforms, gates, statistics, calibration steps, bin generators, plotting calls; each scale "
            "linear/log/logicle; scalar and list arguments) on integer and float samples: deep fingerprints (values, dtype, every metadata attribute, "
            "contents AND identity of every container) of every argument before vs after; results share no mutable container with the arguments "
            "(views/basic slices: the event buffer only); all ordered pairs of read-only calls on one object answer as they do alone; plus random "
            "histories of object-producing operations whose sharing graph is compared with the Lean heap model. Non-trivial = distinct (call, data kind) "
            "and distinct ordered pairs.")
    batch_size = 200
    assumptions = ["public callables without a row in the call table are listed in evidence (coverage gap), not reported as violations",
                   "extract/facts.py's alias abstraction is syntactic; the dynamic fingerprints are the backstop"]

    def gen_cases(self):
        rng = self.rng
        names = sorted(CALLS)
        for kind in ('int', 'float'):
            for n in names:
                yield {'k': 'call', 'call': n, 'data': kind, 'seed': rng.randrange(1 << 30)}
        ro = [n for n in names if CALLS[n][1] and not n.startswith('plot.') and not n.startswith('mef.clustering') and 'get_transform' not in n]
        if self.tier == 'quick':
            ro = [n for n in ro if ('(all)' not in n)]
            ro = self.rng.sample(ro, min(len(ro), 22))
            must = [n for n in names if 'hist_bins(log' in n or n == 'io.FCSData.range(all)' or 'selection_std(log)' in n]
            ro = sorted(set(ro + must))
        for kind in ('int', 'float'):
            # the same query twice (the first answer overwritten by the caller in between)
            for q in ro:
                yield {'k': 'pair', 'q1': q, 'q2': q, 'data': kind, 'seed': 7}
            for q1, q2 in itertools.permutations(ro, 2):
                yield {'k': 'pair', 'q1': q1, 'q2': q2, 'data': kind, 'seed': 7}
        # a by-name query on the parent, then a sub-sample taken with a slice / list / mask, then by-name queries on the sub-sample:
        # answers equal those of the same sub-sample derived from a fresh load
        for q1 in ('getitem', 'range', 'stats', 'gate', 'none'):
            for sl in ('1:3', '::-1', '2:', 'list', 'mask+1:'):
                for kind in ('int', 'float'):
                    yield {'k': 'derived', 'q1': q1, 'sl': sl, 'data': kind}
        # a file handed over as an open file object stays the caller's: still open, and good for a second load
        for kind in ('int', 'float'):
            yield {'k': 'fileobj', 'data': kind}
        # answers in this process (after queries on an almost identical sample) equal the answers of a fresh interpreter
        for i, delta in enumerate([2e-4, 1e-3, 0.0, 7e-5][:self.budget(3, 4)]):
            yield {'k': 'xproc', 'delta': delta, 'first': ['hist_bins', 'transform', 'hist_bins', 'density'][i], 'seed': 11 + i}
        for _ in range(self.budget(150, 1500)):
            ops = [{'t': 'load', 'n': 4}]
            nobj = 1
            for _o in range(rng.randrange(1, 6)):
                t = rng.choice(['view', 'slice_basic', 'slice_adv', 'fresh', 'fresh', 'query'])
                i = rng.randrange(nobj)
                op = {'t': t, 'i': i}
                if t.startswith('slice'):
                    op['cols'] = sorted(rng.sample(range(2), rng.randrange(1, 3))) if t == 'slice_adv' else [0, 1]
                    op['how'] = rng.choice(['names', 'pos'])
                if t == 'fresh':
                    op['how'] = rng.choice(['copy', 'to_rfi', 'to_mef', 'start_end', 'high_low', 'mask', 'deepcopy', 'astype', 'transform', 'transform'])
                ops.append(op)
                if t != 'query':
                    nobj += 1
            yield {'k': 'history', 'ops': ops, 'seed': rng.randrange(1 << 30)}

    _sample_cache = {}

    def sample(self, kind, seed):
        import random
        key = (kind, seed)
        r = random.Random(1234)
        spec = samples.spec_rich(r, N=24, D=4, datatype='I' if kind == 'int' else 'F', log_channels=[2], res=[1024, 1024, 1024, 1024], time_channel=True)
        s, _ = samples.load(spec, name='c13_%s.fcs' % kind)
        # keyword values added by the user need not be strings: a list (mutable) as the value of a keyword of TEXT and of ANALYSIS
        s._text['VERIF-NOTES'] = ['as loaded']
        s._analysis['VERIF-GATES'] = [1, 2]
        return s

    XPROC_QUERIES = r'''
import sys, json, struct
import numpy as np
import FlowCal
def bits(a):
    return [struct.pack('<d', float(v)).hex() for v in np.asarray(a, dtype=float).ravel()]
def queries(path):
    d = FlowCal.io.FCSData(path)
    out = {}
    out['hist_bins_logicle'] = bits(d.hist_bins(0, nbins=16, scale='logicle'))
    out['hist_bins_all'] = [bits(b) for b in d.hist_bins(nbins=8, scale='logicle')]
    t = FlowCal.plot._LogicleTransform(data=d, channel=0)
    out['transform'] = bits(t.transform_non_affine(np.linspace(0., t.M, 9)))
    out['inverse'] = bits(t.inverted().transform_non_affine(np.array([-90., 0., 3., 500., 9000.])))
    out['density2d'] = [bool(v) for v in FlowCal.gate.density2d(d, channels=[0, 1], gate_fraction=0.5, full_output=True).mask]
    out['hist_bins_log'] = bits(d.hist_bins(1, nbins=8, scale='log'))
    return out
'''

    def run_xproc(self, case):
        import random, struct, subprocess, json as _json
        r = random.Random(case['seed'])

        def f32(x):
            return struct.unpack('<I', struct.pack('<f', x))[0]
        base = [[r.uniform(5, 9000), r.uniform(5, 9000)] for _ in range(60)]

        def write(low, name):
            ev = [[f32(low), f32(40.0)]] + [[f32(a), f32(b)] for a, b in base]
            spec = {'version': 'FCS3.0', 'delim': '/', 'datatype': 'F', 'byteord': '1,2,3,4', 'widths': [32, 32], 'ranges': [262144, 262144],
                    'events': ev, 'names': ['FL1-A', 'FL2-A'], 'pne': {'1': '0,0', '2': '0,0'}}
            data, _ = fcswriter.build(spec)
            return fcsgen.write_tmp(data, name=name)
        pa, pb = write(-100.0, 'c13_xa.fcs'), write(-100.0 - case['delta'], 'c13_xb.fcs')
        ns = {}
        exec(self.XPROC_QUERIES, ns)
        try:
            qa = ns['queries'](pa)              # queries on the neighbouring sample first
            here = ns['queries'](pb)
        except Exception as e:
            return {'err': type(e).__name__ + ':' + str(e)[:80]}
        env = dict(os.environ)
        code = 'import sys\n' + ('sys.path.insert(0, %r)\n' % common.REPO) + self.XPROC_QUERIES + '\nprint(json.dumps(queries(%r)))' % pb
        p = subprocess.run([sys.executable, '-W', 'ignore', '-c', code], capture_output=True, text=True, env=env, timeout=300)
        if p.returncode != 0:
            return {'err': 'fresh interpreter failed: ' + p.stderr[-200:]}
        alone = _json.loads(p.stdout.strip().splitlines()[-1])
        diff = [k for k in sorted(here) if here[k] != alone[k]]
        return {'diff': diff, 'nq': len(here), 'first_differs': [k for k in sorted(here) if qa[k] != here[k]]}

    def snapshot(self, args):
        return {k: fpm.any_fp(v) for k, v in args.items() if not callable(v) and k not in ('sc_list',)}, \
               {k: sorted(deep_ids(v)) for k, v in args.items() if not callable(v)}

    def run_impl(self, case):
        np.random.seed(case.get('seed', 1) % (1 << 31))
        if case['k'] == 'history':
            return self.run_history(case)
        if case['k'] == 'xproc':
            return self.run_xproc(case)
        if case['k'] == 'fileobj':
            s0 = self.sample(case['data'], 0)
            path = os.path.join(fcsgen.tmpdir(), 'c13_%s.fcs' % case['data'])
            f = open(path, 'rb')
            try:
                a1 = FlowCal.io.FCSData(f)
                closed1 = f.closed
                a2 = FlowCal.io.FCSData(f) if not closed1 else None
                f3 = FlowCal.io.FCSFile(f) if not f.closed else None
                return {'closed_after_load': bool(closed1), 'closed_after_all': bool(f.closed),
                        'same': a2 is not None and fpm.sample_fp(a1)['array'] == fpm.sample_fp(a2)['array'] and fpm.sample_fp(a1)['array'] == fpm.sample_fp(s0)['array']}
            except Exception as e:
                return {'err': type(e).__name__ + ':' + str(e)[:80]}
            finally:
                f.close()
        if case['k'] == 'derived':
            return self.run_derived(case)
        s = self.sample(case['data'], 0)
        a = build_args(s, self.rng, case['data'] == 'float')
        if case['k'] == 'call':
            f, readonly, shares = CALLS[case['call']]
            fp_s0, st0 = fpm.sample_fp(s), None
            snap0, ids0 = self.snapshot(a)
            try:
                res = f(s, a)
            except Exception as e:
                return {'err': type(e).__name__ + ':' + str(e)[:100]}
            fp_s1 = fpm.sample_fp(s)
            snap1, ids1 = self.snapshot(a)
            changed = [k for k in snap0 if snap0[k] != snap1[k]] + [k + '(identity)' for k in ids0 if ids0[k] != ids1[k]]
            out = {'sample_same': fp_s0 == fp_s1, 'changed_args': changed, 'readonly': readonly}
            if fp_s0 != fp_s1:
                out['sample_diff'] = [f0 for f0, f1 in zip(fp_s0.get('state', []), fp_s1.get('state', [])) if f0 != f1][:3] or 'events'
            # results vs arguments
            robjs = []
            def collect(x):
                if isinstance(x, FlowCal.io.FCSData):
                    robjs.append(x)
                elif isinstance(x, (tuple, list)):
                    for e in x:
                        collect(e)
            collect(res)
            argobjs = [s] + [p for p in a['pops']] + [p for p in a['pops_full']]
            share_meta, share_buf = False, False
            aid = set()
            for o in argobjs:
                aid |= deep_ids(o)
            for r in robjs:
                if any(r is o for o in argobjs):
                    continue
                if deep_ids(r) & aid:
                    share_meta = True
                if any(np.shares_memory(r, o) for o in argobjs):
                    share_buf = True
            # plain arrays inside the result (bin edges, masks, contours) must not be the caller's own arrays
            rarrs, aarrs = [], []

            def leaves(x, acc, depth=0):
                if isinstance(x, np.ndarray) and not isinstance(x, FlowCal.io.FCSData):
                    acc.append(x)
                elif isinstance(x, (tuple, list)) and depth < 4:
                    for e in x:
                        leaves(e, acc, depth + 1)
                elif isinstance(x, dict) and depth < 4:
                    for e in x.values():
                        leaves(e, acc, depth + 1)
            leaves(res, rarrs)
            leaves([v for k, v in a.items() if not callable(v)], aarrs)
            out['share_arg_array'] = bool(any(np.shares_memory(x, y) for x in rarrs for y in aarrs if x.size and y.size))
            # mutable containers (lists, dicts) reachable from the result must not be the caller's own objects

            def containers(x, acc, depth=0):
                if isinstance(x, (list, dict)):
                    acc.add(id(x))
                if depth < 4:
                    if isinstance(x, (list, tuple)):
                        for e in x:
                            containers(e, acc, depth + 1)
                    elif isinstance(x, dict):
                        for e in x.values():
                            containers(e, acc, depth + 1)
                    elif hasattr(x, 'func') and hasattr(x, 'keywords'):          # functools.partial
                        containers(list(x.args), acc, depth + 1)
                        containers(x.keywords, acc, depth + 1)
                    elif hasattr(x, '_asdict'):
                        containers(list(x), acc, depth + 1)
            rc, ac = set(), set()
            containers(res, rc)
            for k, v in a.items():
                if not callable(v):
                    containers(v, ac)
            out['share_arg_container'] = bool(rc & ac)
            out['share_meta'] = share_meta
            out['share_buf'] = share_buf
            out['shares_allowed'] = shares
            # mutate result, re-fingerprint the input
            for r in robjs:
                if any(r is o for o in argobjs):
                    continue
                try:
                    if r._range and r._range[0] is not None:
                        r._range[0][0] = -777.0
                    r._text['VERIF'] = '1'
                    if isinstance(r._text.get('VERIF-NOTES'), list):
                        r._text['VERIF-NOTES'].append('edited on the result')
                    if isinstance(r._analysis.get('VERIF-GATES'), list):
                        r._analysis['VERIF-GATES'].append(3)
                except Exception:
                    pass
            out['sample_same_after_result_edit'] = fpm.sample_fp(s)['state'] == fp_s1.get('state')
            return out
        # ordered pair of read-only queries
        f1, f2 = CALLS[case['q1']][0], CALLS[case['q2']][0]
        try:
            s2 = self.sample(case['data'], 0)
            a2 = build_args(s2, self.rng, case['data'] == 'float')
            alone = fpm.any_fp(f2(s2, a2))
            r1 = f1(s, a)
            # the first answer is the caller's own: its plain arrays (bin edges, masks, statistics) are overwritten before the second query
            mine = [v for v in a.values() if isinstance(v, np.ndarray)] + [np.asarray(s)]

            def scribble(x, depth=0):
                if isinstance(x, np.ndarray) and not isinstance(x, FlowCal.io.FCSData):
                    if x.size and x.flags.writeable and x.dtype.kind in 'fiub' and not any(np.shares_memory(x, m) for m in mine if m.size):
                        x[...] = x.dtype.type(1) if x.dtype.kind == 'b' else x.dtype.type(3)
                elif isinstance(x, (tuple, list)) and depth < 4:
                    for e in x:
                        scribble(e, depth + 1)
            scribble(r1)
            after = fpm.any_fp(f2(s, a))
        except Exception as e:
            return {'err': type(e).__name__ + ':' + str(e)[:100]}
        return {'same': alone == after, 'alone': str(alone)[:200], 'after': str(after)[:200]}

    def run_derived(self, case):
        def derive(d):
            sl = case['sl']
            if sl == '1:3':
                return d[:, 1:3]
            if sl == '::-1':
                return d[:, ::-1]
            if sl == '2:':
                return d[:, 2:]
            if sl == 'list':
                return d[:, [d.channels[3], d.channels[1]]]
            return d[np.arange(d.shape[0]) % 2 == 0][:, 1:]

        def answers(s):
            out = []
            for nm in s.channels:
                try:
                    out.append([nm, fpm.any_fp(s[:, nm]), fpm.fval(s.range(nm)), fpm.fval(s.amplification_type(nm)), fpm.fval(float(FlowCal.stats.mean(s, nm))),
                                fpm.fval(s.hist_bins(nm, 4, 'linear').tolist())])
                except Exception as e:
                    out.append([nm, 'err:' + type(e).__name__ + ':' + str(e)[:60]])
            # a name the sub-sample does not have must be refused
            for nm in ('FSC-H', 'SSC-H', 'FL1-H', 'FL2-H'):
                if nm not in s.channels:
                    try:
                        s[:, nm]
                        out.append([nm, 'accepted although the sub-sample has no such channel'])
                    except Exception as e:
                        out.append([nm, 'refused'])
            return out
        try:
            d = self.sample(case['data'], 0)
            q1 = case['q1']
            n1 = d.channels[1]
            if q1 == 'getitem':
                d[:, n1]
            elif q1 == 'range':
                d.range(n1); d.amplification_type(d.channels[2])
            elif q1 == 'stats':
                FlowCal.stats.median(d, n1)
            elif q1 == 'gate':
                FlowCal.gate.high_low(d, [d.channels[0]])
            got = answers(derive(d))
            want = answers(derive(self.sample(case['data'], 0)))
        except Exception as e:
            return {'err': type(e).__name__ + ':' + str(e)[:100]}
        diff = [[a[0], str(a[1:])[:120], str(b[1:])[:120]] for a, b in zip(got, want) if a != b]
        return {'same': not diff, 'diff': diff[:2], 'alone': '', 'after': ''}

    def run_history(self, case):
        objs = []
        model_ops = []
        try:
            for op in case['ops']:
                t = op['t']
                if t == 'load':
                    objs.append(self.sample('int', 0))
                    model_ops.append({'t': 'load', 'n': 4})
                    continue
                o = objs[op['i']]
                if o.ndim != 2 or o.shape[1] < 2:
                    continue
                D = o.shape[1]
                if t == 'view':
                    objs.append(o.view()); model_ops.append({'t': 'view', 'i': op['i']})
                elif t == 'slice_basic':
                    objs.append(o[:, 0:2]); model_ops.append({'t': 'slice_basic', 'i': op['i'], 'cols': [0, 1]})
                elif t == 'slice_adv':
                    cols = op['cols']
                    key = [o.channels[c] for c in cols] if op['how'] == 'names' else list(cols)
                    r = o[:, key]
                    if r.ndim != 2 or r.shape[1] < 2:
                        continue
                    objs.append(r); model_ops.append({'t': 'slice_adv', 'i': op['i'], 'cols': cols})
                elif t == 'fresh':
                    how = op['how']
                    if how == 'copy':
                        r = o.copy()
                    elif how == 'deepcopy':
                        r = copy.deepcopy(o)
                    elif how == 'astype':
                        r = o.astype(np.float64)
                    elif how == 'to_rfi':
                        r = FlowCal.transform.to_rfi(o, channels=[0], amplification_type=[(0, 0)])
                    elif how == 'to_mef':
                        r = FlowCal.transform.to_mef(o, [1], [lambda x: x * 2.0], [1])
                    elif how == 'transform':
                        # the generic transform stores the range of the converted channels as arrays, not as lists
                        r = FlowCal.transform.transform(o, [0, 1], lambda x: np.sqrt(np.abs(np.asarray(x, dtype=float))))
                    elif how == 'start_end':
                        r = FlowCal.gate.start_end(o, 1, 1)
                    elif how == 'high_low':
                        r = FlowCal.gate.high_low(o, channels=[0])
                    else:
                        r = o[np.arange(o.shape[0]) % 2 == 0]
                    objs.append(r); model_ops.append({'t': 'fresh', 'i': op['i']})
                else:
                    o.range(); FlowCal.stats.mean(o); o.hist_bins(0, 8, 'log')
                    model_ops.append({'t': 'query', 'i': op['i']})
        except Exception as e:
            return {'err': type(e).__name__ + ':' + str(e)[:100]}
        n = len(objs)
        graph = {'buf': [], 'ranges': [], 'text': []}
        for i in range(n):
            for j in range(i + 1, n):
                if np.shares_memory(objs[i], objs[j]):
                    graph['buf'].append([i, j])
                ri = {id(x) for x in objs[i]._range} | {id(objs[i]._range)}
                rj = {id(x) for x in objs[j]._range} | {id(objs[j]._range)}
                arr_shared = any(isinstance(x, np.ndarray) and isinstance(y, np.ndarray) and np.shares_memory(x, y) for x in objs[i]._range for y in objs[j]._range)
                if (ri & rj) or arr_shared:
                    graph['ranges'].append([i, j])
                if objs[i]._text is objs[j]._text or objs[i]._analysis is objs[j]._analysis:
                    graph['text'].append([i, j])
        return {'graph': graph, 'model_ops': model_ops, 'n': n}

    def post(self):
        fcsgen.cleanup()
        pc = public_callables()
        covered = {c.split('(')[0].split('[')[0] for c in CALLS}
        self.extra['public_callables'] = len(pc)
        self.extra['public_callables_without_table_row'] = [p for p in pc if p not in covered]

    def oracle(self, case, impl):
        if 'err' in impl:
            self.bump('call-raised')
            if case['k'] == 'xproc':
                return 'queries on a float sample with one negative event raised %s' % impl['err']
            if case['k'] == 'fileobj':
                return 'loading twice from one open file object raised %s' % impl['err']
            if case['k'] == 'call':
                return 'call %s on %s data raised %s' % (case['call'], case['data'], impl['err'])
            if case['k'] == 'derived':
                return 'queries on a sub-sample raised %s' % impl['err']
            return None
        if case['k'] == 'call':
            c = case['call']
            if not impl['sample_same']:
                return '%s changed the sample it was given (%s data): %s' % (c, case['data'], impl.get('sample_diff'))
            if impl['changed_args']:
                return '%s changed caller-owned arguments %s (%s data)' % (c, impl['changed_args'], case['data'])
            if impl['share_meta']:
                return 'result of %s shares metadata containers with its input' % c
            if impl.get('share_arg_container'):
                return 'the result of %s holds a list / dictionary that is the caller\'s own object (later changes by the caller change the result)' % c
            if impl.get('share_arg_array') and not impl['shares_allowed']:
                return 'an array inside the result of %s is (a view of) an array the caller passed in' % c
            if impl['share_buf'] and not impl['shares_allowed']:
                return 'result of %s shares the event buffer with its input' % c
            if not impl['sample_same_after_result_edit']:
                return 'editing the metadata of the result of %s changed the input' % c
            return None
        if case['k'] == 'fileobj':
            if impl['closed_after_load'] or impl['closed_after_all']:
                return 'loading from an open file object closed the caller\'s file object'
            if not impl['same']:
                return 'a second load from the same open file object does not give the same events'
            return None
        if case['k'] == 'xproc':
            if impl['diff']:
                return ('queries %s on a sample answered differently after the same queries on a sample whose most negative event differs by %g '
                        'than in a fresh interpreter' % (impl['diff'], case['delta']))
            return None
        if case['k'] == 'derived':
            if not impl['same']:
                return 'by-name answers on the sub-sample [%s] taken after a %s query on its parent differ from those on the same sub-sample of a fresh load (%s data): %s' % (
                    case['sl'], case['q1'], case['data'], impl['diff'])
            return None
        if case['k'] == 'pair':
            if not impl['same']:
                return 'answer of %s depends on a previous %s (%s data): alone %s, after %s' % (case['q2'], case['q1'], case['data'], impl['alone'], impl['after'])
            return None
        g = impl['graph']
        if g['ranges'] or g['text']:
            return 'objects share metadata containers after %s: %s' % ([o['t'] for o in case['ops']], g)
        return None

    def model_request(self, case, impl):
        if case['k'] != 'history' or 'err' in impl:
            return None
        return {'op': 'heap', 'ops': impl['model_ops']}

    def compare(self, case, impl, model):
        if 'driver_error' in model:
            return 'driver: ' + model['driver_error']
        objs = model['objs']
        if len(objs) != impl['n']:
            return 'object count: impl %d vs model %d' % (impl['n'], len(objs))
        g = {'buf': [], 'ranges': [], 'text': []}
        for i in range(len(objs)):
            for j in range(i + 1, len(objs)):
                if objs[i]['buf'] == objs[j]['buf']:
                    g['buf'].append([i, j])
                if set(objs[i]['ranges']) & set(objs[j]['ranges']):
                    g['ranges'].append([i, j])
                if objs[i]['text'] == objs[j]['text']:
                    g['text'].append([i, j])
        if g != impl['graph']:
            return 'sharing graph: impl %s vs model %s (ops %s)' % (impl['graph'], g, [o['t'] for o in impl['model_ops']])
        return None

    def nontrivial_key(self, case, impl):
        if case['k'] == 'call':
            return ('call', case['call'], case['data'])
        if case['k'] == 'pair':
            return ('pair', case['q1'], case['q2'], case['data'])
        if case['k'] == 'derived':
            return ('derived', case['q1'], case['sl'], case['data'])
        if case['k'] == 'xproc':
            return ('xproc', case['delta'])
        if case['k'] == 'fileobj':
            return ('fileobj', case['data'])
        return ('hist', tuple(o['t'] + o.get('how', '') for o in case['ops']))
