"""C18 — The logicle scale is a strictly increasing bijection with an accurate inverse."""
import math
import warnings

import numpy as np

import common
import fcsgen
import samples
import FlowCal
from c03 import bits, unbits

np.seterr(all='ignore')


class Prop(common.PropertyCheck):
    pid = 'C18'
    rule = ("parameter triples on a lattice T in [1,1e8] x M in [0.2,12] x W in [0,1.5M] plus random triples: p solves W = 2p log10(p)/(p+1) (|residual| <= 1e-9, "
            "p >= 1), forward transform on a fine grid of [0,M] vs the biexponential equation (Lean Float instance and an independent evaluation), strictly "
            "increasing, value 0 at W, inverse round trip within 1e-4*M and non-decreasing; data-derived T/M/W for data sets with and without negative "
            "events, single and multiple samples, with and without a known range; refusals; set_xscale('logicle') smoke. Non-trivial = distinct "
            "(T decade, M, W/M class) triples and distinct data-derivation shapes.")
    batch_size = 60
    exploration_only = ["scipy.optimize.root succeeding for every W (runtime assert) and the 1e-4*M accuracy of the 1000-node interpolated inverse are swept, not proved"]

    def gen_cases(self):
        rng = self.rng
        Ts = [1, 10, 1023, 262144, 1e6, 1e8]
        Ms = [0.2, 0.5, 1, 2.5, 4.5, 7, 12]
        for T in Ts:
            for M in Ms:
                for wf in ([0, 0.1, 0.5, 1.0, 1.5] if self.tier == 'thorough' else [0, 0.25, 1.5]):
                    yield {'k': 'triple', 'T': float(T), 'M': float(M), 'W': float(wf * M)}
        for _ in range(self.budget(150, 15000)):
            M = rng.uniform(0.2, 12)
            yield {'k': 'triple', 'T': 10 ** rng.uniform(0, 8), 'M': M, 'W': rng.uniform(0, 1.5 * M)}
        # pairs of transforms built one after the other whose W agree to four decimals: each solves its own equation
        for W in (0.5, 0.50004, 3.0, 2.99996, 1.23456, 1.23459, 0.1, 0.1000003, 0.0, 0.00004):
            yield {'k': 'triple', 'T': 262144.0, 'M': 4.5, 'W': W}
        # tiny positive W (the parameter p is then within 1e-4 of 1): explicit values where the default root finder used to give up, and a log-uniform sweep
        for W in (2.2067881192499896e-05, 1.0444992896870532e-05, 2.1627818477047468e-05, 1.3667837451383129e-05, 7.494001790604879e-06):
            yield {'k': 'triple', 'T': rng.choice([262144., 1023., 1e4]), 'M': rng.choice([4.5, 5.0, 12.0]), 'W': W}
        for _ in range(self.budget(400, 20000)):
            yield {'k': 'triple', 'T': 10 ** rng.uniform(0, 6), 'M': rng.uniform(1, 12), 'W': 10 ** rng.uniform(-9, -3)}
        for _ in range(self.budget(120, 1500)):
            yield {'k': 'data', 'neg': rng.choice(['none', 'tiny', 'small', 'large']), 'multi': rng.random() < 0.4,
                   'cont': rng.choice(['array', 'sample', 'sample_rfi']), 'over': rng.choice([None, 'T', 'M', 'W']), 'above': rng.random() < 0.4, 'seed': rng.randrange(1 << 30)}
        # negative events in another channel of the sample only: the requested channel has none, so W = 0
        for i in range(self.budget(8, 60)):
            yield {'k': 'data', 'neg': 'none', 'multi': i % 2 == 1, 'cont': ['array', 'sample', 'sample_rfi', 'mixed'][i % 4], 'over': None, 'above': False,
                   'seed': rng.randrange(1 << 30), 'neg_other': True}
        # a sample without events (everything gated out) still knows its range: alone, and as the widest member of a list
        for i in range(self.budget(6, 40)):
            yield {'k': 'data', 'neg': ['none', 'small', 'large'][i % 3], 'multi': i % 2 == 1, 'cont': 'sample', 'over': None, 'above': False,
                   'seed': rng.randrange(1 << 30), 'empty_last': True}
        # lists mixing samples (range known) and plain arrays (range unknown): each contributes by its own rule
        for i in range(self.budget(10, 100)):
            yield {'k': 'data', 'neg': ['none', 'small', 'large', 'tiny'][i % 4], 'multi': True, 'cont': 'mixed', 'over': [None, None, 'M', 'W'][i % 4], 'above': False,
                   'seed': rng.randrange(1 << 30)}
        # the same object used for a transform, changed in place, and used again: the parameters follow the data passed in
        for i in range(self.budget(10, 100)):
            yield {'k': 'data', 'neg': ['none', 'small', 'none', 'tiny'][i % 4], 'multi': i % 3 == 0, 'cont': ['array', 'sample', 'sample_rfi'][i % 3], 'over': None, 'above': False,
                   'seed': rng.randrange(1 << 30), 'modify': ['subtract', 'scale', 'clip'][i % 3]}
        # lists of samples in which the requested channel (given by name) is not in the same column everywhere
        for i in range(self.budget(12, 100)):
            yield {'k': 'data', 'neg': ['small', 'large', 'none', 'tiny'][i % 4], 'multi': True, 'cont': ['sample', 'sample_rfi'][i % 2], 'over': [None, None, 'M'][i % 3], 'above': False,
                   'seed': rng.randrange(1 << 30), 'byname': True}
        # data sets without a known range whose largest value is not positive: the derived T must be refused
        for neg in ('allzero', 'nonpos', 'allzero', 'nonpos'):
            yield {'k': 'data', 'neg': neg, 'multi': rng.random() < 0.5, 'cont': 'array', 'over': rng.choice([None, 'M', 'W']), 'seed': rng.randrange(1 << 30)}
        for bad in ({'T': 0.0}, {'T': -5.0}, {'M': 0.0}, {'M': -1.0}, {'W': -0.1}):
            yield {'k': 'bad', 'kw': bad}
        yield {'k': 'axis'}

    def run_impl(self, case):
        k = case['k']
        try:
            if k == 'bad':
                try:
                    FlowCal.plot._LogicleTransform(**case['kw'])
                    return {'raised': None}
                except Exception as e:
                    return {'raised': type(e).__name__}
            if k == 'axis':
                import matplotlib.pyplot as plt
                fig = plt.figure()
                ax = plt.gca()
                ax.plot([-10, 0, 100, 1e4], [1, 2, 3, 4])
                ax.set_xscale('logicle', T=262144, M=4.5, W=0.5)
                fig.canvas.draw()
                lim = ax.get_xlim()
                plt.close(fig)
                return {'ok': True, 'lim': [float(lim[0]), float(lim[1])]}
            if k == 'triple':
                T, M, W = case['T'], case['M'], case['W']
                t = FlowCal.plot._LogicleTransform(T=T, M=M, W=W)
                p = float(t._p)
                s = np.linspace(0, M, 401)
                s = np.concatenate([s, [W]])
                x = t.transform_non_affine(s)
                inv = t.inverted()
                back = inv.transform_non_affine(x[:-1], mask_out_of_range=False)
                # the same round trip with the default arguments: every grid point (the end points 0 and M included) has a value
                bd = inv.transform_non_affine(x[:-1])
                default_ok = (not np.ma.is_masked(bd)) and bool(np.all(np.isfinite(np.ma.getdata(bd)))) and \
                    bool(np.allclose(np.ma.getdata(bd), np.asarray(back), rtol=0, atol=1e-12))
                xs = np.sort(np.concatenate([x[:-1], np.linspace(x[0], x[-2], 300)]))
                invs = np.asarray(inv.transform_non_affine(xs, mask_out_of_range=False))
                # tick locators built on the transform (as the logicle scale does) compute ticks for several views: the transform keeps solving the
                # equation of its own triple
                shared = None
                import signal

                class _Slow(Exception):
                    pass

                def _alarm(signum, frame):
                    raise _Slow()
                old_handler = signal.signal(signal.SIGALRM, _alarm)
                outer = signal.setitimer(signal.ITIMER_REAL, 20.0)          # (the harness-wide watchdog is re-armed below)
                import time as _time
                t_inner = _time.time()
                try:
                    # (on a deterministic fifth of the triples, and on every triple without a linear region: the locator rebuilds an interpolated
                    # inverse on every call, which bounds what a quick run can afford)
                    sel = W == 0 or (int(T * 1000) + int(M * 100) + int(W * 1000)) % 5 == 0
                    for subs in ((None, np.arange(1.0, 10.0)) if sel else ()):
                        loc = FlowCal.plot._LogicleLocator(t, subs=subs)
                        for vmin, vmax in ((float(x[0]), float(x[-2])), (0.0, float(T))) if subs is None else ((-abs(float(x[-2])) / 100., float(x[-2])),):
                            loc.tick_values(vmin, vmax)
                    x2 = t.transform_non_affine(s)
                    if [float(t.T), float(t.M), float(t.W)] != [float(T), float(M), float(W)] or bits(float(t._p)) != bits(p):
                        shared = 'after its tick locator computed ticks the transform reports T, M, W = %r, %r, %r and p = %r (was %r)' % (float(t.T), float(t.M), float(t.W), float(t._p), p)
                    elif [bits(v) for v in x2] != [bits(v) for v in x]:
                        shared = 'after its tick locator computed ticks the transform maps the same display values to other data values'
                except _Slow:
                    shared = 'the tick locator built on the transform did not return within 20 s (it normally takes milliseconds)'
                except Exception as e:
                    shared = 'tick locator raised %s: %s' % (type(e).__name__, str(e)[:80])
                finally:
                    signal.setitimer(signal.ITIMER_REAL, 0)
                    signal.signal(signal.SIGALRM, old_handler)
                    if outer and outer[0] > 0:
                        signal.setitimer(signal.ITIMER_REAL, max(outer[0] - (_time.time() - t_inner), 0.01))
                # the inverse is a function of the data VALUE: integer-typed events (as loaded from an integer file) get the display position of the same number
                try:
                    xi = np.unique(np.clip(np.array([0, 1, 2, 7, 100, 1000, T / 2.0, T]), 0, T).astype(np.int64))
                    di = np.asarray(inv.transform_non_affine(xi, mask_out_of_range=False), dtype=float)
                    df = np.asarray(inv.transform_non_affine(xi.astype(np.float64), mask_out_of_range=False), dtype=float)
                    if shared is None and not np.array_equal(di, df):
                        shared = 'the inverse maps the integer-typed data values %s to %s, the same values as floating-point numbers to %s' % (xi.tolist()[:5], di.tolist()[:5], df.tolist()[:5])
                except Exception as e:
                    if shared is None:
                        shared = 'the inverse of integer-typed data values raised %s' % type(e).__name__
                # a buffer the caller reuses: the same array object filled with other data values, and an answer the caller edits, then the query again
                try:
                    buf = np.array(x[:-1][::7], dtype=float)
                    ref_lo = np.array(inv.transform_non_affine(buf.copy(), mask_out_of_range=False), dtype=float)
                    r1 = inv.transform_non_affine(buf, mask_out_of_range=False)
                    buf[:] = buf[::-1].copy()
                    r2 = np.array(inv.transform_non_affine(buf, mask_out_of_range=False), dtype=float)
                    if shared is None and not np.array_equal(r2, ref_lo[::-1]):
                        shared = 'the inverse of a reused buffer (same array object, other data values) is the answer for its earlier contents'
                    r3 = inv.transform_non_affine(buf, mask_out_of_range=False)
                    if isinstance(r3, np.ndarray) and r3.flags.writeable:
                        r3[...] = -5.0
                    r4 = np.array(inv.transform_non_affine(buf, mask_out_of_range=False), dtype=float)
                    if shared is None and not np.array_equal(r4, ref_lo[::-1]):
                        shared = 'after the caller edited an answer of the inverse, the same query returns the edited values'
                except Exception as e:
                    if shared is None:
                        shared = 'the inverse on a reused buffer raised %s' % type(e).__name__
                return {'p': bits(p), 's': [bits(v) for v in s], 'x': [bits(v) for v in x], 'shared': shared,
                        'default_inverse_ok': default_ok,
                        'maxerr': float(np.max(np.abs(np.asarray(back) - s[:-1]))), 'inv_mono': bool(np.all(np.diff(invs) >= 0)),
                        'TMW': [float(t.T), float(t.M), float(t.W)]}
            # data-derived parameters
            r = np.random.RandomState(case['seed'] % (1 << 31))
            nsamp = 3 if case['multi'] else 1
            datas, mins, maxs, ranges = [], [], [], []
            for i in range(nsamp):
                n = 50
                if case['cont'] == 'array' or (case['cont'] == 'mixed' and (i + case['seed']) % 2 == 0):
                    a = r.lognormal(4 + i, 1.0, size=(n, 2)) if case['cont'] != 'mixed' else r.lognormal(1.0, 0.5, size=(n, 2))
                    if case['neg'] == 'allzero':
                        a[:, 1] = 0.0
                    elif case['neg'] == 'nonpos':
                        a[:, 1] = -a[:, 1]; a[3, 1] = 0.0
                    elif case['neg'] != 'none':
                        a[0, 1] = {'tiny': -1e-6 * (i + 1), 'small': -3.0 * (i + 1), 'large': -500.0 * (i + 1)}[case['neg']]
                    d = a
                    rng_hi = None
                else:
                    import random
                    spec = samples.spec_rich(random.Random(case['seed'] + i), N=n, D=2, datatype='F', log_channels=[1],
                                             res=[1024, r.choice([1024, 4096, 262144])])
                    d, _ = samples.load(spec, name='c18_%d.fcs' % i)
                    if case['cont'] == 'sample_rfi':
                        d = FlowCal.transform.to_rfi(d)
                    rng_hi = float(d.range(1)[1])
                    if case['neg'] != 'none':
                        d[0, 1] = {'tiny': -1e-6 * (i + 1), 'small': -3.0 * (i + 1), 'large': -500.0 * (i + 1)}[case['neg']]
                    else:
                        d[:, 1] = np.abs(np.asarray(d[:, 1]))
                    if case['cont'] == 'mixed':
                        d[:, 1] = np.minimum(np.asarray(d[:, 1]), 0.4 * rng_hi)      # no event near the top of the range: range and largest event differ
                    if case.get('above'):
                        d[2, 1] = 7.5 * rng_hi          # an event far above the channel's range: T stays the range limit
                if case.get('empty_last') and i == nsamp - 1:
                    # the last (or only) sample has the widest range of the list and no events
                    import random
                    spec = samples.spec_rich(random.Random(case['seed'] + 99), N=4, D=2, datatype='F', log_channels=[1], res=[1024, 1048576])
                    d, _ = samples.load(spec, name='c18_empty.fcs')
                    rng_hi = float(d.range(1)[1])
                    d = d[:0]
                if case.get('neg_other'):
                    v = np.asarray(d)
                    v[:, 1] = np.abs(v[:, 1]) + 5.0          # the requested channel: strictly positive, well above T*10**-M
                    v[0, 0] = -250.0; v[3, 0] = -12.5        # the other channel holds negative events
                datas.append(d)
                col = np.asarray(d)[:, 1]
                mins.append(float(col.min()) if col.size else float('inf')); maxs.append(float(col.max()) if col.size else float('-inf')); ranges.append(rng_hi)
            kw = {}
            if case['over'] == 'T':
                kw['T'] = 5000.0
            elif case['over'] == 'M':
                kw['M'] = 5.5
            elif case['over'] == 'W':
                kw['W'] = 0.7
            try:
                if case.get('modify'):
                    FlowCal.plot._LogicleTransform(data=datas if case['multi'] else datas[0], channel=1, **kw)
                    mins, maxs = [], []
                    for d in datas:
                        v = np.asarray(d)            # a view of the caller's object: the object itself is changed
                        if case['modify'] == 'subtract':
                            v[:, 1] -= 40.0
                        elif case['modify'] == 'scale':
                            v[:, 1] *= 3.0
                        else:
                            v[:, 1] = np.clip(v[:, 1], 1.0, 50.0)
                        mins.append(float(v[:, 1].min())); maxs.append(float(v[:, 1].max()))
                if case['multi']:
                    # the caller's list is used for another channel first (as the two axes of a scatter plot are): the list and its members stay as they were
                    saved = list(datas)
                    shapes = [np.asarray(x).shape for x in datas]
                    try:
                        FlowCal.plot._LogicleTransform(data=datas, channel=0)
                    except Exception:
                        pass
                    if len(datas) != len(saved) or any(a is not b for a, b in zip(datas, saved)) or [np.asarray(x).shape for x in datas] != shapes:
                        return {'list_changed': 'building a transform for channel 0 from a list of %d samples changed the list: members now have shapes %s (were %s)' % (
                            len(saved), [np.asarray(x).shape for x in datas], shapes), 'mins': mins, 'maxs': maxs, 'ranges': ranges, 'kw': kw}
                if case.get('byname') and case['multi'] and all(hasattr(x, 'channels') for x in datas):
                    # the samples of the list come from different acquisition templates: the requested channel, given by name, sits in another column
                    # in every second sample
                    nm = datas[0].channels[1]
                    datas2 = [x if i % 2 == 0 else x[:, [1, 0]] for i, x in enumerate(datas)]
                    t = FlowCal.plot._LogicleTransform(data=datas2, channel=nm, **kw)
                else:
                    t = FlowCal.plot._LogicleTransform(data=datas if case['multi'] else datas[0], channel=1, **kw)
            except Exception as e:
                return {'err': type(e).__name__ + ':' + str(e)[:80], 'mins': mins, 'maxs': maxs, 'ranges': ranges, 'kw': kw}
            return {'TMW': [float(t.T), float(t.M), float(t.W)], 'mins': mins, 'maxs': maxs, 'ranges': ranges, 'kw': kw}
        except Exception as e:
            import traceback
            return {'harness_err': traceback.format_exc()[-400:]}

    def post(self):
        fcsgen.cleanup()

    def oracle(self, case, impl):
        if 'harness_err' in impl:
            return 'exception: ' + impl['harness_err']
        k = case['k']
        if k == 'bad':
            return None if impl['raised'] == 'ValueError' else 'invalid parameters %s not refused: %s' % (case['kw'], impl['raised'])
        if k == 'axis':
            return None if impl.get('ok') else 'set_xscale(logicle) failed'
        if k == 'triple':
            T, M, W = case['T'], case['M'], case['W']
            p = unbits(impl['p'])
            if not (p >= 1 - 1e-12) or common.far(2 * p / (p + 1) * math.log10(p), W, 1e-9):
                return 'p=%r does not solve W = 2p log10(p)/(p+1) for W=%r' % (p, W)
            s = [unbits(b) for b in impl['s']]; x = [unbits(b) for b in impl['x']]
            scale = T * 10 ** (-(M - W)) * (1 + p * p)
            for si, xi in zip(s, x):
                want = T * 10 ** (-(M - W)) * (10 ** (si - W) - p * p * 10 ** (-(si - W) / p) + p * p - 1)
                if common.far(want, xi, 1e-9 * (abs(want) + scale)):
                    return 'transform(%r) = %r, biexponential equation gives %r (T=%r M=%r W=%r)' % (si, xi, want, T, M, W)
            if common.far(x[-1], 0.0, 1e-12 * scale):
                return 'display value W is mapped to %r, not 0' % x[-1]
            if any(b <= a for a, b in zip(x[:-2], x[1:-1])):
                return 'transform is not strictly increasing on [0, M] (T=%r M=%r W=%r)' % (T, M, W)
            if impl['maxerr'] > 1e-4 * M:
                return 'inverse round trip error %.3g exceeds 1e-4*M (T=%r M=%r W=%r)' % (impl['maxerr'], T, M, W)
            if not impl['inv_mono']:
                return 'inverse is not non-decreasing'
            if impl.get('shared'):
                return 'T=%r M=%r W=%r: %s' % (case['T'], case['M'], case['W'], impl['shared'])
            if not impl.get('default_inverse_ok', True):
                return 'the inverse called with its default arguments returns masked / non-finite / other values on the transform of [0, M] (T=%r M=%r W=%r)' % (case['T'], case['M'], case['W'])
            return None
        # data-derived
        if impl.get('list_changed'):
            return impl['list_changed']
        kw = impl['kw']
        # per sample: the upper range limit where the sample knows its range, its largest event otherwise
        T = max(r if r is not None else mx for r, mx in zip(impl['ranges'], impl['maxs']))
        T = kw.get('T', T)
        if T <= 0:
            if str(impl.get('err', '')).startswith('ValueError'):
                return None
            return 'the data give T=%r (not positive): not refused with ValueError but %s' % (T, impl.get('err') or 'accepted with T, M, W = %s' % impl.get('TMW'))
        M = kw.get('M', max(4.5, 4.5 * math.log10(T) / math.log10(262144)))
        if 'W' in kw:
            W = kw['W']
        else:
            W = 0.0
            for mn in impl['mins']:
                if mn < 0:
                    W = max(W, (M - math.log10(T / abs(mn))) / 2)
        if 'err' in impl:
            return 'data-derived parameters refused (%s); documented rules give T=%r M=%r W=%r' % (impl['err'], T, M, W)
        got = impl['TMW']
        for g, w, nm in zip(got, (T, M, W), 'TMW'):
            if common.far(g, w, 1e-6 * max(1, abs(w))):      # single-precision samples give single-precision W
                return 'data-derived %s = %r, documented rule gives %r (mins %s, ranges %s, overrides %s)' % (nm, g, w, impl['mins'], impl['ranges'], kw)
        return None

    def model_request(self, case, impl):
        if case['k'] != 'triple' or 'harness_err' in impl:
            return None
        return {'op': 'logicle', 'T': bits(case['T']), 'M': bits(case['M']), 'W': bits(case['W']), 'p': impl['p'], 's': impl['s']}

    def compare(self, case, impl, model):
        if 'driver_error' in model:
            return 'driver: ' + model['driver_error']
        T, M, W = case['T'], case['M'], case['W']
        p = unbits(impl['p'])
        scale = T * 10 ** (-(M - W)) * (1 + p * p)
        for a, b in zip(model['x'], impl['x']):
            a, b = unbits(a), unbits(b)
            if common.far(a, b, 1e-9 * (abs(a) + scale)):
                return 'Lean Float logicle %r vs implementation %r' % (a, b)
        if common.far(unbits(model['Wf']), W, 1e-9):
            return 'Lean Wf(p) = %r vs W = %r' % (unbits(model['Wf']), W)
        return None

    def nontrivial_key(self, case, impl):
        if case['k'] == 'triple':
            return ('t', int(math.log10(case['T'])), round(case['M'], 1), round(case['W'] / case['M'], 1))
        if case['k'] == 'data':
            return ('d', case['neg'], case['multi'], case['cont'], case['over'])
        return (case['k'], str(case.get('kw')))
