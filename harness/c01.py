"""C01 — Loading an FCS file returns exactly the events recorded in it."""
import itertools
import os

import common
import fcsgen
import fcswriter


class Prop(common.PropertyCheck):
    pid = 'C01'
    rule = ("FCS files written by the independent writer over version x datatype x byte-order spelling x per-parameter widths "
            "(uniform and mixed forced) x range kind x offset placement x end convention x padding, plus a malformed stream "
            "(histogram mode, ASCII, non-byte-aligned, other byte orders, >64 bit); a family with 10-14 parameters; multi-MiB mixed-width files (oracle only). Non-trivial = distinct (datatype, widths, endianness, "
            "placement, end convention, range kinds) tuples with at least one event.")
    batch_size = 200
    assumptions = ["NumPy dtype reinterpretation ('>uK', '<fK') equals big/little-endian byte composition (ofBytes); IEEE bit patterns are compared, not float values",
                   "ceil(log2(float($PnR))) equals exact clog2 for the generated ranges (non-powers of two kept below 2^52; see DESIGN section 7 item 12)"]

    def gen_cases(self):
        rng = self.rng
        n = self.budget(1500, 12000)
        for i in range(n):
            yield {'k': 'file', 'spec': fcsgen.gen_spec(rng, family=fcsgen.FAMILIES[(i // 2) % 7] if i % 2 else None)}
        # files whose DATA segment spans several MiB (block-wise readers), mixed widths with an event size that is not a power of two
        for i in range(self.budget(2, 12)):
            yield {'k': 'big', 'widths': rng.choice([[24, 16], [24, 24, 24], [8, 16, 24], [40, 16], [16, 8]]), 'mib': rng.choice([1.2, 2.3, 3.1]),
                   'big_endian': rng.random() < 0.5, 'pad_after': rng.choice([0, 1, 64]), 'end_conv': rng.choice(['last', 'past']), 'seed': rng.randrange(1 << 30)}
        # histories: load, edit the loaded sample in place, load the same path again
        for i in range(self.budget(60, 600)):
            yield {'k': 'reload', 'spec': fcsgen.gen_spec(rng, datatype=rng.choice(['I', 'F'])), 'edit': rng.choice(['col0', 'add1', 'zero', 'rewrite', 'rewrite'])}
        for i in range(self.budget(80, 800)):
            yield {'k': 'file', 'spec': fcsgen.gen_spec(rng, allow_malformed=True)}
        # event records wider than 256 bytes on the mixed-width path; files without events whose offsets are given in TEXT only
        wide = [[32] + [16] * 139, [24] * 90, [8, 24, 16, 40, 16, 32] * 12, [16] * 130 + [24], [64] * 33 + [8]]
        for i, ws in enumerate(wide):
            for big in (False, True):
                N = 3
                ev = [list(c) for c in zip(*[fcsgen.gen_values(rng, w, N) for w in ws])]
                yield {'k': 'file', 'spec': {'version': 'FCS3.0', 'delim': '/', 'datatype': 'I', 'byteord': '4,3,2,1' if big else '1,2,3,4', 'widths': list(ws),
                                             'ranges': [fcsgen.gen_range(rng, w)[0] for w in ws], 'events': ev, 'placement': ['header', 'text'][i % 2],
                                             'text_offsets_too': True, 'end_conv': ['last', 'past'][i % 2], 'pad_text': 0, 'pad_data': 0, 'pad_after': i % 2, 'order': 'TDA'}}
        for dt, ws in (('I', [16, 16]), ('I', [8, 24]), ('F', [32, 32]), ('D', [64])):
            for ec in ('last', 'past'):
                for pl in ('text', 'header'):
                    yield {'k': 'file', 'spec': {'version': 'FCS3.1', 'delim': '|', 'datatype': dt, 'byteord': '1,2,3,4', 'widths': list(ws), 'ranges': [1024] * len(ws),
                                                 'events': [], 'placement': pl, 'text_offsets_too': True, 'end_conv': ec, 'pad_text': 0, 'pad_data': 0,
                                                 'pad_after': 1 if ec == 'past' else 0, 'order': 'TDA'}}
        # offsets in TEXT keywords padded with blanks (right-justified fixed-width fields, or trailing blanks) instead of zeros
        for i in range(self.budget(60, 600)):
            spec = fcsgen.gen_spec(rng, family=fcsgen.FAMILIES[i % 7])
            spec['offset_style'] = ['blank_left', 'blank_right'][i % 2]
            if i % 3 != 2:
                spec['version'] = ['FCS3.0', 'FCS3.1'][i % 2]
                spec['placement'] = 'text'
            yield {'k': 'file', 'spec': spec}
        # DATA segments that begin or end beyond byte 10,000,000: the HEADER's 8-character offset fields are then completely filled
        # (no blank between neighbouring fields); oracle only (the files are too large to be shipped to the model)
        for i, (ver, pad, too) in enumerate((('FCS2.0', 10000050, True), ('FCS3.0', 10000050, False), ('FCS2.0', 9999600, True), ('FCS3.1', 12345678, True))):
            ws = [[16, 16], [8, 24], [32, 32], [16, 16]][i]
            lay0 = fcswriter.build({'version': ver, 'widths': ws, 'ranges': [256] * 2, 'events': [], 'tot': 0})[1]
            if i == 2:
                pad = 9999996 - (lay0['segs']['T'][1] + 1)      # DATA begins at 9,999,996 (7 digits) and ends beyond 10,000,000
            N = 4
            ev = [list(c) for c in zip(*[fcsgen.gen_values(rng, w, N) for w in ws])]
            yield {'k': 'file', 'far': True, 'spec': {'version': ver, 'delim': '/', 'datatype': 'F' if i == 2 else 'I', 'byteord': '1,2,3,4', 'widths': ws,
                                                      'ranges': [1 << w for w in ws] if i != 2 else [1024, 1024], 'events': ev, 'placement': 'header', 'text_offsets_too': too,
                                                      'end_conv': 'last', 'pad_text': 0, 'pad_data': pad, 'pad_after': 0, 'order': 'TDA'}}
        # a parameter whose declared range is 1 (no significant bit: every stored word reads as 0), next to ordinary parameters; single-parameter files of 24..56 bits
        for i in range(self.budget(16, 120)):
            spec = fcsgen.gen_spec(rng, datatype='I', family=fcsgen.FAMILIES[i % 7])
            if spec.get('malformed') or not spec['events']:
                continue
            spec['ranges'] = list(spec['ranges']); spec['ranges'][i % len(spec['ranges'])] = 1
            yield {'k': 'file', 'spec': spec}
        for i, w in enumerate([24, 40, 48, 56, 24, 40]):
            ev = [[v] for v in fcsgen.gen_values(rng, w, 3)]
            yield {'k': 'file', 'spec': {'version': ['FCS3.0', 'FCS2.0', 'FCS3.1'][i % 3], 'delim': '/', 'datatype': 'I', 'byteord': ['1,2,3,4', '4,3,2,1'][i % 2], 'widths': [w], 'ranges': [1 << w],
                                         'events': ev, 'placement': 'header', 'text_offsets_too': True, 'end_conv': ['last', 'past'][i % 2], 'pad_text': 0, 'pad_data': 0, 'pad_after': i % 2, 'order': 'TDA'}}
        # the DATA segment stored before the TEXT segment (HEADER, DATA, TEXT[, ANALYSIS]); TEXT beginning right after the last byte of DATA
        for i in range(self.budget(28, 280)):
            spec = fcsgen.gen_spec(rng, family=fcsgen.FAMILIES[i % 7], datatype=['I', 'F', 'D', 'I'][i % 4])
            if spec.get('malformed'):
                continue
            spec.update(order=['DTA', 'DT', 'DAT'][i % 3], pad_data=[0, 3][i % 2], pad_text=[0, 0, 5][i % 3], placement=['header', 'text'][(i // 2) % 2] if spec['version'] != 'FCS2.0' else 'header',
                        text_offsets_too=True)
            spec.pop('stext', None)
            yield {'k': 'file', 'spec': spec}
        # a parameter named like the clock channel: masked to its declared range like every other parameter
        for i in range(self.budget(30, 300)):
            spec = fcsgen.gen_spec(rng, datatype='I', family=fcsgen.FAMILIES[i % 7])
            if spec.get('malformed') or not spec['events']:
                continue
            D = len(spec['widths'])
            spec['names'] = ['P%d' % (k + 1) for k in range(D)]
            spec['names'][[D - 1, 0][i % 2]] = ['Time', 'TIME', 'time'][i % 3]
            k = [D - 1, 0][i % 2]
            w = spec['widths'][k]
            spec['ranges'] = list(spec['ranges'])
            spec['ranges'][k] = 1 << max(1, w - 3 - i % 4)         # fewer bits than the word is wide
            spec['events'] = [list(r) for r in spec['events']]
            spec['events'][0][k] = (1 << w) - 1 - (i % 5)           # a stored word with bits set above the declared range
            yield {'k': 'file', 'spec': spec}
        # values of FCS3.1 keywords holding characters outside ASCII, written as UTF-8 byte sequences (to the reader: bytes of a keyword value like any other)
        for i in range(self.budget(12, 100)):
            spec = fcsgen.gen_spec(rng, family=fcsgen.FAMILIES[i % 7])
            if spec.get('malformed'):
                continue
            spec['version'] = ['FCS3.1', 'FCS3.0', 'FCS3.1'][i % 3]
            spec['extra'] = list(spec.get('extra') or []) + [['$OP', 'Jos\xc3\xa9 M\xc3\xbcller'], ['$P1S', 'CD3 (\xc2\xb5m)'], ['NOTE', '\xe2\x82\xac5']][: 1 + i % 3]
            yield {'k': 'file', 'spec': spec}
        # FCS 3.x files whose TEXT carries stale DATA offsets (same extent, shifted by one byte) next to correct, non-zero HEADER offsets:
        # the HEADER wins (`dataOffsets_header_priority`), so the recorded events come back
        for i in range(self.budget(24, 240)):
            spec = fcsgen.gen_spec(rng, family=fcsgen.FAMILIES[i % 7])
            if not spec['events'] or spec.get('malformed'):
                continue
            spec.update(version=['FCS3.0', 'FCS3.1'][i % 2], placement='header', text_offsets_too=True, pad_after=max(2, spec.get('pad_after', 0)))
            spec.pop('offset_style', None)
            lay = fcswriter.build(spec)[1]['header']
            if not (lay['data_begin'] and lay['data_end']) or lay['data_end'] >= 10 ** 8:
                continue
            sh = 1 if i % 3 else -1
            spec['overrides'] = dict(spec.get('overrides') or {}, **{'$BEGINDATA': fcswriter.off(lay['data_begin'] + sh), '$ENDDATA': fcswriter.off(lay['data_end'] + sh)})
            yield {'k': 'file', 'stale_text_offsets': True, 'spec': spec}
        if self.tier == 'thorough':
            # all width vectors for D <= 3 (8 + 64 + 512) x endianness x end convention x placement
            for D in (1, 2, 3):
                for ws in itertools.product(fcsgen.WIDTHS, repeat=D):
                    for big in (True, False):
                        for ec in ('last', 'past'):
                            for pl in ('header', 'text'):
                                N = rng.randrange(1, 6)
                                ev = [list(c) for c in zip(*[fcsgen.gen_values(rng, w, N) for w in ws])]
                                yield {'k': 'file', 'spec': {
                                    'version': 'FCS3.0', 'delim': '/', 'datatype': 'I',
                                    'byteord': '4,3,2,1' if big else '1,2,3,4', 'widths': list(ws),
                                    'ranges': [fcsgen.gen_range(rng, w)[0] for w in ws], 'events': ev,
                                    'placement': pl, 'text_offsets_too': True, 'end_conv': ec,
                                    'pad_text': 0, 'pad_data': rng.choice([0, 3]), 'pad_after': 1 if ec == 'past' else 0,
                                    'order': 'TDA'}}

    def run_big(self, case):
        import numpy as np, os, FlowCal
        ws = case['widths']
        esz = sum(ws) // 8
        N = int(case['mib'] * (1 << 20)) // esz + 7
        r = np.random.RandomState(case['seed'])
        cols = [r.randint(0, 1 << min(w, 62), size=N, dtype=np.uint64) for w in ws]
        ranges = [1 << (w - (i % 2) * 3) for i, w in enumerate(ws)]
        raw = np.zeros((N, esz), dtype=np.uint8)
        o = 0
        for w, c in zip(ws, cols):
            nb = w // 8
            for b in range(nb):
                sh = 8 * (nb - 1 - b) if case['big_endian'] else 8 * b
                raw[:, o + b] = (c >> np.uint64(sh)) & np.uint64(0xff)
            o += nb
        spec = {'version': 'FCS3.0', 'delim': '/', 'datatype': 'I', 'byteord': '4,3,2,1' if case['big_endian'] else '1,2,3,4', 'widths': ws,
                'ranges': ranges, 'events': [], 'tot': N, 'raw_data': raw.tobytes().decode(fcswriter.ENC), 'placement': 'header', 'text_offsets_too': True,
                'end_conv': case['end_conv'], 'pad_text': 0, 'pad_data': 0, 'pad_after': case['pad_after'], 'order': 'TDA'}
        data, _ = fcswriter.build(spec)
        path = fcsgen.write_tmp(data, name='big_%d.fcs' % self.evaluations)
        try:
            try:
                d = FlowCal.io.FCSData(path)
                a = np.asarray(d.view(np.ndarray)).astype(np.uint64)
                want = np.stack([c & np.uint64(rg - 1) for c, rg in zip(cols, ranges)], axis=1)
                if a.shape != want.shape:
                    return {'big': 'shape %s, file has %s' % (a.shape, want.shape)}
                bad = np.argwhere(a != want)
                if len(bad):
                    i, j = bad[0]
                    return {'big': '%d of %d events differ; first: event %d parameter %d decoded as %d, file encodes %d' % (
                        len(set(bad[:, 0].tolist())), N, i, j, int(a[i, j]), int(want[i, j]))}
                return {'big': None, 'n': N}
            except Exception as e:
                return {'big': 'supported file refused: %s %s' % (type(e).__name__, str(e)[:100])}
        finally:
            os.unlink(path)

    def run_impl(self, case):
        if case['k'] == 'big':
            return self.run_big(case)
        data, layout = fcswriter.build(case['spec'])
        if case['k'] == 'reload':
            import numpy as np, warnings, os, FlowCal
            path = fcsgen.write_tmp(data, name='reload_%d.fcs' % self.evaluations)
            try:
                try:
                    a = FlowCal.io.FCSData(path)
                    if case['edit'] == 'rewrite':
                        # the file is overwritten in place after the load: the loaded sample is a snapshot, not a window onto the file
                        before = fcsgen.canon_array(a.view(np.ndarray))
                        b0, e0 = layout['segs']['D']
                        with open(path, 'r+b') as fh:
                            fh.seek(b0)
                            fh.write(bytes((x ^ 0x5a) for x in data[b0:e0 + 1]))
                        after = fcsgen.canon_array(a.view(np.ndarray))
                        with open(path, 'wb') as fh:
                            fh.write(data)
                        if before != after:
                            res = {'err': 'Snapshot', 'msg': 'the loaded events changed when the file was overwritten after loading'}
                            res['file'] = list(data)
                            return res
                    elif a.shape[0]:
                        if case['edit'] == 'col0':
                            a[:, 0] = 0
                        elif case['edit'] == 'add1':
                            a += 1
                        else:
                            a[...] = 0
                    b = FlowCal.io.FCSData(path)
                    res = fcsgen.canon_array(b.view(np.ndarray))
                    res['fcsdata_same'] = True
                    res['independent'] = not np.shares_memory(a, b)
                except Exception as e:
                    res = {'err': type(e).__name__, 'msg': str(e)[:100]}
            finally:
                os.unlink(path)
            res['file'] = list(data)
            return res
        res = fcsgen.load_bytes(data)
        if case.get('far'):
            self.bump('far-data-segment')
            h = layout['header']
            if max(h['data_begin'], h['data_end']) < 10000000:
                res = {'err': 'Harness', 'msg': 'far case does not reach byte 10,000,000'}
        else:
            res['file'] = list(data)
        return res

    def post(self):
        fcsgen.cleanup()

    def oracle(self, case, impl):
        if case['k'] == 'big':
            self.bump('big-file')
            return None if impl['big'] is None else '%s (widths %s, %.1f MiB of DATA)' % (impl['big'], case['widths'], case['mib'])
        spec = case['spec']
        if case.get('theorem_file'):
            # the concrete file on which Properties/C01f.lean instantiates `loadFile_of_keywords` is the one the independent
            # writer produces for this spec; the real loader's result on it is then checked like that of any other file
            import re
            src = ''.join(open(os.path.join(common.ROOT, 'lean', 'Properties', f)).read() for f in ('C01f.lean', 'C01g.lean'))
            m = re.search(r'def %s : List Nat := \[(.*?)\]' % case['theorem_file'], src, re.S)
            if not m or [int(x) for x in m.group(1).replace('\n', ' ').split(',')] != impl['file']:
                return 'the file of theorem %s (Properties/C01f.lean, C01g.lean) is not the file written for its spec' % case['theorem_file']
            self.bump('theorem-file')
        mal = spec.get('malformed')
        if mal:
            self.bump('malformed:' + mal)
            if 'err' not in impl:
                return 'unsupported layout (%s) was decoded instead of refused: shape %s' % (mal, impl.get('shape'))
            if impl['err'] != 'NotImplementedError':
                return 'unsupported layout (%s) refused with %s (%s) instead of NotImplementedError' % (mal, impl['err'], impl.get('msg'))
            return None
        self.bump('datatype:' + spec['datatype'])
        self.bump('placement:' + spec['placement'] + ('+stale-text-offsets' if case.get('stale_text_offsets') else ''))
        self.bump('end:' + spec['end_conv'])
        if 'err' in impl:
            return 'supported file refused: %s %s' % (impl['err'], impl.get('msg'))
        N, D = len(spec['events']), len(spec['widths'])
        if impl['shape'] != [N, D]:
            return 'shape %s, file has %d events x %d parameters' % (impl['shape'], N, D)
        exp = fcsgen.expected_matrix(spec)
        if impl['data'] != exp:
            for r, (a, b) in enumerate(zip(impl['data'], exp)):
                if a != b:
                    return 'row %d decoded as %s, file encodes %s (widths %s, byteord %s)' % (r, a, b, spec['widths'], spec['byteord'])
            return 'decoded matrix differs from the encoded one'
        if spec['datatype'] == 'I':
            if impl['kind'] != 'u' or impl['bits'] < max(spec['widths']):
                return 'integer data returned as kind %s / %d bits' % (impl['kind'], impl['bits'])
        else:
            if impl['kind'] != 'f' or impl['bits'] != (32 if spec['datatype'] == 'F' else 64):
                return 'float data returned as kind %s / %d bits' % (impl['kind'], impl['bits'])
        if case['k'] == 'reload' and impl.get('independent') is not True:
            return 'two loads of the same file share their event buffer'
        if impl.get('fcsdata_same') is not True:
            return 'FCSData(path) differs from FCSFile(path).data: %s' % impl.get('fcsdata_err', 'values')
        return None

    def model_request(self, case, impl):
        if case['k'] in ('reload', 'big') or case.get('far'):
            return None
        s = case['spec']
        reqs = [{'op': 'load', 'file': impl['file']}]
        if not s.get('malformed'):
            # the encoder of the theorems (Lean encodeEvents) must be the writer whose files are tested
            w = s['widths']
            reqs.append({'op': 'encode_events', 'be': s['byteord'] in ('4,3,2,1', '2,1'), 'widths': w, 'events': s['events']})
        return reqs

    def compare(self, case, impl, model):
        msg = compare_load(self, impl, model[0])
        if msg:
            return msg
        if len(model) > 1:
            s = case['spec']
            want = list(fcswriter.encode_events(s['events'], s['datatype'], s['widths'], s['byteord']))
            if model[1].get('bytes') != want:
                return 'Lean encodeEvents and the Python writer disagree on the DATA bytes'
            data = bytes(impl['file'])
            if bytes(want) not in data:
                return 'DATA bytes not found in the written file'
        return None

    def nontrivial_key(self, case, impl):
        if case['k'] == 'big':
            return ('big', tuple(case['widths']), case['mib'], case['big_endian'])
        s = case['spec']
        if not s['events'] and not s.get('malformed'):
            return None
        rk = tuple('p' if (int(r) & (int(r) - 1)) == 0 else 'n' for r in s['ranges']) if s['datatype'] == 'I' else ()
        return (s['datatype'], tuple(s['widths']), s['byteord'], s['placement'], s['end_conv'], rk, s.get('malformed'))

    def shrink_candidates(self, case):
        if case['k'] == 'big':
            return
        s = case['spec']
        ev = s['events']
        for i in range(len(ev)):
            yield dict(case, spec=dict(s, events=ev[:i] + ev[i + 1:]))
        for k in ('pad_text', 'pad_data', 'pad_after'):
            if s.get(k):
                yield dict(case, spec=dict(s, **{k: 0}))


def compare_load(chk, impl, model, class_exact=('NotImplementedError',)):
    if 'driver_error' in model:
        return 'driver error: %s' % model['driver_error']
    if model.get('err') == 'Other':
        chk.exclude('outside-modelled-domain (range literal not an integer >= 1)')
        return None
    if 'err' in model or 'err' in impl:
        if ('err' in model) != ('err' in impl):
            return 'impl %s vs model %s' % (impl.get('err', 'ok shape %s' % impl.get('shape')), model.get('err', 'ok'))
        if (model['err'] in class_exact or impl['err'] in class_exact) and model['err'] != impl['err']:
            return 'error class: impl %s vs model %s' % (impl['err'], model['err'])
        return None
    if impl['data'] != model['data']:
        return 'data differ: impl %s... vs model %s...' % (str(impl['data'])[:120], str(model['data'])[:120])
    if impl['shape'][1] != model['npar'] or (impl['kind'] == 'f') != model['isFloat'] or impl['bits'] != model['width']:
        return 'type differs: impl %s%d x%d vs model float=%s width=%d npar=%d' % (
            impl['kind'], impl['bits'], impl['shape'][1], model['isFloat'], model['width'], model['npar'])
    if impl['text'] != sorted(model['text']):
        return 'text differs: impl %s vs model %s' % (impl['text'][:3], sorted(model['text'])[:3])
    if impl['analysis'] != sorted(model['analysis']):
        return 'analysis differs'
    iw = sorted(w for w in impl['warnings'])
    # the library's warning for an ill-formed keyword segment does not say which segment it was: the model's 'stext' and 'text' are one class
    mw = sorted(set('text' if w == 'stext' else w for w in model['warnings']))
    if iw != mw:
        return 'warnings differ: impl %s vs model %s' % (iw, mw)
    return None
