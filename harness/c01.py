"""C01 — Loading an FCS file returns exactly the events recorded in it."""
import itertools

import common
import fcsgen
import fcswriter


class Prop(common.PropertyCheck):
    pid = 'C01'
    rule = ("FCS files written by the independent writer over version x datatype x byte-order spelling x per-parameter widths "
            "(uniform and mixed forced) x range kind x offset placement x end convention x padding, plus a malformed stream "
            "(histogram mode, ASCII, non-byte-aligned, other byte orders, >64 bit). Non-trivial = distinct (datatype, widths, endianness, "
            "placement, end convention, range kinds) tuples with at least one event.")
    batch_size = 200
    assumptions = ["NumPy dtype reinterpretation ('>uK', '<fK') equals big/little-endian byte composition (ofBytes); IEEE bit patterns are compared, not float values",
                   "ceil(log2(float($PnR))) equals exact clog2 for the generated ranges (non-powers of two kept below 2^52; see DESIGN section 7 item 12)"]

    def gen_cases(self):
        rng = self.rng
        n = self.budget(1500, 12000)
        for i in range(n):
            yield {'k': 'file', 'spec': fcsgen.gen_spec(rng, family=fcsgen.FAMILIES[i % 6] if i % 2 else None)}
        # histories: load, edit the loaded sample in place, load the same path again
        for i in range(self.budget(60, 600)):
            yield {'k': 'reload', 'spec': fcsgen.gen_spec(rng, datatype=rng.choice(['I', 'F'])), 'edit': rng.choice(['col0', 'add1', 'zero'])}
        for i in range(self.budget(80, 800)):
            yield {'k': 'file', 'spec': fcsgen.gen_spec(rng, allow_malformed=True)}
        if self.tier == 'thorough':
            # all width vectors for D <= 3 (8 + 64 + 512) x endianness x end convention x placement
            for D in (1, 2, 3):
                for ws in itertools.product(fcsgen.WIDTHS, repeat=D):
                    for big in (True, False):
                        for ec in ('last', 'past'):
                            for pl in ('header', 'text'):
                                N = rng.randrange(1, 6)
                                ev = [list(c) for c in zip(*[fcsgen.gen_values(rng, w, N) for w in ws])]
                                yield {'k': 'file', 'spec': {
                                    'version': 'FCS3.0', 'delim': '/', 'datatype': 'I',
                                    'byteord': '4,3,2,1' if big else '1,2,3,4', 'widths': list(ws),
                                    'ranges': [fcsgen.gen_range(rng, w)[0] for w in ws], 'events': ev,
                                    'placement': pl, 'text_offsets_too': True, 'end_conv': ec,
                                    'pad_text': 0, 'pad_data': rng.choice([0, 3]), 'pad_after': 1 if ec == 'past' else 0,
                                    'order': 'TDA'}}

    def run_impl(self, case):
        data, layout = fcswriter.build(case['spec'])
        if case['k'] == 'reload':
            import numpy as np, warnings, os, FlowCal
            path = fcsgen.write_tmp(data, name='reload_%d.fcs' % self.evaluations)
            try:
                try:
                    a = FlowCal.io.FCSData(path)
                    if a.shape[0]:
                        if case['edit'] == 'col0':
                            a[:, 0] = 0
                        elif case['edit'] == 'add1':
                            a += 1
                        else:
                            a[...] = 0
                    b = FlowCal.io.FCSData(path)
                    res = fcsgen.canon_array(b.view(np.ndarray))
                    res['fcsdata_same'] = True
                    res['independent'] = not np.shares_memory(a, b)
                except Exception as e:
                    res = {'err': type(e).__name__, 'msg': str(e)[:100]}
            finally:
                os.unlink(path)
            res['file'] = list(data)
            return res
        res = fcsgen.load_bytes(data)
        res['file'] = list(data)
        return res

    def post(self):
        fcsgen.cleanup()

    def oracle(self, case, impl):
        spec = case['spec']
        mal = spec.get('malformed')
        if mal:
            self.bump('malformed:' + mal)
            if 'err' not in impl:
                return 'unsupported layout (%s) was decoded instead of refused: shape %s' % (mal, impl.get('shape'))
            if impl['err'] != 'NotImplementedError':
                return 'unsupported layout (%s) refused with %s (%s) instead of NotImplementedError' % (mal, impl['err'], impl.get('msg'))
            return None
        self.bump('datatype:' + spec['datatype'])
        self.bump('placement:' + spec['placement'])
        self.bump('end:' + spec['end_conv'])
        if 'err' in impl:
            return 'supported file refused: %s %s' % (impl['err'], impl.get('msg'))
        N, D = len(spec['events']), len(spec['widths'])
        if impl['shape'] != [N, D]:
            return 'shape %s, file has %d events x %d parameters' % (impl['shape'], N, D)
        exp = fcsgen.expected_matrix(spec)
        if impl['data'] != exp:
            for r, (a, b) in enumerate(zip(impl['data'], exp)):
                if a != b:
                    return 'row %d decoded as %s, file encodes %s (widths %s, byteord %s)' % (r, a, b, spec['widths'], spec['byteord'])
            return 'decoded matrix differs from the encoded one'
        if spec['datatype'] == 'I':
            if impl['kind'] != 'u' or impl['bits'] < max(spec['widths']):
                return 'integer data returned as kind %s / %d bits' % (impl['kind'], impl['bits'])
        else:
            if impl['kind'] != 'f' or impl['bits'] != (32 if spec['datatype'] == 'F' else 64):
                return 'float data returned as kind %s / %d bits' % (impl['kind'], impl['bits'])
        if case['k'] == 'reload' and impl.get('independent') is not True:
            return 'two loads of the same file share their event buffer'
        if impl.get('fcsdata_same') is not True:
            return 'FCSData(path) differs from FCSFile(path).data: %s' % impl.get('fcsdata_err', 'values')
        return None

    def model_request(self, case, impl):
        if case['k'] == 'reload':
            return None
        s = case['spec']
        reqs = [{'op': 'load', 'file': impl['file']}]
        if not s.get('malformed'):
            # the encoder of the theorems (Lean encodeEvents) must be the writer whose files are tested
            w = s['widths']
            reqs.append({'op': 'encode_events', 'be': s['byteord'] in ('4,3,2,1', '2,1'), 'widths': w, 'events': s['events']})
        return reqs

    def compare(self, case, impl, model):
        msg = compare_load(self, impl, model[0])
        if msg:
            return msg
        if len(model) > 1:
            s = case['spec']
            want = list(fcswriter.encode_events(s['events'], s['datatype'], s['widths'], s['byteord']))
            if model[1].get('bytes') != want:
                return 'Lean encodeEvents and the Python writer disagree on the DATA bytes'
            data = bytes(impl['file'])
            if bytes(want) not in data:
                return 'DATA bytes not found in the written file'
        return None

    def nontrivial_key(self, case, impl):
        s = case['spec']
        if not s['events'] and not s.get('malformed'):
            return None
        rk = tuple('p' if (int(r) & (int(r) - 1)) == 0 else 'n' for r in s['ranges']) if s['datatype'] == 'I' else ()
        return (s['datatype'], tuple(s['widths']), s['byteord'], s['placement'], s['end_conv'], rk, s.get('malformed'))

    def shrink_candidates(self, case):
        s = case['spec']
        ev = s['events']
        for i in range(len(ev)):
            yield dict(case, spec=dict(s, events=ev[:i] + ev[i + 1:]))
        for k in ('pad_text', 'pad_data', 'pad_after'):
            if s.get(k):
                yield dict(case, spec=dict(s, **{k: 0}))


def compare_load(chk, impl, model, class_exact=('NotImplementedError',)):
    if 'driver_error' in model:
        return 'driver error: %s' % model['driver_error']
    if model.get('err') == 'Other':
        chk.exclude('outside-modelled-domain (range literal not an integer >= 1)')
        return None
    if 'err' in model or 'err' in impl:
        if ('err' in model) != ('err' in impl):
            return 'impl %s vs model %s' % (impl.get('err', 'ok shape %s' % impl.get('shape')), model.get('err', 'ok'))
        if (model['err'] in class_exact or impl['err'] in class_exact) and model['err'] != impl['err']:
            return 'error class: impl %s vs model %s' % (impl['err'], model['err'])
        return None
    if impl['data'] != model['data']:
        return 'data differ: impl %s... vs model %s...' % (str(impl['data'])[:120], str(model['data'])[:120])
    if impl['shape'][1] != model['npar'] or (impl['kind'] == 'f') != model['isFloat'] or impl['bits'] != model['width']:
        return 'type differs: impl %s%d x%d vs model float=%s width=%d npar=%d' % (
            impl['kind'], impl['bits'], impl['shape'][1], model['isFloat'], model['width'], model['npar'])
    if impl['text'] != sorted(model['text']):
        return 'text differs: impl %s vs model %s' % (impl['text'][:3], sorted(model['text'])[:3])
    if impl['analysis'] != sorted(model['analysis']):
        return 'analysis differs'
    iw = sorted(w for w in impl['warnings'])
    mw = sorted(set(model['warnings']))
    if iw != mw:
        return 'warnings differ: impl %s vs model %s' % (iw, mw)
    return None
